(* C17 - lemmas and proofs. *)
From ASV Require Import Base Loc.
From ASV.C03 Require Model.
From ASV.C05 Require Model Proofs.
From ASV.C13 Require Model Proofs.
From ASV.C17 Require Import Model.
From Coq Require Import Sorting.Sorted Sorting.Permutation ZifyBool.

(* ================================================================== generic: the stable insertion sort *)
Lemma insert_by_perm {A} (lt : A -> A -> bool) x : forall l, Permutation (insert_by lt x l) (x :: l).
Proof.
  induction l as [|y ys IH]; cbn [insert_by]; [apply Permutation_refl|].
  destruct (lt x y); [apply Permutation_refl|].
  apply Permutation_trans with (y :: x :: ys); [apply perm_skip; exact IH|apply perm_swap].
Qed.

Lemma fold_insert_perm {A} (lt : A -> A -> bool) : forall l acc,
  Permutation (fold_left (fun acc x => insert_by lt x acc) l acc) (l ++ acc).
Proof.
  induction l as [|x xs IH]; intros acc; cbn [fold_left app]; [apply Permutation_refl|].
  apply Permutation_trans with (xs ++ insert_by lt x acc); [apply IH|].
  apply Permutation_trans with (xs ++ x :: acc).
  - apply Permutation_app_head. apply insert_by_perm.
  - apply Permutation_sym. apply Permutation_middle.
Qed.

Lemma sort_by_perm {A} (lt : A -> A -> bool) l : Permutation (sort_by lt l) l.
Proof. unfold sort_by. rewrite <- (app_nil_r l) at 2. apply fold_insert_perm. Qed.

(* weakly sorted: no later element is smaller than an earlier one *)
Definition wsorted {A} (lt : A -> A -> bool) (l : list A) : Prop :=
  StronglySorted (fun a b => lt b a = false) l.

Section Order.
Context {A : Type}.
Variable lt : A -> A -> bool.
Hypothesis Hirr : forall a, lt a a = false.
Hypothesis Htrans : forall a b c, lt a b = true -> lt b c = true -> lt a c = true.

Lemma lt_asym a b : lt a b = true -> lt b a = false.
Proof.
  intros H. destruct (lt b a) eqn:E; [|reflexivity].
  pose proof (Htrans _ _ _ H E) as X. rewrite Hirr in X. discriminate.
Qed.

Lemma insert_by_wsorted x : forall l, wsorted lt l -> wsorted lt (insert_by lt x l).
Proof.
  induction l as [|y ys IH]; intros Hs; cbn [insert_by].
  - constructor; [constructor|constructor].
  - inversion Hs as [|? ? Hs' Hall]; subst.
    destruct (lt x y) eqn:E.
    + constructor; [exact Hs|]. constructor; [apply lt_asym; exact E|].
      rewrite Forall_forall in *. intros z Hz.
      destruct (lt z x) eqn:Ezx; [|reflexivity].
      pose proof (Htrans _ _ _ Ezx E) as X. rewrite (Hall z Hz) in X. discriminate.
    + constructor; [apply IH; exact Hs'|].
      rewrite Forall_forall in *. intros z Hz.
      apply (Permutation_in _ (insert_by_perm lt x ys)) in Hz. destruct Hz as [Hz|Hz].
      * subst z. exact E.
      * apply Hall. exact Hz.
Qed.

Lemma fold_insert_wsorted : forall l acc, wsorted lt acc ->
  wsorted lt (fold_left (fun acc x => insert_by lt x acc) l acc).
Proof.
  induction l as [|x xs IH]; intros acc Hs; cbn [fold_left]; [exact Hs|].
  apply IH. apply insert_by_wsorted. exact Hs.
Qed.

Lemma sort_by_wsorted l : wsorted lt (sort_by lt l).
Proof. unfold sort_by. apply fold_insert_wsorted. constructor. Qed.

(* two weakly sorted arrangements of the same elements coincide when no two different elements tie *)
Lemma wsorted_unique : forall l1 l2,
  wsorted lt l1 -> wsorted lt l2 -> Permutation l1 l2 ->
  (forall a b, In a l1 -> In b l1 -> lt a b = false -> lt b a = false -> a = b) ->
  l1 = l2.
Proof.
  induction l1 as [|a t1 IH]; intros l2 H1 H2 Hp Htot.
  - apply Permutation_nil in Hp. symmetry. exact Hp.
  - destruct l2 as [|b t2]; [apply Permutation_sym in Hp; apply Permutation_nil in Hp; discriminate|].
    inversion H1 as [|? ? H1' Ha]; subst. inversion H2 as [|? ? H2' Hb]; subst.
    rewrite Forall_forall in Ha, Hb.
    assert (Hab : a = b).
    { assert (Ia : In a (b :: t2)) by (apply (Permutation_in _ Hp); left; reflexivity).
      assert (Ib : In b (a :: t1)) by (apply (Permutation_in _ (Permutation_sym Hp)); left; reflexivity).
      destruct Ia as [E|Ia]; [symmetry; exact E|].
      destruct Ib as [E|Ib]; [exact E|].
      apply Htot; [left; reflexivity|right; exact Ib|apply Hb; exact Ia|apply Ha; exact Ib]. }
    subst b. f_equal. apply IH; [exact H1'|exact H2'|apply Permutation_cons_inv with a; exact Hp|].
    intros x y Hx Hy. apply Htot; right; assumption.
Qed.

(* the sort of a permuted list is the same list, provided no two different elements tie *)
Lemma sort_by_perm_unique l l' :
  Permutation l l' ->
  (forall a b, In a l -> In b l -> lt a b = false -> lt b a = false -> a = b) ->
  sort_by lt l = sort_by lt l'.
Proof.
  intros Hp Htot. apply wsorted_unique; [apply sort_by_wsorted|apply sort_by_wsorted| |].
  - apply Permutation_trans with l; [apply sort_by_perm|].
    apply Permutation_trans with l'; [exact Hp|apply Permutation_sym; apply sort_by_perm].
  - intros a b Ia Ib. apply Htot; apply (Permutation_in _ (sort_by_perm lt l)); assumption.
Qed.
End Order.

(* two comparisons that agree on the elements give the same sort *)
Lemma insert_by_ext_in {A} (lt lt' : A -> A -> bool) x : forall l,
  (forall y, In y l -> lt x y = lt' x y) -> insert_by lt x l = insert_by lt' x l.
Proof.
  induction l as [|y ys IH]; intros H; cbn [insert_by]; [reflexivity|].
  rewrite <- (H y (or_introl eq_refl)). destruct (lt x y); [reflexivity|].
  f_equal. apply IH. intros z Hz. apply H. right. exact Hz.
Qed.

Lemma fold_insert_ext_in {A} (lt lt' : A -> A -> bool) : forall l acc,
  (forall a b, In a (l ++ acc) -> In b (l ++ acc) -> lt a b = lt' a b) ->
  fold_left (fun acc x => insert_by lt x acc) l acc = fold_left (fun acc x => insert_by lt' x acc) l acc.
Proof.
  induction l as [|x xs IH]; intros acc H; cbn [fold_left]; [reflexivity|].
  rewrite (insert_by_ext_in lt lt' x acc).
  - apply IH. intros a b Ia Ib. apply H.
    + cbn [app]. apply in_app_or in Ia. destruct Ia as [Ia|Ia]; [right; apply in_or_app; left; exact Ia|].
      apply (Permutation_in _ (insert_by_perm lt' x acc)) in Ia. destruct Ia as [Ia|Ia]; [left; exact Ia|right; apply in_or_app; right; exact Ia].
    + cbn [app]. apply in_app_or in Ib. destruct Ib as [Ib|Ib]; [right; apply in_or_app; left; exact Ib|].
      apply (Permutation_in _ (insert_by_perm lt' x acc)) in Ib. destruct Ib as [Ib|Ib]; [left; exact Ib|right; apply in_or_app; right; exact Ib].
  - intros y Hy. apply H; [left; reflexivity|right; apply in_or_app; right; exact Hy].
Qed.

Lemma sort_by_ext_in {A} (lt lt' : A -> A -> bool) l :
  (forall a b, In a l -> In b l -> lt a b = lt' a b) -> sort_by lt l = sort_by lt' l.
Proof.
  intros H. unfold sort_by. apply fold_insert_ext_in. rewrite app_nil_r. exact H.
Qed.

(* sorting commutes with a projection that carries the comparison *)
Lemma insert_by_map {A B} (f : A -> B) (ltA : A -> A -> bool) (ltB : B -> B -> bool)
  (H : forall a b, ltA a b = ltB (f a) (f b)) x :
  forall l, map f (insert_by ltA x l) = insert_by ltB (f x) (map f l).
Proof.
  induction l as [|y ys IH]; cbn [insert_by map]; [reflexivity|].
  rewrite <- H. destruct (ltA x y); cbn [map]; [reflexivity|]. f_equal. exact IH.
Qed.

Lemma sort_by_map {A B} (f : A -> B) (ltA : A -> A -> bool) (ltB : B -> B -> bool)
  (H : forall a b, ltA a b = ltB (f a) (f b)) l :
  map f (sort_by ltA l) = sort_by ltB (map f l).
Proof.
  unfold sort_by. change (@nil B) with (map f (@nil A)). generalize (@nil A).
  induction l as [|x xs IH]; intros acc; cbn [fold_left map]; [reflexivity|].
  rewrite IH. rewrite (insert_by_map f ltA ltB H). reflexivity.
Qed.

(* stability: a second sort of a list already sorted by lt1 is the sort by "lt2, ties by lt1" *)
Definition lex_lt {A} (lt2 lt1 : A -> A -> bool) (a b : A) : bool :=
  lt2 a b || (negb (lt2 b a) && lt1 a b).

Lemma fold_insert_stable {A} (lt2 lt1 : A -> A -> bool) : forall l acc,
  StronglySorted (fun y x => lt1 x y = false) l ->
  (forall x y, In x l -> In y acc -> lt1 x y = false) ->
  fold_left (fun acc x => insert_by lt2 x acc) l acc =
  fold_left (fun acc x => insert_by (lex_lt lt2 lt1) x acc) l acc.
Proof.
  induction l as [|x xs IH]; intros acc Hs Hacc; cbn [fold_left]; [reflexivity|].
  inversion Hs as [|? ? Hs' Hall]; subst. rewrite Forall_forall in Hall.
  assert (E : insert_by lt2 x acc = insert_by (lex_lt lt2 lt1) x acc).
  { apply insert_by_ext_in. intros y Hy. unfold lex_lt.
    rewrite (Hacc x y (or_introl eq_refl) Hy). rewrite andb_false_r, orb_false_r. reflexivity. }
  rewrite E. apply IH; [exact Hs'|].
  intros z y Hz Hy. apply (Permutation_in _ (insert_by_perm _ x acc)) in Hy. destruct Hy as [Hy|Hy].
  - subst y. apply Hall. exact Hz.
  - apply Hacc; [right; exact Hz|exact Hy].
Qed.

Lemma sort_by_stable {A} (lt2 lt1 : A -> A -> bool) l :
  wsorted lt1 l -> sort_by lt2 l = sort_by (lex_lt lt2 lt1) l.
Proof.
  intros Hs. unfold sort_by. apply fold_insert_stable; [exact Hs|]. intros x y _ [].
Qed.

(* ================================================================== strings *)
Lemma str_lt_irrefl : forall a, str_lt a a = false.
Proof. induction a as [|x xs IH]; cbn [str_lt]; [reflexivity|]. rewrite IH. lia. Qed.

Lemma str_lt_trans : forall a b c, str_lt a b = true -> str_lt b c = true -> str_lt a c = true.
Proof.
  induction a as [|x xs IH]; intros b c Hab Hbc.
  - destruct b as [|y ys]; [cbn in Hab; discriminate|]. destruct c as [|z zs]; [cbn in Hbc; discriminate|reflexivity].
  - destruct b as [|y ys]; [cbn in Hab; discriminate|]. destruct c as [|z zs]; [cbn in Hbc; discriminate|].
    cbn [str_lt] in *.
    destruct (str_lt xs ys) eqn:E1; destruct (str_lt ys zs) eqn:E2; destruct (str_lt xs zs) eqn:E3; try lia.
    rewrite (IH ys zs E1 E2) in E3. discriminate.
Qed.

Lemma str_lt_total : forall a b, str_lt a b = false -> str_lt b a = false -> a = b.
Proof.
  induction a as [|x xs IH]; intros b Hab Hba.
  - destruct b as [|y ys]; [reflexivity|cbn in Hab; discriminate].
  - destruct b as [|y ys]; [cbn in Hba; discriminate|].
    cbn [str_lt] in *.
    destruct (str_lt xs ys) eqn:E1; destruct (str_lt ys xs) eqn:E2.
    + assert (x = y) by lia. lia.
    + lia.
    + lia.
    + assert (x = y) by lia. subst y. f_equal. apply IH; [exact E1|exact E2].
Qed.

Lemma str_eqb_eq : forall a b, str_eqb a b = true <-> a = b.
Proof.
  unfold str_eqb. induction a as [|x xs IH]; intros b; destruct b as [|y ys]; cbn [list_eqb]; split; intros H; try reflexivity; try discriminate.
  - apply andb_true_iff in H. destruct H as [H1 H2]. apply Z.eqb_eq in H1. apply IH in H2. subst. reflexivity.
  - injection H as H1 H2. subst. apply andb_true_iff. split; [apply Z.eqb_refl|apply IH; reflexivity].
Qed.

Lemma sorted_list_perm_proof : forall o o', Permutation o o' -> sorted_list o = sorted_list o'.
Proof.
  intros o o' Hp. unfold sorted_list.
  apply (sort_by_perm_unique str_lt str_lt_irrefl str_lt_trans); [exact Hp|].
  intros a b _ _. apply str_lt_total.
Qed.

Lemma sorted_set_ext_proof : forall o o', (forall x, In x o <-> In x o') -> sorted_set o = sorted_set o'.
Proof.
  intros o o' H. unfold sorted_set.
  apply (C13.Proofs.sort_dedupe_ext str_eqb str_lt str_eqb_eq str_lt_irrefl str_lt_trans str_lt_total). exact H.
Qed.

Lemma sorted_set_spec_proof : forall o,
  (forall x, In x (sorted_set o) <-> In x o) /\ NoDup (sorted_set o) /\
  StronglySorted (fun a b => str_lt a b = true) (sorted_set o).
Proof.
  intros o. unfold sorted_set. split; [|split].
  - intros x. rewrite C13.Proofs.sort_by_In. apply C13.Proofs.dedupe_In. exact str_eqb_eq.
  - apply (Permutation_NoDup (Permutation_sym (sort_by_perm str_lt _))).
    apply C13.Proofs.dedupe_NoDup. exact str_eqb_eq.
  - unfold sort_by. apply (C13.Proofs.fold_insert_ssorted str_lt str_lt_trans str_lt_total).
    + apply C13.Proofs.dedupe_NoDup. exact str_eqb_eq.
    + intros x _ [].
    + constructor.
Qed.

Lemma list_of_set_refuted_proof : exists o o',
  (forall x, In x o <-> In x o') /\ list_of_set o <> list_of_set o' /\ sorted_set o = sorted_set o'.
Proof.
  exists [[1]; [2]], [[2]; [1]]. split; [|split].
  - intros x. cbn. tauto.
  - vm_compute. discriminate.
  - vm_compute. reflexivity.
Qed.

(* ================================================================== stage 1/2: refinement *)
Lemma refine_o_perm_proof : forall nb t o o', Permutation o o' -> refine_o nb t o = refine_o nb t o'.
Proof. intros. unfold refine_o. apply C13.Proofs.refine_table_perm. assumption. Qed.

Lemma refine_gene_set_proof : forall nb L reg o o', (forall x, In x o <-> In x o') ->
  C13.Model.refine_gene nb L reg o = C13.Model.refine_gene nb L reg o'.
Proof. intros. apply C13.Proofs.refine_gene_ext. assumption. Qed.

(* the repaired code is refine_sorted after the total-key sort *)
Lemma refine_gene_is_refine_sorted : forall nb L reg o,
  C13.Model.refine_gene nb L reg o = refine_sorted nb L reg (C13.Model.canonical o).
Proof. intros. reflexivity. Qed.

Definition w_h1 := C13.Model.mkHit 0 0 10 1 20.
Definition w_h2 := C13.Model.mkHit 1 0 10 1 20.
Lemma refine_startkey_refuted_proof : exists nb L reg o o',
  Permutation o o' /\ NoDup o /\
  refine_gene_startkey nb L reg o <> refine_gene_startkey nb L reg o' /\
  C13.Model.refine_gene nb L reg o = C13.Model.refine_gene nb L reg o'.
Proof.
  exists true, (fun _ => 10), (fun _ => false), [w_h1; w_h2], [w_h2; w_h1].
  split; [apply perm_swap|]. split.
  - constructor; [intros [H|[]]; discriminate|constructor; [intros []|constructor]].
  - split; [vm_compute; discriminate|vm_compute; reflexivity].
Qed.

Lemma filter_perm {A} (f : A -> bool) : forall l l', Permutation l l' -> Permutation (filter f l) (filter f l').
Proof.
  intros l l' H. induction H as [|a l l' H IH|a b l|l l' l'' H1 IH1 H2 IH2]; cbn [filter].
  - apply Permutation_refl.
  - destruct (f a); [apply perm_skip|]; exact IH.
  - destruct (f a), (f b); try apply Permutation_refl. apply perm_swap.
  - exact (Permutation_trans IH1 IH2).
Qed.

(* ================================================================== stage 0: filter_results, memory layout *)
Module M13 := C13.Model.
Lemma rr_fmem : forall rho x S, M13.fmem (rerank rho x) (map (rerank rho) S) = M13.fmem x S.
Proof. intros rho x S. unfold M13.fmem. induction S as [|y S IH]; cbn [map existsb]; [reflexivity|]. rewrite IH. reflexivity. Qed.

Lemma filter_map_comm {A B} (f : B -> bool) (g : A -> B) : forall l, filter f (map g l) = map g (filter (fun x => f (g x)) l).
Proof. induction l as [|x r IH]; cbn [map filter]; [reflexivity|]. destruct (f (g x)); cbn [map]; rewrite IH; reflexivity. Qed.

Lemma existsb_map' {A B} (f : B -> bool) (g : A -> B) : forall l, existsb f (map g l) = existsb (fun x => f (g x)) l.
Proof. induction l as [|x r IH]; cbn [map existsb]; [reflexivity|]. rewrite IH. reflexivity. Qed.
Lemma forallb_map' {A B} (f : B -> bool) (g : A -> B) : forall l, forallb f (map g l) = forallb (fun x => f (g x)) l.
Proof. induction l as [|x r IH]; cbn [map forallb]; [reflexivity|]. rewrite IH. reflexivity. Qed.

Lemma rr_fgrow : forall rho cds S, M13.fgrow (map (rerank rho) cds) (map (rerank rho) S) = map (rerank rho) (M13.fgrow cds S).
Proof.
  intros rho cds S. unfold M13.fgrow. rewrite map_app. f_equal. rewrite filter_map_comm. f_equal. apply filter_ext.
  intros x. rewrite rr_fmem. f_equal. rewrite existsb_map'. reflexivity.
Qed.

Lemma rr_fclosure : forall rho n cds S,
  M13.fclosure n (map (rerank rho) cds) (map (rerank rho) S) = map (rerank rho) (M13.fclosure n cds S).
Proof. intros rho. induction n as [|n IH]; intros cds S; cbn [M13.fclosure]; [reflexivity|]. rewrite rr_fgrow. apply IH. Qed.

Lemma rr_comp_best : forall rho cds h, M13.comp_best (map (rerank rho) cds) (rerank rho h) = M13.comp_best cds h.
Proof.
  intros rho cds h. unfold M13.comp_best, M13.fcomp. rewrite map_length.
  change [rerank rho h] with (map (rerank rho) [h]). rewrite rr_fclosure. rewrite forallb_map'. reflexivity.
Qed.

(* ---- every function of the filter_results model but rank_order ignores the rank: it commutes with rerank *)
Module P13 := C13.Proofs.
Lemma rr_fadd : forall rho x S, M13.fadd (rerank rho x) (map (rerank rho) S) = map (rerank rho) (M13.fadd x S).
Proof. intros rho x S. unfold M13.fadd. rewrite rr_fmem. destruct (M13.fmem x S); [reflexivity|]. rewrite map_app. reflexivity. Qed.

Lemma rr_touches : forall rho a b g, M13.touches (rerank rho a) (rerank rho b) (map (rerank rho) g) = M13.touches a b g.
Proof. intros. unfold M13.touches. rewrite !rr_fmem. reflexivity. Qed.

Lemma rr_fupdate : forall rho o g, M13.fupdate (map (rerank rho) g) (map (rerank rho) o) = map (rerank rho) (M13.fupdate g o).
Proof.
  intros rho. unfold M13.fupdate. induction o as [|x o IH]; intros g; cbn [map fold_left]; [reflexivity|].
  rewrite rr_fadd. apply IH.
Qed.

Lemma rr_fold_fupdate : forall rho L acc,
  fold_left M13.fupdate (map (map (rerank rho)) L) (map (rerank rho) acc) = map (rerank rho) (fold_left M13.fupdate L acc).
Proof. intros rho. induction L as [|g L IH]; intros acc; cbn [map fold_left]; [reflexivity|]. rewrite rr_fupdate. apply IH. Qed.

Lemma rr_unite : forall rho a b gs,
  M13.unite_groups (rerank rho a) (rerank rho b) (map (map (rerank rho)) gs)
  = option_map (map (map (rerank rho))) (M13.unite_groups a b gs).
Proof.
  intros rho a b. induction gs as [|g gs IH]; cbn [map M13.unite_groups]; [reflexivity|].
  rewrite rr_touches. destruct (M13.touches a b g).
  - cbn [option_map map]. f_equal. f_equal.
    + rewrite filter_map_comm.
      rewrite (filter_ext (fun x => M13.touches (rerank rho a) (rerank rho b) (map (rerank rho) x)) (M13.touches a b))
        by (intros x; apply rr_touches).
      rewrite !rr_fadd. apply rr_fold_fupdate.
    + rewrite filter_map_comm. f_equal. apply filter_ext. intros x. rewrite rr_touches. reflexivity.
  - rewrite IH. destruct (M13.unite_groups a b gs); reflexivity.
Qed.

Lemma rr_pstep : forall rho h gs o,
  P13.fr_pstep (rerank rho h) (map (map (rerank rho)) gs) (rerank rho o) = map (map (rerank rho)) (P13.fr_pstep h gs o).
Proof.
  intros rho h gs o. unfold P13.fr_pstep. change (M13.fov (rerank rho h) (rerank rho o)) with (M13.fov h o).
  destruct (M13.fov h o); [|reflexivity]. rewrite rr_unite. destruct (M13.unite_groups h o gs); cbn [option_map]; [reflexivity|].
  rewrite map_app. reflexivity.
Qed.

Lemma rr_groups : forall rho cds, P13.fr_groups (map (rerank rho) cds) = map (map (rerank rho)) (P13.fr_groups cds).
Proof.
  intros rho cds. unfold P13.fr_groups.
  assert (Inner : forall h os gs, fold_left (P13.fr_pstep (rerank rho h)) (map (rerank rho) os) (map (map (rerank rho)) gs)
                                  = map (map (rerank rho)) (fold_left (P13.fr_pstep h) os gs)).
  { intros h. induction os as [|o os IH]; intros gs; cbn [map fold_left]; [reflexivity|]. rewrite rr_pstep. apply IH. }
  assert (Outer : forall hs gs,
            fold_left (fun gs h => fold_left (P13.fr_pstep h) (map (rerank rho) cds) gs) (map (rerank rho) hs) (map (map (rerank rho)) gs)
            = map (map (rerank rho)) (fold_left (fun gs h => fold_left (P13.fr_pstep h) cds gs) hs gs)).
  { induction hs as [|h hs IH]; intros gs; cbn [map fold_left]; [reflexivity|]. rewrite Inner. apply IH. }
  exact (Outer cds []).
Qed.

Lemma rr_hit_order : forall rho mine g,
  M13.hit_order (map (rerank rho) mine) (map (rerank rho) g) = map (rerank rho) (M13.hit_order mine g).
Proof. intros. unfold M13.hit_order. rewrite filter_map_comm. f_equal. apply filter_ext. intros x. apply rr_fmem. Qed.

Lemma rr_best_of : forall rho l, M13.best_of (map (rerank rho) l) = option_map (rerank rho) (M13.best_of l).
Proof.
  intros rho l. unfold M13.best_of. destruct l as [|b r]; [reflexivity|]. cbn [map option_map]. f_equal.
  change (rerank rho b :: map (rerank rho) r) with (map (rerank rho) (b :: r)).
  generalize (b :: r) as l. generalize b as b0. clear b r.
  intros b0 l. revert b0. induction l as [|h l IH]; intros b0; cbn [map fold_left]; [reflexivity|].
  change (M13.f_sc (rerank rho b0) <? M13.f_sc (rerank rho h)) with (M13.f_sc b0 <? M13.f_sc h).
  destruct (M13.f_sc b0 <? M13.f_sc h); apply IH.
Qed.

Lemma existsb_perm {A} (f : A -> bool) : forall l l', Permutation l l' -> existsb f l = existsb f l'.
Proof.
  intros l l' H. apply eq_true_iff_eq. rewrite !existsb_exists.
  split; intros [x [Hx Hf]]; exists x; (split; [|exact Hf]);
    [apply (Permutation_in _ H)|apply (Permutation_in _ (Permutation_sym H))]; exact Hx.
Qed.

Lemma rr_dead : forall rho mine g r,
  P13.fr_dead (map (rerank rho) mine) (map (rerank rho) g) (rerank rho r) = P13.fr_dead mine g r.
Proof.
  intros rho mine g r. unfold P13.fr_dead, P13.gbest. rewrite rr_hit_order, rr_best_of.
  destruct (M13.best_of (M13.hit_order mine g)) as [b|]; cbn [option_map]; [|reflexivity].
  unfold M13.rank_order.
  rewrite (existsb_perm _ _ _ (sort_by_perm _ (map (rerank rho) g))), (existsb_perm _ _ _ (sort_by_perm _ g)).
  rewrite existsb_map'. reflexivity.
Qed.

Lemma existsb_ext' {A} (f g : A -> bool) : (forall x, f x = g x) -> forall l, existsb f l = existsb g l.
Proof. intros H. induction l as [|x l IH]; cbn [existsb]; [reflexivity|]. rewrite H, IH. reflexivity. Qed.

Lemma rr_keep : forall rho mine r, P13.fr_keep (map (rerank rho) mine) (rerank rho r) = P13.fr_keep mine r.
Proof.
  intros rho mine r. unfold P13.fr_keep, P13.fr_bad. rewrite rr_groups. rewrite existsb_map'. f_equal.
  apply existsb_ext'. intros g. apply rr_dead.
Qed.

(* the hits kept by filter_results for a gene are the same for every memory layout - for EVERY input of the domain,
   score ties included (since the repair of filter_results_score_tie_set_order) - and the call does not raise *)
Lemma filter_gene_layout_proof : forall eqg results mine rho rho',
  M13.fwf mine = true ->
  filter_gene_o rho eqg results mine = filter_gene_o rho' eqg results mine /\
  exists r m, filter_gene_o rho eqg results mine = Ok (r, m).
Proof.
  intros eqg results mine rho rho' Hw.
  assert (Hid : forall r l, map M13.f_id (map (rerank r) l) = map M13.f_id l) by (intros r l; rewrite map_map; reflexivity).
  assert (Hform : forall r, filter_gene_o r eqg results mine
            = Ok (if M13.competing eqg mine then (map M13.f_id (filter (P13.fr_keep mine) results), map M13.f_id (filter (P13.fr_keep mine) mine))
                  else (map M13.f_id results, map M13.f_id mine))).
  { intros r. unfold filter_gene_o.
    assert (Ec : M13.competing eqg (map (rerank r) mine) = M13.competing eqg mine).
    { unfold M13.competing. rewrite map_map. reflexivity. }
    assert (Ew : M13.fwf (map (rerank r) mine) = true).
    { rewrite <- Hw. unfold M13.fwf. rewrite !map_map. rewrite forallb_map'. reflexivity. }
    destruct (M13.competing eqg mine) eqn:Ecm.
    - destruct (P13.fr_cds_survivors eqg (map (rerank r) results) [] (map (rerank r) mine) Ew Ec) as [rem E]; [intros i []|].
      rewrite E.
      assert (EK : forall l, filter (P13.fr_keep (map (rerank r) mine)) (map (rerank r) l) = map (rerank r) (filter (P13.fr_keep mine) l)).
      { intros l. rewrite filter_map_comm. f_equal. apply filter_ext. intros x. apply rr_keep. }
      rewrite !EK.
      assert (Hne : filter (P13.fr_keep mine) mine <> []).
      { apply P13.fr_some_survivor; [exact Hw|]. intros ->. cbv in Ecm. discriminate. }
      destruct (filter (P13.fr_keep mine) mine) as [|k kt] eqn:EF; [contradiction|].
      cbn [map]. rewrite !Hid. reflexivity.
    - rewrite (P13.fr_cds_not_competing eqg _ _ Ec). rewrite !Hid. reflexivity. }
  rewrite (Hform rho), (Hform rho'). split; [reflexivity|].
  destruct (M13.competing eqg mine); eexists; eexists; reflexivity.
Qed.

(* the former witness of filter_results_score_tie_set_order: two overlapping hits of competing profiles tie on the bitscore.
   The code before the repair (`best = list(group)[0]`) kept the one the layout put first; the repaired code keeps the one
   listed first in the gene's hit list under both layouts *)
Definition w_f1 := M13.mkFH 0 0 10 200 100 0.
Definition w_f2 := M13.mkFH 1 1 10 200 100 0.
Lemma filter_gene_tie_witness_proof :
  M13.fwf [w_f1; w_f2] = true /\ NoDup (map M13.f_id [w_f1; w_f2]) /\
  filter_gene_unrepaired (fun i => i) [0; 1] [w_f1; w_f2] [w_f1; w_f2]
    <> filter_gene_unrepaired (fun i => 1 - i) [0; 1] [w_f1; w_f2] [w_f1; w_f2] /\
  filter_gene_o (fun i => i) [0; 1] [w_f1; w_f2] [w_f1; w_f2] = Ok ([0], [0]) /\
  filter_gene_o (fun i => 1 - i) [0; 1] [w_f1; w_f2] [w_f1; w_f2] = Ok ([0], [0]) /\
  filter_gene_o (fun i => i) [0; 1] [w_f2; w_f1] [w_f2; w_f1] = Ok ([1], [1]).
Proof.
  split; [vm_compute; reflexivity|]. split.
  - cbn. constructor; [intros [H|[]]; discriminate|constructor; [intros []|constructor]].
  - split; [vm_compute; discriminate|]. repeat split; vm_compute; reflexivity.
Qed.

(* ================================================================== terpene filter_incomplete *)
Lemma start_lt_irrefl : forall a, M13.start_lt a a = false.
Proof. intros a. unfold M13.start_lt. lia. Qed.
Lemma start_lt_trans : forall a b c, M13.start_lt a b = true -> M13.start_lt b c = true -> M13.start_lt a c = true.
Proof. intros a b c. unfold M13.start_lt. lia. Qed.

Lemma hits_of_perm : forall g l l', Permutation l l' -> Permutation (M13.hits_of g l) (M13.hits_of g l').
Proof. intros g l l' H. unfold M13.hits_of. apply Permutation_map. apply filter_perm. exact H. Qed.

(* same result for every enumeration of the gather_by_query sets - no guard since the repair of
   terpene_start_tie_set_order (total sort key) *)
Lemma terpene_filter_perm_proof : forall t o o', Permutation o o' -> terpene_filter_o t o = terpene_filter_o t o'.
Proof.
  intros t o o' Hp.
  assert (E : forall x, In x o <-> In x o').
  { intros x. split; intros Hx; [apply (Permutation_in _ Hp)|apply (Permutation_in _ (Permutation_sym Hp))]; exact Hx. }
  unfold terpene_filter_o, terpene_filter_with.
  assert (F : forallb (fun gh : Z * M13.hit => M13.ppresent t (M13.prof (snd gh))) o
            = forallb (fun gh : Z * M13.hit => M13.ppresent t (M13.prof (snd gh))) o').
  { apply eq_true_iff_eq. rewrite !forallb_forall. split; intros G x Hx; apply G; apply E; exact Hx. }
  rewrite F. destruct (forallb (fun gh : Z * M13.hit => M13.ppresent t (M13.prof (snd gh))) o'); [|reflexivity].
  rewrite (C13.Proofs.genes_of_ext o o' E). f_equal. f_equal. apply map_ext. intros g. f_equal.
  unfold terpene_gene. f_equal. apply C13.Proofs.canonical_ext.
  intros x. split; apply Permutation_in; [apply hits_of_perm; exact Hp|apply hits_of_perm; apply Permutation_sym; exact Hp].
Qed.

(* the former witness of terpene_start_tie_set_order: two complete hits of different profiles starting at the same
   position came out in enumeration order with the start-only key of the code before the repair; the repaired code
   gives one result *)
Definition w_t1 := M13.mkHit 0 5 40 1 20.
Definition w_t2 := M13.mkHit 1 5 60 1 20.
Lemma terpene_filter_witness_proof :
  let t := [(1, 30, 0); (1, 50, 0)] in let o := [(0, w_t1); (0, w_t2)] in let o' := [(0, w_t2); (0, w_t1)] in
  Permutation o o' /\ NoDup o /\ terpene_filter_startkey t o <> terpene_filter_startkey t o' /\
  terpene_filter_o t o = Ok [(0, [w_t1; w_t2])] /\ terpene_filter_o t o' = Ok [(0, [w_t1; w_t2])].
Proof.
  cbv zeta. split; [apply perm_swap|]. split.
  - constructor; [intros [H|[]]; discriminate|constructor; [intros []|constructor]].
  - split; [vm_compute; discriminate|split; vm_compute; reflexivity].
Qed.

(* ================================================================== CDSResults.annotate *)
(* the former witness of annotate_definition_domains_set_order: two enumerations of the same set of definition domains
   gave two gene_functions lists before the repair; `for domain in sorted(matching_domains)` gives one *)
Lemma annotate_witness_proof :
  let defs := [([114], [[97]; [98]])] in let defs' := [([114], [[98]; [97]])] in
  Forall2 (fun d d' => fst d = fst d' /\ forall x, In x (snd d) <-> In x (snd d')) defs defs' /\
  annotate_core_unrepaired defs <> annotate_core_unrepaired defs' /\
  annotate_core defs = [([97], [114]); ([98], [114])] /\ annotate_core defs' = [([97], [114]); ([98], [114])].
Proof.
  cbv zeta. split; [|split; [|split]].
  - constructor; [|constructor]. split; [reflexivity|]. intros x. cbn. tauto.
  - vm_compute. discriminate.
  - vm_compute. reflexivity.
  - vm_compute. reflexivity.
Qed.

(* no guard: the CORE gene functions depend on the SETS of definition domains only *)
Lemma annotate_perm_proof : forall defs defs',
  Forall2 (fun d d' => fst d = fst d' /\ forall x, In x (snd d) <-> In x (snd d')) defs defs' ->
  annotate_core defs = annotate_core defs'.
Proof.
  intros defs defs' H. unfold annotate_core. induction H as [|d d' r r' [H1 H2] H IH]; [reflexivity|].
  cbn [flat_map]. rewrite IH. rewrite (sorted_set_ext_proof _ _ H2). rewrite H1. reflexivity.
Qed.

(* ================================================================== get_unique_protoclusters, origin-crossing branch:
   the former witness of unique_crossing_same_product_set_order (same shifted start, length AND product, different cores) *)
Lemma unique_crossing_witness_proof :
  let a := mkU 0 900 100 200 0 950 980 in let b := mkU 1 900 100 200 0 20 60 in
  Permutation [a; b] [b; a] /\ NoDup (map uid [a; b]) /\
  (forall x y, In x [a; b] -> In y [a; b] -> red_key5 1000 x = red_key5 1000 y -> x = y) /\
  map uid (unique_crossing_unrepaired 1000 [a; b]) <> map uid (unique_crossing_unrepaired 1000 [b; a]) /\
  map uid (unique_crossing 1000 [a; b]) = [1; 0] /\ map uid (unique_crossing 1000 [b; a]) = [1; 0].
Proof.
  cbv zeta. split; [apply perm_swap|]. split; [cbn; constructor; [intros [H|[]]; discriminate|constructor; [intros []|constructor]]|].
  split; [|split; [vm_compute; discriminate|split; vm_compute; reflexivity]].
  intros x y Ix Iy E. cbn in Ix, Iy.
  destruct Ix as [<-|[<-|[]]]; destruct Iy as [<-|[<-|[]]]; try reflexivity; vm_compute in E; discriminate.
Qed.

(* ================================================================== stage 3: anchoring genes *)
Lemma itv_lt_irrefl : forall a, C03.Model.itv_lt a a = false.
Proof. intros [s e]. unfold C03.Model.itv_lt. cbn [C03.Model.s C03.Model.e]. lia. Qed.
Lemma itv_lt_trans : forall a b c, C03.Model.itv_lt a b = true -> C03.Model.itv_lt b c = true -> C03.Model.itv_lt a c = true.
Proof. intros [s1 e1] [s2 e2] [s3 e3]. unfold C03.Model.itv_lt. cbn [C03.Model.s C03.Model.e]. lia. Qed.
Lemma itv_lt_total : forall a b, C03.Model.itv_lt a b = false -> C03.Model.itv_lt b a = false -> a = b.
Proof.
  intros [s1 e1] [s2 e2]. unfold C03.Model.itv_lt. cbn [C03.Model.s C03.Model.e]. intros H1 H2.
  assert (s1 = s2 /\ e1 = e2) as [-> ->] by lia. reflexivity.
Qed.

Lemma anchor_locations_proof : forall o, map aloc (anchor_sort o) = sort_by C03.Model.itv_lt (map aloc o).
Proof. intros o. unfold anchor_sort. apply sort_by_map. intros a b. reflexivity. Qed.

Lemma anchor_locations_perm_proof : forall o o', Permutation o o' ->
  map aloc (anchor_sort o) = map aloc (anchor_sort o').
Proof.
  intros o o' Hp. rewrite !anchor_locations_proof.
  apply (sort_by_perm_unique C03.Model.itv_lt itv_lt_irrefl itv_lt_trans).
  - apply Permutation_map. exact Hp.
  - intros a b _ _. apply itv_lt_total.
Qed.

Lemma find_protoclusters_is_C03_proof : forall N c nb o,
  find_protoclusters_o N c nb o = C03.Model.protoclusters N c nb (map aloc o).
Proof.
  intros. unfold find_protoclusters_o, protoclusters_of_sorted, C03.Model.protoclusters.
  rewrite anchor_locations_proof. reflexivity.
Qed.

Lemma find_protoclusters_perm_proof : forall N c nb o o', Permutation o o' ->
  find_protoclusters_o N c nb o = find_protoclusters_o N c nb o'.
Proof.
  intros N c nb o o' Hp. unfold find_protoclusters_o. rewrite (anchor_locations_perm_proof o o' Hp). reflexivity.
Qed.

Lemma agene_lt_irrefl : forall a, agene_lt a a = false.
Proof. intros a. apply itv_lt_irrefl. Qed.
Lemma agene_lt_trans : forall a b c, agene_lt a b = true -> agene_lt b c = true -> agene_lt a c = true.
Proof. intros a b c. apply itv_lt_trans. Qed.

Lemma anchor_sort_perm_proof : forall o o', Permutation o o' ->
  (forall a b, In a o -> In b o -> aloc a = aloc b -> a = b) ->
  anchor_sort o = anchor_sort o'.
Proof.
  intros o o' Hp Hg. unfold anchor_sort.
  apply (sort_by_perm_unique agene_lt agene_lt_irrefl agene_lt_trans); [exact Hp|].
  intros a b Ia Ib H1 H2. apply Hg; [exact Ia|exact Ib|]. apply itv_lt_total; assumption.
Qed.

Lemma anchor_order_refuted_proof : exists o o',
  Permutation o o' /\ NoDup (map aid o) /\ anchor_sort o <> anchor_sort o'.
Proof.
  exists [mkAG 1 (C03.Model.mkItv 10 20); mkAG 2 (C03.Model.mkItv 10 20)],
         [mkAG 2 (C03.Model.mkItv 10 20); mkAG 1 (C03.Model.mkItv 10 20)].
  split; [apply perm_swap|]. split.
  - cbn. constructor; [intros [H|[]]; discriminate|constructor; [intros []|constructor]].
  - vm_compute. discriminate.
Qed.

(* ================================================================== lexicographic keys *)
Lemma lex2_irrefl : forall a, lex2 a a = false.
Proof. intros [x y]. unfold lex2. cbn [fst snd]. lia. Qed.
Lemma lex2_trans : forall a b c, lex2 a b = true -> lex2 b c = true -> lex2 a c = true.
Proof. intros [x1 y1] [x2 y2] [x3 y3]. unfold lex2. cbn [fst snd]. lia. Qed.
Lemma lex2_total : forall a b, lex2 a b = false -> lex2 b a = false -> a = b.
Proof.
  intros [x1 y1] [x2 y2]. unfold lex2. cbn [fst snd]. intros H1 H2.
  assert (x1 = x2 /\ y1 = y2) as [-> ->] by lia. reflexivity.
Qed.
Lemma lex3_irrefl : forall a, lex3 a a = false.
Proof. intros [[x y] z]. unfold lex3, lex2. cbn [fst snd]. lia. Qed.
Lemma lex3_trans : forall a b c, lex3 a b = true -> lex3 b c = true -> lex3 a c = true.
Proof. intros [[x1 y1] z1] [[x2 y2] z2] [[x3 y3] z3]. unfold lex3, lex2. cbn [fst snd]. lia. Qed.
Lemma lex3_total : forall a b, lex3 a b = false -> lex3 b a = false -> a = b.
Proof.
  intros [[x1 y1] z1] [[x2 y2] z2]. unfold lex3, lex2. cbn [fst snd]. intros H1 H2.
  assert (x1 = x2 /\ y1 = y2 /\ z1 = z2) as [-> [-> ->]] by lia. reflexivity.
Qed.

(* sorting by a totally ordered key: any arrangement of the same elements gives the same list,
   provided no two different elements have the same key *)
Lemma sort_by_key_perm {A K} (key : A -> K) (klt : K -> K -> bool)
  (Hirr : forall k, klt k k = false)
  (Htrans : forall a b c, klt a b = true -> klt b c = true -> klt a c = true)
  (Htot : forall a b, klt a b = false -> klt b a = false -> a = b) :
  forall l l', Permutation l l' ->
  (forall a b, In a l -> In b l -> key a = key b -> a = b) ->
  sort_by (fun a b => klt (key a) (key b)) l = sort_by (fun a b => klt (key a) (key b)) l'.
Proof.
  intros l l' Hp Hg.
  apply (sort_by_perm_unique (fun a b => klt (key a) (key b))).
  - intros a. apply Hirr.
  - intros a b c. apply Htrans.
  - exact Hp.
  - intros a b Ia Ib H1 H2. apply Hg; [exact Ia|exact Ib|]. apply Htot; assumption.
Qed.

(* adjacent form of weak sortedness *)
Lemma wsorted_adjacent {A} (lt : A -> A -> bool) : forall l, wsorted lt l ->
  (fix adj (l : list A) : bool :=
     match l with a :: ((b :: _) as t) => negb (lt b a) && adj t | _ => true end) l = true.
Proof.
  induction l as [|a t IH]; intros H; [reflexivity|].
  inversion H as [|? ? H' Ha]; subst. destruct t as [|b t']; [reflexivity|].
  rewrite Forall_forall in Ha. rewrite (Ha b (or_introl eq_refl)). cbn [negb andb]. apply IH. exact H'.
Qed.

(* ================================================================== stage 5: get_unique_protoclusters *)
Lemma lex32_irrefl : forall a, lex32 a a = false.
Proof. intros [[[x y] z] [u v]]. unfold lex32, eq3, lex3, lex2. cbn [fst snd]. lia. Qed.
Lemma lex32_trans : forall a b c, lex32 a b = true -> lex32 b c = true -> lex32 a c = true.
Proof. intros [[[x1 y1] z1] [u1 v1]] [[[x2 y2] z2] [u2 v2]] [[[x3 y3] z3] [u3 v3]]. unfold lex32, eq3, lex3, lex2. cbn [fst snd]. lia. Qed.
Lemma lex32_total : forall a b, lex32 a b = false -> lex32 b a = false -> a = b.
Proof.
  intros [[[x1 y1] z1] [u1 v1]] [[[x2 y2] z2] [u2 v2]]. unfold lex32, eq3, lex3, lex2. cbn [fst snd]. intros H1 H2.
  assert (x1 = x2 /\ y1 = y2 /\ z1 = z2 /\ u1 = u2 /\ v1 = v2) as [-> [-> [-> [-> ->]]]] by lia. reflexivity.
Qed.

Lemma unique_crossing_perm_proof : forall N o o', Permutation o o' ->
  (forall a b, In a o -> In b o -> red_key5 N a = red_key5 N b -> a = b) ->
  unique_crossing N o = unique_crossing N o'.
Proof.
  intros N o o' Hp Hg. unfold unique_crossing, red_lt.
  apply (sort_by_key_perm (red_key5 N) lex32 lex32_irrefl lex32_trans lex32_total); assumption.
Qed.

Lemma unique_crossing_doc_sorted_proof : forall N o, doc_sorted true N (unique_crossing N o) = true.
Proof.
  intros N o.
  assert (W : wsorted (red_lt N) (unique_crossing N o)).
  { unfold unique_crossing. apply sort_by_wsorted.
    - intros a. apply lex32_irrefl.
    - intros a b c. apply lex32_trans. }
  pose proof (wsorted_adjacent (red_lt N) _ W) as H.
  revert H. generalize (unique_crossing N o). induction l as [|a t IH]; intros H; [reflexivity|].
  destruct t as [|b t']; [reflexivity|]. cbn [doc_sorted]. unfold doc_key_lt.
  apply andb_true_iff in H. destruct H as [H1 H2].
  assert (D : lex3 (red_key N b) (red_key N a) = false).
  { apply negb_true_iff in H1. unfold red_lt, lex32, red_key5 in H1. cbn [fst snd] in H1.
    apply orb_false_iff in H1. destruct H1 as [H1 _]. exact H1. }
  rewrite D. cbn [negb andb]. apply IH. exact H2.
Qed.

Definition wf_u (p : uproto) : Prop := ust p < uen p /\ ulen p = uen p - ust p.
Definition lin_key (p : uproto) : Z * Z := (ust p, - ulen p).
Definition lin_lt (a b : uproto) : bool := lex2 (lin_key a) (lin_key b).

(* between well-formed single-part locations the containment shortcut agrees with the comparator *)
Lemma u_lt_lin : forall a b, wf_u a -> wf_u b -> u_lt a b = lin_lt a b.
Proof.
  intros a b [Ha1 Ha2] [Hb1 Hb2]. unfold u_lt, lin_lt, lin_key, u_contains, lex2. cbn [fst snd].
  destruct ((ust a <=? ust b) && (ust b <=? uen b) && (uen b <=? uen a) &&
            negb ((ust b <=? ust a) && (ust a <=? uen a) && (uen a <=? uen b))) eqn:E; [lia|].
  destruct ((ust b <=? ust a) && (ust a <=? uen a) && (uen a <=? uen b) &&
            negb ((ust a <=? ust b) && (ust b <=? uen b) && (uen b <=? uen a))) eqn:E2; lia.
Qed.

(* the repaired branch: stable sort by the comparison after the pre-sort = one sort by
   (start, -length) then (product, core_start, core_end) *)
Lemma upre_lt_irrefl : forall a, upre_lt a a = false.
Proof. intros a. apply lex3_irrefl. Qed.
Lemma upre_lt_trans : forall a b c, upre_lt a b = true -> upre_lt b c = true -> upre_lt a c = true.
Proof. intros a b c. apply lex3_trans. Qed.

Lemma unique_linear_is_lin : forall o, Forall wf_u o ->
  unique_linear o = sort_by (lex_lt lin_lt upre_lt) (sort_by upre_lt o).
Proof.
  intros o Hwf. unfold unique_linear.
  assert (Hwf1 : forall x, In x (sort_by upre_lt o) -> wf_u x).
  { rewrite Forall_forall in Hwf. intros x Hx. apply Hwf. apply (Permutation_in _ (sort_by_perm upre_lt o)). exact Hx. }
  rewrite (sort_by_ext_in u_lt lin_lt).
  - apply sort_by_stable. apply sort_by_wsorted; [exact upre_lt_irrefl|exact upre_lt_trans].
  - intros a b Ia Ib. apply u_lt_lin; apply Hwf1; assumption.
Qed.

Lemma lin_pre_irrefl : forall a, lex_lt lin_lt upre_lt a a = false.
Proof. intros a. unfold lex_lt, lin_lt. rewrite lex2_irrefl, upre_lt_irrefl. reflexivity. Qed.

Lemma lin_pre_trans : forall a b c,
  lex_lt lin_lt upre_lt a b = true -> lex_lt lin_lt upre_lt b c = true -> lex_lt lin_lt upre_lt a c = true.
Proof.
  intros a b c. unfold lex_lt, lin_lt, upre_lt, lex3, lex2, lin_key, upre_key. cbn [fst snd]. lia.
Qed.

Lemma lin_pre_total : forall a b,
  lex_lt lin_lt upre_lt a b = false -> lex_lt lin_lt upre_lt b a = false -> lin_key a = lin_key b /\ upre_key a = upre_key b.
Proof.
  intros a b. unfold lex_lt, lin_lt, upre_lt, lex3, lex2, lin_key, upre_key. cbn [fst snd]. intros H1 H2.
  assert (ust a = ust b /\ - ulen a = - ulen b /\ uprod a = uprod b /\ ucs a = ucs b /\ uce a = uce b)
    as (-> & -> & -> & -> & ->) by lia.
  split; reflexivity.
Qed.

(* same list for every set order unless two protoclusters share (start, length) AND (product, core start, core end) *)
Lemma unique_linear_perm_proof : forall o o', Forall wf_u o -> Permutation o o' ->
  (forall a b, In a o -> In b o -> lin_key a = lin_key b -> upre_key a = upre_key b -> a = b) ->
  unique_linear o = unique_linear o'.
Proof.
  intros o o' Hwf Hp Hg.
  assert (Hwf' : Forall wf_u o').
  { rewrite Forall_forall in *. intros x Hx. apply Hwf. apply (Permutation_in _ (Permutation_sym Hp)). exact Hx. }
  rewrite (unique_linear_is_lin o Hwf), (unique_linear_is_lin o' Hwf').
  apply (sort_by_perm_unique (lex_lt lin_lt upre_lt) lin_pre_irrefl lin_pre_trans).
  - apply Permutation_trans with o; [apply sort_by_perm|].
    apply Permutation_trans with o'; [exact Hp|apply Permutation_sym; apply sort_by_perm].
  - intros a b Ia Ib H1 H2.
    apply (Permutation_in _ (sort_by_perm upre_lt o)) in Ia.
    apply (Permutation_in _ (sort_by_perm upre_lt o)) in Ib.
    destruct (lin_pre_total a b H1 H2) as [E1 E2]. apply Hg; assumption.
Qed.

(* ... and always in the documented order (start, decreasing size, product) *)
Lemma unique_linear_doc_sorted_proof : forall o, Forall wf_u o -> doc_sorted false 0 (unique_linear o) = true.
Proof.
  intros o Hwf.
  assert (W : wsorted (lex_lt lin_lt upre_lt) (unique_linear o)).
  { rewrite (unique_linear_is_lin o Hwf). apply sort_by_wsorted; [exact lin_pre_irrefl|exact lin_pre_trans]. }
  pose proof (wsorted_adjacent (lex_lt lin_lt upre_lt) _ W) as H.
  revert H. generalize (unique_linear o). induction l as [|a t IH]; intros H; [reflexivity|].
  destruct t as [|b t']; [reflexivity|]. cbn [doc_sorted].
  apply andb_true_iff in H. destruct H as [H1 H2]. apply andb_true_iff. split; [|apply IH; exact H2].
  apply negb_true_iff in H1. apply negb_true_iff.
  revert H1. unfold doc_key_lt, lex_lt, lin_lt, upre_lt, lex3, lex2, lin_key, upre_key. cbn [fst snd]. lia.
Qed.

(* the witness of the repaired finding unique_protoclusters_set_order: identical coordinates, different products *)
Definition w_u1 := mkU 1 1000 2000 1000 0 1000 2000.
Definition w_u2 := mkU 2 1000 2000 1000 1 1000 2000.
Definition w_u3 := mkU 3 1500 3000 1500 2 1500 3000.
Lemma unique_linear_witness_proof :
  Forall wf_u [w_u1; w_u2; w_u3] /\ Permutation [w_u1; w_u2; w_u3] [w_u2; w_u1; w_u3] /\
  map uid (unique_linear [w_u1; w_u2; w_u3]) = [1; 2; 3] /\ map uid (unique_linear [w_u2; w_u1; w_u3]) = [1; 2; 3] /\
  (* the code before the repair followed the set order and broke the documented order for one of them *)
  map uid (unique_linear_unrepaired [w_u1; w_u2; w_u3]) <> map uid (unique_linear_unrepaired [w_u2; w_u1; w_u3]) /\
  doc_sorted false 0 (unique_linear_unrepaired [w_u2; w_u1; w_u3]) = false.
Proof.
  split; [repeat constructor; cbn; lia|].
  split; [apply perm_swap|].
  split; [vm_compute; reflexivity|]. split; [vm_compute; reflexivity|].
  split; [vm_compute; discriminate|vm_compute; reflexivity].
Qed.

(* ================================================================== stage 4: _ordered *)
Import C05.Model.

Definition simple (p : proto) : Prop := exists s e st, ploc p = [mkPart s e st] /\ s <= e.
Definition pkey (p : proto) : Z * Z := (lstart (ploc p), - llen (ploc p)).
Definition lexpp (a b : proto) : bool := lex2 (pkey a) (pkey b).
(* the pre-sort key of _ordered: (product, core_start, core_end) *)
Definition prekey (p : proto) : Z * Z * Z := (pprod p, fstart (pcore p), fend (pcore p)).
Definition prod_lt (a b : proto) : bool := pre_lt a b.
Lemma prod_lt_irrefl : forall a, prod_lt a a = false.
Proof. intros a. unfold prod_lt, pre_lt, pair_lt. cbn [fst snd]. lia. Qed.
Lemma prod_lt_trans : forall a b c, prod_lt a b = true -> prod_lt b c = true -> prod_lt a c = true.
Proof. intros a b c. unfold prod_lt, pre_lt, pair_lt. cbn [fst snd]. lia. Qed.

Lemma lt_pp_simple : forall a b, simple a -> simple b -> lt_pp a b = lexpp a b.
Proof.
  intros a b (s1 & e1 & st1 & Ha & Hle1) (s2 & e2 & st2 & Hb & Hle2).
  unfold lt_pp, coll_lt, lexpp, pkey, comparator. rewrite Ha, Hb.
  cbn [existsb]. unfold bridges. cbn [is_compound].
  unfold contains. cbn [forallb existsb]. unfold part_contains. cbn [ps pe].
  unfold lstart, llen, lmin. cbn [map fold_left fold_right ps pe].
  unfold pair_lt, lex2. cbn [fst snd].
  destruct (((s1 <=? s2) && (s2 <=? e2) && (e2 <=? e1) || false) && true &&
            negb (((s2 <=? s1) && (s1 <=? e1) && (e1 <=? e2) || false) && true)) eqn:E; [lia|].
  repeat match goal with |- context [if ?c then _ else _] => destruct c eqn:? end; lia.
Qed.

Lemma ordered_list_is_lex : forall g, Forall simple g ->
  ordered_list g = sort_by (lex_lt lexpp prod_lt) (sort_by prod_lt g).
Proof.
  intros g Hs. unfold ordered_list. change pre_lt with prod_lt.
  assert (Hs1 : forall x, In x (sort_by prod_lt g) -> simple x).
  { rewrite Forall_forall in Hs. intros x Hx. apply Hs. apply (Permutation_in _ (sort_by_perm prod_lt g)). exact Hx. }
  rewrite (sort_by_ext_in lt_pp lexpp).
  - apply sort_by_stable. apply sort_by_wsorted; [exact prod_lt_irrefl|exact prod_lt_trans].
  - intros a b Ia Ib. apply lt_pp_simple; apply Hs1; assumption.
Qed.

Lemma lexpp_prod_irrefl : forall a, lex_lt lexpp prod_lt a a = false.
Proof. intros a. unfold lex_lt, lexpp. rewrite lex2_irrefl, prod_lt_irrefl. reflexivity. Qed.

Lemma lexpp_prod_trans : forall a b c,
  lex_lt lexpp prod_lt a b = true -> lex_lt lexpp prod_lt b c = true -> lex_lt lexpp prod_lt a c = true.
Proof.
  intros a b c. unfold lex_lt, lexpp, prod_lt, pre_lt, pair_lt, lex2.
  destruct (pkey a) as [x1 y1]. destruct (pkey b) as [x2 y2]. destruct (pkey c) as [x3 y3].
  cbn [fst snd]. lia.
Qed.

Lemma lexpp_prod_total : forall a b,
  lex_lt lexpp prod_lt a b = false -> lex_lt lexpp prod_lt b a = false -> pkey a = pkey b /\ prekey a = prekey b.
Proof.
  intros a b. unfold lex_lt, lexpp, prod_lt, pre_lt, pair_lt, lex2, prekey.
  destruct (pkey a) as [x1 y1]. destruct (pkey b) as [x2 y2]. cbn [fst snd]. intros H1 H2.
  assert (x1 = x2 /\ y1 = y2 /\ pprod a = pprod b /\ fstart (pcore a) = fstart (pcore b) /\ fend (pcore a) = fend (pcore b))
    as (-> & -> & -> & -> & ->) by lia.
  split; reflexivity.
Qed.

(* the member order of a candidate cluster does not depend on the order in which the set of its
   protoclusters is enumerated, unless two of them share coordinates AND product AND core start/end *)
Lemma ordered_perm_proof : forall g g', Forall simple g -> Permutation g g' ->
  (forall a b, In a g -> In b g -> pkey a = pkey b -> prekey a = prekey b -> a = b) ->
  ordered_list g = ordered_list g'.
Proof.
  intros g g' Hs Hp Hg.
  assert (Hs' : Forall simple g').
  { rewrite Forall_forall in *. intros x Hx. apply Hs. apply (Permutation_in _ (Permutation_sym Hp)). exact Hx. }
  rewrite (ordered_list_is_lex g Hs), (ordered_list_is_lex g' Hs').
  apply (sort_by_perm_unique (lex_lt lexpp prod_lt) lexpp_prod_irrefl lexpp_prod_trans).
  - apply Permutation_trans with g; [apply sort_by_perm|].
    apply Permutation_trans with g'; [exact Hp|apply Permutation_sym; apply sort_by_perm].
  - intros a b Ia Ib H1 H2.
    apply (Permutation_in _ (sort_by_perm prod_lt g)) in Ia.
    apply (Permutation_in _ (sort_by_perm prod_lt g)) in Ib.
    destruct (lexpp_prod_total a b H1 H2) as [E1 E2]. apply Hg; assumption.
Qed.

(* ... and the result is THE arrangement ordered by (start, -length, product, core start, core end) *)
Lemma ordered_sorted_proof : forall g, Forall simple g ->
  Permutation (ordered_list g) g /\ wsorted (lex_lt lexpp prod_lt) (ordered_list g).
Proof.
  intros g Hs. rewrite (ordered_list_is_lex g Hs). split.
  - apply Permutation_trans with (sort_by prod_lt g); apply sort_by_perm.
  - apply sort_by_wsorted; [exact lexpp_prod_irrefl|exact lexpp_prod_trans].
Qed.

Definition w_pa := mkProto 0 [mkPart 100 200 1] [mkPart 110 120 1] 0 [].
Definition w_pb := mkProto 1 [mkPart 100 200 1] [mkPart 170 180 1] 1 [].
Definition w_pc := mkProto 2 [mkPart 150 300 1] [mkPart 250 260 1] 2 [].

(* the code before repair 13b45ace (`sorted(group)` alone) exposed the enumeration order *)
Lemma ordered_presort_needed_proof : exists g g',
  Forall simple g /\ Permutation g g' /\ NoDup (map pprod g) /\
  sort_by lt_pp g <> sort_by lt_pp g' /\ ordered_list g = ordered_list g'.
Proof.
  exists [w_pa; w_pb; w_pc], [w_pb; w_pa; w_pc].
  split; [repeat constructor; eexists; eexists; eexists; (split; [reflexivity|lia])|].
  split; [apply perm_swap|].
  split; [cbn; repeat constructor; cbn; intuition discriminate|].
  split; [vm_compute; discriminate|vm_compute; reflexivity].
Qed.

(* same product and same coordinates, different cores (witness of the repaired finding
   same_product_equal_coordinates_member_order): the core now breaks the tie; the guard of ordered_perm_proof holds *)
Definition w_pa' := mkProto 0 [mkPart 0 400 1] [mkPart 110 120 1] 0 [].
Definition w_pb' := mkProto 1 [mkPart 0 400 1] [mkPart 270 280 1] 0 [].
Lemma ordered_same_product_proof :
  Forall simple [w_pa'; w_pb'] /\ Permutation [w_pa'; w_pb'] [w_pb'; w_pa'] /\
  pkey w_pa' = pkey w_pb' /\ pprod w_pa' = pprod w_pb' /\
  (forall a b, In a [w_pa'; w_pb'] -> In b [w_pa'; w_pb'] -> pkey a = pkey b -> prekey a = prekey b -> a = b) /\
  map pid (ordered_list [w_pa'; w_pb']) = [0; 1] /\ map pid (ordered_list [w_pb'; w_pa']) = [0; 1] /\
  (* the pre-sort by product alone (before the repair) followed the enumeration order *)
  sort_by lt_pp (sort_by (fun a b => pprod a <? pprod b) [w_pa'; w_pb'])
    <> sort_by lt_pp (sort_by (fun a b => pprod a <? pprod b) [w_pb'; w_pa']).
Proof.
  split; [repeat constructor; eexists; eexists; eexists; (split; [reflexivity|lia])|].
  split; [apply perm_swap|].
  split; [reflexivity|]. split; [reflexivity|].
  split.
  { intros a b Ia Ib _ E. cbn in Ia, Ib.
    destruct Ia as [<-|[<-|[]]]; destruct Ib as [<-|[<-|[]]]; try reflexivity; vm_compute in E; discriminate. }
  split; [vm_compute; reflexivity|]. split; [vm_compute; reflexivity|]. vm_compute. discriminate.
Qed.

(* SINGLE candidates of protoclusters with identical coordinates (witness of the repaired finding
   single_candidates_set_order): the two numberings of the same three protoclusters (= the two possible iteration
   orders of set(unassigned)) now give the same candidate list, singles in _ordered order (by product here) *)
Definition w_pa2 := mkProto 1 [mkPart 100 200 1] [mkPart 110 120 1] 0 [].
Definition w_pb2 := mkProto 0 [mkPart 100 200 1] [mkPart 170 180 1] 1 [].
Definition view (r : res (list cand)) : res (list (Z * list Z)) :=
  match r with Ok l => Ok (map (fun c => (ckind c, map pprod (cmem c))) l) | Err k => Err k end.
Lemma singles_order_proof :
  view (create_candidates [w_pa; w_pb; w_pc] None)
    = Ok [(K_NEIGHBOURING, [0; 1; 2]); (K_SINGLE, [0]); (K_SINGLE, [1]); (K_SINGLE, [2])] /\
  view (create_candidates [w_pa2; w_pb2; w_pc] None)
    = Ok [(K_NEIGHBOURING, [0; 1; 2]); (K_SINGLE, [0]); (K_SINGLE, [1]); (K_SINGLE, [2])].
Proof. split; vm_compute; reflexivity. Qed.

(* the singles loop visits set(unassigned) in _ordered order: for every enumeration of that set the same list of
   protoclusters is visited (single-part locations, no two sharing coordinates, product and core) *)
Lemma singles_visit_perm_proof : forall u u', Forall simple u -> Permutation u u' ->
  (forall a b, In a u -> In b u -> pkey a = pkey b -> prekey a = prekey b -> a = b) ->
  forall w ex, singles_go w ex (ordered_list u) = singles_go w ex (ordered_list u').
Proof. intros u u' Hs Hp Hg w ex. rewrite (ordered_perm_proof u u' Hs Hp Hg). reflexivity. Qed.

(* ================================================================== stage 4: the whole formation, every enumeration *)
Import FO.
Module P5 := ASV.C05.Proofs.

Definition enumerator (en : enum) : Prop := forall k s, Permutation (en k s) (iter s).
(* an enumeration that cannot be told from ascending id after the PLAIN location sort of the formation
   (site 7: `sorted(a set)` without the product pre-sort; the second one, site 9, is gone since the repair of C05's
   finding neighbouring_singles_not_linked) *)
Definition tie_neutral (P : list proto) (en : enum) : Prop :=
  forall s, incl s P -> sort_by lt_pp (en 7 s) = sort_by lt_pp (iter s).
(* proper single-part location; proper2: ... and a proper single-part core that does not start before the location *)
Definition proper (p : proto) : Prop := exists q, ploc p = [q] /\ ps q < pe q.
Definition proper2 (p : proto) : Prop :=
  proper p /\ exists q, pcore p = [q] /\ ps q < pe q /\ lstart (ploc p) <= ps q.
(* site 5 (`sorted(unassigned, key=core start)` feeding the scans of _find_hybrids) and site 8 (first-match loop over
   the set for origin-crossing edge candidates): on a LINEAR record every enumeration gives the same result (the scan
   selects by containment, site 8 is never reached); on a circular record they are assumed to follow ascending id *)
Definition linear_or_neutral (P : list proto) (w : option Z) (en : enum) : Prop :=
  (w = None /\ Forall proper2 P) \/
  ((forall s, incl s P -> sort_by core_start_lt (en 5 s) = sort_by core_start_lt (iter s)) /\
   (forall s, incl s P -> en 8 s = iter s)).

(* ---------- generic helpers for the scan of _find_hybrids ---------- *)
Lemma filter_none {A} (f : A -> bool) : forall l, Forall (fun x => f x = false) l -> filter f l = [].
Proof. induction l as [|x r IH]; intros H; [reflexivity|]. inversion H; subst. cbn [filter]. rewrite H2. apply IH. exact H3. Qed.

Lemma Forall_firstn {A} (Q : A -> Prop) : forall n l, Forall Q l -> Forall Q (firstn n l).
Proof. intros n l H. rewrite <- (firstn_skipn n l) in H. apply Forall_app in H. exact (proj1 H). Qed.

Lemma sorted_app_le : forall l1 x l2, StronglySorted Z.le (l1 ++ x :: l2) -> Forall (fun y => y <= x) l1.
Proof.
  induction l1 as [|a r IH]; intros x l2 H; [constructor|]. cbn [app] in H. inversion H as [|? ? H1 H2]; subst.
  constructor; [|exact (IH x l2 H1)]. rewrite Forall_forall in H2. apply H2. apply in_or_app. right. left. reflexivity.
Qed.

Lemma bisect_go_prefix (X : Z) (l : list Z) (Hs : StronglySorted Z.le l) : forall fuel lo hi,
  Forall (fun y => y < X) (firstn lo l) ->
  Forall (fun y => y < X) (firstn (bisect_go (fun x => x <? X) l fuel lo hi) l).
Proof.
  induction fuel as [|f IH]; intros lo hi H; cbn [bisect_go]; [exact H|].
  destruct (Nat.ltb lo hi); [|exact H].
  destruct (nth_error l (Nat.div2 (lo + hi))) as [e|] eqn:En; [|exact H].
  destruct (e <? X) eqn:Ee; [|apply IH; exact H].
  apply IH. destruct (nth_error_split l _ En) as [l1 [l2 [El Hlen]]].
  assert (Ef : firstn (S (Nat.div2 (lo + hi))) l = l1 ++ [e]).
  { rewrite El. rewrite <- Hlen. rewrite firstn_app. rewrite firstn_all2 by lia.
    replace (S (length l1) - length l1)%nat with 1%nat by lia. reflexivity. }
  rewrite Ef. apply Forall_app. split.
  - rewrite El in Hs. pose proof (sorted_app_le _ _ _ Hs) as Hle. apply (Forall_impl _ (P := fun y => y <= e)); [intros y Hy; lia|exact Hle].
  - constructor; [lia|constructor].
Qed.

Lemma bisect_left_prefix : forall X l, StronglySorted Z.le l ->
  Forall (fun y => y < X) (firstn (bisect_left (fun x => x <? X) l) l).
Proof. intros X l Hs. unfold bisect_left. apply bisect_go_prefix; [exact Hs|constructor]. Qed.

Lemma sorted_skipn {A} (R : A -> A -> Prop) : forall n l, StronglySorted R l -> StronglySorted R (skipn n l).
Proof.
  induction n as [|n IH]; intros l H; [exact H|]. destruct l as [|x r]; [exact H|]. cbn [skipn]. apply IH.
  inversion H; assumption.
Qed.

Lemma sorted_weaken {A} (R R' : A -> A -> Prop) (HR : forall a b, R a b -> R' a b) :
  forall l, StronglySorted R l -> StronglySorted R' l.
Proof.
  induction l as [|x r IH]; intros H; [constructor|]. inversion H as [|? ? H1 H2]; subst. constructor; [apply IH; exact H1|].
  apply (Forall_impl _ (HR x)). exact H2.
Qed.

Lemma sorted_map {A} (f : A -> Z) : forall l, StronglySorted (fun a b => f a <= f b) l -> StronglySorted Z.le (map f l).
Proof.
  induction l as [|x r IH]; intros H; [constructor|]. inversion H as [|? ? H1 H2]; subst. cbn [map]. constructor; [apply IH; exact H1|].
  apply Forall_map. exact H2.
Qed.

Lemma ndg_filter : forall (f : proto -> bool) l, P5.ndg l -> P5.ndg (filter f l).
Proof.
  intros f. unfold P5.ndg. induction l as [|x r IH]; intros H; [constructor|]. cbn [map] in H. inversion H as [|? ? H1 H2]; subst.
  cbn [filter]. destruct (f x); [|exact (IH H2)]. cbn [map]. constructor; [|exact (IH H2)].
  intro Hin. apply H1. apply in_map_iff in Hin. destruct Hin as [y [Ey Hy]]. apply filter_In in Hy. rewrite <- Ey. apply in_map. exact (proj1 Hy).
Qed.

Lemma first_occ_filter : forall l seen, P5.ndg l -> first_occ seen l = filter (fun c => negb (pmem c seen)) l.
Proof.
  induction l as [|c r IH]; intros seen H; [reflexivity|]. unfold P5.ndg in H. cbn [map] in H. inversion H as [|? ? H1 H2]; subst.
  cbn [first_occ filter]. destruct (pmem c seen) eqn:E; cbn [negb]; [apply IH; exact H2|].
  f_equal. rewrite (IH (c :: seen) H2). apply filter_ext_in. intros x Hx. unfold pmem. cbn [existsb].
  destruct (pid c =? pid x) eqn:Ex; [|reflexivity]. exfalso. apply H1. apply Z.eqb_eq in Ex. rewrite Ex. apply in_map. exact Hx.
Qed.

Lemma mapM_rel {A B} (R : B -> B -> Prop) (f g : A -> res B) : forall l,
  (forall x, In x l -> match f x, g x with Ok a, Ok b => R a b | Err j, Err k => j = k | _, _ => False end) ->
  match mapM f l, mapM g l with Ok a, Ok b => Forall2 R a b | Err j, Err k => j = k | _, _ => False end.
Proof.
  induction l as [|x r IH]; intros H; cbn [mapM]; [constructor|].
  pose proof (H x (or_introl eq_refl)) as Hx. destruct (f x) as [a|j]; destruct (g x) as [b|k]; cbn [bind]; try contradiction; [|exact Hx].
  assert (Hr : forall y, In y r -> match f y, g y with Ok a, Ok b => R a b | Err j, Err k => j = k | _, _ => False end)
    by (intros y Hy; apply H; right; exact Hy).
  specialize (IH Hr). destruct (mapM f r) as [as_|j]; destruct (mapM g r) as [bs|k]; cbn [bind]; try contradiction; [|exact IH].
  constructor; assumption.
Qed.

Lemma concat_perm2 : forall (a b : list (list proto)), Forall2 (fun x y => Permutation x y /\ True) a b -> Permutation (concat a) (concat b).
Proof.
  intros a b H. induction H as [|x y a b [Hxy _] H IH]; cbn [concat]; [apply Permutation_refl|]. apply Permutation_app; assumption.
Qed.

(* ---------- the scan of _find_hybrids selects by containment ---------- *)
Definition cstart (c : proto) : Z := lstart (pcore c).
Definition in_core (h : part) (c : proto) : bool := contains [h] (pcore c).

Lemma proper2_core : forall c, proper2 c -> exists q, pcore c = [q] /\ ps q < pe q /\ lstart (ploc c) <= ps q /\
  cstart c = ps q /\ fstart (pcore c) = ps q /\ in_core = in_core /\
  forall h, in_core h c = (ps h <=? ps q) && (ps q <=? pe q) && (pe q <=? pe h).
Proof.
  intros c [_ [q [Hq [H1 H2]]]]. exists q. split; [exact Hq|]. split; [exact H1|]. split; [exact H2|].
  unfold cstart, in_core. rewrite Hq. split; [reflexivity|]. split.
  - unfold fstart. cbn [lstrand forallb last_opt]. destruct (pst q =? -1); reflexivity.
  - split; [reflexivity|]. intros h. unfold contains. cbn [forallb existsb]. unfold part_contains.
    rewrite orb_false_r, andb_true_r. reflexivity.
Qed.

Lemma scan_all : forall h l, StronglySorted (fun a b => cstart a <= cstart b) l -> Forall proper2 l ->
  contained_until [h] (pe h) l = filter (in_core h) l.
Proof.
  intros h. induction l as [|a r IH]; intros Hs Hp; cbn [contained_until filter]; [reflexivity|].
  inversion Hs as [|? ? Hs1 Hs2]; subst. inversion Hp as [|? ? Hp1 Hp2]; subst.
  destruct (pe h <? lstart (ploc a)) eqn:E.
  - symmetry. fold (in_core h a). change (filter (in_core h) (a :: r) = []). apply filter_none.
    assert (Ha : forall d, proper2 d -> cstart a <= cstart d -> in_core h d = false).
    { intros d Hd Hle. destruct (proper2_core a Hp1) as [qa [_ [_ [Hla [Hca _]]]]].
      destruct (proper2_core d Hd) as [qd [_ [Hlt [_ [Hcd [_ [_ Hin]]]]]]]. rewrite Hin. lia. }
    constructor; [apply Ha; [exact Hp1|lia]|].
    rewrite Forall_forall in *. intros d Hd. apply Ha; [apply Hp2; exact Hd|apply Hs2; exact Hd].
  - fold (in_core h a). destruct (in_core h a); [f_equal|]; apply IH; assumption.
Qed.

Lemma scan_is_filter : forall h l, wsorted core_start_lt l -> Forall proper2 l ->
  contained_until [h] (lend [h])
    (skipn (Z.to_nat (Z.max 0 (Z.of_nat (bisect_left (fun x => x <? lstart [h]) (map (fun c => fstart (pcore c)) l)) - 1))) l)
  = filter (in_core h) l.
Proof.
  intros h l Hw Hp.
  assert (Hs : StronglySorted (fun a b => cstart a <= cstart b) l).
  { apply (sorted_weaken (fun a b => core_start_lt b a = false)); [|exact Hw].
    intros a b. unfold core_start_lt, cstart. lia. }
  set (bl := bisect_left (fun x => x <? lstart [h]) (map (fun c => fstart (pcore c)) l)).
  set (idx := Z.to_nat (Z.max 0 (Z.of_nat bl - 1))).
  change (lend [h]) with (pe h). change (lstart [h]) with (ps h) in bl.
  rewrite scan_all; [|apply sorted_skipn; exact Hs|].
  2:{ rewrite <- (firstn_skipn idx l) in Hp. apply Forall_app in Hp. exact (proj2 Hp). }
  rewrite <- (firstn_skipn idx l) at 2. rewrite filter_app.
  rewrite (filter_none (in_core h) (firstn idx l)); [reflexivity|].
  (* the skipped prefix: core starts before the joint core *)
  assert (Hmap : map (fun c => fstart (pcore c)) l = map cstart l).
  { apply map_ext_in. intros c Hc. rewrite Forall_forall in Hp. destruct (proper2_core c (Hp c Hc)) as [q [_ [_ [_ [H1 [H2 _]]]]]]. lia. }
  assert (Hpre : Forall (fun y => y < ps h) (firstn bl (map cstart l))).
  { unfold bl. rewrite Hmap. apply bisect_left_prefix. apply sorted_map. exact Hs. }
  assert (Hidx : Forall (fun y => y < ps h) (firstn idx (map cstart l))).
  { assert (E : firstn idx (map cstart l) = firstn idx (firstn bl (map cstart l))).
    { rewrite firstn_firstn. f_equal. unfold idx. lia. }
    rewrite E. apply Forall_firstn. exact Hpre. }
  rewrite firstn_map in Hidx. rewrite Forall_map in Hidx.
  apply Forall_forall. intros c Hc. rewrite Forall_forall in Hidx, Hp.
  pose proof (Hidx c Hc) as Hlt.
  assert (HcP : proper2 c). { apply Hp. rewrite <- (firstn_skipn idx l). apply in_or_app. left. exact Hc. }
  destruct (proper2_core c HcP) as [q [_ [_ [_ [Hcq [_ [_ Hin]]]]]]]. rewrite Hin. lia.
Qed.

Lemma pmem_perm : forall x l l', Permutation l l' -> pmem x l = pmem x l'.
Proof.
  intros x l l' H. unfold pmem. induction H as [|a l l' H IH|a b l|l l' l'' H1 IH1 H2 IH2]; cbn [existsb].
  - reflexivity.
  - rewrite IH. reflexivity.
  - destruct (pid b =? pid x), (pid a =? pid x); reflexivity.
  - rewrite IH1. exact IH2.
Qed.

Lemma diff_perm_r : forall a b b', Permutation b b' -> diff a b = diff a b'.
Proof. intros a b b' H. unfold diff. apply filter_ext. intros x. rewrite (pmem_perm x b b' H). reflexivity. Qed.

Lemma is_empty_perm : forall (l l' : list proto), Permutation l l' -> is_empty l = is_empty l'.
Proof.
  intros l l' H. destruct l as [|x l0]; destruct l' as [|y l0']; try reflexivity.
  - apply Permutation_nil in H. discriminate H.
  - apply Permutation_sym in H. apply Permutation_nil in H. discriminate H.
Qed.

Lemma inS_perm : forall i l l', Permutation l l' -> (P5.inS i l <-> P5.inS i l').
Proof.
  intros i l l' H. unfold P5.inS. split; apply Permutation_in; apply Permutation_map; [exact H|apply Permutation_sym; exact H].
Qed.

Lemma inS_set_add : forall i x l, P5.inS i (set_add x l) <-> i = pid x \/ P5.inS i l.
Proof.
  intros i x l. unfold set_add. destruct (pmem x l) eqn:E.
  - apply P5.pmem_inS in E. split; [intro H; right; exact H|intros [H|H]; [subst i; exact E|exact H]].
  - unfold P5.inS. rewrite map_app, in_app_iff. cbn [map In]. split.
    + intros [H|[H|[]]]; [right; exact H|left; symmetry; exact H].
    + intros [H|H]; [right; left; symmetry; exact H|left; exact H].
Qed.

Lemma inS_fold_set_add : forall i l acc,
  P5.inS i (fold_left (fun s x => set_add x s) l acc) <-> P5.inS i acc \/ P5.inS i l.
Proof.
  intros i. induction l as [|x xs IH]; intros acc; cbn [fold_left].
  - unfold P5.inS at 3. cbn. tauto.
  - rewrite IH, inS_set_add. unfold P5.inS at 4. cbn [map In]. split.
    + intros [[H|H]|H]; [right; left; symmetry; exact H|left; exact H|right; right; exact H].
    + intros [H|[H|H]]; [left; right; exact H|left; left; symmetry; exact H|right; exact H].
Qed.

Lemma asc_wsorted : forall l, P5.asc (map pid l) -> wsorted (fun a b => pid a <? pid b) l.
Proof.
  induction l as [|x r IH]; intros H; [constructor|]. cbn [map P5.asc] in H. destruct H as [H1 H2].
  constructor; [apply IH; exact H2|]. apply Forall_forall. intros y Hy.
  specialize (H1 (pid y) (in_map pid _ _ Hy)). lia.
Qed.

Section Formation.
Variable P : list proto.
Hypothesis HS : Forall simple P.
Hypothesis HN : NoDup (map pid P).
Hypothesis HG : forall a b, In a P -> In b P -> pkey a = pkey b -> prekey a = prekey b -> a = b.
Variable en : enum.
Hypothesis Hen : enumerator en.
Hypothesis Hneutral : tie_neutral P en.
Variable w : option Z.
Hypothesis Hlin : linear_or_neutral P w en.

Lemma In_iter_back : forall s x, incl s P -> In x s -> In x (iter s).
Proof.
  intros s x Hs Hx. assert (Hi : P5.inS (pid x) (iter s)) by (apply P5.inS_iter; apply in_map; exact Hx).
  unfold P5.inS in Hi. apply in_map_iff in Hi. destruct Hi as [y [Hy Hyin]].
  rewrite <- (P5.NoDup_map_inj P y x HN (Hs y (P5.In_iter _ _ Hyin)) (Hs x Hx) Hy). exact Hyin.
Qed.

(* two lists with the same ids denote the same set: same iteration in ascending id *)
Lemma iter_ext : forall s s', incl s P -> incl s' P -> (forall i, P5.inS i s <-> P5.inS i s') -> iter s = iter s'.
Proof.
  intros s s' Hs Hs' Hi.
  assert (Hmem : forall a b, incl a P -> incl b P -> (forall i, P5.inS i a -> P5.inS i b) ->
                 forall x, In x (iter a) -> In x (iter b)).
  { intros a b Ha Hb Hab x Hx. pose proof (P5.In_iter _ _ Hx) as Hxa.
    assert (H1 : P5.inS (pid x) b) by (apply Hab; apply in_map; exact Hxa).
    unfold P5.inS in H1. apply in_map_iff in H1. destruct H1 as [y [Hy Hyb]].
    rewrite <- (P5.NoDup_map_inj P y x HN (Hb y Hyb) (Ha x Hxa) Hy). apply In_iter_back; assumption. }
  apply (wsorted_unique (fun a b => pid a <? pid b)).
  - apply asc_wsorted. apply P5.asc_iter.
  - apply asc_wsorted. apply P5.asc_iter.
  - apply NoDup_Permutation.
    + apply (NoDup_map_inv pid). apply P5.asc_NoDup. apply P5.asc_iter.
    + apply (NoDup_map_inv pid). apply P5.asc_NoDup. apply P5.asc_iter.
    + intros x. split; [apply (Hmem s s' Hs Hs'); intros i; apply Hi|apply (Hmem s' s Hs' Hs); intros i; apply Hi].
  - intros a b Ia Ib H1 H2. apply (P5.NoDup_map_inj P a b HN); [apply Hs; apply P5.In_iter; exact Ia|apply Hs; apply P5.In_iter; exact Ib|lia].
Qed.

Lemma simple_incl : forall g, incl g P -> Forall simple g.
Proof. intros g Hg. apply Forall_forall. intros x Hx. rewrite Forall_forall in HS. apply HS. apply Hg. exact Hx. Qed.

Lemma ordered_perm_P : forall g g', incl g P -> Permutation g g' -> ordered_list g = ordered_list g'.
Proof.
  intros g g' Hg Hp. apply ordered_perm_proof; [apply simple_incl; exact Hg|exact Hp|].
  intros a b Ia Ib. apply HG; apply Hg; assumption.
Qed.

(* sites 3, 4, 6: _ordered(a set) *)
Lemma ordered_set_en : forall k s, incl (ordered_set s) P -> ordered_set_o en k s = ordered_set s.
Proof.
  intros k s Hs. unfold ordered_set_o, ordered_set. symmetry. apply ordered_perm_P.
  - intros x Hx. apply Hs. unfold ordered_set. apply P5.In_ordered_list. exact Hx.
  - apply Permutation_sym. apply Hen.
Qed.

Lemma merge_sets_en : forall G, P5.allin P (merge_sets G) -> merge_sets_o en G = merge_sets G.
Proof.
  intros G H. unfold merge_sets_o, merge_sets. apply map_ext_in. intros h Hh. apply ordered_set_en.
  intros x Hx. apply (H (ordered_set h) x); [apply in_map; exact Hh|exact Hx].
Qed.

(* sites 1, 2: build_candidates; the extra singles are the same SET *)
Definition rel_bs (r' r : res (table * list proto)) : Prop :=
  match r', r with
  | Ok (e', s'), Ok (e, s) => e' = e /\ incl s' P /\ incl s P /\ (forall i, P5.inS i s' <-> P5.inS i s)
  | Err k', Err k => k' = k
  | _, _ => False
  end.

Lemma build_go_en : forall kind groups existing singles' singles,
  P5.allin P groups -> (forall c, In c (tvalues existing) -> P5.good P w c) ->
  incl singles' P -> incl singles P -> (forall i, P5.inS i singles' <-> P5.inS i singles) ->
  rel_bs (build_go_o en w kind groups existing singles') (build_go w kind groups existing singles).
Proof.
  intros kind. induction groups as [|group rest IH]; intros existing singles' singles HGr HE HS' HS0 Hi; cbn [build_go_o build_go].
  - cbn. repeat split; try assumption; apply Hi.
  - destruct (negb ((kind =? K_SINGLE) || (1 <? zlen group))); [reflexivity|].
    assert (HGrest : P5.allin P rest) by (intros g x Hg Hx; exact (HGr g x (or_intror Hg) Hx)).
    assert (Hgroup : incl group P) by (intros x Hx; exact (HGr group x (or_introl eq_refl) Hx)).
    destruct (mk_cand w kind (ordered_list group)) as [candidate|k] eqn:Ec; cbn [bind]; [|reflexivity].
    assert (Hcand : P5.good P w candidate).
    { destruct (P5.mk_cand_wfc _ _ _ _ Ec) as [A [B _]]. split; [exact A|]. rewrite B. intros x Hx.
      apply Hgroup. apply P5.In_ordered_list. exact Hx. }
    destruct (tget (ckey candidate) existing) as [ex|] eqn:Et.
    + pose proof (HE ex (P5.tget_in _ _ _ Et)) as Hex.
      assert (Hec : Permutation (en 1 (cmem ex)) (iter (cmem ex))) by apply Hen.
      rewrite (diff_perm_r group _ _ Hec).
      set (D := diff group (iter (cmem ex))).
      assert (Hex2 : Permutation (en 2 D) (iter D)) by apply Hen.
      assert (HD : incl (iter D) P).
      { intros x Hx. apply P5.In_iter in Hx. apply P5.In_diff in Hx. exact (Hgroup x Hx). }
      rewrite (is_empty_perm _ _ Hex2).
      destruct (is_empty (iter D)) eqn:Eex.
      * apply IH; assumption.
      * assert (Eo : ordered_list (en 1 (cmem ex) ++ en 2 D) = ordered_list (iter (cmem ex) ++ iter D)).
        { symmetry. apply ordered_perm_P.
          - intros x Hx. apply in_app_or in Hx. destruct Hx as [Hx|Hx]; [|exact (HD x Hx)].
            apply P5.In_iter in Hx. exact (proj2 Hex x Hx).
          - apply Permutation_sym. apply Permutation_app; assumption. }
        rewrite Eo.
        destruct (mk_cand w (ckind ex) (ordered_list (iter (cmem ex) ++ iter D))) as [replacement|k] eqn:Er; cbn [bind]; [|reflexivity].
        apply IH.
        -- exact HGrest.
        -- intros c Hc. apply P5.tset_values in Hc. destruct Hc as [Hc|Hc]; [|exact (HE c Hc)]. subst c.
           destruct (P5.mk_cand_wfc _ _ _ _ Er) as [A [B _]]. split; [exact A|]. rewrite B. intros x Hx.
           apply (proj1 (P5.In_ordered_list _ _)) in Hx. apply in_app_or in Hx. destruct Hx as [Hx|Hx]; [|exact (HD x Hx)].
           apply P5.In_iter in Hx. exact (proj2 Hex x Hx).
        -- intros x Hx. apply P5.In_fold_set_add' in Hx. destruct Hx as [Hx|Hx]; [exact (HS' x Hx)|].
           apply HD. apply (Permutation_in _ Hex2). exact Hx.
        -- intros x Hx. apply P5.In_fold_set_add' in Hx. destruct Hx as [Hx|Hx]; [exact (HS0 x Hx)|exact (HD x Hx)].
        -- intros i. rewrite !inS_fold_set_add. rewrite (inS_perm i _ _ Hex2). rewrite (Hi i). tauto.
    + apply IH; try assumption.
      intros c Hc. apply P5.tset_values in Hc. destruct Hc as [Hc|Hc]; [subst c; exact Hcand|exact (HE c Hc)].
Qed.

Definition rel_bc (r' r : res (list cand * table * list proto)) : Prop :=
  match r', r with
  | Ok (c', e', s'), Ok (c, e, s) => c' = c /\ e' = e /\ incl s' P /\ incl s P /\ (forall i, P5.inS i s' <-> P5.inS i s)
  | Err k', Err k => k' = k
  | _, _ => False
  end.

Lemma build_candidates_en : forall kind groups existing singles' singles,
  P5.allin P groups -> (forall c, In c (tvalues existing) -> P5.good P w c) ->
  incl singles' P -> incl singles P -> (forall i, P5.inS i singles' <-> P5.inS i singles) ->
  rel_bc (build_candidates_o en w kind groups existing singles') (build_candidates w kind groups existing singles).
Proof.
  intros kind groups existing singles' singles H1 H2 H3 H4 H5.
  pose proof (build_go_en kind groups existing singles' singles H1 H2 H3 H4 H5) as R.
  unfold build_candidates_o, build_candidates, rel_bs in *.
  destruct (build_go_o en w kind groups existing singles') as [[e' s']|k']; destruct (build_go w kind groups existing singles) as [[e s]|k];
    cbn [bind]; try contradiction.
  - destruct R as [-> [A [B C]]]. cbn. repeat split; try assumption; apply C.
  - exact R.
Qed.

(* one call of hybrid_extend on a linear record: the scan over the unassigned protoclusters sorted by core start
   selects exactly those whose core lies inside the joint core, whatever the arrangement of equal core starts *)
Lemma hybrid_extend_en : forall g bc' bc, Forall proper2 P -> incl g P -> incl bc P ->
  wsorted core_start_lt bc' -> wsorted core_start_lt bc -> Permutation bc' bc -> P5.ndg bc ->
  match hybrid_extend None bc' g, hybrid_extend None bc g with
  | Ok a, Ok b => (Permutation a b /\ True) /\ incl b P
  | Err j, Err k => j = k
  | _, _ => False
  end.
Proof.
  intros g bc' bc Hpr Hg Hbc Hw' Hw0 Hperm Hnd. unfold hybrid_extend.
  destruct g as [|g0 gr]; [cbn; reflexivity|].
  set (g := g0 :: gr) in *.
  rewrite Forall_forall in Hpr.
  set (locs := map pcore g).
  assert (Hsimple : ASV.C04.Proofs.simple_locs locs).
  { apply Forall_forall. intros l Hl. unfold locs in Hl. apply in_map_iff in Hl. destruct Hl as [p [He Hp]]. subst l.
    destruct (Hpr p (Hg p Hp)) as [_ [q [Hq _]]]. exists q. exact Hq. }
  assert (Hwf : Forall ASV.C04.Proofs.wf_loc locs).
  { apply Forall_forall. intros l Hl. unfold locs in Hl. apply in_map_iff in Hl. destruct Hl as [p [He Hp]]. subst l.
    destruct (Hpr p (Hg p Hp)) as [_ [q [Hq [Hlt _]]]]. rewrite Hq. split; [discriminate|]. constructor; [exact Hlt|constructor]. }
  assert (Hlne : locs <> []) by (unfold locs, g; discriminate).
  destruct (ASV.C04.Proofs.connect_line_simple locs Hlne Hsimple Hwf) as [h [Hh _]].
  rewrite Hh. cbn [bind is_compound]. rewrite !app_nil_r.
  assert (Hbc' : incl bc' P) by (intros x Hx; apply Hbc; apply (Permutation_in _ Hperm); exact Hx).
  rewrite (scan_is_filter h bc' Hw'), (scan_is_filter h bc Hw0);
    [|apply Forall_forall; intros x Hx; apply Hpr; apply Hbc; exact Hx|apply Forall_forall; intros x Hx; apply Hpr; apply Hbc'; exact Hx].
  rewrite !first_occ_filter; [|apply ndg_filter; exact Hnd|apply ndg_filter; apply (P5.ndg_perm bc bc'); [apply Permutation_sym; exact Hperm|exact Hnd]].
  split; [split; [|exact I]|].
  - apply Permutation_app_head. apply filter_perm. apply filter_perm. exact Hperm.
  - intros x Hx. apply in_app_or in Hx. destruct Hx as [Hx|Hx]; [exact (Hg x Hx)|].
    apply filter_In in Hx. destruct Hx as [Hx _]. apply filter_In in Hx. destruct Hx as [Hx _]. exact (Hbc x Hx).
Qed.

(* site 5 (linear record: any order; otherwise by hypothesis), sites 4, 6 *)
Lemma find_hybrids_en : forall clusters, incl clusters P ->
  find_hybrids_o en clusters w = find_hybrids clusters w.
Proof.
  intros clusters HC. unfold find_hybrids_o, find_hybrids. cbv zeta.
  set (prs := pairs_rel defs_intersect (sort_by core_key_lt clusters) ++
              match first_last (sort_by core_key_lt clusters) with
              | Some (f, l) => if negb (pid f =? pid l) && defs_intersect f l then [(f, l)] else []
              | None => []
              end).
  set (groups := map (fun xy : proto * proto => [fst xy; snd xy]) prs).
  assert (HA : P5.allin P groups).
  { apply P5.pair_groups_allin. intros a b Hab. unfold prs in Hab. apply in_app_or in Hab. destruct Hab as [Hab|Hab].
    - apply P5.pairs_rel_In in Hab. destruct Hab as [Ha [Hb _]]. apply P5.sort_by_in in Ha. apply P5.sort_by_in in Hb.
      split; apply HC; assumption.
    - destruct (first_last (sort_by core_key_lt clusters)) as [[f l]|] eqn:Efl; [|destruct Hab].
      destruct (negb (pid f =? pid l) && defs_intersect f l); [|destruct Hab].
      destruct Hab as [Hab|[]]. inversion Hab; subst. apply P5.first_last_In in Efl. destruct Efl as [Ha Hb].
      apply P5.sort_by_in in Ha. apply P5.sort_by_in in Hb. split; apply HC; assumption. }
  pose proof (P5.merge_sets_allin P groups HA) as HM.
  rewrite (merge_sets_en groups HM).
  set (un := diff clusters (concat groups)).
  assert (HU : incl un P) by (intros x Hx; apply HC; apply P5.In_diff in Hx; exact Hx).
  assert (Hfin : forall ext, incl (ordered_set (diff un (concat ext))) P).
  { intros ext x Hx. apply P5.In_ordered_set in Hx. apply P5.In_diff in Hx. exact (HU x Hx). }
  destruct Hlin as [[Hw Hpr]|[H5 _]].
  - subst w.
    set (bc' := sort_by core_start_lt (en 5 un)). set (bc := sort_by core_start_lt (iter un)).
    assert (Hirr : forall a, core_start_lt a a = false) by (intros a; unfold core_start_lt; lia).
    assert (Htr : forall a b c, core_start_lt a b = true -> core_start_lt b c = true -> core_start_lt a c = true)
      by (intros a b c; unfold core_start_lt; lia).
    assert (Hperm : Permutation bc' bc).
    { unfold bc', bc. apply Permutation_trans with (en 5 un); [apply sort_by_perm|].
      apply Permutation_trans with (iter un); [apply Hen|apply Permutation_sym; apply sort_by_perm]. }
    assert (Hbc : incl bc P).
    { intros x Hx. unfold bc in Hx. apply P5.sort_by_in in Hx. apply P5.In_iter in Hx. exact (HU x Hx). }
    pose proof (mapM_rel (fun a b => (Permutation a b /\ True) /\ incl b P) (hybrid_extend None bc') (hybrid_extend None bc) (merge_sets groups)) as HR.
    match type of HR with ?A -> _ => assert (HRa : A) end.
    { intros g Hg. apply hybrid_extend_en; try assumption.
      - intros x Hx. exact (HM g x Hg Hx).
      - apply sort_by_wsorted; assumption.
      - apply sort_by_wsorted; assumption.
      - unfold bc. apply P5.ndg_sort_by. apply P5.ndg_iter. }
    specialize (HR HRa).
    destruct (mapM (hybrid_extend None bc') (merge_sets groups)) as [ext'|j]; destruct (mapM (hybrid_extend None bc) (merge_sets groups)) as [ext|k];
      cbn [bind]; try contradiction; [|rewrite HR; reflexivity].
    assert (E1 : map ordered_list ext' = map ordered_list ext).
    { clear -HR HS HG. induction HR as [|a b ra rb [[Hab _] Hb] HR IH]; [reflexivity|]. cbn [map]. f_equal; [|exact IH].
      symmetry. apply (ordered_perm_P b a Hb). apply Permutation_sym. exact Hab. }
    assert (E2 : diff un (concat ext') = diff un (concat ext)).
    { apply diff_perm_r. apply concat_perm2. clear -HR. induction HR as [|a b ra rb [Hab _] HR IH]; constructor; assumption. }
    rewrite E1, E2. f_equal. f_equal. apply ordered_set_en. apply Hfin.
  - rewrite (H5 _ HU).
    destruct (mapM (hybrid_extend w (sort_by core_start_lt (iter un))) (merge_sets groups)) as [extended|k];
      cbn [bind]; [|reflexivity].
    f_equal. f_equal. apply ordered_set_en. apply Hfin.
Qed.

(* site 7 (by hypothesis), site 4 *)
Lemma find_interleaved_en : forall clusters cands, incl clusters P -> (forall c, In c cands -> incl (cmem c) P) ->
  find_interleaved_o en clusters cands w = find_interleaved clusters cands w.
Proof.
  intros clusters cands HC HK.
  pose proof (P5.find_interleaved_allin P clusters cands w) as HA.
  unfold find_interleaved_o. unfold find_interleaved in *. cbv zeta in *.
  destruct (with_cores w cands) as [cc|k]; cbn [bind] in *; [|reflexivity].
  match goal with |- context [find_cross_origin_interleaved ?a ?b ?c ?d] => destruct (find_cross_origin_interleaved a b c d) as [[found3 groups3]|k] end;
    cbn [bind] in *; [|reflexivity].
  destruct (HA _ _ eq_refl HC HK) as [HA1 _].
  rewrite (merge_sets_en _ HA1).
  f_equal. f_equal. apply Hneutral.
  intros x Hx. apply HC. apply P5.In_diff in Hx. exact Hx.
Qed.

(* a candidate of a linear record never crosses the origin *)
Lemma good_not_bridging : forall c, Forall proper P -> P5.good P None c -> bridges (cloc c) = false.
Proof.
  intros c Hpr [[Hne Hcon] Hin]. rewrite Forall_forall in Hpr.
  set (locs := map ploc (cmem c)) in *.
  assert (Hsimple : ASV.C04.Proofs.simple_locs locs).
  { unfold ASV.C04.Proofs.simple_locs. apply Forall_forall. intros l Hl. unfold locs in Hl. apply in_map_iff in Hl.
    destruct Hl as [p [He Hp]]. subst l. destruct (Hpr p (Hin p Hp)) as [q [Hq _]]. exists q. exact Hq. }
  assert (Hwf : Forall ASV.C04.Proofs.wf_loc locs).
  { apply Forall_forall. intros l Hl. unfold locs in Hl. apply in_map_iff in Hl.
    destruct Hl as [p [He Hp]]. subst l. destruct (Hpr p (Hin p Hp)) as [q [Hq Hlt]]. rewrite Hq.
    split; [discriminate|]. constructor; [exact Hlt|constructor]. }
  assert (Hlne : locs <> []).
  { unfold locs. destruct (cmem c); [exfalso; apply Hne; reflexivity|discriminate]. }
  destruct (ASV.C04.Proofs.connect_line_simple locs Hlne Hsimple Hwf) as [h [Hh _]].
  rewrite Hcon in Hh. inversion Hh as [Hcl]. rewrite Hcl. reflexivity.
Qed.

(* site 8 (never reached on linear records / by hypothesis), site 4 *)
Lemma find_neighbouring_en : forall singles cands, incl singles P -> (forall c, In c cands -> P5.good P w c) ->
  find_neighbouring_o en singles cands = find_neighbouring singles cands.
Proof.
  intros singles cands HSi HK0.
  assert (HK : forall c, In c cands -> incl (cmem c) P) by (intros c Hc; exact (proj2 (HK0 c Hc))).
  pose proof (P5.find_neighbouring_allin P singles cands HSi HK) as HA.
  unfold find_neighbouring_o. unfold find_neighbouring in *. cbv zeta in *.
  match goal with |- context [diff singles ?m] => set (un := diff singles m) in * end.
  assert (HU : incl un P) by (intros x Hx; apply HSi; apply P5.In_diff in Hx; exact Hx).
  destruct Hlin as [[Hw Hpr2]|[_ H8]].
  - assert (Hpr : Forall proper P) by (apply (Forall_impl _ (P := proper2)); [intros a Ha; exact (proj1 Ha)|exact Hpr2]).
    assert (Hb : forall c, In c cands -> bridges (cloc c) = false).
    { intros c Hc. apply good_not_bridging; [exact Hpr|]. rewrite <- Hw. apply HK0. exact Hc. }
    match goal with |- context [flat_map ?f ?e] =>
      match e with context [bridges] => assert (He : e = []) end end.
    { destruct (is_empty un || is_empty cands); [reflexivity|].
      destruct cands as [|c0 [|c1 r]]; [reflexivity| |].
      - rewrite (Hb c0 (or_introl eq_refl)). reflexivity.
      - rewrite (Hb c0 (or_introl eq_refl)). destruct (last_opt (c0 :: c1 :: r)) as [cl|] eqn:El; [|reflexivity].
        rewrite (Hb cl (P5.last_opt_In _ _ _ El)). reflexivity. }
    rewrite He in *. cbn [flat_map] in *. apply merge_sets_en. exact HA.
  - rewrite (H8 un HU). apply merge_sets_en. exact HA.
Qed.

Lemma formation_body_en : formation_body_o en P w = formation_body P w.
Proof.
  unfold formation_body_o, formation_body. cbv zeta.
  assert (HP : incl (ordered_list P) P) by (intros x Hx; exact (proj1 (P5.In_ordered_list _ _) Hx)).
  rewrite (find_hybrids_en _ HP).
  destruct (find_hybrids (ordered_list P) w) as [[hg un1]|k] eqn:E1; cbn [bind]; [|reflexivity].
  destruct (P5.find_hybrids_allin _ _ _ _ E1) as [A1 B1].
  assert (A1' : P5.allin P hg) by (intros g x Hg Hx; exact (HP x (A1 g x Hg Hx))).
  assert (B1' : incl un1 P) by (intros x Hx; exact (HP x (B1 x Hx))).
  assert (Hnil : forall c, In c (tvalues (@nil ((Z * Z) * cand))) -> P5.good P w c) by (intros c []).
  assert (Hnil2 : incl (@nil proto) P) by (intros x []).
  pose proof (build_candidates_en K_HYBRID hg [] [] [] A1' Hnil Hnil2 Hnil2 (fun i => iff_refl _)) as R1.
  unfold rel_bc in R1.
  destruct (build_candidates_o en w K_HYBRID hg [] []) as [[[c1' e1'] s1']|k1']; destruct (build_candidates w K_HYBRID hg [] []) as [[[c1 e1] s1]|k1] eqn:E2;
    cbn [bind]; try contradiction; [|rewrite R1; reflexivity].
  destruct R1 as [-> [-> [S1' [S1 I1]]]].
  destruct (P5.build_candidates_good P _ _ _ _ _ _ _ _ E2 A1' Hnil Hnil2) as [G1 [T1 _]].
  assert (K1 : forall c, In c c1 -> incl (cmem c) P) by (intros c Hc; exact (proj2 (G1 c Hc))).
  rewrite (find_interleaved_en un1 c1 B1' K1).
  destruct (find_interleaved un1 c1 w) as [[ig un2]|k] eqn:E3; cbn [bind]; [|reflexivity].
  destruct (P5.find_interleaved_allin P _ _ _ _ _ E3 B1' K1) as [A3 B3].
  assert (B3' : incl un2 P) by (intros x Hx; exact (B1' x (B3 x Hx))).
  pose proof (build_candidates_en K_INTERLEAVED ig e1 s1' s1 A3 T1 S1' S1 I1) as R2.
  unfold rel_bc in R2.
  destruct (build_candidates_o en w K_INTERLEAVED ig e1 s1') as [[[c2' e2'] s2']|k2']; destruct (build_candidates w K_INTERLEAVED ig e1 s1) as [[[c2 e2] s2]|k2] eqn:E4;
    cbn [bind]; try contradiction; [|rewrite R2; reflexivity].
  destruct R2 as [-> [-> [S2' [S2 I2]]]].
  destruct (P5.build_candidates_good P _ _ _ _ _ _ _ _ E4 A3 T1 S1) as [G2 [T2 _]].
  assert (K2 : forall c, In c c2 -> incl (cmem c) P) by (intros c Hc; exact (proj2 (G2 c Hc))).
  rewrite (find_neighbouring_en un2 c2 B3' G2).
  assert (A5 : P5.allin P (find_neighbouring un2 c2)) by (apply P5.find_neighbouring_allin; assumption).
  pose proof (build_candidates_en K_NEIGHBOURING (find_neighbouring un2 c2) e2 s2' s2 A5 T2 S2' S2 I2) as R3.
  unfold rel_bc in R3.
  destruct (build_candidates_o en w K_NEIGHBOURING (find_neighbouring un2 c2) e2 s2') as [[[c3' e3'] s3']|k3'];
    destruct (build_candidates w K_NEIGHBOURING (find_neighbouring un2 c2) e2 s2) as [[[c3 e3] s3]|k3] eqn:E5;
    cbn [bind]; try contradiction; [|rewrite R3; reflexivity].
  destruct R3 as [-> [-> [S3' [S3 I3]]]].
  assert (Eo : ordered_set_o en 3 (un2 ++ s3') = ordered_set (un2 ++ s3)).
  { assert (Ei : iter (un2 ++ s3') = iter (un2 ++ s3)).
    { apply iter_ext.
      - intros x Hx. apply in_app_or in Hx. destruct Hx as [Hx|Hx]; [exact (B3' x Hx)|exact (S3' x Hx)].
      - intros x Hx. apply in_app_or in Hx. destruct Hx as [Hx|Hx]; [exact (B3' x Hx)|exact (S3 x Hx)].
      - intros i. unfold P5.inS. rewrite !map_app, !in_app_iff. fold (P5.inS i s3'). fold (P5.inS i s3). rewrite (I3 i). tauto. }
    unfold ordered_set_o. unfold ordered_set. rewrite <- Ei. symmetry. apply ordered_perm_P.
    - intros x Hx. apply P5.In_iter in Hx. apply in_app_or in Hx. destruct Hx as [Hx|Hx]; [exact (B3' x Hx)|exact (S3' x Hx)].
    - apply Permutation_sym. apply Hen. }
  rewrite Eo. reflexivity.
Qed.

End Formation.

Lemma create_candidates_en : forall P, Forall simple P -> NoDup (map pid P) ->
  (forall a b, In a P -> In b P -> pkey a = pkey b -> prekey a = prekey b -> a = b) ->
  forall en, enumerator en -> tie_neutral P en -> forall w, linear_or_neutral P w en ->
  create_candidates_o en P w = create_candidates P w.
Proof.
  intros P HS HN HG en Hen Hneu w Hedge. pose proof (formation_body_en P HS HN HG en Hen Hneu w Hedge) as E.
  unfold create_candidates_o, create_candidates. destruct P as [|p ps]; [reflexivity|]. rewrite E. reflexivity.
Qed.

(* the model with explicit enumerators IS C05.Model.create_candidates (the one compared with the code on every run)
   at the ascending-id enumeration - for every input, no guard *)
Lemma build_go_o_asc : forall w kind groups existing singles,
  build_go_o en_asc w kind groups existing singles = build_go w kind groups existing singles.
Proof.
  intros w kind. induction groups as [|group rest IH]; intros existing singles; cbn [build_go_o build_go]; [reflexivity|].
  destruct (negb ((kind =? K_SINGLE) || (1 <? zlen group))); [reflexivity|].
  destruct (mk_cand w kind (ordered_list group)) as [candidate|k]; cbn [bind]; [|reflexivity].
  destruct (tget (ckey candidate) existing) as [ex|]; [|apply IH].
  unfold en_asc. destruct (is_empty (iter (diff group (iter (cmem ex))))); [apply IH|].
  destruct (mk_cand w (ckind ex) (ordered_list (iter (cmem ex) ++ iter (diff group (iter (cmem ex)))))); cbn [bind]; [apply IH|reflexivity].
Qed.

Lemma build_candidates_o_asc : forall w kind groups existing singles,
  build_candidates_o en_asc w kind groups existing singles = build_candidates w kind groups existing singles.
Proof. intros. unfold build_candidates_o, build_candidates. rewrite build_go_o_asc. reflexivity. Qed.

Lemma formation_o_iter_proof : forall protos w, create_candidates_o en_asc protos w = create_candidates protos w.
Proof.
  intros protos w. unfold create_candidates_o, create_candidates. destruct protos as [|p0 ps0]; [reflexivity|].
  set (P := p0 :: ps0).
  assert (E : formation_body_o en_asc P w = formation_body P w); [|rewrite E; reflexivity].
  unfold formation_body_o, formation_body. cbv zeta.
  change (find_hybrids_o en_asc (ordered_list P) w) with (find_hybrids (ordered_list P) w).
  destruct (find_hybrids (ordered_list P) w) as [[hg un1]|k]; cbn [bind]; [|reflexivity].
  rewrite build_candidates_o_asc.
  destruct (build_candidates w K_HYBRID hg [] []) as [[[c1 e1] s1]|k]; cbn [bind]; [|reflexivity].
  change (find_interleaved_o en_asc un1 c1 w) with (find_interleaved un1 c1 w).
  destruct (find_interleaved un1 c1 w) as [[ig un2]|k]; cbn [bind]; [|reflexivity].
  rewrite build_candidates_o_asc.
  destruct (build_candidates w K_INTERLEAVED ig e1 s1) as [[[c2 e2] s2]|k]; cbn [bind]; [|reflexivity].
  change (find_neighbouring_o en_asc un2 c2) with (find_neighbouring un2 c2).
  rewrite build_candidates_o_asc.
  destruct (build_candidates w K_NEIGHBOURING (find_neighbouring un2 c2) e2 s2) as [[[c3 e3] s3]|k]; cbn [bind]; [|reflexivity].
  reflexivity.
Qed.

(* ---- the statements of Theorems.v *)
Definition tie_guard (P : list proto) : Prop :=
  forall a b, In a P -> In b P -> pkey a = pkey b -> prekey a = prekey b -> a = b.

Lemma proper_simple : forall P, Forall proper2 P -> Forall simple P.
Proof.
  intros P H. rewrite Forall_forall in *. intros x Hx. destruct (H x Hx) as [[[s e st] [Hq Hlt]] _].
  exists s, e, st. split; [exact Hq|cbn [ps pe] in Hlt; lia].
Qed.

Lemma formation_perm_partial_proof : forall P w en en',
  Forall simple P -> NoDup (map pid P) -> tie_guard P ->
  enumerator en -> enumerator en' -> tie_neutral P en -> tie_neutral P en' ->
  linear_or_neutral P w en -> linear_or_neutral P w en' ->
  create_candidates_o en P w = create_candidates_o en' P w.
Proof.
  intros P w en en' HS HN HG He He' Ht Ht' Hd Hd'.
  rewrite (create_candidates_en P HS HN HG en He Ht w Hd), (create_candidates_en P HS HN HG en' He' Ht' w Hd'). reflexivity.
Qed.

(* when no two protoclusters share their coordinates or their core start, every enumerator is tie neutral *)
Lemma lexpp_irrefl : forall a, lexpp a a = false.
Proof. intros a. apply lex2_irrefl. Qed.
Lemma lexpp_trans : forall a b c, lexpp a b = true -> lexpp b c = true -> lexpp a c = true.
Proof. intros a b c. apply lex2_trans. Qed.

Lemma tie_neutral_distinct : forall P en, Forall simple P -> enumerator en ->
  (forall a b, In a P -> In b P -> pkey a = pkey b -> a = b) ->
  tie_neutral P en.
Proof.
  intros P en HS Hen Hk.
  assert (Hlt : forall k s, incl s P -> sort_by lt_pp (en k s) = sort_by lt_pp (iter s)).
  { intros k s Hs.
    assert (Hin : forall x, In x (en k s) -> In x P).
    { intros x Hx. apply Hs. apply P5.In_iter. apply (Permutation_in _ (Hen k s)). exact Hx. }
    assert (Hin2 : forall x, In x (iter s) -> In x P) by (intros x Hx; apply Hs; apply P5.In_iter; exact Hx).
    rewrite Forall_forall in HS.
    rewrite (sort_by_ext_in lt_pp lexpp (en k s)) by (intros a b Ia Ib; apply lt_pp_simple; apply HS; apply Hin; assumption).
    rewrite (sort_by_ext_in lt_pp lexpp (iter s)) by (intros a b Ia Ib; apply lt_pp_simple; apply HS; apply Hin2; assumption).
    apply (sort_by_perm_unique lexpp lexpp_irrefl lexpp_trans); [apply Hen|].
    intros a b Ia Ib H1 H2. apply Hk; [apply Hin; exact Ia|apply Hin; exact Ib|]. apply lex2_total; assumption. }
  intros s Hs. apply Hlt. exact Hs.
Qed.

Lemma formation_perm_linear_proof : forall P en en',
  Forall proper2 P -> NoDup (map pid P) ->
  (forall a b, In a P -> In b P -> pkey a = pkey b -> a = b) ->
  enumerator en -> enumerator en' ->
  create_candidates_o en P None = create_candidates_o en' P None.
Proof.
  intros P en en' Hpr HN Hk He He'. pose proof (proper_simple P Hpr) as HS.
  apply formation_perm_partial_proof; try assumption.
  - intros a b Ia Ib E _. apply Hk; assumption.
  - apply tie_neutral_distinct; assumption.
  - apply tie_neutral_distinct; assumption.
  - left. split; [reflexivity|exact Hpr].
  - left. split; [reflexivity|exact Hpr].
Qed.

Lemma en_desc_enumerator : enumerator en_desc.
Proof. intros k s. unfold en_desc. apply Permutation_sym. apply Permutation_rev. Qed.
Lemma en_hash_enumerator : forall a b m, enumerator (en_hash a b m).
Proof. intros a b m k s. unfold en_hash. apply sort_by_perm. Qed.
Lemma en_asc_enumerator : enumerator en_asc.
Proof. intros k s. apply Permutation_refl. Qed.
(* descending id wherever the result is claimed independent, ascending id at the plain sorts / the edge loop *)
Definition en_mixed : enum := fun k s => if (k =? 5) || (k =? 7) || (k =? 8) || (k =? 9) then iter s else rev (iter s).
Lemma en_mixed_enumerator : enumerator en_mixed.
Proof.
  intros k s. unfold en_mixed. destruct ((k =? 5) || (k =? 7) || (k =? 8) || (k =? 9)); [apply Permutation_refl|].
  apply Permutation_sym. apply Permutation_rev.
Qed.
Lemma en_mixed_neutral : forall P w, tie_neutral P en_mixed /\ linear_or_neutral P w en_mixed.
Proof. intros P w. split; [intros s _; reflexivity|right; split; intros s _; reflexivity]. Qed.
Lemma en_asc_neutral : forall P w, tie_neutral P en_asc /\ linear_or_neutral P w en_asc.
Proof. intros P w. split; [intros s _; reflexivity|right; split; intros s _; reflexivity]. Qed.

(* ================================================================== composition *)
Lemma pipeline_partial_proof : forall neighbour table N c nb crossing RN w
    (hits hits' : list (Z * C13.Model.hit)) (genes genes' : list agene) (P : list proto) (en en' : enum)
    (protos protos' : list uproto) (names names' notes notes' : list (list Z)),
  Permutation hits hits' -> Permutation genes genes' ->
  enumerator en -> enumerator en' ->
  Permutation protos protos' -> (forall x, In x names <-> In x names') -> Permutation notes notes' ->
  Forall simple P -> NoDup (map pid P) -> tie_guard P ->
  tie_neutral P en -> tie_neutral P en' -> linear_or_neutral P w en -> linear_or_neutral P w en' ->
  (crossing = true -> forall a b, In a protos -> In b protos -> red_key5 RN a = red_key5 RN b -> a = b) ->
  (crossing = false -> Forall wf_u protos /\
                       forall a b, In a protos -> In b protos -> lin_key a = lin_key b -> upre_key a = upre_key b -> a = b) ->
  refine_o neighbour table hits = refine_o neighbour table hits' /\
  find_protoclusters_o N c nb genes = find_protoclusters_o N c nb genes' /\
  create_candidates_o en P w = create_candidates_o en' P w /\
  (forall g g', incl g P -> Permutation g g' -> ordered_list g = ordered_list g') /\
  unique_protoclusters crossing RN protos = unique_protoclusters crossing RN protos' /\
  sorted_set names = sorted_set names' /\
  sorted_list notes = sorted_list notes'.
Proof.
  intros neighbour table N c nb crossing RN w hits hits' genes genes' P en en' protos protos' names names' notes notes'
         H1 H2 He He' H4 H5 H6 HS HN HG Ht Ht' Hd Hd' Hc Hu.
  split; [apply refine_o_perm_proof; exact H1|].
  split; [apply find_protoclusters_perm_proof; exact H2|].
  split; [apply formation_perm_partial_proof; assumption|].
  split; [intros g g' Hg Hp; apply (ordered_perm_P P HS HG); assumption|].
  split.
  - unfold unique_protoclusters. destruct crossing.
    + apply unique_crossing_perm_proof; [exact H4|apply Hc; reflexivity].
    + destruct (Hu eq_refl) as [Hw Hu']. apply unique_linear_perm_proof; assumption.
  - split; [apply sorted_set_ext_proof; exact H5|apply sorted_list_perm_proof; exact H6].
Qed.

(* (kept at the end of the file: the audit counts Section / End pairs) *)
From ASV.C04 Require Proofs.
Module DetP.
Module M03 := C03.Model.
Import DO.

(* ================================================================== detection on circular records: enumerators *)

Lemma klt_irrefl : forall a, M03.klt a a = false.
Proof.
  intros a. unfold M03.klt. destruct (M03.fkey a) as [k|]; [|reflexivity].
  unfold M03.pair_lt. lia.
Qed.
Lemma klt_trans : forall a b c, M03.klt a b = true -> M03.klt b c = true -> M03.klt a c = true.
Proof.
  intros a b c. unfold M03.klt.
  destruct (M03.fkey a) as [ka|]; [|discriminate].
  destruct (M03.fkey b) as [kb|]; [|discriminate].
  destruct (M03.fkey c) as [kc|]; [|discriminate].
  unfold M03.pair_lt. lia.
Qed.

(* the cores of a rule as a function of the LOCATIONS of the sorted genes only *)
Definition rc_locs (N : Z) (circular : bool) (r : M03.rule) (feats : list loc) : res (list loc) :=
  let w := M03.wrap_of N circular in
  let cross := filter bridges feats in
  let plain := sort_by M03.klt (filter (fun l => negb (bridges l)) feats) in
  do cross_cores <- mapM (fun l : loc => do c <- connect_locations (map (fun p => [p]) l) w; M03.mk_feature c) cross;
  do cores_rev <- fold_left (M03.sweep_step N circular (M03.r_cut r)) plain (Ok (rev cross_cores));
  let cores := rev cores_rev in
  match cores, cores_rev with
  | [], _ => Err E_Assert
  | first :: _, last :: before_rev =>
    if circular && (1 <? zlen cores) && (lstart last <? match first with p0 :: _ => ps p0 | [] => 0 end) then
      if dist first last w <? M03.r_cut r then
        do c <- connect_locations [last; first] w;
        Ok (c :: tl (rev before_rev))
      else Ok cores
    else Ok cores
  | _, _ => Ok cores
  end.

Lemma mapM_map {A B C} (g : A -> B) (f : B -> res C) : forall l, mapM (fun x => f (g x)) l = mapM f (map g l).
Proof. induction l as [|x xs IH]; cbn [mapM map]; [reflexivity|]. rewrite IH. reflexivity. Qed.
Lemma filter_map_snd {A B} (f : B -> bool) : forall l : list (A * B),
  map snd (filter (fun g => f (snd g)) l) = filter f (map snd l).
Proof. induction l as [|x xs IH]; cbn [filter map]; [reflexivity|]. destruct (f (snd x)); cbn [map]; rewrite IH; reflexivity. Qed.

Lemma rule_cores_via_locs : forall N circular r o,
  rule_cores_o N circular r o = rc_locs N circular r (map snd (sort_by gene_lt o)).
Proof.
  intros N circular r o. unfold rule_cores_o, rule_cores_gen, rc_locs.
  set (feats := sort_by gene_lt o).
  rewrite <- (filter_map_snd bridges feats).
  rewrite <- (filter_map_snd (fun l => negb (bridges l)) feats).
  rewrite <- (sort_by_map snd gene_lt M03.klt (fun a b => eq_refl)).
  rewrite <- (mapM_map snd (fun l : loc => do c <- connect_locations (map (fun p => [p]) l) (M03.wrap_of N circular); M03.mk_feature c)).
  reflexivity.
Qed.

(* no two genes of the enumerated set tie on the key of Feature.__lt__ unless they have the same location *)
Definition key_separates (o : list M03.gene) : Prop :=
  forall a b, In a o -> In b o -> M03.klt (snd a) (snd b) = false -> M03.klt (snd b) (snd a) = false -> snd a = snd b.

Lemma rule_cores_perm : forall N circular r o o',
  Permutation o o' -> key_separates o -> rule_cores_o N circular r o = rule_cores_o N circular r o'.
Proof.
  intros N circular r o o' Hp Hk. rewrite !rule_cores_via_locs. f_equal.
  rewrite !(sort_by_map snd gene_lt M03.klt (fun a b => eq_refl)).
  apply (sort_by_perm_unique M03.klt klt_irrefl klt_trans).
  - apply Permutation_map. exact Hp.
  - intros a b Ha Hb. apply in_map_iff in Ha. apply in_map_iff in Hb.
    destruct Ha as [ga [Ea Ia]]. destruct Hb as [gb [Eb Ib]]. subst a b. apply Hk; assumption.
Qed.

Lemma mapM_ext_in {A B} (f g : A -> res B) : forall l, (forall x, In x l -> f x = g x) -> mapM f l = mapM g l.
Proof.
  induction l as [|x xs IH]; intros H; cbn [mapM]; [reflexivity|].
  rewrite (H x (or_introl eq_refl)). rewrite IH; [reflexivity|]. intros y Hy. apply H. right. exact Hy.
Qed.

(* every enumerator yields a permutation of the set it is given *)
Definition enumerates (en : enum) : Prop := forall ri s, Permutation (en ri s) s.
(* guard for a dict of anchoring genes: within each rule the key separates the genes *)
Definition anchors_separated (gs : list M03.gene) (a : M03.anchors) : Prop :=
  forall e, In e a -> key_separates (anchoring gs (snd e)).

Lemma key_separates_perm : forall o o', Permutation o o' -> key_separates o -> key_separates o'.
Proof.
  intros o o' Hp Hk a b Ha Hb. apply Hk; apply (Permutation_in _ (Permutation_sym Hp)); assumption.
Qed.

Lemma initial_protos_perm : forall en en' N circular gs rules a,
  enumerates en -> enumerates en' -> anchors_separated gs a ->
  initial_protos_gen true en N circular gs rules a = initial_protos_gen true en' N circular gs rules a.
Proof.
  intros en en' N circular gs rules a He He' Hs. unfold initial_protos_gen.
  f_equal. apply mapM_ext_in. intros e Hin.
  change (rule_cores_gen true) with rule_cores_o.
  rewrite (rule_cores_perm N circular (M03.nth_rule rules (fst e)) (en (fst e) (anchoring gs (snd e))) (en' (fst e) (anchoring gs (snd e)))).
  - reflexivity.
  - apply Permutation_trans with (anchoring gs (snd e)); [apply He|apply Permutation_sym; apply He'].
  - apply key_separates_perm with (anchoring gs (snd e)); [apply Permutation_sym; apply He|apply Hs; exact Hin].
Qed.

Lemma find_protoclusters_o_perm_proof : forall en en' N circular gs hs rules a,
  enumerates en -> enumerates en' -> anchors_separated gs a ->
  find_protoclusters_o en N circular gs hs rules a = find_protoclusters_o en' N circular gs hs rules a.
Proof.
  intros. unfold find_protoclusters_o, find_protoclusters_gen.
  rewrite (initial_protos_perm en en'); [reflexivity|assumption..].
Qed.

Lemma detection_perm_proof : forall en en' N circular gs hs rules cached,
  enumerates en -> enumerates en' ->
  (forall a, M03.apply_cluster_rules N circular gs hs rules cached = Ok a -> anchors_separated gs a) ->
  pipeline_o en N circular gs hs rules cached = pipeline_o en' N circular gs hs rules cached.
Proof.
  intros en en' N circular gs hs rules cached He He' Hs. unfold pipeline_o, pipeline_gen.
  destruct gs as [|g0 gs']; [reflexivity|].
  destruct (mapM (fun g : M03.gene => M03.fkey (snd g)) (g0 :: gs')); [|reflexivity]. cbn [bind].
  destruct hs as [|h0 hs']; [reflexivity|].
  destruct (M03.apply_cluster_rules N circular (g0 :: gs') (h0 :: hs') rules cached) as [an|k] eqn:E; [|reflexivity].
  cbn [bind]. apply find_protoclusters_o_perm_proof; [assumption..|]. apply Hs. reflexivity.
Qed.

(* a record-wide sufficient condition *)
Lemma separated_of_record : forall gs a, key_separates gs -> anchors_separated gs a.
Proof.
  intros gs a Hk e _ x y Hx Hy. unfold anchoring in *. apply filter_In in Hx. apply filter_In in Hy.
  apply Hk; [exact (proj1 Hx)|exact (proj1 Hy)].
Qed.

(* the decidable guard *)
Lemma no_key_ties_sound : forall l, no_key_ties l = true ->
  forall a b, In a l -> In b l -> M03.klt a b = false -> M03.klt b a = false -> a = b.
Proof.
  induction l as [|x xs IH]; intros H a b Ha Hb Hab Hba; [destruct Ha|].
  cbn [no_key_ties] in H. apply andb_true_iff in H. destruct H as [Hx Hxs].
  rewrite forallb_forall in Hx.
  destruct Ha as [Ea|Ha]; destruct Hb as [Eb|Hb].
  - subst. reflexivity.
  - subst a. specialize (Hx b Hb). rewrite Hab, Hba in Hx. cbn in Hx. apply C04.Proofs.loc_eqb_eq. exact Hx.
  - subst b. specialize (Hx a Ha). rewrite Hab, Hba in Hx. cbn in Hx. symmetry. apply C04.Proofs.loc_eqb_eq. exact Hx.
  - apply IH; assumption.
Qed.
Lemma no_key_ties_separates : forall gs, no_key_ties (map snd gs) = true -> key_separates gs.
Proof.
  intros gs H a b Ha Hb. apply (no_key_ties_sound _ H); apply in_map; assumption.
Qed.

(* at the identity enumerator the model is C03's *)
Lemma detection_o_id_proof : forall N circular gs hs rules cached,
  pipeline_o en_id N circular gs hs rules cached = M03.pipeline N circular gs hs rules cached.
Proof. reflexivity. Qed.

Lemma en_rev_enumerates : enumerates en_rev.
Proof. intros ri s. unfold en_rev. apply Permutation_sym. apply Permutation_rev. Qed.
Lemma en_id_enumerates : enumerates en_id.
Proof. intros ri s. apply Permutation_refl. Qed.

Lemma detection_perm_record_proof : forall en en' N circular gs hs rules cached,
  enumerates en -> enumerates en' -> no_key_ties (map snd gs) = true ->
  pipeline_o en N circular gs hs rules cached = pipeline_o en' N circular gs hs rules cached.
Proof.
  intros en en' N circular gs hs rules cached He He' Hk. apply detection_perm_proof; [assumption..|].
  intros a _. apply separated_of_record. apply no_key_ties_separates. exact Hk.
Qed.

(* ---- witnesses (circular record of 100 000 bp; rule 0 = superior `p1`, rule 1 = inferior `p0` SUPERIORS rule 0) *)
Definition w_rule (cut : Z) (prof : Z) (sup : list Z) : M03.rule :=
  M03.mkRule cut 1000 (C01.Model.Group false [C01.Model.ICond (C01.Model.Single false prof)]) None sup.
Definition w_hits : M03.hits := [(0, [(0, 0)]); (1, [(0, 0)]); (2, [(0, 0); (1, 0)]); (3, [(0, 0)])].
(* finding crossing_anchor_key_tie_set_order: genes 0 and 1 cross the origin, same start 99001 and same length 3999, gene 1
   has two exons before the origin and reaches 800 bp further; gene 2 lies 600 bp after gene 1 and 1400 bp after gene 0 *)
Definition w_tie_genes : list M03.gene :=
  [(0, [mkPart 99001 100000 1; mkPart 0 3000 1]);
   (1, [mkPart 99001 99100 1; mkPart 99900 100000 1; mkPart 0 3800 1]);
   (2, [mkPart 4400 4700 1]); (3, [mkPart 50000 50600 1])].
Definition w_tie_rules : list M03.rule := [w_rule 1000 1 []; w_rule 1000 0 [0]].
(* round-4 seed: a short origin-crossing gene (1) nested in a long one (0), gene 2 within the cutoff of the long one only;
   Feature.__lt__ separates all four genes *)
Definition w_nested_genes : list M03.gene :=
  [(0, [mkPart 99001 100000 1; mkPart 0 3000 1]); (1, [mkPart 99700 100000 1; mkPart 0 200 1]);
   (2, [mkPart 4000 4600 1]); (3, [mkPart 50000 50600 1])].
Definition w_nested_rules : list M03.rule := [w_rule 2000 1 []; w_rule 2000 0 [0]].

Lemma detection_key_tie_refuted_proof :
  exists N gs hs rules en en', enumerates en /\ enumerates en' /\
    pipeline_o en N true gs hs rules true <> pipeline_o en' N true gs hs rules true.
Proof.
  exists 100000, w_tie_genes, w_hits, w_tie_rules, en_id, en_rev.
  split; [exact en_id_enumerates|]. split; [exact en_rev_enumerates|].
  vm_compute. discriminate.
Qed.

(* the first sorted() is needed: without it the cores of the origin-crossing genes follow the enumeration although no two
   genes tie on the key; the code (with it) gives one result for the same input *)
Lemma detection_presort_needed_refuted_proof :
  exists N gs hs rules en en', enumerates en /\ enumerates en' /\ no_key_ties (map snd gs) = true /\
    pipeline_gen false en N true gs hs rules true <> pipeline_gen false en' N true gs hs rules true /\
    pipeline_o en N true gs hs rules true = pipeline_o en' N true gs hs rules true.
Proof.
  exists 100000, w_nested_genes, w_hits, w_nested_rules, en_id, en_rev.
  split; [exact en_id_enumerates|]. split; [exact en_rev_enumerates|].
  split; [vm_compute; reflexivity|]. split; [vm_compute; discriminate|vm_compute; reflexivity].
Qed.


End DetP.



(* ---------- get_ruleset: the selected rules come in file order whatever the enumeration of the set of names ---------- *)
Lemma select_rules_ext_proof : forall n en en', (forall x, In x en <-> In x en') -> select_rules n en = select_rules n en'.
Proof.
  intros n en en' H. unfold select_rules. apply filter_ext. intros i.
  destruct (existsb (Z.eqb i) en) eqn:E; destruct (existsb (Z.eqb i) en') eqn:E'; try reflexivity; exfalso.
  - apply existsb_exists in E. destruct E as (x & Hx & Hi). apply Z.eqb_eq in Hi. subst x.
    assert (existsb (Z.eqb i) en' = true); [|congruence]. apply existsb_exists. exists i. split; [apply H; exact Hx|apply Z.eqb_refl].
  - apply existsb_exists in E'. destruct E' as (x & Hx & Hi). apply Z.eqb_eq in Hi. subst x.
    assert (existsb (Z.eqb i) en = true); [|congruence]. apply existsb_exists. exists i. split; [apply H; exact Hx|apply Z.eqb_refl].
Qed.

Lemma select_rules_spec_proof : forall n en i, In i (select_rules n en) <-> (0 <= i < n /\ In i en).
Proof.
  intros n en i. unfold select_rules. rewrite filter_In, in_map_iff. split.
  - intros ((k & Hk & Hin) & Hm). apply in_seq in Hin. apply existsb_exists in Hm. destruct Hm as (x & Hx & Hi).
    apply Z.eqb_eq in Hi. subst x. split; [lia|exact Hx].
  - intros (Hr & Hin). split.
    + exists (Z.to_nat i). split; [lia|]. apply in_seq. lia.
    + apply existsb_exists. exists i. split; [exact Hin|apply Z.eqb_refl].
Qed.

Lemma select_in_set_order_refuted_proof : exists n en en', (forall x, In x en <-> In x en') /\
  select_in_set_order n en <> select_in_set_order n en' /\ select_rules n en = select_rules n en'.
Proof. exists 5, [3; 1], [1; 3]. split; [intros x; cbn; tauto|]. split; [vm_compute; discriminate|reflexivity]. Qed.


(* ---------- SecMetQualifier.add_domains: the order of the stored domains is the order of first mention ---------- *)
Lemma add_domains_step held d :
  add_domains held [d] = if existsb (Z.eqb d) held then held else held ++ [d].
Proof. reflexivity. Qed.

Lemma add_domains_app held a b : add_domains held (a ++ b) = add_domains (add_domains held a) b.
Proof. unfold add_domains. apply fold_left_app. Qed.

(* one call with the batches concatenated gives what the history of calls gives: nothing but the order of mention counts *)
Lemma add_domains_history_concat : forall batches held,
  fold_left add_domains batches held = add_domains held (concat batches).
Proof.
  induction batches as [|b bs IH]; intros held; cbn [fold_left concat]; [reflexivity|].
  rewrite IH, add_domains_app. reflexivity.
Qed.
