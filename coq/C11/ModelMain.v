(* C11 (main level): faithful model of the bookkeeping of saved / regenerated / new module results in
     antismash/main.py         run_module, analyse_record, the per-module part of run_detection
     antismash/common/serialiser.py  dump_records (only its test of the type of every entry)
   State = the dict `module_results` of one record (module name -> entry), in insertion order.
   An entry is the raw JSON dict of a previous run (MRaw), a ModuleResults instance (MRes), any other
   object (MJunk) or None.  Objects are named by integer identities; `t` is the truth value of the
   object (an empty dict is falsy, TTAResults defines __len__): run_module stores regenerated results
   with `if results is not None:` (repaired FC11a, formerly the truth test `if results:`), the truth
   value is still read by run_detection's `if results:` before the results are handed to the record.
   A module is described by what its functions do when they are called (mbeh): the outcome of
   regenerate_previous_results on the saved results, membership of options.all_enabled_modules,
   is_enabled(options), and the outcome of run_on_record.
   The trace lists the calls made: [1;name;raw id] regenerate_previous_results(raw), [2;name;given]
   run_on_record(results given, -1 = None), [3;name] timing recorded, [4;name;id] results handed to the
   record by run_detection (add_to_record / get_predicted_protoclusters).
   No proofs in this file. *)
From ASV Require Import Base.
Open Scope Z_scope.

Inductive mentry : Type :=
| MRaw (id : Z) (t : bool)
| MRes (id : Z) (t : bool)
| MJunk (id : Z) (t : bool)
| MNone.

Definition mmap := list (Z * mentry).

Inductive regen_out : Type :=
| RNone                        (* declined: returns None *)
| RRes (id : Z) (t : bool)     (* accepted: a ModuleResults instance *)
| RJunk (id : Z) (t : bool)    (* breaks the interface: some other object *)
| RRaise (k : Z).

Inductive run_out : Type :=
| UNew (id : Z) (t : bool)     (* new results *)
| UReuse (id : Z) (t : bool)   (* returns the results it was given; new results (id, t) when given None *)
| UJunk                        (* breaks the interface: not a ModuleResults instance *)
| URaise (k : Z).

Record mbeh := mkBeh { mb_name : Z; mb_regen : regen_out; mb_in_all : bool; mb_enabled : bool; mb_run : run_out }.

(* dict operations: d.get(n); d.pop(n, None) leaves the dict without n; d[n] = e keeps the position
   of an existing key and appends a new one *)
Fixpoint mget (n : Z) (m : mmap) : option mentry :=
  match m with
  | [] => None
  | (k, e) :: r => if k =? n then Some e else mget n r
  end.
Definition mremove (n : Z) (m : mmap) : mmap := filter (fun p => negb (fst p =? n)) m.
Fixpoint mset (n : Z) (e : mentry) (m : mmap) : mmap :=
  match m with
  | [] => [(n, e)]
  | (k, e') :: r => if k =? n then (k, e) :: r else (k, e') :: mset n e r
  end.

(* the local variable `results` after the regeneration part *)
Inductive regd : Type := GNone | GRes (id : Z) (t : bool) | GJunk (id : Z) (t : bool).

(*  previous_results = module_results.pop(module.__name__, None)
    results = None
    if previous_results is not None:
        assert isinstance(previous_results, dict)
        results = module.regenerate_previous_results(previous_results, record, options)
        if results is not None:
            module_results[module.__name__] = results                                   *)
Definition regen_phase (b : mbeh) (m : mmap) : res (mmap * regd * list Z) :=
  let n := mb_name b in
  let m1 := mremove n m in
  match mget n m with
  | None => Ok (m1, GNone, [])
  | Some MNone => Ok (m1, GNone, [])
  | Some (MRaw id _) =>
    match mb_regen b with
    | RRaise k => Err k
    | RNone => Ok (m1, GNone, [1; n; id])
    | RRes i t => Ok (mset n (MRes i t) m1, GRes i t, [1; n; id])
    | RJunk i t => Ok (mset n (MJunk i t) m1, GJunk i t, [1; n; id])
    end
  | Some (MRes _ _) => Err E_Assert
  | Some (MJunk _ _) => Err E_Assert
  end.

(*  if module not in options.all_enabled_modules: return
    assert results is None or isinstance(results, ModuleResults)
    if not module.is_enabled(options): return
    results = module.run_on_record(record, results, options)
    assert isinstance(results, ModuleResults)
    module_results[module.__name__] = results
    timings[module.__name__] = duration                                                  *)
Definition run_module (b : mbeh) (m : mmap) : res (mmap * list Z) :=
  let n := mb_name b in
  match regen_phase b m with
  | Err k => Err k
  | Ok (m2, g, tr) =>
    if negb (mb_in_all b) then Ok (m2, tr) else
    match g with
    | GJunk _ _ => Err E_Assert
    | _ =>
      if negb (mb_enabled b) then Ok (m2, tr) else
      let given := match g with GRes i _ => i | _ => -1 end in
      let tr2 := tr ++ [2; n; given; 3; n] in
      match mb_run b with
      | URaise k => Err k
      | UJunk => Err E_Assert
      | UNew i t => Ok (mset n (MRes i t) m2, tr2)
      | UReuse i t =>
        match g with
        | GRes i' t' => Ok (mset n (MRes i' t') m2, tr2)
        | _ => Ok (mset n (MRes i t) m2, tr2)
        end
      end
    end
  end.

Definition entry_truthy (e : mentry) : bool :=
  match e with MRaw _ t => t | MRes _ t => t | MJunk _ t => t | MNone => false end.

(* run_detection, per module:  run_module(...); results = module_results.get(name)
                               if results: assert isinstance(results, ModuleResults); hand them to the record *)
Definition detection_step (b : mbeh) (m : mmap) : res (mmap * list Z) :=
  let n := mb_name b in
  match run_module b m with
  | Err k => Err k
  | Ok (m', tr) =>
    match mget n m' with
    | Some e =>
      if entry_truthy e then
        match e with
        | MRes i _ => Ok (m', tr ++ [4; n; i])
        | _ => Err E_Assert
        end
      else Ok (m', tr)
    | None => Ok (m', tr)
    end
  end.

(* analyse_record / the module loops of run_detection: one step per module, in order; an exception ends the run *)
Fixpoint run_modules (step : mbeh -> mmap -> res (mmap * list Z)) (bs : list mbeh) (m : mmap) : res (mmap * list Z) :=
  match bs with
  | [] => Ok (m, [])
  | b :: r =>
    match step b m with
    | Err k => Err k
    | Ok (m1, t1) =>
      match run_modules step r m1 with
      | Err k => Err k
      | Ok (m2, t2) => Ok (m2, t1 ++ t2)
      end
    end
  end.
Definition analyse_record := run_modules run_module.
Definition run_detection := run_modules detection_step.

(* serialiser.dump_records: None is skipped, a ModuleResults instance is saved, anything else is a TypeError *)
Definition entry_dumpable (e : mentry) : bool :=
  match e with MRes _ _ => true | MNone => true | _ => false end.
Definition dump_ok (m : mmap) : bool := forallb (fun p => entry_dumpable (snd p)) m.

(* ---------- the property at this level, as a decidable specification ---------- *)
Definition names_of (bs : list mbeh) : list Z := map mb_name bs.
Definition keys_of (m : mmap) : list Z := map fst m.
Definition zmem (x : Z) (l : list Z) : bool := existsb (Z.eqb x) l.
Fixpoint nodupb (l : list Z) : bool :=
  match l with [] => true | x :: r => negb (zmem x r) && nodupb r end.

Definition is_raw (e : mentry) : bool := match e with MRaw _ _ => true | _ => false end.
(* the situation the pipeline is in when a results file is reused: the entry of every visited module is
   saved JSON or absent, every module is visited at most once, honours its interface and does not raise *)
Definition beh_contract (b : mbeh) : bool :=
  match mb_regen b with RJunk _ _ => false | _ => true end &&
  match mb_run b with UJunk => false | _ => true end.
Definition beh_no_raise (b : mbeh) : bool :=
  match mb_regen b with RRaise _ => false | _ => true end &&
  match mb_run b with URaise _ => false | _ => true end.
Definition raw_or_absentb (o : option mentry) : bool :=
  match o with None => true | Some (MRaw _ _) => true | _ => false end.
Definition applicable (bs : list mbeh) (m : mmap) : bool :=
  forallb (fun b => raw_or_absentb (mget (mb_name b) m)) bs && nodupb (keys_of m) && nodupb (names_of bs) &&
  forallb beh_contract bs && forallb beh_no_raise bs.

Definition ran (b : mbeh) : bool := mb_in_all b && mb_enabled b.
Definition had_raw (b : mbeh) (m : mmap) : bool :=
  match mget (mb_name b) m with Some (MRaw _ _) => true | _ => false end.
(* what the property asks to be in hand for module b afterwards: the new results when the module ran
   (the regenerated ones when it chose to reuse them), otherwise the regenerated results when the
   saved ones were accepted, otherwise NOTHING (declined results are discarded) *)
Definition expected_entry (b : mbeh) (m : mmap) : option mentry :=
  let g := if had_raw b m then mb_regen b else RNone in
  if ran b then
    match mb_run b, g with
    | UReuse _ _, RRes i t => Some (MRes i t)
    | UReuse i t, _ => Some (MRes i t)
    | UNew i t, _ => Some (MRes i t)
    | _, _ => None
    end
  else match g with RRes i t => Some (MRes i t) | _ => None end.

Definition entry_eqb (a b : mentry) : bool :=
  match a, b with
  | MRaw i s, MRaw j t => (i =? j) && Bool.eqb s t
  | MRes i s, MRes j t => (i =? j) && Bool.eqb s t
  | MJunk i s, MJunk j t => (i =? j) && Bool.eqb s t
  | MNone, MNone => true
  | _, _ => false
  end.
Definition oentry_eqb (a b : option mentry) : bool :=
  match a, b with
  | Some x, Some y => entry_eqb x y
  | None, None => true
  | _, _ => false
  end.

(* verdict on a final map m' (with the flag `dumped`: dump_records went through) for input (bs, m) *)
Definition spec_final (bs : list mbeh) (m : mmap) (m' : mmap) (dumped : bool) : bool :=
  forallb (fun b => oentry_eqb (mget (mb_name b) m') (expected_entry b m)) bs &&
  forallb (fun k => zmem k (names_of bs) || oentry_eqb (mget k m') (mget k m)) (keys_of m) &&
  forallb (fun k => zmem k (names_of bs) || zmem k (keys_of m)) (keys_of m') &&
  nodupb (keys_of m') &&
  (negb (forallb (fun k => zmem k (names_of bs)) (keys_of m)) || dumped).

(* the class of the repaired finding FC11a (accepted results that are falsy, module not run): no longer excluded
   from anything - the specification covers it; kept as a predicate so that the harness can count how often
   the class is met and the theorems can name it *)
Definition accepted_falsy_unrun (m : mmap) (b : mbeh) : bool :=
  negb (ran b) && had_raw b m && match mb_regen b with RRes _ false => true | _ => false end.
(* no recorded finding class is left at this level: the run-time guard is applicability alone *)
Definition guard (bs : list mbeh) (m : mmap) : bool := applicable bs m.

(* ---------- flat encoding ---------- *)
Definition d_entry : dec (Z * mentry) := fun l =>
  match l with
  | n :: k :: i :: t :: r =>
    let tb := negb (t =? 0) in
    Some ((n, if k =? 0 then MRaw i tb else if k =? 1 then MRes i tb else if k =? 2 then MJunk i tb else MNone), r)
  | _ => None
  end.
Definition e_entry (p : Z * mentry) : list Z :=
  match snd p with
  | MRaw i t => [fst p; 0; i; if t then 1 else 0]
  | MRes i t => [fst p; 1; i; if t then 1 else 0]
  | MJunk i t => [fst p; 2; i; if t then 1 else 0]
  | MNone => [fst p; 3; 0; 0]
  end.
Definition d_beh : dec mbeh := fun l =>
  match l with
  | n :: rk :: ri :: rt :: ia :: en :: uk :: ui :: ut :: r =>
    let rg := if rk =? 0 then RNone else if rk =? 1 then RRes ri (negb (rt =? 0))
              else if rk =? 2 then RJunk ri (negb (rt =? 0)) else RRaise rt in
    let ru := if uk =? 0 then UNew ui (negb (ut =? 0)) else if uk =? 1 then UReuse ui (negb (ut =? 0))
              else if uk =? 2 then UJunk else URaise ut in
    Some (mkBeh n rg (negb (ia =? 0)) (negb (en =? 0)) ru, r)
  | _ => None
  end.

(* [0; dumped; n; entries...; trace...] or [1; kind] *)
Definition e_outcome (r : res (mmap * list Z)) : list Z :=
  match r with
  | Err k => [1; k]
  | Ok (m, tr) => 0 :: (if dump_ok m then 1 else 0) :: eList e_entry m ++ tr
  end.

Definition pipeline (mode : Z) (bs : list mbeh) (m : mmap) : res (mmap * list Z) :=
  if mode =? 0 then analyse_record bs m else run_detection bs m.

(* fn 9: [mode; map; modules] -> outcome.   fn 19: the same followed by the implementation's outcome ->
   [verdict; applicable; regression class]  (verdict 1 = satisfied or not applicable; regression class 1 = the
   case lies in the class of the repaired finding FC11a - informative only, nothing is suppressed for it) *)
Definition run_main_level (spec : bool) (l : list Z) : list Z :=
  match l with
  | mode :: r0 =>
    match dList d_entry r0 with
    | Some (m, r1) =>
      match dList d_beh r1 with
      | Some (bs, rest) =>
        if negb spec then
          match rest with [] => e_outcome (pipeline mode bs m) | _ => bad_input end
        else
          let app := applicable bs m in
          let cls := if existsb (accepted_falsy_unrun m) bs then 1 else 0 in
          let verdict :=
            if negb app then true else
            match rest with
            | 0 :: d :: r2 =>
              match dList d_entry r2 with
              | Some (m', _) => spec_final bs m m' (negb (d =? 0))
              | None => false
              end
            | _ => false     (* the run died although nothing raised and every module honoured its interface *)
            end in
          [if verdict then 1 else 0; if app then 1 else 0; cls]
      | None => bad_input
      end
    | None => bad_input
    end
  | [] => bad_input
  end.
