(* C11 (rule payload): faithful model of the protocluster / CDS payload of RuleDetectionResults.
   Modelled (file:function):
     common/secmet/qualifiers/secmet.py          SecMetQualifier.Domain.from_json / to_json / __init__
     common/hmm_rule_parser/cluster_prediction.py CDSResults.from_json / to_json / __init__,
                                                 RuleDetectionResults.from_json / to_json
     common/serialiser.py                        feature_to_json / feature_from_json
     common/secmet/features/protocluster.py      Protocluster.from_biopython / to_biopython / __init__
     common/secmet/features/cdscollection.py     CDSCollection.from_biopython / to_biopython (contig_edge)
     common/secmet/features/feature.py           Feature.to_biopython (qualifiers sorted by key, "tool")
     common/hmm_rule_parser/structures.py        Multipliers (C11.Model.multipliers_from_json)
   Protocluster.__init__ location checks and the core_location parse are C10.Model.build_proto.
   Not modelled (Err E_Unmodelled): sideloaded protoclusters (aStool "externally annotated..."), t2pks /
   note / leftover qualifiers, fuzzy (< >) positions and compound operators other than "join",
   a "tool" qualifier different from ["antismash"], qualifier values that are not lists of strings.
   No proofs in this file. *)
From ASV Require Import Base Loc.
From ASV.C11 Require Import Model.
From ASV.C11 Require ModelMain ModelTop.
From ASV.C10 Require Model.
From Coq Require Import String Ascii.
Close Scope string_scope.
Open Scope Z_scope.



(* ---------- SecMetQualifier.Domain ---------- *)
Record domain := mkDomain { dm_name : list Z; dm_evalue : q; dm_bitscore : q; dm_nseeds : Z; dm_tool : list Z }.

Definition dom_to_json (d : domain) : jv :=
  JArr [JStr (dm_name d); jq (dm_evalue d); jq (dm_bitscore d); JInt (dm_nseeds d); JStr (dm_tool d)].

(* assert len(json) == 5; cls(str(json[0]), float(json[1]), float(json[2]), int(json[3]), str(json[4])) *)
Definition dom_from_json (j : jv) : res domain :=
  match j with
  | JArr [j0; j1; j2; j3; j4] =>
    do name <- as_str j0;
    do ev <- as_flt j1;
    do bs <- as_flt j2;
    do n <- as_int j3;
    do tool <- as_str j4;
    Ok (mkDomain name ev bs n tool)
  | JArr _ => Err E_Assert
  | _ => Err E_Unmodelled
  end.

(* ---------- sets of strings: strictly ascending lists under code-point lexicographic order ---------- *)
Fixpoint slt (a b : list Z) : bool :=
  match a, b with
  | [], [] => false
  | [], _ :: _ => true
  | _ :: _, [] => false
  | x :: xs, y :: ys => if x <? y then true else if y <? x then false else slt xs ys
  end.

(* insertion into a strictly ascending list, an equal element is not inserted again *)
Fixpoint sins (x : list Z) (l : list (list Z)) : list (list Z) :=
  match l with
  | [] => [x]
  | y :: r => if slt x y then x :: l else if slt y x then y :: sins x r else l
  end.
(* sorted(set(l)) *)
Definition ssort (l : list (list Z)) : list (list Z) := fold_right sins [] l.

Fixpoint sasc (l : list (list Z)) : bool :=
  match l with
  | x :: r => match r with y :: _ => slt x y && sasc r | [] => true end
  | [] => true
  end.

(* ---------- CDSResults ---------- *)
Record cdsres := mkCds { cd_name : list Z; cd_domains : list domain;
                         cd_defs : list (list Z * list (list Z)) }.

Definition K_cds_name := zs "cds_name".
Definition K_domains := zs "domains".
Definition K_definition_domains := zs "definition_domains".

Definition def_to_json (p : list Z * list (list Z)) : list Z * jv := (fst p, JArr (map JStr (snd p))).

Definition cds_to_json (c : cdsres) : jv :=
  JObj [(K_cds_name, JStr (cd_name c));
        (K_domains, JArr (map dom_to_json (cd_domains c)));
        (K_definition_domains, JObj (map def_to_json (cd_defs c)))].

(* key: set(val) *)
Definition def_from_json (p : list Z * jv) : res (list Z * list (list Z)) :=
  match snd p with
  | JArr l => do ss <- mapR as_str l; Ok (fst p, ssort ss)
  | _ => Err E_Unmodelled
  end.

(* CDSResults.from_json: domains, then record.get_cds_by_name(json["cds_name"]), then the definition
   domains, then CDSResults.__init__ (assert domains).  [names] = the CDS names of the record. *)
Definition cds_from_json (names : list (list Z)) (j : jv) : res cdsres :=
  match j with
  | JObj kv =>
    do dj <- jget K_domains kv;
    match dj with
    | JArr dl =>
      do ds <- mapR dom_from_json dl;
      do nj <- jget K_cds_name kv;
      match nj with
      | JStr n =>
        if negb (existsb (seqb n) names) then Err E_Key else
        do ddj <- jget K_definition_domains kv;
        match ddj with
        | JObj items =>
          do defs <- mapR def_from_json items;
          if C14.Model.nonempty ds then Ok (mkCds n ds defs) else Err E_Assert
        | _ => Err E_Unmodelled
        end
      | _ => Err E_Unmodelled
      end
    | _ => Err E_Unmodelled
    end
  | _ => Err E_Unmodelled
  end.

(* ---------- Protocluster ---------- *)
Record pcl := mkPcl { pc_loc : loc; pc_core : loc; pc_tool : list Z; pc_product : list Z;
                      pc_cutoff : Z; pc_neigh : Z; pc_rule : list Z; pc_cat : list Z;
                      pc_inrec : option (Z * bool) }.

Definition K_location := zs "location".
Definition K_type := zs "type".
Definition K_qualifiers := zs "qualifiers".
Definition Q_aStool := zs "aStool".
Definition Q_category := zs "category".
Definition Q_contig_edge := zs "contig_edge".
Definition Q_core_location := zs "core_location".
Definition Q_cutoff := zs "cutoff".
Definition Q_detection_rule := zs "detection_rule".
Definition Q_neighbourhood := zs "neighbourhood".
Definition Q_product := zs "product".
Definition Q_protocluster_number := zs "protocluster_number".
Definition Q_tool := zs "tool".
Definition T_protocluster := zs "protocluster".
Definition T_antismash := zs "antismash".
Definition T_True := zs "True".
Definition T_False := zs "False".

Definition known_qualifiers : list (list Z) :=
  [Q_aStool; Q_category; Q_contig_edge; Q_core_location; Q_cutoff; Q_detection_rule; Q_neighbourhood;
   Q_product; Q_protocluster_number; Q_tool].

Definition one (s : list Z) : jv := JArr [JStr s].

(* feature_to_json(cluster.to_biopython()[0]) on the texts; Feature.to_biopython emits the
   qualifiers sorted by key *)
Definition pcl_json (sloc score scut sneigh tool product rule cat : list Z) (inrec : option (Z * bool)) : jv :=
  JObj [(K_location, JStr sloc);
        (K_type, JStr T_protocluster);
        (K_qualifiers, JObj (
           [(Q_aStool, one tool)]
           ++ match cat with [] => [] | _ => [(Q_category, one cat)] end
           ++ match inrec with
              | Some (_, edge) => [(Q_contig_edge, one (if edge then T_True else T_False))]
              | None => []
              end
           ++ [(Q_core_location, one score); (Q_cutoff, one scut); (Q_detection_rule, one rule);
               (Q_neighbourhood, one sneigh); (Q_product, one product)]
           ++ match inrec with
              | Some (n, _) => [(Q_protocluster_number, one (ASV.C10.Model.str_of_int n))]
              | None => []
              end
           ++ [(Q_tool, one T_antismash)]))].

Definition pcl_to_json (p : pcl) : jv :=
  pcl_json (ASV.C10.Model.loc_str (ASV.C10.Model.tloc_of_loc (pc_loc p))) (ASV.C10.Model.loc_str (ASV.C10.Model.tloc_of_loc (pc_core p)))
           (ASV.C10.Model.str_of_int (pc_cutoff p)) (ASV.C10.Model.str_of_int (pc_neigh p))
           (pc_tool p) (pc_product p) (pc_rule p) (pc_cat p) (pc_inrec p).

(* only exact positions, compound locations joined with "join": what Common/Loc.v can hold *)
Definition exact_part (t : ASV.C10.Model.tpart) : bool := (ASV.C10.Model.tk (ASV.C10.Model.tps t) =? 0) && (ASV.C10.Model.tk (ASV.C10.Model.tpe t) =? 0).
Definition exact_tloc (t : ASV.C10.Model.tloc) : bool :=
  match t with
  | ASV.C10.Model.TSingle p => exact_part p
  | ASV.C10.Model.TCompound op ps => seqb op ASV.C10.Model.join_text && forallb exact_part ps
  end.

(* qualifier value [0] *)
Definition qfirst (v : jv) : res (list Z) :=
  match v with
  | JArr (JStr s :: _) => Ok s
  | JArr [] => Err E_Index
  | _ => Err E_Unmodelled
  end.
(* leftovers.pop(key)[0] inside `try ... except KeyError: raise ValueError` *)
Definition qpop (k : list Z) (qs : list (list Z * jv)) : res (list Z) :=
  match jfind k qs with Some v => qfirst v | None => Err E_Value end.
(* leftovers.pop(key, [""])[0] / leftovers.get(key, [""])[0] *)
Definition qpopd (k : list Z) (qs : list (list Z * jv)) : res (list Z) :=
  match jfind k qs with Some v => qfirst v | None => Ok [] end.

Definition is_alnum (c : Z) : bool :=
  ((48 <=? c) && (c <=? 57)) || ((65 <=? c) && (c <=? 90)) || ((97 <=? c) && (c <=? 122)).
Definition is_sep (c : Z) : bool := (c =? 45) || (c =? 95).
(* not (not product.replace("-", "").replace("_", "").isalnum() or product[0] in "-_" or product[-1] in "-_") *)
Definition product_ok (p : list Z) : bool :=
  let s := filter (fun c => negb (is_sep c)) p in
  C14.Model.nonempty s && forallb is_alnum s
  && match p with c :: _ => negb (is_sep c) | [] => false end
  && match rev p with c :: _ => negb (is_sep c) | [] => false end.

(* serialiser.feature_from_json, then Protocluster.from_biopython *)
Definition pcl_from_json (j : jv) : res pcl :=
  match j with
  | JObj kv =>
    do lj <- jget K_location kv;
    match lj with
    | JStr sloc =>
      do t <- ASV.C10.Model.loc_from_string sloc;
      if negb (exact_tloc t) then Err E_Unmodelled else
      let location := ASV.C10.Model.loc_of_tloc t in
      do tj <- jget K_type kv;
      do qj <- jget K_qualifiers kv;
      match qj with
      | JObj qs =>
        if negb (forallb (fun p => existsb (seqb (fst p)) known_qualifiers) qs) then Err E_Unmodelled else
        if negb (eq_str tj T_protocluster) then Err E_Assert else
        (* leftovers.get("aStool", [""])[0].startswith("externally annotated") *)
        do pre <- qpopd Q_aStool qs;
        if ASV.C10.Model.starts_with ASV.C10.Model.ext_prefix pre then Err E_Unmodelled else
        do cat <- qpopd Q_category qs;
        do sneigh <- qpop Q_neighbourhood qs;
        do neigh <- ASV.C10.Model.parse_int sneigh;
        do scut <- qpop Q_cutoff qs;
        do cut <- ASV.C10.Model.parse_int scut;
        do product <- qpop Q_product qs;
        do tool <- qpop Q_aStool qs;
        do rule <- qpop Q_detection_rule qs;
        do score <- qpop Q_core_location qs;
        do ct <- ASV.C10.Model.loc_from_string score;
        if negb (exact_tloc ct) then Err E_Unmodelled else
        (* Protocluster.__init__ *)
        do pr <- ASV.C10.Model.build_proto (ASV.C10.Model.mkFproto 0 location score);
        if negb (product_ok product) then
          (if forallb (fun c => c <? 128) product then Err E_Value else Err E_Unmodelled) else
        (* CDSCollection.from_biopython: leftovers.pop("contig_edge", [""])[0] == "True" *)
        do _ <- match jfind Q_contig_edge qs with
                | Some (JArr []) => Err E_Index
                | Some (JArr _) => Ok tt
                | Some _ => Err E_Unmodelled
                | None => Ok tt
                end;
        (* Feature.from_biopython: created_by_antismash = leftovers.get("tool") == ["antismash"] *)
        match jfind Q_tool qs with
        | Some (JArr [JStr s]) =>
          if seqb s T_antismash
          then Ok (mkPcl (ASV.C10.Model.ploc pr) (ASV.C10.Model.pcore pr) tool product cut neigh rule cat None)
          else Err E_Unmodelled
        | _ => Err E_Unmodelled
        end
      | _ => Err E_Unmodelled
      end
    | _ => Err E_Unmodelled
    end
  | JStr _ => Err E_Unmodelled
  | _ => Err E_Assert
  end.

(* ---------- RuleDetectionResults ---------- *)
Record rdr := mkRdr { rd_tool : list Z; rd_by : list (pcl * list cdsres); rd_out : list cdsres;
                      rd_cutoff : jv; rd_neigh : jv }.

Definition cds_list_from_json (names : list (list Z)) (j : jv) : res (list cdsres) :=
  match j with JArr l => mapR (cds_from_json names) l | _ => Err E_Unmodelled end.

(* for json_cluster, json_cds_results in json["cds_by_protocluster"] *)
Definition pair_from_json (names : list (list Z)) (j : jv) : res (pcl * list cdsres) :=
  match j with
  | JArr [jc; jr] =>
    do c <- pcl_from_json jc;
    do rs <- cds_list_from_json names jr;
    Ok (c, rs)
  | JArr _ => Err E_Value
  | _ => Err E_Unmodelled
  end.

Definition pair_to_json (p : pcl * list cdsres) : jv :=
  JArr [pcl_to_json (fst p); JArr (map cds_to_json (snd p))].

(* None = discarded *)
Definition rdr_from_json (cur : Z) (names : list (list Z)) (j : jv) : res (option rdr) :=
  match j with
  | JObj kv =>
    if negb (eq_int (jgetd K_schema_version kv (JInt 1)) cur) then Ok None else
    do a <- jget K_cds_by_protocluster kv;
    match a with
    | JArr l =>
      do by_cluster <- mapR (pair_from_json names) l;
      do b <- jget K_outside_protoclusters kv;
      do outside <- cds_list_from_json names b;
      do mj <- jget K_multipliers kv;
      do m <- multipliers_from_json mj;
      do tj <- jget K_tool kv;
      do tool <- as_str tj;
      Ok (Some (mkRdr tool by_cluster outside (fst m) (snd m)))
    | _ => Err E_Unmodelled
    end
  | _ => Err E_Unmodelled
  end.

Definition rdr_to_json (cur : Z) (r : rdr) : jv :=
  JObj [(K_schema_version, JInt cur);
        (K_tool, JStr (rd_tool r));
        (K_cds_by_protocluster, JArr (map pair_to_json (rd_by r)));
        (K_outside_protoclusters, JArr (map cds_to_json (rd_out r)));
        (K_multipliers, JObj [(K_cutoff, rd_cutoff r); (K_neighbourhood, rd_neigh r)])].

(* fn 7: [j; names; cur] -> regenerate and save again; fn 9 / 19: the bookkeeping of main.run_module
   (C11.ModelMain) and its specification; any other fn: C11.Model.run_C11 *)
Definition run_C11b (fn : Z) (l : list Z) : list Z :=
  if (20 <=? fn) && (fn <=? 22) || (30 <=? fn) && (fn <=? 32) then ModelTop.run_top fn l   (* results file / reuse path *)
  else if fn =? 9 then ModelMain.run_main_level false l
  else if fn =? 19 then ModelMain.run_main_level true l
  else if fn =? 7 then
    match djv (S (List.length l)) l with
    | Some (JArr [j; names; JInt cur], []) =>
      match jstrs names with
      | Some ns => eOut (omap (rdr_to_json cur) (rdr_from_json cur ns j))
      | None => bad_input
      end
    | _ => bad_input
    end
  else run_C11 fn l.
