(* C11, lemmas about the top level of a reusing run (ModelTop.v): the schema guard of AntismashResults.from_file and
   the strip / regenerate / add bookkeeping of main.read_data + run_detection on the records of a reused file. *)
From ASV.C11 Require Import ModelTop.
From Coq Require Import Sorting.Permutation.
Open Scope Z_scope.

(* ---------- AntismashResults.from_file ---------- *)
Lemma top_guard_ok_listed cur compat s :
  top_guard cur compat s = Ok tt -> schema_listed cur compat s = true.
Proof.
  unfold top_guard, schema_listed. destruct (eq_int s cur) eqn:E; simpl; auto.
  unfold in_compat. destruct s; simpl; try discriminate;
    match goal with |- context [existsb ?f ?l] => destruct (existsb f l) eqn:X; simpl; auto; discriminate end.
Qed.

Lemma top_accepted_schema cur compat data ms :
  top_from_file cur compat data = Ok ms ->
  exists kv, data = JObj kv /\ schema_listed cur compat (top_schema kv) = true.
Proof.
  destruct data; simpl; try discriminate. intros H. exists kv. split; auto.
  unfold bind in H. destruct (top_guard cur compat (top_schema kv)) eqn:G; try discriminate.
  destruct a. apply top_guard_ok_listed; auto.
Qed.

Lemma existsb_eq_int_int s compat : existsb (eq_int (JInt s)) compat = true <-> In s compat.
Proof.
  rewrite existsb_exists. split.
  - intros [x [Hin Hx]]. simpl in Hx. apply Z.eqb_eq in Hx. subst. auto.
  - intros Hin. exists s. split; auto. simpl. apply Z.eqb_refl.
Qed.

Lemma top_guard_refuses_unlisted cur compat s :
  s <> cur -> ~ In s compat -> top_guard cur compat (JInt s) = Err E_Value.
Proof.
  intros Hne Hnin. unfold top_guard. simpl eq_int.
  destruct (s =? cur) eqn:E; [apply Z.eqb_eq in E; contradiction|].
  simpl. destruct (existsb (eq_int (JInt s)) compat) eqn:X; auto.
  apply existsb_eq_int_int in X. contradiction.
Qed.

Lemma top_refuses_unlisted cur compat kv s :
  top_schema kv = JInt s -> s <> cur -> ~ In s compat ->
  top_from_file cur compat (JObj kv) = Err E_Value.
Proof.
  intros Hs Hne Hnin. simpl. rewrite Hs. rewrite top_guard_refuses_unlisted; auto.
Qed.

Lemma top_newer_refused cur compat kv s :
  top_schema kv = JInt s -> cur < s -> (forall c, In c compat -> c <= cur) ->
  top_from_file cur compat (JObj kv) = Err E_Value.
Proof.
  intros Hs Hlt Hc. apply top_refuses_unlisted with (s := s); auto; try lia.
  intros Hin. apply Hc in Hin. lia.
Qed.

Lemma top_missing_schema kv : jfind K_schema kv = None -> top_schema kv = JInt 1.
Proof. intros H. unfold top_schema, jgetd. rewrite H. reflexivity. Qed.

Definition top_outcome (r : res (list jv)) : option Z := match r with Ok _ => None | Err k => Some k end.

Lemma top_model_meets_spec cur compat data :
  spec_top cur compat data (top_outcome (top_from_file cur compat data)) = true.
Proof.
  destruct data; simpl; auto.
  destruct (schema_listed cur compat (top_schema kv)) eqn:L; auto.
  unfold schema_listed in L. apply orb_false_iff in L. destruct L as [L1 L2].
  unfold top_guard. rewrite L1. unfold in_compat.
  destruct (top_schema kv) eqn:S; simpl; try rewrite L2; simpl; auto.
Qed.

(* ---------- strip / add ---------- *)
Lemma add_all_app r fs r' : add_all r fs = Ok r' -> r' = r ++ fs.
Proof.
  revert r. induction fs as [|f rest IH]; simpl; intros r H.
  - inversion H. rewrite app_nil_r. reflexivity.
  - unfold bind in H. destruct (add_feat r f) eqn:A; try discriminate.
    unfold add_feat in A. destruct (is_domain (f_kind f) && name_taken r (f_name f)); try discriminate.
    inversion A; subst. apply IH in H. rewrite H, <- app_assoc. reflexivity.
Qed.

Lemma strip_app a b : strip (a ++ b) = strip a ++ strip b.
Proof. unfold strip. apply filter_app. Qed.

Lemma strip_all l : forallb stripped l = true -> strip l = [].
Proof.
  induction l as [|f l IH]; simpl; auto. intros H. apply andb_true_iff in H. destruct H as [H1 H2].
  rewrite H1. simpl. auto.
Qed.

Lemma strip_none l : forallb (fun f => negb (stripped f)) l = true -> strip l = l.
Proof.
  induction l as [|f l IH]; simpl; auto. intros H. apply andb_true_iff in H. destruct H as [H1 H2].
  rewrite H1. rewrite IH; auto.
Qed.

Lemma detect_record_shape base c saved :
  detect_record base c = Ok saved ->
  saved = base ++ c_early c ++ c_derived c ++
          (if has_region (base ++ c_early c ++ c_derived c) then c_per_area c else []).
Proof.
  unfold detect_record, bind. intros H.
  destruct (add_all base (c_early c)) eqn:A1; try discriminate. apply add_all_app in A1. subst.
  destruct (add_all (base ++ c_early c) (c_derived c)) eqn:A2; try discriminate. apply add_all_app in A2. subst.
  rewrite <- app_assoc in *.
  destruct (has_region (base ++ c_early c ++ c_derived c)) eqn:R.
  - apply add_all_app in H. subst. repeat rewrite <- app_assoc. reflexivity.
  - inversion H; subst. repeat rewrite <- app_assoc. rewrite app_nil_r. reflexivity.
Qed.

Lemma strip_restores_input base c saved :
  reuse_guard base c = true -> detect_record base c = Ok saved -> strip saved = base.
Proof.
  unfold reuse_guard. intros G H. apply andb_true_iff in G. destruct G as [Gb Gc].
  apply detect_record_shape in H. subst.
  rewrite !forallb_app in Gc. apply andb_true_iff in Gc. destruct Gc as [Ge Gc].
  apply andb_true_iff in Gc. destruct Gc as [Gd Gp].
  rewrite !strip_app. rewrite (strip_none base Gb), (strip_all _ Ge), (strip_all _ Gd).
  destruct (has_region (base ++ c_early c ++ c_derived c)); simpl.
  - rewrite (strip_all _ Gp). rewrite app_nil_r. reflexivity.
  - rewrite app_nil_r. reflexivity.
Qed.

Lemma reuse_after_strip base c saved final :
  reuse_guard base c = true -> first_run base c = Ok (saved, final) ->
  strip saved = base /\ reuse_run saved c = Ok final.
Proof.
  intros G H. unfold first_run, bind in H.
  destruct (detect_record base c) eqn:D; try discriminate.
  destruct (annotate_record a c) eqn:A; try discriminate.
  inversion H; subst.
  assert (S : strip saved = base) by (eapply strip_restores_input; eauto).
  split; auto. unfold reuse_run, reuse_with. rewrite S, D. simpl. exact A.
Qed.

(* without the strip *)
Lemma name_taken_app r s n : name_taken (r ++ s) n = name_taken r n || name_taken s n.
Proof. unfold name_taken. apply existsb_app. Qed.

Lemma name_taken_in r g : In g r -> is_domain (f_kind g) = true -> name_taken r (f_name g) = true.
Proof.
  intros Hin Hd. unfold name_taken. apply existsb_exists. exists g. split; auto.
  rewrite Hd. simpl. apply Z.eqb_refl.
Qed.

Lemma add_all_collides fs : forall r f,
  In f fs -> is_domain (f_kind f) = true ->
  (forall g, In g fs -> is_domain (f_kind g) = true -> name_taken r (f_name g) = true) ->
  add_all r fs = Err E_SecmetInvalid.
Proof.
  induction fs as [|g rest IH]; intros r f Hin Hd Hall; [destruct Hin|].
  simpl. unfold add_feat.
  destruct (is_domain (f_kind g)) eqn:Dg.
  - rewrite (Hall g (or_introl eq_refl) Dg). reflexivity.
  - simpl. destruct Hin as [Heq | Hin]; [subst; rewrite Hd in Dg; discriminate|].
    apply IH with (f := f); auto.
    intros h Hh Dh. rewrite name_taken_app. rewrite (Hall h (or_intror Hh) Dh). reflexivity.
Qed.

Lemma unstripped_record_collides base c saved f :
  detect_record base c = Ok saved -> In f (c_early c) -> is_domain (f_kind f) = true ->
  detect_record saved c = Err E_SecmetInvalid.
Proof.
  intros D Hin Hd. pose proof (detect_record_shape _ _ _ D) as Sh.
  unfold detect_record at 1.
  rewrite (add_all_collides (c_early c) saved f Hin Hd); [reflexivity|].
  intros g Hg Dg. apply name_taken_in; auto. rewrite Sh.
  apply in_or_app. right. apply in_or_app. left. exact Hg.
Qed.

Lemma reuse_without_strip_collides base c saved f :
  detect_record base c = Ok saved -> In f (c_early c) -> is_domain (f_kind f) = true ->
  reuse_with no_strip saved c = Err E_SecmetInvalid.
Proof.
  intros D Hin Hd. unfold reuse_with, no_strip.
  rewrite (unstripped_record_collides base c saved f D Hin Hd). reflexivity.
Qed.

Lemma reuse_strip_if_regions_collides base c saved f :
  detect_record base c = Ok saved -> has_region saved = false ->
  In f (c_early c) -> is_domain (f_kind f) = true ->
  reuse_with strip_if_regions saved c = Err E_SecmetInvalid.
Proof.
  intros D R Hin Hd. unfold reuse_with, strip_if_regions. rewrite R.
  rewrite (unstripped_record_collides base c saved f D Hin Hd). reflexivity.
Qed.

(* ---------- the decidable multiset comparison ---------- *)
Lemma count_z_occ l x : count_z l x = count_occ Z.eq_dec l x.
Proof.
  induction l as [|y l IH]; simpl; auto.
  destruct (Z.eq_dec y x) as [E|E].
  - subst. rewrite Z.eqb_refl. rewrite IH. reflexivity.
  - destruct (y =? x) eqn:B; [apply Z.eqb_eq in B; contradiction|]. exact IH.
Qed.

Lemma same_multiset_sound a b : same_multiset a b = true <-> Permutation a b.
Proof.
  unfold same_multiset. rewrite forallb_forall. split.
  - intros H. apply (Permutation_count_occ Z.eq_dec). intros x.
    rewrite <- !count_z_occ.
    destruct (in_dec Z.eq_dec x (a ++ b)) as [Hin|Hnin].
    + apply H in Hin. apply Nat.eqb_eq in Hin. exact Hin.
    + rewrite !count_z_occ.
      assert (Ha : ~ In x a) by (intros X; apply Hnin; apply in_or_app; auto).
      assert (Hb : ~ In x b) by (intros X; apply Hnin; apply in_or_app; auto).
      apply (count_occ_not_In Z.eq_dec) in Ha. apply (count_occ_not_In Z.eq_dec) in Hb. congruence.
  - intros P x _. apply Nat.eqb_eq. rewrite !count_z_occ.
    apply (Permutation_count_occ Z.eq_dec). exact P.
Qed.

Lemma same_multiset_refl a : same_multiset a a = true.
Proof. apply same_multiset_sound. apply Permutation_refl. Qed.

Definition reuse_outcome (r : res (list feat * list feat)) : res (list Z) :=
  match r with Ok (_, final) => Ok (ids final) | Err k => Err k end.

Lemma reuse_model_meets_spec base c :
  reuse_guard base c = true -> spec_reuse base c (reuse_outcome (reuse_pipeline base c)) = true.
Proof.
  intros G. unfold spec_reuse, reuse_pipeline.
  destruct (first_run base c) as [[saved final]|k] eqn:F; auto.
  destruct (reuse_after_strip base c saved final G F) as [_ R].
  simpl. rewrite R. simpl. apply same_multiset_refl.
Qed.

(* whatever meets the specification has, feature for feature, the first run's annotations *)
Lemma spec_reuse_sound base c saved final l :
  first_run base c = Ok (saved, final) -> spec_reuse base c (Ok l) = true -> Permutation l (ids final).
Proof.
  intros F S. unfold spec_reuse in S. rewrite F in S. apply same_multiset_sound. exact S.
Qed.

(* ---------- strip, then add again (fn 22 / 32) ---------- *)
Lemma name_taken_mem r n : name_taken r n = mem_z n (dom_names r).
Proof.
  unfold name_taken, mem_z, dom_names. induction r as [|g r IH]; simpl; auto.
  destruct (is_domain (f_kind g)) eqn:D; simpl.
  - rewrite IH. rewrite (Z.eqb_sym (f_name g) n). reflexivity.
  - exact IH.
Qed.

Lemma dom_names_app a b : dom_names (a ++ b) = dom_names a ++ dom_names b.
Proof. unfold dom_names. rewrite filter_app, map_app. reflexivity. Qed.

Lemma mem_z_app x a b : mem_z x (a ++ b) = mem_z x a || mem_z x b.
Proof. unfold mem_z. apply existsb_app. Qed.

Lemma add_all_fresh adds : forall s,
  nodup_z (dom_names adds) = true -> disjoint_z (dom_names adds) (dom_names s) = true ->
  add_all s adds = Ok (s ++ adds).
Proof.
  induction adds as [|f rest IH]; intros s Hn Hd; simpl.
  - rewrite app_nil_r. reflexivity.
  - unfold add_feat. destruct (is_domain (f_kind f)) eqn:D.
    + assert (E : dom_names (f :: rest) = f_name f :: dom_names rest) by (unfold dom_names; simpl; rewrite D; reflexivity).
      rewrite E in Hn, Hd. simpl in Hn, Hd.
      apply andb_true_iff in Hn. destruct Hn as [Hn1 Hn2]. apply andb_true_iff in Hd. destruct Hd as [Hd1 Hd2].
      rewrite name_taken_mem. apply negb_true_iff in Hd1. rewrite Hd1. simpl.
      rewrite IH; auto.
      * rewrite <- app_assoc. reflexivity.
      * unfold disjoint_z in *. rewrite forallb_forall in *. intros x Hx.
        rewrite dom_names_app, mem_z_app. rewrite (proj1 (negb_true_iff _) (Hd2 x Hx)). simpl.
        unfold dom_names at 1. simpl. rewrite D. simpl. rewrite orb_false_r.
        destruct (x =? f_name f) eqn:X; auto. apply Z.eqb_eq in X. subst.
        apply negb_true_iff in Hn1. unfold mem_z in Hn1.
        assert (existsb (Z.eqb (f_name f)) (dom_names rest) = true).
        { apply existsb_exists. exists (f_name f). split; auto. apply Z.eqb_refl. }
        congruence.
    + assert (E : dom_names (f :: rest) = dom_names rest) by (unfold dom_names; simpl; rewrite D; reflexivity).
      rewrite E in Hn, Hd. simpl.
      rewrite IH; auto.
      * rewrite <- app_assoc. reflexivity.
      * assert (E2 : dom_names (s ++ [f]) = dom_names s).
        { rewrite dom_names_app. unfold dom_names at 2. simpl. rewrite D. simpl. apply app_nil_r. }
        rewrite E2. exact Hd.
Qed.

Lemma readd_after_strip r r0 adds :
  add_all [] r = Ok r0 -> readd_ok r0 adds = true -> strip_and_add r adds = Ok (strip r0 ++ adds).
Proof.
  intros A R. unfold strip_and_add. rewrite A. simpl.
  unfold readd_ok in R. apply andb_true_iff in R. destruct R as [R Hd]. apply andb_true_iff in R. destruct R as [_ Hn].
  apply add_all_fresh; auto.
Qed.

Definition strip_outcome (r : res (list feat)) : res (list Z) :=
  match r with Ok fs => Ok (ids fs) | Err k => Err k end.

Lemma strip_model_meets_spec r adds : spec_strip r adds (strip_outcome (strip_and_add r adds)) = true.
Proof.
  unfold spec_strip. destruct (add_all [] r) as [r0|k] eqn:A; auto.
  destruct (readd_ok r0 adds) eqn:R; auto.
  rewrite (readd_after_strip r r0 adds A R). simpl. apply same_multiset_refl.
Qed.

(* nothing antiSMASH-made of a stripped kind survives the strip *)
Lemma strip_leaves_nothing_stripped r f : In f (strip r) -> stripped f = false.
Proof. unfold strip. intros H. apply filter_In in H. destruct H as [_ H]. apply negb_true_iff in H. exact H. Qed.
