(* C11 - lemmas and proofs. *)
From ASV.C11 Require Import Model.
From Coq Require Import Lia ZifyBool String.
Close Scope string_scope.
Open Scope Z_scope.

(* ---------- induction principles for the nested types ---------- *)
Lemma hmm_ind' (P : hmm -> Prop) :
  (forall hid qs qe ev bs ih, Forall P ih -> P (HMM hid qs qe ev bs ih)) -> forall h, P h.
Proof.
  intros H. fix IH 1. intros [hid qs qe ev bs ih]. apply H.
  induction ih as [|x xs IHxs]; constructor; [apply IH | exact IHxs].
Qed.

Lemma jv_ind' (P : jv -> Prop) :
  P JNull -> (forall b, P (JBool b)) -> (forall n, P (JInt n)) -> (forall a b, P (JFlt a b)) ->
  (forall s, P (JStr s)) -> (forall l, Forall P l -> P (JArr l)) ->
  (forall kv, Forall (fun p => P (snd p)) kv -> P (JObj kv)) -> forall j, P j.
Proof.
  intros H0 H1 H2 H3 H4 H5 H6. fix IH 1. intros [| b | n | a b | s | l | kv].
  - exact H0.
  - apply H1.
  - apply H2.
  - apply H3.
  - apply H4.
  - apply H5. induction l as [|x xs IHxs]; constructor; [apply IH | exact IHxs].
  - apply H6. induction kv as [|[k v] r IHr]; constructor; [cbn [snd]; apply IH | exact IHr].
Qed.

(* ---------- HMMResult ---------- *)
(* a value as the constructors build it: every internal hit overlaps its parent, at every depth;
   floats are rationals with a positive denominator *)
Fixpoint hvalidb (h : hmm) : bool :=
  match h with
  | HMM _ qs qe ev bs ih =>
    (0 <? snd ev) && (0 <? snd bs)
    && forallb (fun x => overlaps (h_qs x) (h_qe x) qs qe) ih && forallb hvalidb ih
  end.

Definition F_internal : jv -> res (list hmm) :=
  fun v => match v with JArr l => mapR hmm_from_json l | _ => Err E_Unmodelled end.

Lemma from_json_obj kv :
  hmm_from_json (JObj kv) =
  (do ih <- match jfind_with F_internal K_internal_hits kv with Some r => r | None => Ok [] end;
   do a <- jget K_hit_id kv; do hid <- as_str a;
   do b <- jget K_query_start kv; do qs <- as_int b;
   do c <- jget K_query_end kv; do qe <- as_int c;
   do d <- jget K_evalue kv; do ev <- as_flt d;
   do e <- jget K_bitscore kv; do bs <- as_flt e;
   mk_hmm hid qs qe ev bs ih).
Proof. reflexivity. Qed.

Lemma from_json_kv hid qs qe ea eb ba bb tail :
  hmm_from_json (JObj ([(K_hit_id, JStr hid); (K_query_start, JInt qs); (K_query_end, JInt qe);
                        (K_evalue, JFlt ea eb); (K_bitscore, JFlt ba bb)] ++ tail)) =
  (do ih <- match jfind_with F_internal K_internal_hits tail with Some r => r | None => Ok [] end;
   do ev <- (if eb <=? 0 then Err E_Unmodelled else Ok (ea, eb));
   do bs <- (if bb <=? 0 then Err E_Unmodelled else Ok (ba, bb));
   mk_hmm hid qs qe ev bs ih).
Proof. reflexivity. Qed.

Lemma mapR_codec (ih : list hmm) :
  Forall (fun h => hvalidb h = true -> hmm_from_json (hmm_to_json h) = Ok h) ih ->
  forallb hvalidb ih = true -> mapR hmm_from_json (map hmm_to_json ih) = Ok ih.
Proof.
  induction 1 as [|x xs Hx Hxs IH]; intros V; [reflexivity|].
  cbn [forallb] in V. apply andb_true_iff in V. destruct V as [Vx Vxs].
  cbn [map mapR]. rewrite (Hx Vx). cbn [bind]. rewrite (IH Vxs). reflexivity.
Qed.

Lemma hmm_codec h : hvalidb h = true -> hmm_from_json (hmm_to_json h) = Ok h.
Proof.
  induction h as [hid qs qe [ea eb] [ba bb] ih IH] using hmm_ind'. intros V.
  cbn [hvalidb snd] in V.
  apply andb_true_iff in V. destruct V as [V Vall].
  apply andb_true_iff in V. destruct V as [V Vov].
  apply andb_true_iff in V. destruct V as [Ve Vb].
  pose proof (mapR_codec ih IH Vall) as Hm.
  cbn [hmm_to_json]. change (jq (ea, eb)) with (JFlt ea eb). change (jq (ba, bb)) with (JFlt ba bb).
  rewrite from_json_kv.
  assert (Ee : (eb <=? 0) = false) by lia. assert (Eb : (bb <=? 0) = false) by lia.
  rewrite Ee, Eb.
  destruct ih as [|x xs].
  - cbn [jfind_with bind]. unfold mk_hmm. cbn [forallb]. reflexivity.
  - change (jfind_with F_internal K_internal_hits [(K_internal_hits, JArr (map hmm_to_json (x :: xs)))])
      with (Some (mapR hmm_from_json (map hmm_to_json (x :: xs)))).
    rewrite Hm. cbn [bind]. unfold mk_hmm. rewrite Vov. reflexivity.
Qed.

Lemma hmm_codec_json h : hvalidb h = true ->
  (do h' <- hmm_from_json (hmm_to_json h); Ok (hmm_to_json h')) = Ok (hmm_to_json h).
Proof. intros V. rewrite (hmm_codec h V). reflexivity. Qed.

(* --- whatever from_json accepts is a valid value --- *)
Definition Qv (j : jv) : Prop := forall h, hmm_from_json j = Ok h -> hvalidb h = true.

Lemma mapR_valid l : Forall Qv l -> forall ys, mapR hmm_from_json l = Ok ys -> forallb hvalidb ys = true.
Proof.
  induction 1 as [|x xs Hx Hxs IH]; intros ys E; cbn [mapR] in E.
  - inversion E. reflexivity.
  - destruct (hmm_from_json x) as [y|k] eqn:Ex; cbn [bind] in E; [|discriminate].
    destruct (mapR hmm_from_json xs) as [ys'|k] eqn:Exs; cbn [bind] in E; [|discriminate].
    inversion E. subst ys. cbn [forallb]. rewrite (Hx y Ex), (IH ys' eq_refl). reflexivity.
Qed.

Lemma jfind_with_in {A} (f : jv -> A) k kv r :
  jfind_with f k kv = Some r -> exists k' v, In (k', v) kv /\ r = f v.
Proof.
  induction kv as [|[k' v] rest IH]; cbn [jfind_with]; intros E; [discriminate|].
  destruct (seqb k' k).
  - inversion E. exists k', v. split; [left; reflexivity | reflexivity].
  - destruct (IH E) as (k2 & v2 & Hin & Hr). exists k2, v2. split; [right; exact Hin | exact Hr].
Qed.

Lemma as_flt_pos j x : as_flt j = Ok x -> (0 <? snd x) = true.
Proof.
  destruct j as [| b | n | a b | s | l | kv]; cbn [as_flt]; intros E; try discriminate.
  - inversion E. destruct b; reflexivity.
  - inversion E. reflexivity.
  - destruct (b <=? 0) eqn:Eb; [discriminate|]. inversion E. cbn [snd]. lia.
Qed.

Definition Pv (j : jv) : Prop := Qv j /\ match j with JArr l => Forall Qv l | _ => True end.

Lemma hmm_from_json_valid_P j : Pv j.
Proof.
  induction j as [| b | n | a b | s | l IHl | kv IHkv] using jv_ind';
    try (split; [intros h E; cbn in E; discriminate | exact I]).
  - split; [intros h E; cbn in E; discriminate|].
    induction IHl as [|x xs Hx Hxs IH]; constructor; [exact (proj1 Hx) | exact IH].
  - split; [|exact I]. intros h E. rewrite from_json_obj in E.
    destruct (match jfind_with F_internal K_internal_hits kv with Some r => r | None => Ok [] end)
      as [ih|k] eqn:Eih; cbn [bind] in E; [|discriminate].
    assert (Vih : forallb hvalidb ih = true).
    { destruct (jfind_with F_internal K_internal_hits kv) as [r|] eqn:Ef.
      - destruct (jfind_with_in _ _ _ _ Ef) as (k' & v & Hin & Hr). rewrite Hr in Eih.
        rewrite Forall_forall in IHkv. specialize (IHkv (k', v) Hin). cbn [snd] in IHkv.
        destruct v as [| b | n | a b | s | l | kv']; cbn [F_internal] in Eih; try discriminate.
        exact (mapR_valid l (proj2 IHkv) ih Eih).
      - inversion Eih. reflexivity. }
    destruct (jget K_hit_id kv) as [a|k] eqn:E1; cbn [bind] in E; [|discriminate].
    destruct (as_str a) as [hid|k] eqn:E2; cbn [bind] in E; [|discriminate].
    destruct (jget K_query_start kv) as [b|k] eqn:E3; cbn [bind] in E; [|discriminate].
    destruct (as_int b) as [qs|k] eqn:E4; cbn [bind] in E; [|discriminate].
    destruct (jget K_query_end kv) as [c|k] eqn:E5; cbn [bind] in E; [|discriminate].
    destruct (as_int c) as [qe|k] eqn:E6; cbn [bind] in E; [|discriminate].
    destruct (jget K_evalue kv) as [d|k] eqn:E7; cbn [bind] in E; [|discriminate].
    destruct (as_flt d) as [ev|k] eqn:E8; cbn [bind] in E; [|discriminate].
    destruct (jget K_bitscore kv) as [e|k] eqn:E9; cbn [bind] in E; [|discriminate].
    destruct (as_flt e) as [bs|k] eqn:E10; cbn [bind] in E; [|discriminate].
    unfold mk_hmm in E.
    destruct (forallb (fun h0 => overlaps (h_qs h0) (h_qe h0) qs qe) ih) eqn:Eov; [|discriminate].
    inversion E. subst h. cbn [hvalidb].
    rewrite (as_flt_pos _ _ E8), (as_flt_pos _ _ E10), Eov, Vih. reflexivity.
Qed.

Lemma hmm_from_json_valid j h : hmm_from_json j = Ok h -> hvalidb h = true.
Proof. exact (proj1 (hmm_from_json_valid_P j) h). Qed.

(* the second save/regenerate cycle is a fixed point, whatever JSON the first one accepted *)
Lemma hmm_cycle_fixed j h : hmm_from_json j = Ok h ->
  hmm_from_json (hmm_to_json h) = Ok h.
Proof. intros E. apply hmm_codec. exact (hmm_from_json_valid j h E). Qed.

(* a hit outside its parent is refused, not silently kept *)
Lemma mk_hmm_refuses hid qs qe ev bs ih x :
  In x ih -> overlaps (h_qs x) (h_qe x) qs qe = false -> mk_hmm hid qs qe ev bs ih = Err E_Value.
Proof.
  intros Hin Hov. unfold mk_hmm.
  destruct (forallb (fun h => overlaps (h_qs h) (h_qe h) qs qe) ih) eqn:E; [|reflexivity].
  rewrite forallb_forall in E. rewrite (E x Hin) in Hov. discriminate.
Qed.

(* ---------- small facts ---------- *)
Lemma seqb_refl a : seqb a a = true.
Proof. induction a as [|x xs IH]; cbn [seqb]; [reflexivity|]. rewrite Z.eqb_refl, IH. reflexivity. Qed.

Lemma seqb_eq a : forall b, seqb a b = true -> a = b.
Proof.
  induction a as [|x xs IH]; intros [|y ys] E; cbn [seqb] in E; try discriminate; [reflexivity|].
  apply andb_true_iff in E. destruct E as [E1 E2]. apply Z.eqb_eq in E1. rewrite (IH ys E2), E1. reflexivity.
Qed.

Lemma seqb_neq a b : a <> b -> seqb a b = false.
Proof. intros N. destruct (seqb a b) eqn:E; [|reflexivity]. elim N. exact (seqb_eq a b E). Qed.

Lemma qle_not_qlt a b : qle a b = negb (qlt b a).
Proof. unfold qle, qlt. lia. Qed.

(* ---------- TTA ---------- *)
(* the decision of tta.detect: below the threshold no codon is reported (the harness compares the
   real detect() with the regenerated results along threshold histories) *)
Definition tta_detect (rid : jv) (gc thr : q) (codons : list (Z * Z)) : ttares :=
  mkTTA rid gc thr (if qlt gc thr then [] else codons).

Definition codon_json (c : Z * Z) : jv := JObj [(K_start, JInt (fst c)); (K_strand, JInt (snd c))].

Lemma codons_codec cs : mapR codon_from_json (map codon_json cs) = Ok cs.
Proof.
  induction cs as [|[s st] r IH]; [reflexivity|].
  cbn [map mapR]. change (codon_from_json (codon_json (s, st))) with (Ok (s, st) : res (Z * Z)).
  cbn [bind]. rewrite IH. reflexivity.
Qed.

Lemma tta_from_json_kv cur thr cs sv rid ga gb ta tb :
  tta_from_json cur thr
    (JObj [(K_tta_codons, JArr (map codon_json cs)); (K_schema_version, JInt sv); (K_record_id, rid);
           (K_gc_content, JFlt ga gb); (K_threshold, JFlt ta tb)]) =
  if negb (sv =? cur) then Ok None else
  do gc <- (if gb <=? 0 then Err E_Unmodelled else Ok (ga, gb));
  do saved <- (if tb <=? 0 then Err E_Unmodelled else Ok (ta, tb));
  if qlt gc saved && qle thr gc then Ok None else
  do gcn <- (if gb <=? 0 then Err E_Unmodelled else Ok (ga, gb));
  if qle thr gcn then
    do cs' <- mapR codon_from_json (map codon_json cs); Ok (Some (mkTTA rid gc thr cs'))
  else Ok (Some (mkTTA rid gc thr [])).
Proof. reflexivity. Qed.

Lemma tta_to_json_shape cur r :
  tta_to_json cur r =
  JObj [(K_tta_codons, JArr (map codon_json (t_codons r))); (K_schema_version, JInt cur);
        (K_record_id, t_rid r); (K_gc_content, JFlt (fst (t_gc r)) (snd (t_gc r)));
        (K_threshold, JFlt (fst (t_thr r)) (snd (t_thr r)))].
Proof. reflexivity. Qed.

(* regenerating results saved by detect under thr1 while thr2 is in force: discarded exactly when
   the saved run skipped the search and the present threshold would not; otherwise equal to what
   detect gives under thr2 *)
Lemma tta_regen_sound cur rid gc thr1 thr2 codons :
  0 < snd gc -> 0 < snd thr1 ->
  tta_from_json cur thr2 (tta_to_json cur (tta_detect rid gc thr1 codons)) =
  if qlt gc thr1 && qle thr2 gc then Ok None else Ok (Some (tta_detect rid gc thr2 codons)).
Proof.
  intros Hg Ht. rewrite tta_to_json_shape. rewrite tta_from_json_kv.
  rewrite Z.eqb_refl. cbn [negb].
  unfold tta_detect. cbn [t_gc t_thr t_codons t_rid].
  assert (Eg : (snd gc <=? 0) = false) by lia. assert (Et : (snd thr1 <=? 0) = false) by lia.
  rewrite Eg, Et. cbn [bind].
  destruct gc as [ga gb]. destruct thr1 as [ta tb]. cbn [fst snd] in *.
  destruct (qlt (ga, gb) (ta, tb)) eqn:E1.
  - cbn [andb]. destruct (qle thr2 (ga, gb)) eqn:E2; [reflexivity|].
    rewrite qle_not_qlt in E2. destruct (qlt (ga, gb) thr2); [reflexivity|discriminate].
  - cbn [andb]. destruct (qle thr2 (ga, gb)) eqn:E2.
    + rewrite codons_codec. cbn [bind].
      rewrite qle_not_qlt in E2. destruct (qlt (ga, gb) thr2); [discriminate|reflexivity].
    + rewrite qle_not_qlt in E2. destruct (qlt (ga, gb) thr2); [reflexivity|discriminate].
Qed.

Lemma tta_same_options cur rid gc thr codons :
  0 < snd gc -> 0 < snd thr ->
  tta_from_json cur thr (tta_to_json cur (tta_detect rid gc thr codons)) =
  Ok (Some (tta_detect rid gc thr codons)).
Proof.
  intros Hg Ht. rewrite (tta_regen_sound cur rid gc thr thr codons Hg Ht).
  rewrite qle_not_qlt. destruct (qlt gc thr); reflexivity.
Qed.

(* a history of threshold changes: regenerate when possible, else detect afresh *)
Definition tta_step (cur : Z) (codons : list (Z * Z)) (r : ttares) (thr : q) : ttares :=
  match tta_from_json cur thr (tta_to_json cur r) with
  | Ok (Some r') => r'
  | _ => tta_detect (t_rid r) (t_gc r) thr codons
  end.

Lemma last_cons {A} (l : list A) : forall x d, last (x :: l) d = last l x.
Proof.
  induction l as [|y l' IH]; intros x d; [reflexivity|].
  change (last (x :: y :: l') d) with (last (y :: l') d). rewrite (IH y d), (IH y x). reflexivity.
Qed.

Lemma tta_history cur rid gc codons : 0 < snd gc ->
  forall thrs thr0, 0 < snd thr0 -> Forall (fun t => 0 < snd t) thrs ->
  fold_left (tta_step cur codons) thrs (tta_detect rid gc thr0 codons) =
  tta_detect rid gc (last thrs thr0) codons.
Proof.
  intros Hg. induction thrs as [|t ts IH]; intros thr0 H0 Hall; [reflexivity|].
  inversion Hall as [|? ? Ht Hts]. subst.
  cbn [fold_left].
  assert (E : tta_step cur codons (tta_detect rid gc thr0 codons) t = tta_detect rid gc t codons).
  { unfold tta_step. rewrite (tta_regen_sound cur rid gc thr0 t codons Hg H0).
    destruct (qlt gc thr0 && qle t gc); reflexivity. }
  rewrite E. rewrite (IH t Ht Hts). rewrite last_cons. reflexivity.
Qed.

Lemma tta_schema_guard cur sv thr r : sv <> cur -> tta_from_json cur thr (tta_to_json sv r) = Ok None.
Proof.
  intros N. rewrite tta_to_json_shape, tta_from_json_kv.
  assert (E : (sv =? cur) = false) by lia. rewrite E. reflexivity.
Qed.

Lemma tta_record_guard rid rid' r : t_rid r = JStr rid -> rid <> rid' -> tta_reused rid' r = false.
Proof. intros E N. unfold tta_reused. rewrite E. cbn [eq_str]. exact (seqb_neq rid rid' N). Qed.

(* whatever JSON object is regenerated, its schema version equals the current one *)
Lemma tta_reuse_inv cur thr kv r : tta_from_json cur thr (JObj kv) = Ok (Some r) ->
  exists sv, jget K_schema_version kv = Ok sv /\ eq_int sv cur = true.
Proof.
  cbn [tta_from_json]. intros E.
  destruct (jget K_schema_version kv) as [sv|k]; cbn [bind] in E; [|discriminate].
  exists sv. split; [reflexivity|]. destruct (eq_int sv cur); [reflexivity|discriminate].
Qed.

(* ---------- HmmerResults ---------- *)
Lemma hmmer_reuse_inv cur rid kv r : hmmer_from_json cur rid (JObj kv) = Ok (Some r) ->
  eq_str (jgetd K_record_id_sp kv JNull) rid = true /\ eq_int (jgetd K_schema kv JNull) cur = true
  /\ hr_rid r = rid.
Proof.
  cbn [hmmer_from_json]. intros E.
  destruct (eq_str (jgetd K_record_id_sp kv JNull) rid); cbn [negb] in E; [|discriminate].
  destruct (eq_int (jgetd K_schema kv JNull) cur); cbn [negb] in E; [|discriminate].
  split; [reflexivity|]. split; [reflexivity|].
  destruct (jgetd K_max_evalue kv JNull) eqn:E1; try discriminate;
  destruct (jgetd K_min_score kv JNull) eqn:E2; try discriminate;
  (destruct (flt_only _) as [score|k]; cbn [bind] in E; [|discriminate]);
  (destruct (flt_only _) as [evalue|k]; cbn [bind] in E; [|discriminate]);
  (destruct (jgetd K_hits kv JNull) as [| | | | |hitl|]; try discriminate);
  (destruct (mapR hit_from_json hitl) as [hits|k]; cbn [bind] in E; [|discriminate]);
  (destruct (jget K_database kv) as [dbj|k]; cbn [bind] in E; [|discriminate]);
  (destruct (jget K_tool kv) as [tj|k]; cbn [bind] in E; [|discriminate]);
  (destruct (as_str dbj) as [db|k]; cbn [bind] in E; [|discriminate]);
  (destruct (as_str tj) as [tool|k]; cbn [bind] in E; [|discriminate]);
  inversion E; reflexivity.
Qed.

Lemma filterR_spec {A} (f : A -> res bool) l : forall r, filterR f l = Ok r ->
  forall x, In x r -> In x l /\ f x = Ok true.
Proof.
  induction l as [|y ys IH]; intros r E x Hin; cbn [filterR] in E.
  - inversion E. subst r. destruct Hin.
  - destruct (f y) as [b|k] eqn:Ey; cbn [bind] in E; [|discriminate].
    destruct (filterR f ys) as [r'|k] eqn:Er; cbn [bind] in E; [|discriminate].
    inversion E. subst r. destruct b.
    + destruct Hin as [Hx|Hx].
      * subst x. split; [left; reflexivity | exact Ey].
      * destruct (IH r' eq_refl x Hx) as [H1 H2]. split; [right; exact H1 | exact H2].
    + destruct (IH r' eq_refl x Hin) as [H1 H2]. split; [right; exact H1 | exact H2].
Qed.

Lemma filterR_complete {A} (f : A -> res bool) l : forall r, filterR f l = Ok r ->
  forall x, In x l -> f x = Ok true -> In x r.
Proof.
  induction l as [|y ys IH]; intros r E x Hin Hx; cbn [filterR] in E; [destruct Hin|].
  destruct (f y) as [b|k] eqn:Ey; cbn [bind] in E; [|discriminate].
  destruct (filterR f ys) as [r'|k] eqn:Er; cbn [bind] in E; [|discriminate].
  inversion E. subst r. destruct Hin as [Hy|Hy].
  - subst y. rewrite Hx in Ey. inversion Ey. subst b. left. reflexivity.
  - destruct b; [right|]; exact (IH r' eq_refl x Hy Hx).
Qed.

(* refilter: refuses more lenient thresholds; otherwise keeps exactly the hits that pass, records
   the new thresholds and leaves everything else alone *)
Lemma refilter_spec max_evalue min_score r r' : refilter max_evalue min_score r = Ok r' ->
  qlt (hr_evalue r) max_evalue = false /\ qlt min_score (hr_score r) = false /\
  hr_evalue r' = max_evalue /\ hr_score r' = min_score /\
  hr_rid r' = hr_rid r /\ hr_db r' = hr_db r /\ hr_tool r' = hr_tool r /\
  (forall h, In h (hr_hits r') <-> In h (hr_hits r) /\ hit_passes max_evalue min_score h = Ok true).
Proof.
  unfold refilter. intros E.
  destruct (qlt (hr_evalue r) max_evalue); [discriminate|].
  destruct (qlt min_score (hr_score r)); [discriminate|].
  destruct (filterR (hit_passes max_evalue min_score) (hr_hits r)) as [hits|k] eqn:Ef; cbn [bind] in E;
    [|discriminate].
  inversion E. cbn. repeat (split; [reflexivity|]).
  intros h. split.
  - intros Hin. exact (filterR_spec _ _ _ Ef h Hin).
  - intros [H1 H2]. exact (filterR_complete _ _ _ Ef h H1 H2).
Qed.

(* away from the limits refilter keeps exactly the hits a fresh run with the new limits keeps *)
Lemma hit_passes_as_fresh_run max_evalue min_score h s e :
  as_num (hit_field K_score h) = Ok s -> as_num (hit_field K_evalue h) = Ok e ->
  qeq s min_score = false -> qeq e max_evalue = false ->
  hit_passes max_evalue min_score h = Ok (fresh_run_keeps max_evalue min_score s e).
Proof.
  intros Hs He Ns Ne. unfold hit_passes, fresh_run_keeps. rewrite Hs. cbn [bind].
  assert (A : qle min_score s = negb (qle s min_score)) by (unfold qle, qeq in *; lia).
  assert (B : qle e max_evalue = negb (qle max_evalue e)) by (unfold qle, qeq in *; lia).
  rewrite A. destruct (qle s min_score); cbn [negb orb]; [reflexivity|]. rewrite He. cbn [bind]. rewrite B. reflexivity.
Qed.

(* on a limit it keeps a hit that a fresh run drops (finding FC11b) *)
Lemma hit_passes_on_limit_differs : exists max_evalue min_score h s e,
  as_num (hit_field K_score h) = Ok s /\ as_num (hit_field K_evalue h) = Ok e /\
  hit_passes max_evalue min_score h = Ok true /\ fresh_run_keeps max_evalue min_score s e = false.
Proof.
  exists (1, 10000), (25, 1),
         (map (fun k => if list_eq_dec Z.eq_dec k K_score then JFlt 25 1 else if list_eq_dec Z.eq_dec k K_evalue then JFlt 1 100000 else JNull) hit_fields),
         (25, 1), (1, 100000).
  vm_compute. repeat split; reflexivity.
Qed.

Lemma refilter_lenient max_evalue min_score r :
  qlt (hr_evalue r) max_evalue = true \/ qlt min_score (hr_score r) = true ->
  refilter max_evalue min_score r = Err E_Value.
Proof.
  unfold refilter. intros [H|H].
  - rewrite H. reflexivity.
  - destruct (qlt (hr_evalue r) max_evalue); [reflexivity|]. rewrite H. reflexivity.
Qed.

(* cluster_hmmer / full_hmmer: whatever is reused is for this record and schema, was saved under
   thresholds at least as lenient, and contains only hits passing the present thresholds *)
Lemma hmmer_regen_inv cur rid max_evalue min_score kv r' :
  hmmer_regen cur rid max_evalue min_score (JObj kv) = Ok (Some r') ->
  eq_str (jgetd K_record_id_sp kv JNull) rid = true /\ eq_int (jgetd K_schema kv JNull) cur = true /\
  exists r, hmmer_from_json cur rid (JObj kv) = Ok (Some r) /\
            qlt (hr_evalue r) max_evalue = false /\ qlt min_score (hr_score r) = false /\
            hr_evalue r' = max_evalue /\ hr_score r' = min_score /\
            (forall h, In h (hr_hits r') <-> In h (hr_hits r) /\ hit_passes max_evalue min_score h = Ok true).
Proof.
  unfold hmmer_regen. intros E.
  destruct (negb (truthy (JObj kv))); [discriminate|].
  destruct (hmmer_from_json cur rid (JObj kv)) as [[r|]|k] eqn:Ef; cbn [bind] in E; try discriminate.
  destruct (qlt min_score (hr_score r) || qlt (hr_evalue r) max_evalue) eqn:El; [discriminate|].
  destruct (refilter max_evalue min_score r) as [r2|k] eqn:Er; cbn [bind] in E; [|discriminate].
  inversion E. subst r2.
  destruct (hmmer_reuse_inv cur rid kv r Ef) as (H1 & H2 & _).
  destruct (refilter_spec _ _ _ _ Er) as (A1 & A2 & A3 & A4 & _ & _ & _ & A8).
  split; [exact H1|]. split; [exact H2|]. exists r. repeat (split; try assumption); apply A8; assumption.
Qed.

(* ---------- HMMDetectionResults ---------- *)
Lemma det_from_json_inv cur_outer cur_inner rid kv d :
  det_from_json cur_outer cur_inner rid (JObj kv) = Ok d ->
  (exists sv, jget K_schema_version kv = Ok sv /\ eq_int sv cur_outer = true) /\
  (exists r, jget K_record_id kv = Ok r /\ eq_str r rid = true) /\
  (exists rkv, jget K_rule_results kv = Ok (JObj rkv) /\
               eq_int (jgetd K_schema_version rkv (JInt 1)) cur_inner = true) /\
  existsb (seqb (d_strict d)) strictness_levels = true.
Proof.
  cbn [det_from_json]. intros E.
  destruct (jget K_schema_version kv) as [sv|k]; cbn [bind] in E; [|discriminate].
  destruct (eq_int sv cur_outer) eqn:E1; cbn [negb] in E; [|discriminate].
  destruct (jget K_record_id kv) as [r|k]; cbn [bind] in E; [|discriminate].
  destruct (eq_str r rid) eqn:E2; cbn [negb] in E; [|discriminate].
  destruct (jget K_rule_results kv) as [rr|k]; cbn [bind] in E; [|discriminate].
  destruct rr as [| | | | | |rkv]; try discriminate.
  destruct (eq_int (jgetd K_schema_version rkv (JInt 1)) cur_inner) eqn:E3; cbn [negb] in E; [|discriminate].
  destruct (jget K_cds_by_protocluster rkv) as [a|k]; cbn [bind] in E; [|discriminate].
  destruct (jget K_outside_protoclusters rkv) as [b|k]; cbn [bind] in E; [|discriminate].
  destruct a as [| | | | |[|? ?]|]; try discriminate.
  destruct b as [| | | | |[|? ?]|]; try discriminate.
  destruct (jget K_multipliers rkv) as [mj|k]; cbn [bind] in E; [|discriminate].
  destruct (multipliers_from_json mj) as [m|k]; cbn [bind] in E; [|discriminate].
  destruct (jget K_tool rkv) as [tj|k]; cbn [bind] in E; [|discriminate].
  destruct (as_str tj) as [tool|k]; cbn [bind] in E; [|discriminate].
  destruct (jget K_enabled_types kv) as [ej|k]; cbn [bind] in E; [|discriminate].
  destruct (str_list ej) as [types|k]; cbn [bind] in E; [|discriminate].
  destruct (as_str _) as [strict|k]; cbn [bind] in E; [|discriminate].
  destruct (existsb (seqb strict) strictness_levels) eqn:E4; cbn [negb] in E; [|discriminate].
  inversion E. cbn [d_strict].
  split; [exists sv; split; [reflexivity|exact E1]|].
  split; [exists r; split; [reflexivity|exact E2]|].
  split; [exists rkv; split; [reflexivity|exact E3]|]. exact E4.
Qed.

(* reuse implies: both schema versions current, same record, the saved rule names are exactly the
   present rule set, and for fungal inputs both multipliers equal the present options *)
Lemma det_regen_inv cur_outer cur_inner rid names fungi oc on kv d :
  det_regen cur_outer cur_inner rid names fungi oc on (JObj kv) = Ok (Some d) ->
  det_from_json cur_outer cur_inner rid (JObj kv) = Ok d /\
  set_eq (d_types d) names = true /\
  (fungi = true -> exists c n, as_num (d_cutoff d) = Ok c /\ qeq c oc = true /\
                               as_num (d_neigh d) = Ok n /\ qeq n on = true).
Proof.
  unfold det_regen. intros E.
  destruct (negb (truthy (JObj kv))); [discriminate|].
  destruct (det_from_json cur_outer cur_inner rid (JObj kv)) as [d0|k]; cbn [bind] in E; [|discriminate].
  destruct (set_eq (d_types d0) names) eqn:Es; cbn [negb] in E; [|discriminate].
  destruct fungi.
  - destruct (as_num (d_cutoff d0)) as [c|k] eqn:Ec; cbn [bind] in E; [|discriminate].
    destruct (qeq c oc) eqn:Eq1; cbn [negb] in E; [|discriminate].
    destruct (as_num (d_neigh d0)) as [n|k] eqn:En; cbn [bind] in E; [|discriminate].
    destruct (qeq n on) eqn:Eq2; cbn [negb] in E; [|discriminate].
    inversion E. subst d0. split; [reflexivity|]. split; [exact Es|].
    intros _. exists c, n. repeat split; assumption.
  - inversion E. subst d0. split; [reflexivity|]. split; [exact Es|]. intros F. discriminate.
Qed.

Lemma det_rule_set_changed cur_outer cur_inner rid names fungi oc on kv d :
  kv <> [] -> det_from_json cur_outer cur_inner rid (JObj kv) = Ok d ->
  set_eq (d_types d) names = false ->
  det_regen cur_outer cur_inner rid names fungi oc on (JObj kv) = Err E_Runtime.
Proof.
  intros N E S. unfold det_regen. destruct kv as [|p kv']; [elim N; reflexivity|].
  cbn [truthy C14.Model.nonempty negb]. rewrite E. cbn [bind]. rewrite S. reflexivity.
Qed.

Lemma set_eq_spec a b : set_eq a b = true <-> (forall x, In x a <-> In x b).
Proof.
  unfold set_eq, subset. rewrite andb_true_iff, !forallb_forall. split.
  - intros [H1 H2] x. split; intros Hx.
    + specialize (H1 x Hx). apply existsb_exists in H1. destruct H1 as (y & Hy & Exy).
      rewrite (seqb_eq _ _ Exy). exact Hy.
    + specialize (H2 x Hx). apply existsb_exists in H2. destruct H2 as (y & Hy & Exy).
      rewrite (seqb_eq _ _ Exy). exact Hy.
  - intros H. split; intros x Hx; apply existsb_exists; exists x; (split; [apply H; exact Hx | apply seqb_refl]).
Qed.

(* ---------- NRPSPKSDomains / SideloadedResults guards ---------- *)
Lemma nrps_reuse_inv cur rid names kv rs : nrps_from_json cur rid names (JObj kv) = Ok (Some rs) ->
  eq_int (jgetd K_schema_version kv JNull) cur = true /\ eq_str (jgetd K_record_id kv JNull) rid = true.
Proof.
  cbn [nrps_from_json]. intros E.
  destruct (eq_int (jgetd K_schema_version kv JNull) cur); cbn [negb] in E; [|discriminate].
  destruct (eq_str (jgetd K_record_id kv JNull) rid); cbn [negb] in E; [|discriminate].
  split; reflexivity.
Qed.

Lemma nrps_discards cur rid names kv :
  eq_int (jgetd K_schema_version kv JNull) cur = false \/ eq_str (jgetd K_record_id kv JNull) rid = false ->
  nrps_from_json cur rid names (JObj kv) = Ok None.
Proof.
  cbn [nrps_from_json]. intros [H|H].
  - rewrite H. reflexivity.
  - destruct (eq_int (jgetd K_schema_version kv JNull) cur); cbn [negb]; [|reflexivity]. rewrite H. reflexivity.
Qed.

Lemma side_reuse_inv cur rid origin kv r : side_from_json cur rid origin (JObj kv) = Ok r ->
  (exists sv, jget K_schema_version kv = Ok sv /\ eq_int sv cur = true) /\
  (exists i, jget K_record_id kv = Ok i /\ eq_str i rid = true).
Proof.
  cbn [side_from_json]. intros E.
  destruct (jget K_schema_version kv) as [sv|k]; cbn [bind] in E; [|discriminate].
  destruct (eq_int sv cur) eqn:E1; cbn [negb] in E; [|discriminate].
  destruct (jget K_record_id kv) as [i|k]; cbn [bind] in E; [|discriminate].
  destruct (eq_str i rid) eqn:E2; cbn [negb] in E; [|discriminate].
  split; [exists sv; split; [reflexivity|exact E1] | exists i; split; [reflexivity|exact E2]].
Qed.

(* every sideloaded area that is regenerated satisfies the constructor's validity conditions for
   the topology of the record it is regenerated against *)
Lemma sub_from_json_valid origin j a : sub_from_json origin j = Ok a ->
  match origin with
  | Some n => n = 0 /\ sa_start a < sa_end a \/ 0 < n /\ sa_start a <= n
  | None => sa_start a < sa_end a
  end.
Proof.
  destruct j as [| | | | | |kv]; cbn [sub_from_json]; try discriminate. intros E.
  destruct (jget K_start kv) as [x1|k]; cbn [bind] in E; [|discriminate].
  destruct (as_int x1) as [s|k]; cbn [bind] in E; [|discriminate].
  destruct (jget K_end kv) as [x2|k]; cbn [bind] in E; [|discriminate].
  destruct (as_int x2) as [e|k]; cbn [bind] in E; [|discriminate].
  destruct (jget K_label kv) as [x3|k]; cbn [bind] in E; [|discriminate].
  destruct (as_str x3) as [label|k]; cbn [bind] in E; [|discriminate].
  destruct (jget K_tool kv) as [x4|k]; cbn [bind] in E; [|discriminate].
  destruct (tool_from_json x4) as [t|k]; cbn [bind] in E; [|discriminate].
  destruct (qualifier_mapping _) as [details|k]; cbn [bind] in E; [|discriminate].
  destruct origin as [n|]; cbn [origin_truthy] in E.
  - destruct (negb (negb (n =? 0)) && (e <=? s)) eqn:E1; [discriminate|].
    destruct (negb (n =? 0) && (n <? 0)) eqn:E2; [discriminate|].
    destruct (negb (n =? 0) && (n <? s)) eqn:E3; [discriminate|].
    inversion E. cbn [sa_start sa_end]. lia.
  - cbn [negb andb] in E. destruct (e <=? s) eqn:E1; [discriminate|].
    inversion E. cbn [sa_start sa_end]. lia.
Qed.

(* ---------- HmmerHit / HmmerResults codec and the second cycle ---------- *)
Definition hit_wf (h : hhit) : Prop :=
  exists a0 a1 a2 a3 a4 a5 a6 a7 s e t,
    h = [a0; a1; a2; a3; a4; a5; a6; a7; JInt s; JInt e; JStr t] /\ s < e /\ zlen t = e - s.

Lemma hit_from_json_shape a0 a1 a2 a3 a4 a5 a6 a7 s e t :
  hit_from_json (hit_to_json [a0; a1; a2; a3; a4; a5; a6; a7; JInt s; JInt e; JStr t]) =
  if e <=? s then Err E_Value else
  if negb (zlen t =? e - s) then Err E_Value else
  Ok [a0; a1; a2; a3; a4; a5; a6; a7; JInt s; JInt e; JStr t].
Proof. reflexivity. Qed.

Lemma hit_codec h : hit_wf h -> hit_from_json (hit_to_json h) = Ok h.
Proof.
  intros (a0 & a1 & a2 & a3 & a4 & a5 & a6 & a7 & s & e & t & Hh & Hlt & Hlen). subst h.
  rewrite hit_from_json_shape.
  assert (E1 : (e <=? s) = false) by lia. assert (E2 : (zlen t =? e - s) = true) by lia.
  rewrite E1, E2. reflexivity.
Qed.

Lemma hits_codec hits : Forall hit_wf hits -> mapR hit_from_json (map hit_to_json hits) = Ok hits.
Proof.
  induction 1 as [|h hs Hh Hhs IH]; [reflexivity|].
  cbn [map mapR]. rewrite (hit_codec h Hh). cbn [bind]. rewrite IH. reflexivity.
Qed.

Lemma hit_from_json_wf j h : hit_from_json j = Ok h -> hit_wf h.
Proof.
  destruct j as [| | | | | |kv]; cbn [hit_from_json]; try discriminate. intros E.
  destruct (negb (forallb (fun p => existsb (seqb (fst p)) hit_fields) kv)); [discriminate|].
  destruct (negb (forallb (fun k => C14.Model.isSome (jfind k kv)) hit_fields)); [discriminate|].
  destruct (negb (no_dup_keys kv)); [discriminate|].
  destruct (jgetd K_protein_start kv JNull) as [| | s | | | |] eqn:E1; try discriminate.
  destruct (jgetd K_protein_end kv JNull) as [| | e | | | |] eqn:E2; try discriminate.
  destruct (jgetd K_translation kv JNull) as [| | | | t | |] eqn:E3; try discriminate.
  destruct (e <=? s) eqn:E4; [discriminate|].
  destruct (negb (zlen t =? e - s)) eqn:E5; [discriminate|].
  injection E as Hh. subst h.
  change (map (fun k => jgetd k kv JNull) hit_fields) with
    [jgetd (zs "location"%string) kv JNull; jgetd (zs "label"%string) kv JNull; jgetd (zs "locus_tag"%string) kv JNull;
     jgetd (zs "domain"%string) kv JNull; jgetd (zs "evalue"%string) kv JNull; jgetd (zs "score"%string) kv JNull;
     jgetd (zs "identifier"%string) kv JNull; jgetd (zs "description"%string) kv JNull;
     jgetd K_protein_start kv JNull; jgetd K_protein_end kv JNull; jgetd K_translation kv JNull].
  unfold K_protein_start in E1. unfold K_protein_end in E2. unfold K_translation in E3. rewrite E1, E2, E3.
  do 8 eexists. exists s, e, t. split; [reflexivity|]. split; lia.
Qed.

Definition hmmer_wf (r : hmmerres) : Prop :=
  0 < snd (hr_evalue r) /\ 0 < snd (hr_score r) /\ Forall hit_wf (hr_hits r).

Lemma hmmer_from_json_shape cur rid hits_j rid0 sv ea eb sa sb db tool :
  hmmer_from_json cur rid
    (JObj [(K_hits, JArr hits_j); (K_record_id_sp, JStr rid0); (K_schema, JInt sv);
           (K_max_evalue, JFlt ea eb); (K_min_score, JFlt sa sb); (K_database, JStr db);
           (K_tool, JStr tool)]) =
  if negb (seqb rid0 rid) then Ok None else
  if negb (sv =? cur) then Ok None else
  do score <- (if sb <=? 0 then Err E_Unmodelled else Ok (sa, sb));
  do evalue <- (if eb <=? 0 then Err E_Unmodelled else Ok (ea, eb));
  do hits <- mapR hit_from_json hits_j;
  Ok (Some (mkHmmer rid evalue score db tool hits)).
Proof. reflexivity. Qed.

Lemma hmmer_codec cur r : hmmer_wf r ->
  hmmer_from_json cur (hr_rid r) (hmmer_to_json cur r) = Ok (Some r).
Proof.
  destruct r as [rid [ea eb] [sa sb] db tool hits]. intros (He & Hs & Hh).
  cbn [hr_evalue hr_score hr_hits snd] in He, Hs, Hh.
  unfold hmmer_to_json. cbn [hr_rid hr_evalue hr_score hr_db hr_tool hr_hits jq fst snd].
  change (jq (ea, eb)) with (JFlt ea eb). change (jq (sa, sb)) with (JFlt sa sb).
  rewrite hmmer_from_json_shape. rewrite seqb_refl, Z.eqb_refl. cbn [negb].
  assert (E1 : (sb <=? 0) = false) by lia. assert (E2 : (eb <=? 0) = false) by lia.
  rewrite E1, E2. cbn [bind]. rewrite (hits_codec hits Hh). reflexivity.
Qed.

Lemma mapR_hits_wf l : forall hits, mapR hit_from_json l = Ok hits -> Forall hit_wf hits.
Proof.
  induction l as [|x xs IH]; intros hits E; cbn [mapR] in E.
  - inversion E. constructor.
  - destruct (hit_from_json x) as [h|k] eqn:Ex; cbn [bind] in E; [|discriminate].
    destruct (mapR hit_from_json xs) as [hs|k] eqn:Exs; cbn [bind] in E; [|discriminate].
    inversion E. constructor; [exact (hit_from_json_wf x h Ex) | exact (IH hs eq_refl)].
Qed.

Lemma flt_only_pos j x : flt_only j = Ok x -> 0 < snd x.
Proof.
  destruct j as [| | | a b | | |]; cbn [flt_only]; try discriminate.
  destruct (b <=? 0) eqn:E; [discriminate|]. intros H. inversion H. cbn [snd]. lia.
Qed.

Lemma hmmer_from_json_wf cur rid kv r : hmmer_from_json cur rid (JObj kv) = Ok (Some r) -> hmmer_wf r.
Proof.
  cbn [hmmer_from_json]. intros E.
  destruct (eq_str (jgetd K_record_id_sp kv JNull) rid); cbn [negb] in E; [|discriminate].
  destruct (eq_int (jgetd K_schema kv JNull) cur); cbn [negb] in E; [|discriminate].
  destruct (jgetd K_max_evalue kv JNull) eqn:E1; try discriminate;
  destruct (jgetd K_min_score kv JNull) eqn:E2; try discriminate;
  (destruct (flt_only _) as [score|k] eqn:Es; cbn [bind] in E; [|discriminate]);
  (destruct (flt_only _) as [evalue|k] eqn:Ee in E; cbn [bind] in E; [|discriminate]);
  (destruct (jgetd K_hits kv JNull) as [| | | | |hitl|]; try discriminate);
  (destruct (mapR hit_from_json hitl) as [hits|k] eqn:Eh; cbn [bind] in E; [|discriminate]);
  (destruct (jget K_database kv) as [dbj|k]; cbn [bind] in E; [|discriminate]);
  (destruct (jget K_tool kv) as [tj|k]; cbn [bind] in E; [|discriminate]);
  (destruct (as_str dbj) as [db|k]; cbn [bind] in E; [|discriminate]);
  (destruct (as_str tj) as [tool|k]; cbn [bind] in E; [|discriminate]);
  inversion E; unfold hmmer_wf; cbn [hr_evalue hr_score hr_hits];
  (split; [exact (flt_only_pos _ _ Ee)|]); (split; [exact (flt_only_pos _ _ Es)|]);
  exact (mapR_hits_wf _ _ Eh).
Qed.

Lemma filterR_all {A} (f : A -> res bool) l : (forall x, In x l -> f x = Ok true) -> filterR f l = Ok l.
Proof.
  induction l as [|y ys IH]; intros H; [reflexivity|].
  cbn [filterR]. rewrite (H y (or_introl eq_refl)). cbn [bind].
  rewrite IH; [reflexivity|]. intros x Hx. apply H. right. exact Hx.
Qed.

Lemma qlt_irrefl x : qlt x x = false.
Proof. unfold qlt. lia. Qed.

(* histories: what cluster_hmmer / full_hmmer reuse under given thresholds, once saved, is reused
   unchanged under the same thresholds - the second cycle is a fixed point *)
Lemma hmmer_regen_fixed cur rid max_evalue min_score kv r' :
  0 < snd max_evalue -> 0 < snd min_score ->
  hmmer_regen cur rid max_evalue min_score (JObj kv) = Ok (Some r') ->
  hmmer_regen cur rid max_evalue min_score (hmmer_to_json cur r') = Ok (Some r').
Proof.
  intros Hme Hms E. unfold hmmer_regen in E.
  destruct (negb (truthy (JObj kv))); [discriminate|].
  destruct (hmmer_from_json cur rid (JObj kv)) as [[r|]|k] eqn:Ef; cbn [bind] in E; try discriminate.
  destruct (qlt min_score (hr_score r) || qlt (hr_evalue r) max_evalue) eqn:El; [discriminate|].
  destruct (refilter max_evalue min_score r) as [r2|k] eqn:Er; cbn [bind] in E; [|discriminate].
  inversion E. subst r2.
  destruct (hmmer_reuse_inv cur rid kv r Ef) as (_ & _ & Hrid).
  destruct (refilter_spec _ _ _ _ Er) as (_ & _ & A3 & A4 & A5 & _ & _ & A8).
  destruct (hmmer_from_json_wf cur rid kv r Ef) as (_ & _ & Hwf).
  assert (W : hmmer_wf r').
  { unfold hmmer_wf. rewrite A3, A4. split; [exact Hme|]. split; [exact Hms|].
    rewrite Forall_forall in *. intros h Hh. apply Hwf. apply A8. exact Hh. }
  assert (R : hr_rid r' = rid) by (rewrite A5; exact Hrid).
  unfold hmmer_regen.
  change (truthy (hmmer_to_json cur r')) with true. cbn [negb].
  rewrite <- R at 1. rewrite (hmmer_codec cur r' W). cbn [bind].
  rewrite A3, A4, !qlt_irrefl. cbn [orb].
  unfold refilter. rewrite A3, A4, !qlt_irrefl.
  rewrite (filterR_all (hit_passes max_evalue min_score) (hr_hits r')).
  - cbn [bind]. destruct r' as [a b c d e f]. cbn in A3, A4. subst b c. reflexivity.
  - intros h Hh. apply A8. exact Hh.
Qed.
