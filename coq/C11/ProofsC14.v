(* C11 support: facts about the C14 module state machine that the C11 development needs.
   (1) add_component / replay / reload never look at the identity (cid) of a component:
       they commute with any renaming of the identities.
   (2) the modules built for one gene carry distinct identities, all taken from the input.
   (3) the same for the two lists returned by combine_modules. *)
From ASV Require Import Base.
From ASV.Gen Require Import Tables_gen.
From ASV.C14 Require Import Model Proofs Proofs2 Proofs3.
From Coq Require Import ZArith List Bool Lia Sorting.Permutation.
Import ListNotations.
Open Scope Z_scope.

(* ====================================================================================== *)
(* (1) equivariance under renaming of cid                                                 *)
(* ====================================================================================== *)
Definition recid (f : Z -> Z) (c : comp) : comp := mkComp (lab c) (sub c) (f (cid c)) (qstart c).
Definition mapm (f : Z -> Z) (m : module) : module :=
  mkModule (map (recid f) (m_comps m)) (option_map (recid f) (m_starter m)) (option_map (recid f) (m_loader m))
           (map (recid f) (m_mods m)) (option_map (recid f) (m_cp m)) (option_map (recid f) (m_end m))
           (map (recid f) (m_others m)) (m_first m) (m_unamb m).
Definition rmap {A B} (g : A -> B) (r : res A) : res B := match r with Ok a => Ok (g a) | Err k => Err k end.

Lemma recid_adenylation f c : c_adenylation (recid f c) = c_adenylation c. Proof. reflexivity. Qed.
Lemma recid_acyltransferase f c : c_acyltransferase (recid f c) = c_acyltransferase c. Proof. reflexivity. Qed.
Lemma recid_coa_ligase f c : c_coa_ligase (recid f c) = c_coa_ligase c. Proof. reflexivity. Qed.
Lemma recid_condensation f c : c_condensation (recid f c) = c_condensation c. Proof. reflexivity. Qed.
Lemma recid_starter f c : c_starter (recid f c) = c_starter c. Proof. reflexivity. Qed.
Lemma recid_loader f c : c_loader (recid f c) = c_loader c. Proof. reflexivity. Qed.
Lemma recid_mod f c : c_mod (recid f c) = c_mod c. Proof. reflexivity. Qed.
Lemma recid_cp f c : c_cp (recid f c) = c_cp c. Proof. reflexivity. Qed.
Lemma recid_end f c : c_end (recid f c) = c_end c. Proof. reflexivity. Qed.
Lemma recid_ignored f c : c_ignored (recid f c) = c_ignored c. Proof. reflexivity. Qed.
Lemma recid_special f c : c_special (recid f c) = c_special c. Proof. reflexivity. Qed.
Lemma recid_fused_starter f c : c_fused_starter (recid f c) = c_fused_starter c. Proof. reflexivity. Qed.
Lemma recid_pks f c : c_pks (recid f c) = c_pks c. Proof. reflexivity. Qed.
Lemma recid_nrps f c : c_nrps (recid f c) = c_nrps c. Proof. reflexivity. Qed.
Lemma recid_kr f c : c_kr (recid f c) = c_kr c. Proof. reflexivity. Qed.
Lemma recid_classified f c : c_classified (recid f c) = c_classified c. Proof. reflexivity. Qed.
Lemma recid_lab f c : lab (recid f c) = lab c. Proof. reflexivity. Qed.
Lemma recid_sub f c : sub (recid f c) = sub c. Proof. reflexivity. Qed.
Lemma recid_qstart f c : qstart (recid f c) = qstart c. Proof. reflexivity. Qed.
Lemma recid_cid f c : cid (recid f c) = f (cid c). Proof. reflexivity. Qed.

Lemma isSome_option_map {A B} (g : A -> B) o : isSome (option_map g o) = isSome o.
Proof. destruct o; reflexivity. Qed.
Lemma nonempty_map {A B} (g : A -> B) l : nonempty (map g l) = nonempty l.
Proof. destruct l; reflexivity. Qed.
Lemma existsb_recid f (P : comp -> bool) l :
  (forall c, P (recid f c) = P c) -> existsb P (map (recid f) l) = existsb P l.
Proof.
  intros HP. induction l as [|x l IH]; [reflexivity|].
  cbn [map existsb]. rewrite HP, IH. reflexivity.
Qed.
Lemma map_lab_recid f la : map lab (map (recid f) la) = map lab la.
Proof. rewrite map_map. apply map_ext. intros c. reflexivity. Qed.

Lemma is_pks_mapm f m : is_pks (mapm f m) = is_pks m.
Proof. unfold is_pks. cbn [mapm m_comps]. apply existsb_recid. intros c. reflexivity. Qed.
Lemma is_nrps_mapm f m : is_nrps (mapm f m) = is_nrps m.
Proof.
  unfold is_nrps. cbn [mapm m_starter m_loader].
  destruct (m_starter m), (m_loader m); reflexivity.
Qed.
Lemma is_trans_at_mapm f m : is_trans_at (mapm f m) = is_trans_at m.
Proof.
  unfold is_trans_at. rewrite is_pks_mapm. cbn [mapm m_starter m_loader m_others].
  rewrite isSome_option_map.
  rewrite (existsb_recid f (fun c => lab c =? c14_L_Trans_AT_docking)) by (intros c; reflexivity).
  destruct (m_starter m); reflexivity.
Qed.
Lemma is_iterative_mapm f m : is_iterative (mapm f m) = is_iterative m.
Proof. unfold is_iterative. cbn [mapm m_starter]. destruct (m_starter m); reflexivity. Qed.
Lemma double_case_recid f la : double_case (map (recid f) la) = double_case la.
Proof. unfold double_case. rewrite map_lab_recid. reflexivity. Qed.
Lemma double_len_recid f la : double_len (map (recid f) la) = double_len la.
Proof. unfold double_len. rewrite map_lab_recid. reflexivity. Qed.

Ltac recid_preds :=
  rewrite ?recid_adenylation, ?recid_acyltransferase, ?recid_coa_ligase, ?recid_condensation,
          ?recid_starter, ?recid_loader, ?recid_mod, ?recid_cp, ?recid_end, ?recid_ignored,
          ?recid_special, ?recid_fused_starter, ?recid_pks, ?recid_nrps, ?recid_kr, ?recid_classified.

Lemma ensure_suitable_recid f m c la :
  ensure_suitable (mapm f m) (recid f c) (map (recid f) la) = ensure_suitable m c la.
Proof.
  unfold ensure_suitable.
  rewrite is_trans_at_mapm, double_case_recid.
  cbn [mapm m_comps m_starter m_loader m_mods m_cp m_end m_others].
  rewrite !isSome_option_map, !nonempty_map.
  rewrite (existsb_recid f c_cp) by (intros x; reflexivity).
  recid_preds.
  destruct (m_starter m) as [s|]; cbn [option_map]; recid_preds; reflexivity.
Qed.

Lemma add_component_recid : forall f m c la,
  add_component (mapm f m) (recid f c) (map (recid f) la) = rmap (mapm f) (add_component m c la).
Proof.
  intros f m c la. unfold add_component.
  rewrite ensure_suitable_recid, double_len_recid.
  recid_preds.
  replace (m_unamb (mapm f m)) with (m_unamb m) by reflexivity.
  replace (m_starter (mapm f m)) with (option_map (recid f) (m_starter m)) by reflexivity.
  replace (m_loader (mapm f m)) with (option_map (recid f) (m_loader m)) by reflexivity.
  replace (m_cp (mapm f m)) with (option_map (recid f) (m_cp m)) by reflexivity.
  replace (m_end (mapm f m)) with (option_map (recid f) (m_end m)) by reflexivity.
  rewrite !isSome_option_map.
  destruct (negb (c_classified c)); [reflexivity|].
  destruct (c_ignored c); [reflexivity|].
  destruct (if 0 <? m_unamb m then Ok tt else ensure_suitable m c la) as [[]|k]; cbn [bind rmap]; [|reflexivity].
  repeat match goal with
         | |- context [if ?b then _ else _] => destruct b
         end;
    cbn [rmap]; try reflexivity;
    unfold mapm, with_comp;
    cbn [m_comps m_starter m_loader m_mods m_cp m_end m_others m_first m_unamb option_map];
    rewrite ?map_app; reflexivity.
Qed.

Lemma replay_recid : forall f cs m,
  replay (mapm f m) (map (recid f) cs) = rmap (mapm f) (replay m cs).
Proof.
  intros f cs. induction cs as [|c cs IH]; intros m; [reflexivity|].
  cbn [map replay]. rewrite add_component_recid.
  destruct (add_component m c cs) as [m'|k]; cbn [rmap bind]; [apply IH|reflexivity].
Qed.

Lemma mapm_empty f b : mapm f (empty_module b) = empty_module b.
Proof. reflexivity. Qed.

Lemma reload_recid : forall f m, reload m = Ok m -> reload (mapm f m) = Ok (mapm f m).
Proof.
  intros f m H. unfold reload in *.
  replace (m_first (mapm f m)) with (m_first m) by reflexivity.
  replace (m_comps (mapm f m)) with (map (recid f) (m_comps m)) by reflexivity.
  rewrite <- (mapm_empty f (m_first m)). rewrite replay_recid, H. reflexivity.
Qed.


(* ====================================================================================== *)
(* (2) distinct identities and membership for the modules built for one gene              *)
(* ====================================================================================== *)
Lemma insert_by_perm {A} (lt : A -> A -> bool) x l : Permutation (insert_by lt x l) (x :: l).
Proof.
  induction l as [|y l IH]; cbn [insert_by]; [apply Permutation_refl|].
  destruct (lt x y); [apply Permutation_refl|].
  eapply Permutation_trans; [apply perm_skip; exact IH|apply perm_swap].
Qed.
Lemma sort_by_perm_acc {A} (lt : A -> A -> bool) l : forall acc,
  Permutation (fold_left (fun acc x => insert_by lt x acc) l acc) (l ++ acc).
Proof.
  induction l as [|x l IH]; intros acc; cbn [fold_left app]; [apply Permutation_refl|].
  eapply Permutation_trans; [apply IH|].
  eapply Permutation_trans; [apply Permutation_app_head; apply insert_by_perm|].
  apply Permutation_sym, Permutation_middle.
Qed.
Lemma sort_by_perm {A} (lt : A -> A -> bool) (l : list A) : Permutation (sort_by lt l) l.
Proof. unfold sort_by. rewrite <- (app_nil_r l) at 2. apply sort_by_perm_acc. Qed.

Lemma NoDup_app_iff {A} (a b : list A) :
  NoDup (a ++ b) <-> NoDup a /\ NoDup b /\ (forall x, In x a -> In x b -> False).
Proof.
  induction a as [|x a IH]; cbn [app].
  - split; [intros H; repeat split; [constructor|exact H|intros ? []]|intros [_ [H _]]; exact H].
  - split.
    + intros H. inversion H as [|? ? Hn Hd]; subst. apply IH in Hd. destruct Hd as [Ha [Hb Hab]].
      repeat split.
      * constructor; [|exact Ha]. intros Hi. apply Hn. apply in_or_app. left. exact Hi.
      * exact Hb.
      * intros y [->|Hy] Hyb; [apply Hn; apply in_or_app; right; exact Hyb|exact (Hab y Hy Hyb)].
    + intros [Ha [Hb Hab]]. inversion Ha as [|? ? Hn Hd]; subst. constructor.
      * intros Hi. apply in_app_or in Hi. destruct Hi as [Hi|Hi]; [exact (Hn Hi)|].
        apply (Hab x); [left; reflexivity|exact Hi].
      * apply IH. repeat split; [exact Hd|exact Hb|]. intros y Hy. apply Hab. right. exact Hy.
Qed.

Lemma nodup_cid_app (a b : list comp) :
  NoDup (map cid (a ++ b)) <->
  NoDup (map cid a) /\ NoDup (map cid b) /\ (forall x y, In x a -> In y b -> cid x <> cid y).
Proof.
  rewrite map_app, NoDup_app_iff. split; intros [Ha [Hb Hab]]; repeat split; try assumption.
  - intros x y Hx Hy E. apply (Hab (cid x)); [apply in_map; exact Hx|rewrite E; apply in_map; exact Hy].
  - intros i Hia Hib. apply in_map_iff in Hia. apply in_map_iff in Hib.
    destruct Hia as [x [Ex Hx]], Hib as [y [Ey Hy]]. apply (Hab x y Hx Hy). congruence.
Qed.

Lemma nodup_cid_filter (p : comp -> bool) l : NoDup (map cid l) -> NoDup (map cid (filter p l)).
Proof.
  induction l as [|x l IH]; intros H; cbn [filter map] in *; [exact H|].
  inversion H as [|? ? Hn Hd]; subst. destruct (p x); [|apply IH; exact Hd].
  cbn [map]. constructor; [|apply IH; exact Hd].
  intros Hi. apply Hn. apply in_map_iff in Hi. destruct Hi as [y [Ey Hy]].
  apply filter_In in Hy. rewrite <- Ey. apply in_map. exact (proj1 Hy).
Qed.

Lemma flat_cons m ms : flat (m :: ms) = m_comps m ++ flat ms.
Proof. reflexivity. Qed.

Lemma flat_segment m ms : In m ms -> exists a b, flat ms = a ++ m_comps m ++ b.
Proof.
  intros H. apply in_split in H. destruct H as [l1 [l2 ->]].
  exists (flat l1), (flat l2). rewrite flat_app, flat_cons. reflexivity.
Qed.

(* the facts about the whole list of modules of one gene *)
Lemma build_flat_facts domains ms :
  Forall (fun c => c_classified c = true) domains -> NoDup (map cid domains) ->
  build_modules_for_cds domains = Ok ms ->
  NoDup (map cid (flat ms)) /\ Forall (fun k => In k domains) (flat ms).
Proof.
  intros Hc Hn Hb.
  destruct (build_modules_total_partition domains Hc) as [ms' [Hb' [Hf _]]].
  rewrite Hb in Hb'. injection Hb' as <-.
  rewrite Hf. unfold keep, sort_comps. split.
  - apply nodup_cid_filter.
    eapply Permutation_NoDup; [|exact Hn].
    apply Permutation_map, Permutation_sym, sort_by_perm.
  - apply Forall_forall. intros k Hk. apply filter_In in Hk. destruct Hk as [Hk _].
    eapply Permutation_in; [apply sort_by_perm|exact Hk].
Qed.

(* from the whole list to one module *)
Lemma flat_facts_module (P : comp -> Prop) ms m :
  NoDup (map cid (flat ms)) -> Forall P (flat ms) -> In m ms ->
  NoDup (map cid (m_comps m)) /\ Forall P (m_comps m).
Proof.
  intros Hn Hf Hm. destruct (flat_segment m ms Hm) as [a [b E]]. rewrite E in Hn, Hf.
  apply nodup_cid_app in Hn. destruct Hn as [_ [Hn _]].
  apply nodup_cid_app in Hn. destruct Hn as [Hn _].
  apply Forall_app in Hf. destruct Hf as [_ Hf]. apply Forall_app in Hf. destruct Hf as [Hf _].
  split; assumption.
Qed.

Lemma build_nodup_in : forall domains ms,
  Forall (fun c => c_classified c = true) domains -> NoDup (map cid domains) ->
  build_modules_for_cds domains = Ok ms ->
  Forall (fun m => NoDup (map cid (m_comps m)) /\ Forall (fun k => In k domains) (m_comps m)) ms.
Proof.
  intros domains ms Hc Hn Hb.
  destruct (build_flat_facts domains ms Hc Hn Hb) as [Hnd Hin].
  apply Forall_forall. intros m Hm. exact (flat_facts_module _ ms m Hnd Hin Hm).
Qed.

(* ====================================================================================== *)
(* (3) the same for the two lists returned by combine_modules                             *)
(* ====================================================================================== *)
Lemma last_opt_split {A} (l : list A) x : last_opt l = Some x -> l = removelast l ++ [x].
Proof.
  unfold last_opt. intros H. destruct (rev l) as [|y r] eqn:E; [discriminate|]. injection H as ->.
  assert (El : l = rev r ++ [x]) by (rewrite <- (rev_involutive l), E; reflexivity).
  rewrite El at 1. rewrite El, removelast_last. reflexivity.
Qed.

Lemma keep_app a b : keep (a ++ b) = keep a ++ keep b.
Proof. unfold keep. apply filter_app. Qed.
Lemma keep_in k l : In k (keep l) -> In k l.
Proof. unfold keep. intros H. apply filter_In in H. exact (proj1 H). Qed.

Lemma combine_nodup_in : forall prev cur same p c om p' c',
  Forall (fun k => c_classified k = true) prev -> Forall (fun k => c_classified k = true) cur ->
  NoDup (map cid (prev ++ cur)) ->
  build_modules_for_cds prev = Ok p -> build_modules_for_cds cur = Ok c ->
  combine_modules same c p = Ok (om, p', c') ->
  Forall (fun m => NoDup (map cid (m_comps m)) /\ Forall (fun k => In k (prev ++ cur)) (m_comps m)) (p' ++ c').
Proof.
  intros prev cur same p c om p' c' Hcp Hcc Hn Hbp Hbc Hcomb.
  apply nodup_cid_app in Hn. destruct Hn as [Hnp [Hnc Hdis]].
  destruct (build_flat_facts prev p Hcp Hnp Hbp) as [Hndp Hinp].
  destruct (build_flat_facts cur c Hcc Hnc Hbc) as [Hndc Hinc].
  assert (Hwp : Forall (fun k => In k (prev ++ cur)) (flat p)).
  { eapply Forall_impl; [|exact Hinp]. intros k Hk. apply in_or_app. left. exact Hk. }
  assert (Hwc : Forall (fun k => In k (prev ++ cur)) (flat c)).
  { eapply Forall_impl; [|exact Hinc]. intros k Hk. apply in_or_app. right. exact Hk. }
  assert (HP : forall m, In m p ->
            NoDup (map cid (m_comps m)) /\ Forall (fun k => In k (prev ++ cur)) (m_comps m)).
  { intros m Hm. exact (flat_facts_module _ p m Hndp Hwp Hm). }
  assert (HC : forall m, In m c ->
            NoDup (map cid (m_comps m)) /\ Forall (fun k => In k (prev ++ cur)) (m_comps m)).
  { intros m Hm. exact (flat_facts_module _ c m Hndc Hwc Hm). }
  pose proof (combine_shape _ _ _ _ _ _ Hcomb) as Hs.
  destruct om as [m|].
  2:{ destruct Hs as [-> ->]. apply Forall_forall. intros m Hm.
      apply in_app_or in Hm. destruct Hm as [Hm|Hm]; [apply HP|apply HC]; exact Hm. }
  destruct Hs as [head [tail [crest [Hlast [Ec [_ [Ep' Hcase]]]]]]].
  apply last_opt_split in Hlast.
  assert (Hhead : In head p) by (rewrite Hlast; apply in_or_app; right; left; reflexivity).
  assert (Hrl : forall x, In x (removelast p) -> In x p)
    by (intros x Hx; rewrite Hlast; apply in_or_app; left; exact Hx).
  (* the merged module: components = keep (head ++ Y) with Y a leading segment of flat c *)
  assert (Hm : exists Y Z, flat c = Y ++ Z /\ m_comps m = keep (m_comps head ++ Y) /\
                           forall x, In x c' -> In x c).
  { destruct Hcase as [[Hm [-> _]]|[next [kr [rest' [-> [En [-> Hm]]]]]]].
    - exists (m_comps tail), (flat crest). rewrite Ec, flat_cons. split; [reflexivity|].
      split; [rewrite keep_app; exact Hm|]. intros x Hx. right. exact Hx.
    - exists (m_comps tail ++ [kr]), (flat rest'). rewrite Ec, !flat_cons, En. split.
      + rewrite <- app_assoc. reflexivity.
      + split; [rewrite !keep_app, app_assoc; exact Hm|]. intros x Hx. right. right. exact Hx. }
  destruct Hm as [Y [Zs [EY [Em Hc']]]].
  assert (HmOK : NoDup (map cid (m_comps m)) /\ Forall (fun k => In k (prev ++ cur)) (m_comps m)).
  { destruct (HP head Hhead) as [Hnh Hih].
    rewrite EY in Hndc, Hinc. apply nodup_cid_app in Hndc. destruct Hndc as [HnY _].
    apply Forall_app in Hinc. destruct Hinc as [HiY _].
    rewrite Em. split.
    - unfold keep. apply nodup_cid_filter. apply nodup_cid_app. repeat split; [exact Hnh|exact HnY|].
      intros x y Hx Hy. apply Hdis.
      + destruct (flat_segment head p Hhead) as [a [b E]]. rewrite Forall_forall in Hinp.
        apply Hinp. rewrite E. apply in_or_app. right. apply in_or_app. left. exact Hx.
      + rewrite Forall_forall in HiY. apply HiY. exact Hy.
    - apply Forall_forall. intros k Hk. apply keep_in in Hk. apply in_app_or in Hk.
      destruct Hk as [Hk|Hk].
      + rewrite Forall_forall in Hih. apply Hih. exact Hk.
      + rewrite Forall_forall in HiY. apply in_or_app. right. apply HiY. exact Hk. }
  apply Forall_forall. intros x Hx. apply in_app_or in Hx. destruct Hx as [Hx|Hx].
  - rewrite Ep' in Hx. apply in_app_or in Hx. destruct Hx as [Hx|[<-|[]]]; [apply HP, Hrl; exact Hx|exact HmOK].
  - apply HC, Hc'. exact Hx.
Qed.

Print Assumptions add_component_recid.
Print Assumptions replay_recid.
Print Assumptions reload_recid.
Print Assumptions build_nodup_in.
Print Assumptions combine_nodup_in.
