(* C11: faithful model of the antiSMASH-owned part of "save module results to JSON, regenerate".
   JSON values as a small inductive (numbers: ints and exact rationals for floats, strings as
   code-point lists, objects as key-ordered association lists = Python dict order).
   Modelled (file:function):
     common/hmmscan_refinement.py      HMMResult.from_json / to_json / add_internal_hits / overlaps_with
     nrps_pks_domains/module_identification.py  Component.from_json/to_json, Module.from_json/to_json
                                       (add_component replay: C14.Model)
     nrps_pks_domains/domain_identification.py  CDSResult.from_json/to_json, NRPSPKSDomains.from_json/to_json
     modules/tta/tta.py                TTAResults.from_json / to_json, tta.run_on_record reuse test
     common/hmmer.py                   HmmerHit.__post_init__, HmmerResults.from_json/to_json/refilter,
                                       cluster_hmmer/full_hmmer.regenerate_previous_results
     detection/hmm_detection/__init__.py  HMMDetectionResults.from_json/to_json,
                                       regenerate_previous_results (outer layer + schema/multipliers of
                                       RuleDetectionResults; the protocluster/CDS payload is not modelled)
     detection/sideloader/data_structures.py  Tool / SubRegionAnnotation / ProtoclusterAnnotation /
                                       SideloadedResults from_json/to_json with constructor validation
   Values outside the generated domain (e.g. int("12"), str(5)) give Err E_Unmodelled; the harness
   never generates them.  No proofs in this file. *)
From ASV Require Export Base.
From ASV.Gen Require Import Tables_gen.
From ASV.C14 Require Model.
From Coq Require Import String Ascii.
Close Scope string_scope.
Open Scope Z_scope.

Definition E_Unmodelled := 98.

(* ---------- JSON values ---------- *)
Inductive jv : Type :=
| JNull
| JBool (b : bool)
| JInt (n : Z)
| JFlt (num den : Z)                       (* a Python float as the exact rational num/den, den > 0 *)
| JStr (s : list Z)
| JArr (l : list jv)
| JObj (kv : list (list Z * jv)).

Definition zs (s : string) : list Z := map (fun a => Z.of_N (N_of_ascii a)) (list_ascii_of_string s).

Fixpoint seqb (a b : list Z) : bool :=
  match a, b with
  | [], [] => true
  | x :: xs, y :: ys => (x =? y) && seqb xs ys
  | _, _ => false
  end.

Section Generic.
  Context {A B : Type} (f : A -> res B).
  Fixpoint mapR (l : list A) : res (list B) :=
    match l with
    | [] => Ok []
    | x :: xs => do y <- f x; do ys <- mapR xs; Ok (y :: ys)
    end.
End Generic.

Section Find.
  Context {A : Type} (f : jv -> A).
  Fixpoint jfind_with (k : list Z) (kv : list (list Z * jv)) : option A :=
    match kv with
    | [] => None
    | (k', v) :: r => if seqb k' k then Some (f v) else jfind_with k r
    end.
End Find.

Definition jfind (k : list Z) (kv : list (list Z * jv)) : option jv := jfind_with (fun v => v) k kv.
(* d[k] *)
Definition jget (k : list Z) (kv : list (list Z * jv)) : res jv :=
  match jfind k kv with Some v => Ok v | None => Err E_Key end.
(* d.get(k) *)
Definition jgetd (k : list Z) (kv : list (list Z * jv)) (d : jv) : jv :=
  match jfind k kv with Some v => v | None => d end.

(* rationals: (num, den), den > 0 *)
Definition q := (Z * Z)%type.
Definition qlt (a b : q) : bool := fst a * snd b <? fst b * snd a.
Definition qle (a b : q) : bool := fst a * snd b <=? fst b * snd a.
Definition qeq (a b : q) : bool := fst a * snd b =? fst b * snd a.
Definition jq (x : q) : jv := JFlt (fst x) (snd x).

(* int(x) *)
Definition as_int (j : jv) : res Z :=
  match j with
  | JInt n => Ok n
  | JFlt a b => if b <=? 0 then Err E_Unmodelled else Ok (Z.quot a b)
  | JBool b => Ok (if b then 1 else 0)
  | JStr _ => Err E_Unmodelled
  | _ => Err E_Type
  end.
(* float(x) *)
Definition as_flt (j : jv) : res q :=
  match j with
  | JInt n => Ok (n, 1)
  | JFlt a b => if b <=? 0 then Err E_Unmodelled else Ok (a, b)
  | JBool b => Ok (if b then 1 else 0, 1)
  | JStr _ => Err E_Unmodelled
  | _ => Err E_Type
  end.
(* a number taking part in an ordering comparison with a float: str/None/list/dict raise TypeError *)
Definition as_num (j : jv) : res q :=
  match j with
  | JInt n => Ok (n, 1)
  | JFlt a b => if b <=? 0 then Err E_Unmodelled else Ok (a, b)
  | JBool b => Ok (if b then 1 else 0, 1)
  | _ => Err E_Type
  end.
(* str(x): only strings are in the generated domain *)
Definition as_str (j : jv) : res (list Z) :=
  match j with JStr s => Ok s | _ => Err E_Unmodelled end.
(* x == n for an int n (Python: 2 == 2.0, True == 1) *)
Definition eq_int (j : jv) (n : Z) : bool :=
  match j with
  | JInt m => m =? n
  | JFlt a b => a =? n * b
  | JBool b => (if b then 1 else 0) =? n
  | _ => false
  end.
(* x == s for a str s *)
Definition eq_str (j : jv) (s : list Z) : bool :=
  match j with JStr t => seqb t s | _ => false end.
(* truthiness of a JSON value ("if not results") *)
Definition truthy (j : jv) : bool :=
  match j with
  | JNull => false | JBool b => b | JInt n => negb (n =? 0) | JFlt a _ => negb (a =? 0)
  | JStr s => C14.Model.nonempty s | JArr l => C14.Model.nonempty l | JObj kv => C14.Model.nonempty kv
  end.

(* ---------- HMMResult ---------- *)
Inductive hmm : Type :=
  HMM (hid : list Z) (qs qe : Z) (ev bs : q) (ih : list hmm).

Definition h_id (h : hmm) := match h with HMM i _ _ _ _ _ => i end.
Definition h_qs (h : hmm) := match h with HMM _ s _ _ _ _ => s end.
Definition h_qe (h : hmm) := match h with HMM _ _ e _ _ _ => e end.
Definition h_ih (h : hmm) := match h with HMM _ _ _ _ _ l => l end.

Definition K_hit_id := zs "hit_id".
Definition K_query_start := zs "query_start".
Definition K_query_end := zs "query_end".
Definition K_evalue := zs "evalue".
Definition K_bitscore := zs "bitscore".
Definition K_internal_hits := zs "internal_hits".

(* hit.overlaps_with(parent) on coordinates *)
Definition overlaps (hs he ps pe : Z) : bool := (pe >? hs) && (he >? ps).

(* HMMResult.__init__ with internal_hits: add_internal_hits raises ValueError for a hit that does
   not overlap the new instance *)
Definition mk_hmm (hid : list Z) (qs qe : Z) (ev bs : q) (ih : list hmm) : res hmm :=
  if forallb (fun h => overlaps (h_qs h) (h_qe h) qs qe) ih
  then Ok (HMM hid qs qe ev bs ih) else Err E_Value.

Fixpoint hmm_from_json (j : jv) : res hmm :=
  match j with
  | JObj kv =>
    do ih <- match jfind_with (fun v => match v with
                                       | JArr l => mapR hmm_from_json l
                                       | _ => Err E_Unmodelled
                                       end) K_internal_hits kv with
             | Some r => r
             | None => Ok []
             end;
    do a <- jget K_hit_id kv; do hid <- as_str a;
    do b <- jget K_query_start kv; do qs <- as_int b;
    do c <- jget K_query_end kv; do qe <- as_int c;
    do d <- jget K_evalue kv; do ev <- as_flt d;
    do e <- jget K_bitscore kv; do bs <- as_flt e;
    mk_hmm hid qs qe ev bs ih
  | _ => Err E_Unmodelled
  end.

Fixpoint hmm_to_json (h : hmm) : jv :=
  match h with
  | HMM hid qs qe ev bs ih =>
    JObj ([(K_hit_id, JStr hid); (K_query_start, JInt qs); (K_query_end, JInt qe);
           (K_evalue, jq ev); (K_bitscore, jq bs)]
          ++ match ih with
             | [] => []
             | _ => [(K_internal_hits, JArr (map hmm_to_json ih))]
             end)
  end.

(* ---------- Component / Module / CDSResult / NRPSPKSDomains ---------- *)
Definition K_domain := zs "domain".
Definition K_locus := zs "locus".
Definition K_components := zs "components".
Definition K_first_in_cds := zs "first_in_cds".
Definition K_domain_hmms := zs "domain_hmms".
Definition K_motif_hmms := zs "motif_hmms".
Definition K_modules := zs "modules".
Definition K_cds_results := zs "cds_results".
Definition K_schema_version := zs "schema_version".
Definition K_record_id := zs "record_id".

Fixpoint index_of (s : list Z) (l : list (list Z)) (i : Z) : option Z :=
  match l with
  | [] => None
  | x :: r => if seqb x s then Some i else index_of s r (i + 1)
  end.
Definition labels_z : list (list Z) := map zs c14_labels.
Definition label_index (s : list Z) : option Z := index_of s labels_z 0.

(* the subtype hits of a domain as the C14 model carries them (HMMResult.internal_hits as a forest of name
   codes: 1 Trans-AT-KS, 2 Iterative-KS, 3 any other name); Component.subtype / detailed_names are modelled
   there (C14.Model.subtype) *)
Definition name_code (s : list Z) : Z :=
  if seqb s (zs "Trans-AT-KS") then C14.Model.S_Trans_AT_KS
  else if seqb s (zs "Iterative-KS") then C14.Model.S_Iterative_KS else 3.
Fixpoint hit_code (h : hmm) : C14.Model.hit :=
  match h with HMM hid _ _ _ _ ih => C14.Model.Hit (name_code hid) (map hit_code ih) end.
Definition sub_code (h : hmm) : list C14.Model.hit := map hit_code (h_ih h).

Record component := mkComponent { co_dom : hmm; co_locus : list Z; co_c14 : C14.Model.comp }.

(* Component.from_json: HMMResult.from_json(data["domain"]), data["locus"]; __init__: classify raises
   ValueError for an unknown profile name, then assert cds_name *)
Definition component_from_json (j : jv) : res component :=
  match j with
  | JObj kv =>
    do dj <- jget K_domain kv;
    do dom <- hmm_from_json dj;
    do lj <- jget K_locus kv;
    match label_index (h_id dom) with
    | None => Err E_Value
    | Some lab =>
      let c := C14.Model.mkComp lab (sub_code dom) 0 (h_qs dom) in
      if negb (C14.Model.c_classified c) then Err E_Value else
      match lj with
      | JStr s => if C14.Model.nonempty s then Ok (mkComponent dom s c) else Err E_Assert
      | JNull => Err E_Assert
      | _ => Err E_Unmodelled
      end
    end
  | _ => Err E_Unmodelled
  end.

Definition component_to_json (c : component) : jv :=
  JObj [(K_domain, hmm_to_json (co_dom c)); (K_locus, JStr (co_locus c))].

(* give every component its position as identity, so that the C14 module can be mapped back *)
Fixpoint number (i : Z) (cs : list component) : list component :=
  match cs with
  | [] => []
  | c :: r =>
    let k := co_c14 c in
    mkComponent (co_dom c) (co_locus c)
                (C14.Model.mkComp (C14.Model.lab k) (C14.Model.sub k) i (C14.Model.qstart k))
    :: number (i + 1) r
  end.

Record cmodule := mkCModule { cm_comps : list component; cm_first : bool; cm_state : C14.Model.module }.

Definition pick (cs : list component) (k : C14.Model.comp) : list component :=
  filter (fun c => C14.Model.cid (co_c14 c) =? C14.Model.cid k) cs.

(* Module.from_json: cls(data.get("first_in_cds", True)); all components are built first, then
   add_component(component, components[i + 1:]) for each *)
Definition module_from_json (j : jv) : res cmodule :=
  match j with
  | JObj kv =>
    do first <- match jgetd K_first_in_cds kv (JBool true) with
                | JBool b => Ok b
                | _ => Err E_Unmodelled
                end;
    do cj <- jget K_components kv;
    match cj with
    | JArr l =>
      do cs0 <- mapR component_from_json l;
      let cs := number 0 cs0 in
      do m <- C14.Model.replay (C14.Model.empty_module first) (map co_c14 cs);
      Ok (mkCModule (flat_map (pick cs) (C14.Model.m_comps m)) first m)
    | _ => Err E_Unmodelled
    end
  | _ => Err E_Unmodelled
  end.

Definition module_to_json (m : cmodule) : jv :=
  JObj [(K_components, JArr (map component_to_json (cm_comps m))); (K_first_in_cds, JBool (cm_first m))].

Record cdsresult := mkCDSResult { cr_domains : list hmm; cr_motifs : list hmm; cr_modules : list cmodule }.

Definition hmm_list_from_json (j : jv) : res (list hmm) :=
  match j with JArr l => mapR hmm_from_json l | _ => Err E_Unmodelled end.

Definition cdsresult_from_json (j : jv) : res cdsresult :=
  match j with
  | JObj kv =>
    do dj <- jget K_domain_hmms kv; do ds <- hmm_list_from_json dj;
    do mj <- jget K_motif_hmms kv; do ms <- hmm_list_from_json mj;
    do oj <- jget K_modules kv;
    match oj with
    | JArr l => do mods <- mapR module_from_json l; Ok (mkCDSResult ds ms mods)
    | _ => Err E_Unmodelled
    end
  | _ => Err E_Unmodelled
  end.

Definition cdsresult_to_json (r : cdsresult) : jv :=
  JObj [(K_domain_hmms, JArr (map hmm_to_json (cr_domains r)));
        (K_motif_hmms, JArr (map hmm_to_json (cr_motifs r)));
        (K_modules, JArr (map module_to_json (cr_modules r)))].

(* dict assignment: a later equal key replaces the value, the position of the first stays *)
Fixpoint dict_set {A} (k : list Z) (v : A) (d : list (list Z * A)) : list (list Z * A) :=
  match d with
  | [] => [(k, v)]
  | (k', v') :: r => if seqb k' k then (k', v) :: r else (k', v') :: dict_set k v r
  end.

(* NRPSPKSDomains.from_json: None = discarded.  [names] = the CDS names of the record. *)
Definition nrps_from_json (cur_schema : Z) (rid : list Z) (names : list (list Z)) (j : jv)
  : res (option (list (list Z * cdsresult))) :=
  match j with
  | JObj kv =>
    if negb (eq_int (jgetd K_schema_version kv JNull) cur_schema) then Ok None else
    if negb (eq_str (jgetd K_record_id kv JNull) rid) then Ok None else
    do cj <- jget K_cds_results kv;
    match cj with
    | JObj items =>
      do rs <- mapR (fun p : list Z * jv =>
                       let '(name, v) := p in
                       if existsb (seqb name) names
                       then do r <- cdsresult_from_json v; Ok (name, r)
                       else Err E_Key) items;
      Ok (Some (fold_left (fun d p => dict_set (fst p) (snd p) d) rs []))
    | _ => Err E_Unmodelled
    end
  | _ => Err E_Unmodelled
  end.

Definition nrps_to_json (cur_schema : Z) (rid : list Z) (rs : list (list Z * cdsresult)) : jv :=
  JObj [(K_cds_results, JObj (map (fun p => (fst p, cdsresult_to_json (snd p))) rs));
        (K_schema_version, JInt cur_schema); (K_record_id, JStr rid)].

(* ---------- what generate_domains builds (the values that are saved) ---------- *)
(* Component(domain, cds_name): classify raises ValueError for an unknown profile, assert cds_name *)
Definition component_of (locus : list Z) (i : Z) (h : hmm) : res component :=
  match label_index (h_id h) with
  | None => Err E_Value
  | Some lab =>
    let c := C14.Model.mkComp lab (sub_code h) i (h_qs h) in
    if negb (C14.Model.c_classified c) then Err E_Value
    else if C14.Model.nonempty locus then Ok (mkComponent h locus c) else Err E_Assert
  end.
Fixpoint components_of (locus : list Z) (i : Z) (doms : list hmm) : res (list component) :=
  match doms with
  | [] => Ok []
  | h :: r => do c <- component_of locus i h; do cs <- components_of locus (i + 1) r; Ok (c :: cs)
  end.

(* a module of the C14 model (components carry the position of their domain in the gene's domain
   list as identity) as the list-of-components value that is saved: identities renumbered to the
   position inside the module, which is all that from_json can know *)
Fixpoint pos_of (i : Z) (ids : list Z) (k : Z) : Z :=
  match ids with
  | [] => k
  | x :: r => if x =? i then k else pos_of i r (k + 1)
  end.
Definition renum_comp (f : Z -> Z) (c : C14.Model.comp) : C14.Model.comp :=
  C14.Model.mkComp (C14.Model.lab c) (C14.Model.sub c) (f (C14.Model.cid c)) (C14.Model.qstart c).
Definition renum_module (f : Z -> Z) (m : C14.Model.module) : C14.Model.module :=
  C14.Model.mkModule (map (renum_comp f) (C14.Model.m_comps m)) (option_map (renum_comp f) (C14.Model.m_starter m))
    (option_map (renum_comp f) (C14.Model.m_loader m)) (map (renum_comp f) (C14.Model.m_mods m))
    (option_map (renum_comp f) (C14.Model.m_cp m)) (option_map (renum_comp f) (C14.Model.m_end m))
    (map (renum_comp f) (C14.Model.m_others m)) (C14.Model.m_first m) (C14.Model.m_unamb m).
Definition canon_module (tbl : list component) (m : C14.Model.module) : cmodule :=
  let f := fun i => pos_of i (map C14.Model.cid (C14.Model.m_comps m)) 0 in
  mkCModule (number 0 (flat_map (pick tbl) (C14.Model.m_comps m))) (C14.Model.m_first m) (renum_module f m).

(* build_modules_for_cds(domains, cds_name) as generate_domains calls it for one gene *)
Definition nrps_build_cds (locus : list Z) (doms : list hmm) : res (list cmodule) :=
  do comps <- components_of locus 0 doms;
  do ms <- C14.Model.build_modules_for_cds (map co_c14 comps);
  Ok (map (canon_module comps) ms).
(* the CDSResult of one gene; the last loop of generate_domains keeps the modules with more than
   one component (combine_modules across genes: C14_combine_total; the merged module is covered by
   the general codec theorem through its reload clause) *)
Definition nrps_cds_result (locus : list Z) (doms motifs : list hmm) : res cdsresult :=
  do mods <- nrps_build_cds locus doms;
  Ok (mkCDSResult doms motifs (filter (fun m => (1 <? zlen (cm_comps m))) mods)).

(* ---------- TTA ---------- *)
Definition K_tta_codons := zs "TTA codons".
Definition K_gc_content := zs "gc_content".
Definition K_threshold := zs "threshold".
Definition K_start := zs "start".
Definition K_strand := zs "strand".

Record ttares := mkTTA { t_rid : jv; t_gc : q; t_thr : q; t_codons : list (Z * Z) }.

Definition codon_from_json (j : jv) : res (Z * Z) :=
  match j with
  | JObj kv =>
    do a <- jget K_start kv; do b <- jget K_strand kv;
    match a, b with
    | JInt s, JInt st => Ok (s, st)
    | _, _ => Err E_Unmodelled
    end
  | _ => Err E_Unmodelled
  end.

(* TTAResults.from_json; thr = options.tta_threshold (a float) *)
Definition tta_from_json (cur_schema : Z) (thr : q) (j : jv) : res (option ttares) :=
  match j with
  | JObj kv =>
    do sv <- jget K_schema_version kv;
    if negb (eq_int sv cur_schema) then Ok None else
    do rid <- jget K_record_id kv;
    do gj <- jget K_gc_content kv;
    do gc <- as_flt gj;
    do tj <- jget K_threshold kv;
    do saved <- as_num tj;
    if qlt gc saved && qle thr gc then Ok None else
    do gcn <- as_num gj;
    if qle thr gcn then
      do cj <- jget K_tta_codons kv;
      match cj with
      | JArr l => do cs <- mapR codon_from_json l; Ok (Some (mkTTA rid gc thr cs))
      | _ => Err E_Unmodelled
      end
    else Ok (Some (mkTTA rid gc thr []))
  | _ => Err E_Unmodelled
  end.

Definition tta_to_json (cur_schema : Z) (r : ttares) : jv :=
  JObj [(K_tta_codons, JArr (map (fun c => JObj [(K_start, JInt (fst c)); (K_strand, JInt (snd c))])
                                 (t_codons r)));
        (K_schema_version, JInt cur_schema); (K_record_id, t_rid r);
        (K_gc_content, jq (t_gc r)); (K_threshold, jq (t_thr r))].

(* tta.run_on_record: reuse iff results.record_id == record.id *)
Definition tta_reused (rid : list Z) (r : ttares) : bool := eq_str (t_rid r) rid.

(* ---------- HmmerResults ---------- *)
Definition K_hits := zs "hits".
Definition K_record_id_sp := zs "record id".
Definition K_schema := zs "schema".
Definition K_max_evalue := zs "max evalue".
Definition K_min_score := zs "min score".
Definition K_database := zs "database".
Definition K_tool := zs "tool".
Definition hit_fields : list (list Z) :=
  map zs ["location"; "label"; "locus_tag"; "domain"; "evalue"; "score"; "identifier"; "description";
          "protein_start"; "protein_end"; "translation"]%string.
Definition K_score := zs "score".
Definition K_protein_start := zs "protein_start".
Definition K_protein_end := zs "protein_end".
Definition K_translation := zs "translation".

(* a hit is kept as its field values, in dataclass field order *)
Definition hhit := list jv.

Fixpoint no_dup_keys (kv : list (list Z * jv)) : bool :=
  match kv with
  | [] => true
  | (k, _) :: r => negb (existsb (fun p => seqb (fst p) k) r) && no_dup_keys r
  end.

(* HmmerHit(kwargs = hit): TypeError unless the keys are exactly the fields; __post_init__ checks *)
Definition hit_from_json (j : jv) : res hhit :=
  match j with
  | JObj kv =>
    if negb (forallb (fun p => existsb (seqb (fst p)) hit_fields) kv) then Err E_Type else
    if negb (forallb (fun k => C14.Model.isSome (jfind k kv)) hit_fields) then Err E_Type else
    if negb (no_dup_keys kv) then Err E_Unmodelled else
    match jgetd K_protein_start kv JNull, jgetd K_protein_end kv JNull, jgetd K_translation kv JNull with
    | JInt s, JInt e, JStr t =>
      if e <=? s then Err E_Value else
      if negb (zlen t =? e - s) then Err E_Value else
      Ok (map (fun k => jgetd k kv JNull) hit_fields)
    | _, _, _ => Err E_Unmodelled
    end
  | _ => Err E_Type
  end.

Definition hit_to_json (h : hhit) : jv := JObj (combine hit_fields h).

Record hmmerres := mkHmmer { hr_rid : list Z; hr_evalue : q; hr_score : q; hr_db : list Z;
                             hr_tool : list Z; hr_hits : list hhit }.

Definition flt_only (j : jv) : res q :=   (* assert isinstance(x, float) *)
  match j with JFlt a b => if b <=? 0 then Err E_Unmodelled else Ok (a, b) | _ => Err E_Assert end.

Definition hmmer_from_json (cur_schema : Z) (rid : list Z) (j : jv) : res (option hmmerres) :=
  match j with
  | JObj kv =>
    if negb (eq_str (jgetd K_record_id_sp kv JNull) rid) then Ok None else
    if negb (eq_int (jgetd K_schema kv JNull) cur_schema) then Ok None else
    let ej := jgetd K_max_evalue kv JNull in
    let sj := jgetd K_min_score kv JNull in
    match ej, sj with
    | JNull, _ => Err E_Value
    | _, JNull => Err E_Value
    | _, _ =>
      do score <- flt_only sj;
      do evalue <- flt_only ej;
      match jgetd K_hits kv JNull with
      | JArr l =>
        do hits <- mapR hit_from_json l;
        do dbj <- jget K_database kv;
        do tj <- jget K_tool kv;
        do db <- as_str dbj;
        do tool <- as_str tj;
        Ok (Some (mkHmmer rid evalue score db tool hits))
      | _ => Err E_Type
      end
    end
  | _ => Err E_Unmodelled
  end.

Definition hmmer_to_json (cur_schema : Z) (r : hmmerres) : jv :=
  JObj [(K_hits, JArr (map hit_to_json (hr_hits r))); (K_record_id_sp, JStr (hr_rid r));
        (K_schema, JInt cur_schema); (K_max_evalue, jq (hr_evalue r)); (K_min_score, jq (hr_score r));
        (K_database, JStr (hr_db r)); (K_tool, JStr (hr_tool r))].

Definition hit_field (k : list Z) (h : hhit) : jv := jgetd k (combine hit_fields h) JNull.

(* hit.score >= min_score and hit.evalue <= max_evalue (left to right, short-circuit).  The limits are INCLUSIVE here
   while hmmer.build_hits drops `hsp.bitscore <= min_score or hsp.evalue >= max_evalue` (exclusive): finding FC11b
   refilter_inclusive_limits (recorded, not repaired: test_hmmer.py::TestResults::test_refilter_higher_score and
   test_refilter_lower_evalue pin the inclusive test) *)
Definition hit_passes (max_evalue min_score : q) (h : hhit) : res bool :=
  do s <- as_num (hit_field K_score h);
  if qle min_score s then
    do e <- as_num (hit_field K_evalue h); Ok (qle e max_evalue)
  else Ok false.
(* hmmer.build_hits keeps an HSP unless `hsp.bitscore <= min_score or hsp.evalue >= max_evalue` *)
Definition fresh_run_keeps (max_evalue min_score score evalue : q) : bool :=
  negb (qle score min_score || qle max_evalue evalue).

Fixpoint filterR {A} (f : A -> res bool) (l : list A) : res (list A) :=
  match l with
  | [] => Ok []
  | x :: xs => do b <- f x; do r <- filterR f xs; Ok (if b then x :: r else r)
  end.

Definition refilter (max_evalue min_score : q) (r : hmmerres) : res hmmerres :=
  if qlt (hr_evalue r) max_evalue then Err E_Value else
  if qlt min_score (hr_score r) then Err E_Value else
  do hits <- filterR (hit_passes max_evalue min_score) (hr_hits r);
  Ok (mkHmmer (hr_rid r) max_evalue min_score (hr_db r) (hr_tool r) hits).

(* cluster_hmmer / full_hmmer regenerate_previous_results *)
Definition hmmer_regen (cur_schema : Z) (rid : list Z) (max_evalue min_score : q) (j : jv)
  : res (option hmmerres) :=
  if negb (truthy j) then Ok None else
  do o <- hmmer_from_json cur_schema rid j;
  match o with
  | None => Ok None
  | Some r =>
    if qlt min_score (hr_score r) || qlt (hr_evalue r) max_evalue then Ok None else
    do r' <- refilter max_evalue min_score r; Ok (Some r')
  end.

(* ---------- HMMDetectionResults (outer layer) ---------- *)
Definition K_enabled_types := zs "enabled_types".
Definition K_rule_results := zs "rule_results".
Definition K_strictness := zs "strictness".
Definition K_multipliers := zs "multipliers".
Definition K_cutoff := zs "cutoff".
Definition K_neighbourhood := zs "neighbourhood".
Definition K_cds_by_protocluster := zs "cds_by_protocluster".
Definition K_outside_protoclusters := zs "outside_protoclusters".
Definition strictness_levels : list (list Z) := map zs ["strict"; "relaxed"; "loose"]%string.

Record hmmdet := mkDet { d_rid : jv; d_types : list (list Z); d_strict : list Z; d_tool : list Z;
                         d_cutoff : jv; d_neigh : jv }.

(* Multipliers(kwargs = data): cutoff / neighbourhood with defaults 1.0; unknown key TypeError; <= 0 ValueError *)
Definition multipliers_from_json (j : jv) : res (jv * jv) :=
  match j with
  | JObj kv =>
    if negb (forallb (fun p => seqb (fst p) K_cutoff || seqb (fst p) K_neighbourhood) kv) then Err E_Type else
    let c := jgetd K_cutoff kv (JFlt 1 1) in
    let n := jgetd K_neighbourhood kv (JFlt 1 1) in
    do cq <- as_num c;
    if qle cq (0, 1) then Err E_Value else
    do nq <- as_num n;
    if qle nq (0, 1) then Err E_Value else
    Ok (c, n)
  | _ => Err E_Type
  end.

Definition str_list (j : jv) : res (list (list Z)) :=
  match j with JArr l => mapR as_str l | _ => Err E_Unmodelled end.

(* the payload lists of RuleDetectionResults must be present; their content (protocluster features,
   CDSResults) is not modelled: the generated cases use empty lists there *)
Definition det_from_json (cur_outer cur_inner : Z) (rid : list Z) (j : jv) : res hmmdet :=
  match j with
  | JObj kv =>
    do sv <- jget K_schema_version kv;
    if negb (eq_int sv cur_outer) then Err E_Value else
    do r <- jget K_record_id kv;
    if negb (eq_str r rid) then Err E_Assert else
    do rr <- jget K_rule_results kv;
    match rr with
    | JObj rkv =>
      if negb (eq_int (jgetd K_schema_version rkv (JInt 1)) cur_inner) then Err E_Value else
      do a <- jget K_cds_by_protocluster rkv;
      do b <- jget K_outside_protoclusters rkv;
      match a, b with
      | JArr [], JArr [] =>
        do mj <- jget K_multipliers rkv;
        do m <- multipliers_from_json mj;
        do tj <- jget K_tool rkv;
        do tool <- as_str tj;
        do ej <- jget K_enabled_types kv;
        do types <- str_list ej;
        do strict <- as_str (jgetd K_strictness kv (JStr (zs "relaxed")));
        if negb (existsb (seqb strict) strictness_levels) then Err E_Value else
        Ok (mkDet r types strict tool (fst m) (snd m))
      | _, _ => Err E_Unmodelled
      end
    | _ => Err E_Unmodelled
    end
  | _ => Err E_Unmodelled
  end.

Definition det_to_json (cur_outer cur_inner : Z) (d : hmmdet) : jv :=
  JObj [(K_record_id, d_rid d); (K_schema_version, JInt cur_outer);
        (K_enabled_types, JArr (map JStr (d_types d)));
        (K_rule_results, JObj [(K_schema_version, JInt cur_inner); (K_tool, JStr (d_tool d));
                               (K_cds_by_protocluster, JArr []); (K_outside_protoclusters, JArr []);
                               (K_multipliers, JObj [(K_cutoff, d_cutoff d); (K_neighbourhood, d_neigh d)])]);
        (K_strictness, JStr (d_strict d))].

Definition subset (a b : list (list Z)) : bool := forallb (fun x => existsb (seqb x) b) a.
Definition set_eq (a b : list (list Z)) : bool := subset a b && subset b a.

(* hmm_detection.regenerate_previous_results *)
Definition det_regen (cur_outer cur_inner : Z) (rid : list Z) (rule_names : list (list Z))
           (fungi : bool) (opt_cutoff opt_neigh : q) (j : jv) : res (option hmmdet) :=
  if negb (truthy j) then Ok None else
  do d <- det_from_json cur_outer cur_inner rid j;
  if negb (set_eq (d_types d) rule_names) then Err E_Runtime else
  if fungi then
    do c <- as_num (d_cutoff d);
    if negb (qeq c opt_cutoff) then Err E_Runtime else
    do n <- as_num (d_neigh d);
    if negb (qeq n opt_neigh) then Err E_Runtime else Ok (Some d)
  else Ok (Some d).

(* ---------- sideloaded annotations ---------- *)
Definition K_name := zs "name".
Definition K_version := zs "version".
Definition K_description := zs "description".
Definition K_configuration := zs "configuration".
Definition K_end := zs "end".
Definition K_label := zs "label".
Definition K_details := zs "details".
Definition K_circular_origin := zs "circular_origin".
Definition K_core_start := zs "core_start".
Definition K_core_end := zs "core_end".
Definition K_product := zs "product".
Definition K_neighbourhood_left := zs "neighbourhood_left".
Definition K_neighbourhood_right := zs "neighbourhood_right".
Definition K_protoclusters := zs "protoclusters".
Definition K_subregions := zs "subregions".

(* _qualifier_mapping: str -> [str]; list of str -> the list (other element types: not generated) *)
Definition qualifier_mapping (j : jv) : res (list (list Z * list (list Z))) :=
  match j with
  | JObj kv => mapR (fun p : list Z * jv =>
                       match snd p with
                       | JStr s => Ok (fst p, [s])
                       | JArr l => do ss <- mapR as_str l; Ok (fst p, ss)
                       | _ => Err E_Unmodelled
                       end) kv
  | _ => Err E_Unmodelled
  end.
Definition qualifiers_to_json (m : list (list Z * list (list Z))) : jv :=
  JObj (map (fun p => (fst p, JArr (map JStr (snd p)))) m).

Record tool := mkTool { tl_name : list Z; tl_version : list Z; tl_descr : list Z;
                        tl_conf : list (list Z * list (list Z)) }.

(* Tool.__post_init__: every character of the name isalpha() or one of "_- " (ASCII letters only
   are generated besides the rejected characters) *)
Definition name_char_ok (c : Z) : bool :=
  ((65 <=? c) && (c <=? 90)) || ((97 <=? c) && (c <=? 122)) || (c =? 95) || (c =? 45) || (c =? 32).

Definition tool_from_json (j : jv) : res tool :=
  match j with
  | JObj kv =>
    do a <- jget K_name kv; do name <- as_str a;
    do b <- jget K_version kv; do version <- as_str b;
    do descr <- as_str (jgetd K_description kv (JStr []));
    do conf <- qualifier_mapping (jgetd K_configuration kv (JObj []));
    if forallb name_char_ok name then Ok (mkTool name version descr conf) else Err E_Value
  | _ => Err E_Unmodelled
  end.
Definition tool_to_json (t : tool) : jv :=
  JObj [(K_name, JStr (tl_name t)); (K_version, JStr (tl_version t)); (K_description, JStr (tl_descr t));
        (K_configuration, qualifiers_to_json (tl_conf t))].

(* self.circular_origin is stored in the annotation (dict(vars(self)) saves it): None = linear record *)
Record subann := mkSub { sa_origin : option Z; sa_start : Z; sa_end : Z; sa_label : list Z; sa_tool : tool;
                         sa_details : list (list Z * list (list Z)) }.
Record protoann := mkProto { pa_origin : option Z; pa_cs : Z; pa_ce : Z; pa_product : list Z; pa_tool : tool;
                             pa_details : list (list Z * list (list Z)); pa_nl : Z; pa_nr : Z }.

(* origin: None = linear record; Some n = len(record) of a circular record *)
Definition origin_truthy (o : option Z) : bool := match o with Some n => negb (n =? 0) | None => false end.
Definition origin_json (o : option Z) : jv := match o with Some n => JInt n | None => JNull end.

Definition sub_from_json (origin : option Z) (j : jv) : res subann :=
  match j with
  | JObj kv =>
    do a <- jget K_start kv; do s <- as_int a;
    do b <- jget K_end kv; do e <- as_int b;
    do c <- jget K_label kv; do label <- as_str c;
    do tj <- jget K_tool kv; do t <- tool_from_json tj;
    do details <- qualifier_mapping (jgetd K_details kv (JObj []));
    if negb (origin_truthy origin) && (e <=? s) then Err E_Value else
    match origin with
    | Some n => if negb (n =? 0) && (n <? 0) then Err E_Value
                else if negb (n =? 0) && (n <? s) then Err E_Value
                else Ok (mkSub origin s e label t details)
    | None => Ok (mkSub origin s e label t details)
    end
  | _ => Err E_Unmodelled
  end.
(* dict(vars(self)): circular_origin, start, end, label, details, tool *)
Definition sub_to_json (a : subann) : jv :=
  JObj [(K_circular_origin, origin_json (sa_origin a)); (K_start, JInt (sa_start a)); (K_end, JInt (sa_end a));
        (K_label, JStr (sa_label a)); (K_details, qualifiers_to_json (sa_details a));
        (K_tool, tool_to_json (sa_tool a))].

Definition proto_from_json (origin : option Z) (j : jv) : res protoann :=
  match j with
  | JObj kv =>
    do a <- jget K_core_start kv; do cs <- as_int a;
    do b <- jget K_core_end kv; do ce <- as_int b;
    do c <- jget K_product kv; do product <- as_str c;
    do tj <- jget K_tool kv; do t <- tool_from_json tj;
    do details <- qualifier_mapping (jgetd K_details kv (JObj []));
    do nl <- as_int (jgetd K_neighbourhood_left kv (JInt 0));
    do nr <- as_int (jgetd K_neighbourhood_right kv (JInt 0));
    if negb (origin_truthy origin) then
      if ce <=? cs then Err E_Value
      else if (nl <? 0) || (nr <? 0) then Err E_Value
      else if cs - nl <? 0 then Err E_Value
      else Ok (mkProto origin cs ce product t details nl nr)
    else
      match origin with
      | Some n => if n <? 0 then Err E_Value else if n <? cs then Err E_Value
                  else Ok (mkProto origin cs ce product t details nl nr)
      | None => Ok (mkProto origin cs ce product t details nl nr)
      end
  | _ => Err E_Unmodelled
  end.
(* dict(vars(self)): circular_origin, core_start, core_end, product, tool, details, neighbourhood_* *)
Definition proto_to_json (a : protoann) : jv :=
  JObj [(K_circular_origin, origin_json (pa_origin a)); (K_core_start, JInt (pa_cs a)); (K_core_end, JInt (pa_ce a));
        (K_product, JStr (pa_product a)); (K_tool, tool_to_json (pa_tool a));
        (K_details, qualifiers_to_json (pa_details a));
        (K_neighbourhood_left, JInt (pa_nl a)); (K_neighbourhood_right, JInt (pa_nr a))].

Record sideres := mkSide { sd_rid : jv; sd_subs : list subann; sd_protos : list protoann }.

Definition side_from_json (cur_schema : Z) (rid : list Z) (origin : option Z) (j : jv) : res sideres :=
  match j with
  | JObj kv =>
    do sv <- jget K_schema_version kv;
    if negb (eq_int sv cur_schema) then Err E_Value else
    do r <- jget K_record_id kv;
    if negb (eq_str r rid) then Err E_Assert else
    do sj <- jget K_subregions kv;
    match sj with
    | JArr sl =>
      do subs <- mapR (sub_from_json origin) sl;
      do pj <- jget K_protoclusters kv;
      match pj with
      | JArr pl => do protos <- mapR (proto_from_json origin) pl; Ok (mkSide r subs protos)
      | _ => Err E_Unmodelled
      end
    | _ => Err E_Unmodelled
    end
  | _ => Err E_Unmodelled
  end.
Definition side_to_json (cur_schema : Z) (r : sideres) : jv :=
  JObj [(K_record_id, sd_rid r); (K_schema_version, JInt cur_schema);
        (K_protoclusters, JArr (map proto_to_json (sd_protos r)));
        (K_subregions, JArr (map sub_to_json (sd_subs r)))].
(* sideloader.regenerate_previous_results *)
Definition side_regen (cur_schema : Z) (rid : list Z) (origin : option Z) (j : jv) : res (option sideres) :=
  if negb (truthy j) then Ok None else do r <- side_from_json cur_schema rid origin j; Ok (Some r).

(* ---------- flat encoding ---------- *)
Definition eStr (s : list Z) : list Z := zlen s :: s.

(* a float travels as [3; m; e] = m * 2^e with m odd (or m = e = 0): both fit a machine word *)
Fixpoint strip2 (p : positive) : positive * Z :=
  match p with
  | xO p' => let '(r, e) := strip2 p' in (r, e + 1)
  | _ => (p, 0)
  end.
Definition eFlt (num den : Z) : list Z :=
  if den =? 1 then
    match num with
    | Z0 => [0; 0]
    | Zpos p => let '(r, e) := strip2 p in [Zpos r; e]
    | Zneg p => let '(r, e) := strip2 p in [Zneg r; e]
    end
  else [num; - Z.log2 den].
Definition dFlt (m e : Z) : Z * Z := if 0 <=? e then (m * 2 ^ e, 1) else (m, 2 ^ (- e)).

Fixpoint ejv (j : jv) : list Z :=
  match j with
  | JNull => [0]
  | JBool b => [1; if b then 1 else 0]
  | JInt n => [2; n]
  | JFlt a b => 3 :: eFlt a b
  | JStr s => 4 :: eStr s
  | JArr l => 5 :: zlen l :: flat_map ejv l
  | JObj kv => 6 :: zlen kv :: flat_map (fun p => let '(k, v) := p in eStr k ++ ejv v) kv
  end.

Fixpoint djv (fuel : nat) (l : list Z) : option (jv * list Z) :=
  match fuel with
  | O => None
  | S f =>
    match l with
    | 0 :: r => Some (JNull, r)
    | 1 :: b :: r => Some (JBool (negb (b =? 0)), r)
    | 2 :: n :: r => Some (JInt n, r)
    | 3 :: m :: e :: r => let '(a, b) := dFlt m e in Some (JFlt a b, r)
    | 4 :: r => match dList dZ r with Some (s, r') => Some (JStr s, r') | None => None end
    | 5 :: n :: r =>
      if n <? 0 then None else
      match dRep (djv f) (Z.to_nat n) r with Some (xs, r') => Some (JArr xs, r') | None => None end
    | 6 :: n :: r =>
      if n <? 0 then None else
      match dRep (dPair (dList dZ) (djv f)) (Z.to_nat n) r with
      | Some (kv, r') => Some (JObj kv, r')
      | None => None
      end
    | _ => None
    end
  end.

(* result: [1; kind] error, [0; 0] discarded (None), [0; 1; json...] regenerated and saved again *)
Definition eOut (r : res (option jv)) : list Z :=
  match r with
  | Err k => [1; k]
  | Ok None => [0; 0]
  | Ok (Some j) => 0 :: 1 :: ejv j
  end.

Definition omap {A B} (f : A -> B) (r : res (option A)) : res (option B) :=
  match r with Err k => Err k | Ok None => Ok None | Ok (Some a) => Ok (Some (f a)) end.

Definition jq_of (j : jv) : option q := match as_num j with Ok x => Some x | Err _ => None end.
Definition jstrs (j : jv) : option (list (list Z)) := match str_list j with Ok x => Some x | Err _ => None end.

Definition run_main (fn : Z) (args : list jv) : list Z :=
    match fn, args with
    | 1, [j] => eOut (omap hmm_to_json (do h <- hmm_from_json j; Ok (Some h)))
    | 2, [j; JStr rid; names; JInt cur] =>
      match jstrs names with
      | Some ns => eOut (omap (nrps_to_json cur rid) (nrps_from_json cur rid ns j))
      | None => bad_input
      end
    | 3, [j; thr; JStr rid; JInt cur] =>
      match jq_of thr with
      | Some t =>
        match tta_from_json cur t j with
        | Err k => [1; k]
        | Ok None => [0; 0]
        | Ok (Some r) => 0 :: 1 :: ejv (tta_to_json cur r) ++ eBool (tta_reused rid r)
        end
      | None => bad_input
      end
    | 4, [j; JStr rid; JInt cur; me; ms; JInt mode] =>
      match jq_of me, jq_of ms with
      | Some max_evalue, Some min_score =>
        eOut (omap (hmmer_to_json cur)
          (if mode =? 0 then hmmer_from_json cur rid j
           else if mode =? 1 then hmmer_regen cur rid max_evalue min_score j
           else do o <- hmmer_from_json cur rid j;
                match o with
                | None => Ok None
                | Some r => do r' <- refilter max_evalue min_score r; Ok (Some r')
                end))
      | _, _ => bad_input
      end
    | 5, [j; JStr rid; names; JBool fungi; oc; on; JInt cur_outer; JInt cur_inner] =>
      match jstrs names, jq_of oc, jq_of on with
      | Some ns, Some c, Some n =>
        eOut (omap (det_to_json cur_outer cur_inner) (det_regen cur_outer cur_inner rid ns fungi c n j))
      | _, _, _ => bad_input
      end
    | 6, [j; JStr rid; origin; JInt cur] =>
      match origin with
      | JNull => eOut (omap (side_to_json cur) (side_regen cur rid None j))
      | JInt n => eOut (omap (side_to_json cur) (side_regen cur rid (Some n) j))
      | _ => bad_input
      end
    | _, _ => bad_input
    end.

(* the first clause of the property as a decidable specification, evaluated on an implementation
   output: when the saved JSON j is in SAVED FORM for the present record and settings (the model
   regenerates it and saves exactly j again - by the codec theorems this holds for every value the
   modules produce), the implementation must regenerate it and save exactly j again.
   Verdict [1] satisfied / not applicable, [0] violated. *)
Definition spec_saved (fn : Z) (model_out : list Z) (j : jv) (impl_out : list Z) : list Z :=
  let fixed := 0 :: 1 :: ejv j ++ (if fn =? 3 then [1] else []) in
  if list_eqb Z.eqb model_out fixed then [if list_eqb Z.eqb impl_out model_out then 1 else 0] else [1].

(* fn 1-6: the model's answer; fn 11-16: payload ++ implementation output -> spec verdict *)
Definition run_C11 (fn : Z) (l : list Z) : list Z :=
  match djv (S (List.length l)) l with
  | Some (JArr args, rest) =>
    if fn <? 10 then match rest with [] => run_main fn args | _ => bad_input end
    else match args with
         | j :: _ => spec_saved (fn - 10) (run_main (fn - 10) args) j rest
         | [] => bad_input
         end
  | _ => bad_input
  end.
