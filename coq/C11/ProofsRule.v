(* C11 (rule payload) - round trip of the protocluster / CDS payload of RuleDetectionResults. *)
From ASV Require Import Base Loc.
From ASV.C11 Require Import Model ModelRule.
From ASV.C10 Require Model Proofs.
From Coq Require Import Lia String.
Close Scope string_scope.
Open Scope Z_scope.

Module XP := ASV.C10.Proofs.

(* ---------- generic ---------- *)
Lemma seqb_refl' a : seqb a a = true.
Proof. induction a as [|x xs IH]; [reflexivity|]. cbn [seqb]. rewrite Z.eqb_refl, IH. reflexivity. Qed.

Lemma mapR_map {A B C} (f : B -> res C) (g : A -> B) (h : A -> C) (P : A -> Prop) (l : list A) :
  (forall x, P x -> f (g x) = Ok (h x)) -> Forall P l -> mapR f (map g l) = Ok (map h l).
Proof.
  intros H F. induction F as [|x xs Hx Hxs IH]; [reflexivity|].
  cbn [map mapR]. rewrite (H x Hx). cbn [bind]. rewrite IH. reflexivity.
Qed.

Lemma mapR_id {A B} (f : B -> res A) (g : A -> B) (P : A -> Prop) (l : list A) :
  (forall x, P x -> f (g x) = Ok x) -> Forall P l -> mapR f (map g l) = Ok l.
Proof.
  intros H F. rewrite (mapR_map f g (fun x => x) P l H F). rewrite map_id. reflexivity.
Qed.

Lemma forallb_Forall {A} (p : A -> bool) (l : list A) : forallb p l = true -> Forall (fun x => p x = true) l.
Proof.
  induction l as [|x xs IH]; intros H; constructor; cbn [forallb] in H; apply andb_true_iff in H;
    destruct H as [H1 H2]; [exact H1 | exact (IH H2)].
Qed.

(* ---------- Domain ---------- *)
Definition dom_wf (d : domain) : bool := (0 <? snd (dm_evalue d)) && (0 <? snd (dm_bitscore d)).

Lemma dom_codec d : dom_wf d = true -> dom_from_json (dom_to_json d) = Ok d.
Proof.
  destruct d as [name [ea eb] [ba bb] n tool]. unfold dom_wf. cbn [dm_evalue dm_bitscore snd].
  intros H. apply andb_true_iff in H. destruct H as [He Hb].
  assert (Ee : (eb <=? 0) = false) by (apply Z.leb_gt; apply Z.ltb_lt; exact He).
  assert (Eb : (bb <=? 0) = false) by (apply Z.leb_gt; apply Z.ltb_lt; exact Hb).
  unfold dom_to_json, dom_from_json, jq.
  cbn [dm_name dm_evalue dm_bitscore dm_nseeds dm_tool fst snd as_str as_flt as_int bind].
  rewrite Ee, Eb. reflexivity.
Qed.

(* ---------- sets of strings ---------- *)
Lemma ssort_sasc l : sasc l = true -> ssort l = l.
Proof.
  induction l as [|x r IH]; [reflexivity|]. intros H. cbn [sasc] in H.
  destruct r as [|y r'].
  - reflexivity.
  - apply andb_true_iff in H. destruct H as [Hxy Hr].
    change (ssort (x :: y :: r')) with (sins x (ssort (y :: r'))). rewrite (IH Hr).
    cbn [sins]. rewrite Hxy. reflexivity.
Qed.

Lemma as_str_JStr l : mapR as_str (map JStr l) = Ok l.
Proof. apply (mapR_id as_str JStr (fun _ => True)); [reflexivity|]. induction l; constructor; auto. Qed.

Lemma def_codec p : sasc (snd p) = true -> def_from_json (def_to_json p) = Ok p.
Proof.
  destruct p as [k v]. cbn [snd]. intros H. unfold def_from_json, def_to_json. cbn [fst snd].
  rewrite as_str_JStr. cbn [bind]. rewrite (ssort_sasc v H). reflexivity.
Qed.

(* ---------- CDSResults ---------- *)
Definition cds_wf (names : list (list Z)) (c : cdsres) : bool :=
  C14.Model.nonempty (cd_domains c) && forallb dom_wf (cd_domains c)
  && existsb (seqb (cd_name c)) names
  && forallb (fun p => sasc (snd p)) (cd_defs c).

Lemma cds_from_json_shape names n dl items :
  cds_from_json names (JObj [(K_cds_name, JStr n); (K_domains, JArr dl); (K_definition_domains, JObj items)]) =
  (do ds <- mapR dom_from_json dl;
   if negb (existsb (seqb n) names) then Err E_Key else
   do defs <- mapR def_from_json items;
   if C14.Model.nonempty ds then Ok (mkCds n ds defs) else Err E_Assert).
Proof. reflexivity. Qed.

Lemma cds_codec names c : cds_wf names c = true -> cds_from_json names (cds_to_json c) = Ok c.
Proof.
  destruct c as [n ds defs]. unfold cds_wf. cbn [cd_name cd_domains cd_defs]. intros H.
  apply andb_true_iff in H. destruct H as [H Hdefs].
  apply andb_true_iff in H. destruct H as [H Hname].
  apply andb_true_iff in H. destruct H as [Hne Hdoms].
  unfold cds_to_json. cbn [cd_name cd_domains cd_defs]. rewrite cds_from_json_shape.
  rewrite (mapR_id dom_from_json dom_to_json (fun d => dom_wf d = true) ds dom_codec (forallb_Forall _ _ Hdoms)).
  cbn [bind]. rewrite Hname. cbn [negb].
  rewrite (mapR_id def_from_json def_to_json (fun p => sasc (snd p) = true) defs def_codec
                   (forallb_Forall _ _ Hdefs)).
  cbn [bind]. rewrite Hne. reflexivity.
Qed.

Lemma cds_list_codec names l :
  forallb (cds_wf names) l = true -> cds_list_from_json names (JArr (map cds_to_json l)) = Ok l.
Proof.
  intros H. unfold cds_list_from_json.
  exact (mapR_id (cds_from_json names) cds_to_json (fun c => cds_wf names c = true) l (cds_codec names)
                 (forallb_Forall _ _ H)).
Qed.

(* ---------- Protocluster ---------- *)
Definition pcl_wf (p : pcl) : bool :=
  ASV.C10.Model.core_ok (pc_loc p) && ASV.C10.Model.core_ok (pc_core p)
  && match ASV.C10.Model.build_proto (ASV.C10.Model.mkFproto 0 (pc_loc p) (ASV.C10.Model.loc_str (ASV.C10.Model.tloc_of_loc (pc_core p)))) with
     | Ok _ => true
     | Err _ => false
     end
  && product_ok (pc_product p)
  && negb (ASV.C10.Model.starts_with ASV.C10.Model.ext_prefix (pc_tool p)).

Definition pcl_strip (p : pcl) : pcl :=
  mkPcl (pc_loc p) (pc_core p) (pc_tool p) (pc_product p) (pc_cutoff p) (pc_neigh p) (pc_rule p) (pc_cat p) None.

Lemma pcl_from_json_shape sloc score scut sneigh tool product rule cat inrec :
  pcl_from_json (pcl_json sloc score scut sneigh tool product rule cat inrec) =
  (do t <- ASV.C10.Model.loc_from_string sloc;
   if negb (exact_tloc t) then Err E_Unmodelled else
   if ASV.C10.Model.starts_with ASV.C10.Model.ext_prefix tool then Err E_Unmodelled else
   do neigh <- ASV.C10.Model.parse_int sneigh;
   do cut <- ASV.C10.Model.parse_int scut;
   do ct <- ASV.C10.Model.loc_from_string score;
   if negb (exact_tloc ct) then Err E_Unmodelled else
   do pr <- ASV.C10.Model.build_proto (ASV.C10.Model.mkFproto 0 (ASV.C10.Model.loc_of_tloc t) score);
   if negb (product_ok product) then
     (if forallb (fun c => c <? 128) product then Err E_Value else Err E_Unmodelled) else
   Ok (mkPcl (ASV.C10.Model.ploc pr) (ASV.C10.Model.pcore pr) tool product cut neigh rule cat None)).
Proof.
  destruct cat as [|c cs]; destruct inrec as [[n b]|]; reflexivity.
Qed.

Lemma exact_tloc_of_loc l : exact_tloc (ASV.C10.Model.tloc_of_loc l) = true.
Proof.
  assert (Hall : forall l', forallb exact_part (map ASV.C10.Model.tpart_of l') = true).
  { induction l' as [|p r IH]; [reflexivity|]. cbn [map forallb]. rewrite IH. reflexivity. }
  unfold ASV.C10.Model.tloc_of_loc. destruct l as [|p [|p2 r]].
  - reflexivity.
  - reflexivity.
  - unfold exact_tloc. rewrite seqb_refl', Hall. reflexivity.
Qed.

Lemma build_proto_ok tag l core pr : ASV.C10.Model.core_ok core = true ->
  ASV.C10.Model.build_proto (ASV.C10.Model.mkFproto tag l (ASV.C10.Model.loc_str (ASV.C10.Model.tloc_of_loc core))) = Ok pr -> pr = ASV.C10.Model.mkProto tag l core.
Proof.
  intros Hc H. unfold ASV.C10.Model.build_proto in H. cbn [ASV.C10.Model.fcore ASV.C10.Model.floc ASV.C10.Model.ftag] in H.
  rewrite (XP.core_codec core Hc) in H. cbn [bind] in H. rewrite XP.loc_of_tloc_of_loc in H.
  destruct (bridges core && negb (bridges l)); [discriminate|].
  destruct (Nat.ltb _ _); [discriminate|].
  destruct (C05.Model.check_collection_loc l); cbn [bind] in H; [|discriminate].
  inversion H. reflexivity.
Qed.

Lemma pcl_codec p : pcl_wf p = true -> pcl_from_json (pcl_to_json p) = Ok (pcl_strip p).
Proof.
  destruct p as [l core tool product cut neigh rule cat inrec]. unfold pcl_wf, pcl_strip, pcl_to_json.
  cbn [pc_loc pc_core pc_tool pc_product pc_cutoff pc_neigh pc_rule pc_cat pc_inrec]. intros H.
  apply andb_true_iff in H. destruct H as [H Htool].
  apply andb_true_iff in H. destruct H as [H Hprod].
  apply andb_true_iff in H. destruct H as [H Hbuild].
  apply andb_true_iff in H. destruct H as [Hl Hc].
  rewrite pcl_from_json_shape.
  rewrite (XP.core_codec l Hl). cbn [bind]. rewrite exact_tloc_of_loc. cbn [negb].
  apply negb_true_iff in Htool. rewrite Htool.
  rewrite !XP.parse_int_str_of_int. cbn [bind].
  rewrite (XP.core_codec core Hc). cbn [bind]. rewrite exact_tloc_of_loc. cbn [negb].
  rewrite XP.loc_of_tloc_of_loc.
  destruct (ASV.C10.Model.build_proto (ASV.C10.Model.mkFproto 0 l (ASV.C10.Model.loc_str (ASV.C10.Model.tloc_of_loc core)))) as [pr|k] eqn:Eb; [|discriminate].
  rewrite (build_proto_ok 0 l core pr Hc Eb). cbn [bind]. rewrite Hprod. cbn [negb ASV.C10.Model.ploc ASV.C10.Model.pcore].
  reflexivity.
Qed.

(* ---------- RuleDetectionResults ---------- *)
(* a positive multiplier: what Multipliers.__post_init__ accepts *)
Definition mult_ok (j : jv) : bool :=
  match as_num j with Ok x => negb (qle x (0, 1)) | Err _ => false end.

Definition pair_wf (names : list (list Z)) (p : pcl * list cdsres) : bool :=
  pcl_wf (fst p) && forallb (cds_wf names) (snd p).

Definition rdr_wf (names : list (list Z)) (r : rdr) : bool :=
  forallb (pair_wf names) (rd_by r) && forallb (cds_wf names) (rd_out r)
  && mult_ok (rd_cutoff r) && mult_ok (rd_neigh r).

Definition pair_strip (p : pcl * list cdsres) : pcl * list cdsres := (pcl_strip (fst p), snd p).
Definition rdr_strip (r : rdr) : rdr :=
  mkRdr (rd_tool r) (map pair_strip (rd_by r)) (rd_out r) (rd_cutoff r) (rd_neigh r).

Lemma pair_codec names p : pair_wf names p = true -> pair_from_json names (pair_to_json p) = Ok (pair_strip p).
Proof.
  destruct p as [c rs]. unfold pair_wf, pair_strip, pair_to_json. cbn [fst snd]. intros H.
  apply andb_true_iff in H. destruct H as [Hc Hrs].
  cbn [pair_from_json]. rewrite (pcl_codec c Hc). cbn [bind]. rewrite (cds_list_codec names rs Hrs).
  reflexivity.
Qed.

Lemma multipliers_codec c n : mult_ok c = true -> mult_ok n = true ->
  multipliers_from_json (JObj [(K_cutoff, c); (K_neighbourhood, n)]) = Ok (c, n).
Proof.
  unfold mult_ok. intros Hc Hn.
  assert (S : multipliers_from_json (JObj [(K_cutoff, c); (K_neighbourhood, n)]) =
              (do cq <- as_num c; if qle cq (0, 1) then Err E_Value else
               do nq <- as_num n; if qle nq (0, 1) then Err E_Value else Ok (c, n))) by reflexivity.
  rewrite S. destruct (as_num c) as [cq|k]; [|discriminate]. cbn [bind].
  apply negb_true_iff in Hc. rewrite Hc.
  destruct (as_num n) as [nq|k]; [|discriminate]. cbn [bind].
  apply negb_true_iff in Hn. rewrite Hn. reflexivity.
Qed.

Lemma rdr_from_json_shape cur names v tool bl ol mj :
  rdr_from_json cur names (JObj [(K_schema_version, JInt v); (K_tool, JStr tool);
                                 (K_cds_by_protocluster, JArr bl); (K_outside_protoclusters, JArr ol);
                                 (K_multipliers, mj)]) =
  (if negb (v =? cur) then Ok None else
   do by_cluster <- mapR (pair_from_json names) bl;
   do outside <- cds_list_from_json names (JArr ol);
   do m <- multipliers_from_json mj;
   Ok (Some (mkRdr tool by_cluster outside (fst m) (snd m)))).
Proof. reflexivity. Qed.

(* saving and regenerating reproduces the results, up to the run-specific protocluster_number /
   contig_edge qualifiers, which Protocluster.from_biopython pops and does not restore *)
Lemma rdr_codec : forall cur names r, rdr_wf names r = true ->
  rdr_from_json cur names (rdr_to_json cur r) = Ok (Some (rdr_strip r)).
Proof.
  intros cur names [tool by_cluster outside c n]. unfold rdr_wf, rdr_strip, rdr_to_json.
  cbn [rd_tool rd_by rd_out rd_cutoff rd_neigh]. intros H.
  apply andb_true_iff in H. destruct H as [H Hn].
  apply andb_true_iff in H. destruct H as [H Hc].
  apply andb_true_iff in H. destruct H as [Hby Hout].
  rewrite rdr_from_json_shape. rewrite Z.eqb_refl. cbn [negb].
  rewrite (mapR_map (pair_from_json names) pair_to_json pair_strip (fun p => pair_wf names p = true)
                    by_cluster (pair_codec names) (forallb_Forall _ _ Hby)).
  cbn [bind]. rewrite (cds_list_codec names outside Hout). cbn [bind].
  rewrite (multipliers_codec c n Hc Hn). reflexivity.
Qed.

(* hence the saved JSON is a fixed point of "regenerate, save" whenever no protocluster carried the
   run-specific qualifiers *)
Lemma pcl_strip_id p : pc_inrec p = None -> pcl_strip p = p.
Proof. destruct p as [a b c d e f g h i]. cbn [pc_inrec]. intros ->. reflexivity. Qed.

Lemma rdr_strip_id r : Forall (fun p => pc_inrec (fst p) = None) (rd_by r) -> rdr_strip r = r.
Proof.
  destruct r as [tool by_cluster outside c n]. unfold rdr_strip. cbn [rd_tool rd_by rd_out rd_cutoff rd_neigh].
  intros F. f_equal. induction F as [|[p rs] xs Hx Hxs IH]; [reflexivity|].
  cbn [map]. rewrite IH. unfold pair_strip. cbn [fst snd] in *. rewrite (pcl_strip_id p Hx). reflexivity.
Qed.

(* the saved form of a regenerated value: the same JSON with the run-specific qualifiers gone *)
Lemma pcl_to_json_strip p :
  pcl_to_json (pcl_strip p) =
  pcl_json (ASV.C10.Model.loc_str (ASV.C10.Model.tloc_of_loc (pc_loc p))) (ASV.C10.Model.loc_str (ASV.C10.Model.tloc_of_loc (pc_core p)))
           (ASV.C10.Model.str_of_int (pc_cutoff p)) (ASV.C10.Model.str_of_int (pc_neigh p))
           (pc_tool p) (pc_product p) (pc_rule p) (pc_cat p) None.
Proof. reflexivity. Qed.

Lemma rdr_strip_wf names r : rdr_wf names r = true -> rdr_wf names (rdr_strip r) = true.
Proof.
  destruct r as [tool by_cluster outside c n]. unfold rdr_wf, rdr_strip.
  cbn [rd_tool rd_by rd_out rd_cutoff rd_neigh]. intros H.
  apply andb_true_iff in H. destruct H as [H Hn].
  apply andb_true_iff in H. destruct H as [H Hc].
  apply andb_true_iff in H. destruct H as [Hby Hout].
  rewrite Hn, Hc, Hout, !andb_true_r.
  induction by_cluster as [|[p rs] xs IH]; [reflexivity|].
  cbn [map forallb] in *. apply andb_true_iff in Hby. destruct Hby as [Hp Hxs].
  rewrite (IH Hxs), andb_true_r. destruct p. exact Hp.
Qed.

Lemma rdr_strip_idem r : rdr_strip (rdr_strip r) = rdr_strip r.
Proof.
  apply rdr_strip_id. destruct r as [tool by_cluster outside c n]. unfold rdr_strip.
  cbn [rd_tool rd_by rd_out rd_cutoff rd_neigh].
  induction by_cluster as [|[p rs] xs IH]; constructor; [reflexivity | exact IH].
Qed.

(* second generation: what a regenerated value saves is regenerated as itself *)
Lemma rdr_codec_stable : forall cur names r, rdr_wf names r = true ->
  rdr_from_json cur names (rdr_to_json cur (rdr_strip r)) = Ok (Some (rdr_strip r)).
Proof.
  intros cur names r H. rewrite (rdr_codec cur names (rdr_strip r) (rdr_strip_wf names r H)).
  rewrite rdr_strip_idem. reflexivity.
Qed.

(* through the flat driver entry: a saved JSON in well-formed shape, with no run-specific
   qualifiers, comes back as the very same JSON *)
Lemma rdr_roundtrip_json : forall cur names r, rdr_wf names r = true ->
  Forall (fun p => pc_inrec (fst p) = None) (rd_by r) ->
  omap (rdr_to_json cur) (rdr_from_json cur names (rdr_to_json cur r)) = Ok (Some (rdr_to_json cur r)).
Proof.
  intros cur names r H F. rewrite (rdr_codec cur names r H). rewrite (rdr_strip_id r F). reflexivity.
Qed.

(* the well-formedness predicate is inhabited: a linear and an origin-spanning protocluster (record of
   1000), the second saved from inside a record; regenerating drops its run-specific qualifiers *)
Definition W_rdr : rdr :=
  let P := mkPart in
  let d := mkDomain (zs "PKS_KS") (1, 1267650600228229401496703205376) (301, 2) 30 (zs "rule-based-clusters") in
  let c1 := mkCds (zs "cds1") [d] [(zs "T1PKS", [zs "PKS_AT"; zs "PKS_KS"])] in
  let c2 := mkCds (zs "cds2") [d; d] [] in
  mkRdr (zs "rule-based-clusters")
        [(mkPcl [P 100 400 1] [P 150 300 1] (zs "rule-based-clusters") (zs "T1PKS") 20000 20000
                (zs "(PKS_KS and PKS_AT)") (zs "PKS") None, [c1]);
         (mkPcl [P 900 1000 1; P 0 80 1] [P 950 1000 1; P 0 20 1] (zs "rule-based-clusters") (zs "NRPS-like")
                5000 10000 (zs "cds(A and b)") [] (Some (2, true)), [])]
        [c2] (JFlt 3 2) (JFlt 1 1).

Lemma rdr_wf_witness :
  rdr_wf [zs "cds1"; zs "cds2"] W_rdr = true /\
  rdr_strip W_rdr <> W_rdr /\
  rdr_from_json 4 [zs "cds1"; zs "cds2"] (rdr_to_json 4 W_rdr) = Ok (Some (rdr_strip W_rdr)).
Proof.
  split; [vm_compute; reflexivity|]. split; [intros E; vm_compute in E; discriminate|].
  apply rdr_codec. vm_compute. reflexivity.
Qed.

Print Assumptions rdr_codec.
Print Assumptions rdr_strip_id.
Print Assumptions rdr_codec_stable.
Print Assumptions rdr_roundtrip_json.
