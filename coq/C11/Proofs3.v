(* C11 - value-level codec of Component / Module / CDSResult / NRPSPKSDomains.  The module reload
   (replay of add_component over the saved components) is discharged by C14: reload m = Ok m for
   every module built by build_modules_for_cds (C14_reload) or returned by combine_modules
   (C14_combine_total), transported along the renumbering of component identities (ProofsC14). *)
From ASV.C11 Require Import Model Proofs Proofs2 ProofsC14.
From ASV.C14 Require Proofs Proofs2 Proofs3.
From Coq Require Import Lia ZifyBool String.
Close Scope string_scope.
Open Scope Z_scope.

Notation kcid := C14.Model.cid.
Notation klab := C14.Model.lab.
Notation ksub := C14.Model.sub.
Notation kq := C14.Model.qstart.

(* ---------- components ---------- *)
(* a component as Component(domain, cds_name) builds it (the identity is not part of this) *)
Definition comp_wf (c : component) : Prop :=
  hvalidb (co_dom c) = true /\ C14.Model.nonempty (co_locus c) = true /\
  label_index (h_id (co_dom c)) = Some (klab (co_c14 c)) /\ ksub (co_c14 c) = sub_code (co_dom c) /\
  kq (co_c14 c) = h_qs (co_dom c) /\ C14.Model.c_classified (co_c14 c) = true.

Definition set_cid (i : Z) (c : component) : component :=
  mkComponent (co_dom c) (co_locus c) (C14.Model.mkComp (klab (co_c14 c)) (ksub (co_c14 c)) i (kq (co_c14 c))).

Lemma component_from_json_shape dj s :
  component_from_json (JObj [(K_domain, dj); (K_locus, JStr s)]) =
  (do dom <- hmm_from_json dj;
   match label_index (h_id dom) with
   | None => Err E_Value
   | Some lab =>
     let c := C14.Model.mkComp lab (sub_code dom) 0 (h_qs dom) in
     if negb (C14.Model.c_classified c) then Err E_Value
     else if C14.Model.nonempty s then Ok (mkComponent dom s c) else Err E_Assert
   end).
Proof. reflexivity. Qed.

Lemma classified_lab a b : klab a = klab b -> C14.Model.c_classified a = C14.Model.c_classified b.
Proof. unfold C14.Model.c_classified. intros ->. reflexivity. Qed.

Lemma component_codec c : comp_wf c -> component_from_json (component_to_json c) = Ok (set_cid 0 c).
Proof.
  destruct c as [dom locus [l s i qs]]. unfold comp_wf, component_to_json, set_cid.
  cbn [co_dom co_locus co_c14 C14.Model.lab C14.Model.sub C14.Model.qstart].
  intros (Hv & Hl & Hlab & Hsub & Hq & Hc).
  rewrite component_from_json_shape, (hmm_codec dom Hv). cbn [bind]. rewrite Hlab. cbn zeta.
  rewrite (classified_lab (C14.Model.mkComp l (sub_code dom) 0 (h_qs dom)) (C14.Model.mkComp l s i qs) eq_refl), Hc. cbn [negb]. rewrite Hl.
  subst s qs. reflexivity.
Qed.

Lemma components_codec cs : Forall comp_wf cs ->
  mapR component_from_json (map component_to_json cs) = Ok (map (set_cid 0) cs).
Proof.
  induction 1 as [|c r Hc Hr IH]; [reflexivity|].
  cbn [map mapR]. rewrite (component_codec c Hc). cbn [bind]. rewrite IH. reflexivity.
Qed.

(* identities i, i+1, ... in list order *)
Fixpoint canon_ids (i : Z) (cs : list component) : Prop :=
  match cs with [] => True | c :: r => kcid (co_c14 c) = i /\ canon_ids (i + 1) r end.

Lemma number_set_cid z cs : forall i, number i (map (set_cid z) cs) = number i cs.
Proof. induction cs as [|c r IH]; intros i; [reflexivity|]. cbn [map number]. rewrite IH. reflexivity. Qed.

Lemma number_canon cs : forall i, canon_ids i cs -> number i cs = cs.
Proof.
  induction cs as [|[dom locus [l s j qs]] r IH]; intros i H; [reflexivity|].
  cbn [canon_ids co_c14 C14.Model.cid] in H. destruct H as [Hj Hr].
  cbn [number co_dom co_locus co_c14 C14.Model.lab C14.Model.sub C14.Model.qstart].
  rewrite (IH (i + 1) Hr). subst j. reflexivity.
Qed.

Lemma canon_ids_ge cs : forall i, canon_ids i cs -> forall c, In c cs -> i <= kcid (co_c14 c).
Proof.
  induction cs as [|x r IH]; intros i H c Hin; [destruct Hin|].
  cbn [canon_ids] in H. destruct H as [Hx Hr]. destruct Hin as [->|Hin]; [lia|].
  specialize (IH (i + 1) Hr c Hin). lia.
Qed.

Lemma canon_ids_nodup cs : forall i, canon_ids i cs -> NoDup (map (fun c => kcid (co_c14 c)) cs).
Proof.
  induction cs as [|x r IH]; intros i H; [constructor|].
  cbn [canon_ids] in H. destruct H as [Hx Hr]. cbn [map]. constructor; [|exact (IH (i + 1) Hr)].
  intros Hin. apply in_map_iff in Hin. destruct Hin as (c & Hc & Hin).
  pose proof (canon_ids_ge r (i + 1) Hr c Hin). lia.
Qed.

(* picking the components back by identity *)
Lemma pick_none cs k : ~ In (kcid k) (map (fun c => kcid (co_c14 c)) cs) -> pick cs k = [].
Proof.
  unfold pick. induction cs as [|x r IH]; intros H; [reflexivity|].
  cbn [filter]. cbn [map] in H.
  destruct (kcid (co_c14 x) =? kcid k) eqn:E.
  - elim H. left. lia.
  - apply IH. intros Hin. apply H. right. exact Hin.
Qed.

Lemma pick_one cs : NoDup (map (fun c => kcid (co_c14 c)) cs) ->
  forall c, In c cs -> pick cs (co_c14 c) = [c].
Proof.
  induction cs as [|x r IH]; intros N c Hin; [destruct Hin|].
  cbn [map] in N. inversion N as [|? ? Hx Hr]. subst.
  unfold pick. cbn [filter]. fold (pick r (co_c14 c)).
  destruct Hin as [->|Hin].
  - rewrite Z.eqb_refl. rewrite (pick_none r (co_c14 c) Hx). reflexivity.
  - destruct (kcid (co_c14 x) =? kcid (co_c14 c)) eqn:E.
    + elim Hx. apply in_map_iff. exists c. split; [lia|exact Hin].
    + exact (IH Hr c Hin).
Qed.

Lemma pick_all cs : NoDup (map (fun c => kcid (co_c14 c)) cs) ->
  forall l, (forall c, In c l -> In c cs) -> flat_map (pick cs) (map co_c14 l) = l.
Proof.
  intros N. induction l as [|c r IH]; intros H; [reflexivity|].
  cbn [map flat_map]. rewrite (pick_one cs N c (H c (or_introl eq_refl))).
  rewrite IH; [reflexivity|]. intros c' Hc'. apply H. right. exact Hc'.
Qed.

(* ---------- modules ---------- *)
(* a module value as it is held after construction: its components (identities = positions), the
   first_in_cds flag and the slot state, which is what replaying add_component over the components
   gives (C14: reload) *)
Definition cmodule_wf (cm : cmodule) : Prop :=
  Forall comp_wf (cm_comps cm) /\ canon_ids 0 (cm_comps cm) /\
  C14.Model.m_comps (cm_state cm) = map co_c14 (cm_comps cm) /\
  C14.Model.m_first (cm_state cm) = cm_first cm /\
  C14.Model.reload (cm_state cm) = Ok (cm_state cm).

Lemma module_from_json_shape l b :
  module_from_json (JObj [(K_components, JArr l); (K_first_in_cds, JBool b)]) =
  (do cs0 <- mapR component_from_json l;
   let cs := number 0 cs0 in
   do m <- C14.Model.replay (C14.Model.empty_module b) (map co_c14 cs);
   Ok (mkCModule (flat_map (pick cs) (C14.Model.m_comps m)) b m)).
Proof. reflexivity. Qed.

Lemma module_codec cm : cmodule_wf cm -> module_from_json (module_to_json cm) = Ok cm.
Proof.
  destruct cm as [cs first st]. unfold cmodule_wf, module_to_json. cbn [cm_comps cm_first cm_state].
  intros (Hw & Hc & Hcomps & Hfirst & Hre).
  rewrite module_from_json_shape, (components_codec cs Hw). cbn [bind]. cbn zeta.
  rewrite number_set_cid, (number_canon cs 0 Hc).
  unfold C14.Model.reload in Hre. rewrite Hfirst, Hcomps in Hre. rewrite Hre. cbn [bind].
  rewrite Hcomps. rewrite (pick_all cs (canon_ids_nodup cs 0 Hc) cs (fun c H => H)). reflexivity.
Qed.

(* ---------- CDSResult ---------- *)
Definition cdsresult_wf (r : cdsresult) : Prop :=
  forallb hvalidb (cr_domains r) = true /\ forallb hvalidb (cr_motifs r) = true /\ Forall cmodule_wf (cr_modules r).

Lemma hmm_list_codec l : forallb hvalidb l = true -> hmm_list_from_json (JArr (map hmm_to_json l)) = Ok l.
Proof.
  intros V. cbn [hmm_list_from_json].
  apply (mapR_map_codec hmm_from_json hmm_to_json (fun h => hvalidb h = true) hmm_codec).
  apply forallb_Forall. exact V.
Qed.

Lemma cdsresult_from_json_shape dj mj l :
  cdsresult_from_json (JObj [(K_domain_hmms, dj); (K_motif_hmms, mj); (K_modules, JArr l)]) =
  (do ds <- hmm_list_from_json dj; do ms <- hmm_list_from_json mj;
   do mods <- mapR module_from_json l; Ok (mkCDSResult ds ms mods)).
Proof. reflexivity. Qed.

Lemma cdsresult_codec r : cdsresult_wf r -> cdsresult_from_json (cdsresult_to_json r) = Ok r.
Proof.
  destruct r as [ds ms mods]. unfold cdsresult_wf, cdsresult_to_json. cbn [cr_domains cr_motifs cr_modules].
  intros (Hd & Hm & Hmods).
  rewrite cdsresult_from_json_shape, (hmm_list_codec ds Hd), (hmm_list_codec ms Hm). cbn [bind].
  rewrite (mapR_map_codec module_from_json module_to_json cmodule_wf module_codec mods Hmods). reflexivity.
Qed.

(* ---------- NRPSPKSDomains ---------- *)
Definition nrps_wf (names : list (list Z)) (rs : list (list Z * cdsresult)) : Prop :=
  NoDup (map fst rs) /\ Forall (fun p => existsb (seqb (fst p)) names = true /\ cdsresult_wf (snd p)) rs.

Lemma dict_set_new {A} k (v : A) d : ~ In k (map fst d) -> dict_set k v d = d ++ [(k, v)].
Proof.
  induction d as [|[k' v'] r IH]; intros H; [reflexivity|].
  cbn [dict_set]. cbn [map fst] in H.
  rewrite (seqb_neq k' k); [|intros ->; apply H; left; reflexivity].
  rewrite IH; [reflexivity|]. intros Hin. apply H. right. exact Hin.
Qed.

Lemma dict_fill {A} (rs : list (list Z * A)) : forall acc, NoDup (map fst (acc ++ rs)) ->
  fold_left (fun d p => dict_set (fst p) (snd p) d) rs acc = acc ++ rs.
Proof.
  induction rs as [|[k v] r IH]; intros acc N; [rewrite app_nil_r; reflexivity|].
  cbn [fold_left fst snd]. rewrite dict_set_new.
  - rewrite IH; rewrite <- app_assoc; [reflexivity|exact N].
  - rewrite map_app in N. cbn [map fst] in N. apply NoDup_remove_2 in N.
    intros Hin. apply N. apply in_or_app. left. exact Hin.
Qed.

Lemma nrps_from_json_shape cur rid names items sv r :
  nrps_from_json cur rid names (JObj [(K_cds_results, JObj items); (K_schema_version, JInt sv); (K_record_id, JStr r)]) =
  if negb (sv =? cur) then Ok None else
  if negb (seqb r rid) then Ok None else
  do rs <- mapR (fun p : list Z * jv =>
                   let '(name, v) := p in
                   if existsb (seqb name) names
                   then do r <- cdsresult_from_json v; Ok (name, r)
                   else Err E_Key) items;
  Ok (Some (fold_left (fun d p => dict_set (fst p) (snd p) d) rs [])).
Proof. reflexivity. Qed.

Lemma nrps_codec cur rid names rs : nrps_wf names rs ->
  nrps_from_json cur rid names (nrps_to_json cur rid rs) = Ok (Some rs).
Proof.
  intros [N W]. unfold nrps_to_json. rewrite nrps_from_json_shape, Z.eqb_refl, seqb_refl. cbn [negb].
  assert (E : mapR (fun p : list Z * jv =>
                      let '(name, v) := p in
                      if existsb (seqb name) names
                      then do r <- cdsresult_from_json v; Ok (name, r)
                      else Err E_Key) (map (fun p => (fst p, cdsresult_to_json (snd p))) rs) = Ok rs).
  { clear N. induction W as [|[k v] r [Hk Hv] Hr IH]; [reflexivity|].
    cbn [map mapR fst snd] in *. rewrite Hk, (cdsresult_codec v Hv). cbn [bind]. rewrite IH. reflexivity. }
  rewrite E. cbn [bind]. rewrite (dict_fill rs [] N). reflexivity.
Qed.

(* ---------- the values generate_domains builds ---------- *)
Definition ids_of (cs : list component) : list Z := map (fun c => kcid (co_c14 c)) cs.

Lemma components_of_facts locus doms : forallb hvalidb doms = true ->
  forall i comps, components_of locus i doms = Ok comps ->
  Forall comp_wf comps /\ canon_ids i comps /\ map co_dom comps = doms.
Proof.
  induction doms as [|h r IH]; intros V i comps E; cbn [components_of] in E.
  - inversion E. repeat split; constructor.
  - cbn [forallb] in V. apply andb_true_iff in V. destruct V as [Vh Vr].
    destruct (component_of locus i h) as [c|k] eqn:Ec; cbn [bind] in E; [|discriminate].
    destruct (components_of locus (i + 1) r) as [cs|k] eqn:Ecs; cbn [bind] in E; [|discriminate].
    inversion E. subst comps. destruct (IH Vr (i + 1) cs Ecs) as (H1 & H2 & H3).
    unfold component_of in Ec.
    destruct (label_index (h_id h)) as [lab|] eqn:El; [|discriminate].
    destruct (negb (C14.Model.c_classified (C14.Model.mkComp lab (sub_code h) i (h_qs h)))) eqn:Ecl; [discriminate|].
    destruct (C14.Model.nonempty locus) eqn:Eloc; [|discriminate].
    inversion Ec. subst c. repeat split.
    + constructor; [|exact H1]. unfold comp_wf. cbn [co_dom co_locus co_c14 C14.Model.lab C14.Model.sub C14.Model.qstart].
      repeat split; try assumption. destruct (C14.Model.c_classified _); [reflexivity|discriminate].
    + exact H2.
    + cbn [map co_dom]. rewrite H3. reflexivity.
Qed.

(* position of an identity in a duplicate-free list *)
Lemma pos_of_skip i l1 : ~ In i l1 -> forall l2 k, pos_of i (l1 ++ i :: l2) k = k + zlen l1.
Proof.
  induction l1 as [|x r IH]; intros H l2 k.
  - cbn [app pos_of]. rewrite Z.eqb_refl. unfold zlen. cbn [Datatypes.length]. lia.
  - cbn [app pos_of]. destruct (x =? i) eqn:E; [elim H; left; lia|].
    rewrite IH; [|intros Hin; apply H; right; exact Hin]. unfold zlen. cbn [Datatypes.length]. lia.
Qed.

Fixpoint renumber (i : Z) (ks : list C14.Model.comp) : list C14.Model.comp :=
  match ks with
  | [] => []
  | k :: r => C14.Model.mkComp (klab k) (ksub k) i (kq k) :: renumber (i + 1) r
  end.

Lemma number_co_c14 l : forall i, map co_c14 (number i l) = renumber i (map co_c14 l).
Proof. induction l as [|c r IH]; intros i; [reflexivity|]. cbn [number map renumber co_c14]. rewrite IH. reflexivity. Qed.

Lemma renumber_pos suf : forall pre, NoDup (map kcid (pre ++ suf)) ->
  renumber (zlen pre) suf = map (renum_comp (fun i => pos_of i (map kcid (pre ++ suf)) 0)) suf.
Proof.
  induction suf as [|k r IH]; intros pre N; [reflexivity|].
  cbn [renumber map]. f_equal.
  - unfold renum_comp. f_equal. rewrite map_app. cbn [map].
    rewrite pos_of_skip; [unfold zlen; rewrite map_length; lia|].
    rewrite map_app in N. cbn [map] in N. apply NoDup_remove_2 in N.
    intros Hin. apply N. apply in_or_app. left. exact Hin.
  - specialize (IH (pre ++ [k])). rewrite <- app_assoc in IH. cbn [app] in IH.
    replace (zlen (pre ++ [k])) with (zlen pre + 1) in IH by (unfold zlen; rewrite app_length; cbn [Datatypes.length]; lia).
    exact (IH N).
Qed.

Lemma number_canon_ids l : forall i, canon_ids i (number i l).
Proof. induction l as [|c r IH]; intros i; [exact I|]. cbn [number canon_ids co_c14 C14.Model.cid]. split; [reflexivity|apply IH]. Qed.

Lemma number_wf l : forall i, Forall comp_wf l -> Forall comp_wf (number i l).
Proof.
  induction l as [|c r IH]; intros i H; [constructor|]. inversion H as [|? ? Hc Hr]. subst.
  cbn [number]. constructor; [|exact (IH (i + 1) Hr)].
  destruct Hc as (A & B & C & D & E & F). unfold comp_wf.
  cbn [co_dom co_locus co_c14 C14.Model.lab C14.Model.sub C14.Model.qstart].
  repeat split; assumption.
Qed.

Lemma renum_is_mapm f m : renum_module f m = mapm f m.
Proof. reflexivity. Qed.

Lemma in_map_co_c14 comps k : In k (map co_c14 comps) -> exists c, In c comps /\ co_c14 c = k.
Proof. intros H. apply in_map_iff in H. destruct H as (c & Hc & Hin). exists c. split; assumption. Qed.

(* components found back for the kept C14 components *)
Lemma picked comps : NoDup (ids_of comps) ->
  forall ks, Forall (fun k => In k (map co_c14 comps)) ks ->
  map co_c14 (flat_map (pick comps) ks) = ks /\ (forall c, In c (flat_map (pick comps) ks) -> In c comps).
Proof.
  intros N. induction ks as [|k r IH]; intros H; [split; [reflexivity|intros c []]|].
  inversion H as [|? ? Hk Hr]. subst. destruct (IH Hr) as [I1 I2].
  destruct (in_map_co_c14 comps k Hk) as (c & Hc & Ek). subst k.
  cbn [flat_map]. rewrite (pick_one comps N c Hc). cbn [app map]. split.
  - rewrite I1. reflexivity.
  - intros c' [<-|Hin]; [exact Hc|exact (I2 c' Hin)].
Qed.

(* a module of the C14 model whose components come from the gene's component table, with distinct
   identities, and which reloads identically, is - renumbered - a well-formed module value *)
Lemma canon_module_wf comps m :
  Forall comp_wf comps -> NoDup (ids_of comps) ->
  NoDup (map kcid (C14.Model.m_comps m)) -> Forall (fun k => In k (map co_c14 comps)) (C14.Model.m_comps m) ->
  C14.Model.reload m = Ok m -> cmodule_wf (canon_module comps m).
Proof.
  intros W N Nm Hin Hre. unfold canon_module, cmodule_wf. cbn [cm_comps cm_first cm_state].
  destruct (picked comps N (C14.Model.m_comps m) Hin) as [P1 P2].
  assert (WL : Forall comp_wf (flat_map (pick comps) (C14.Model.m_comps m))).
  { apply Forall_forall. intros c Hc. rewrite Forall_forall in W. exact (W c (P2 c Hc)). }
  repeat split.
  - exact (number_wf _ 0 WL).
  - apply number_canon_ids.
  - rewrite number_co_c14, P1. cbn [renum_module C14.Model.m_comps].
    change 0 with (zlen (@nil C14.Model.comp)). rewrite (renumber_pos (C14.Model.m_comps m) [] Nm). reflexivity.
  - rewrite renum_is_mapm. apply reload_recid. exact Hre.
Qed.

Lemma canon_ids_ids_of comps i : canon_ids i comps -> NoDup (ids_of comps).
Proof. exact (canon_ids_nodup comps i). Qed.

Lemma map_cid_co_c14 comps : map kcid (map co_c14 comps) = ids_of comps.
Proof. unfold ids_of. rewrite map_map. reflexivity. Qed.

(* every module build_modules_for_cds returns for a gene is a well-formed module value *)
Lemma nrps_build_cds_wf locus doms mods : forallb hvalidb doms = true ->
  nrps_build_cds locus doms = Ok mods -> Forall cmodule_wf mods.
Proof.
  intros V E. unfold nrps_build_cds in E.
  destruct (components_of locus 0 doms) as [comps|k] eqn:Ec; cbn [bind] in E; [|discriminate].
  destruct (C14.Model.build_modules_for_cds (map co_c14 comps)) as [ms|k] eqn:Eb; cbn [bind] in E; [|discriminate].
  inversion E. subst mods. clear E.
  destruct (components_of_facts locus doms V 0 comps Ec) as (W & Cids & _).
  pose proof (canon_ids_ids_of comps 0 Cids) as N.
  assert (Hcl : Forall (fun c => C14.Model.c_classified c = true) (map co_c14 comps)).
  { apply Forall_forall. intros k Hk. destruct (in_map_co_c14 comps k Hk) as (c & Hc & <-).
    rewrite Forall_forall in W. exact (proj2 (proj2 (proj2 (proj2 (proj2 (W c Hc)))))). }
  assert (Nk : NoDup (map kcid (map co_c14 comps))) by (rewrite map_cid_co_c14; exact N).
  pose proof (C14.Proofs2.build_reload _ _ Hcl Eb) as Hre.
  pose proof (build_nodup_in _ _ Hcl Nk Eb) as Hnd.
  apply Forall_forall. intros cm Hcm. apply in_map_iff in Hcm. destruct Hcm as (m & <- & Hm).
  rewrite Forall_forall in Hre, Hnd. destruct (Hnd m Hm) as [A B].
  exact (canon_module_wf comps m W N A B (Hre m Hm)).
Qed.

Lemma filter_Forall {A} (P : A -> Prop) f l : Forall P l -> Forall P (filter f l).
Proof. intros H. apply Forall_forall. intros x Hx. apply filter_In in Hx. rewrite Forall_forall in H. exact (H x (proj1 Hx)). Qed.

Lemma nrps_cds_result_wf locus doms motifs r : forallb hvalidb doms = true -> forallb hvalidb motifs = true ->
  nrps_cds_result locus doms motifs = Ok r -> cdsresult_wf r.
Proof.
  intros Vd Vm E. unfold nrps_cds_result in E.
  destruct (nrps_build_cds locus doms) as [mods|k] eqn:Eb; cbn [bind] in E; [|discriminate].
  inversion E. unfold cdsresult_wf. cbn [cr_domains cr_motifs cr_modules].
  repeat split; try assumption. apply filter_Forall. exact (nrps_build_cds_wf locus doms mods Vd Eb).
Qed.

(* the main statement: results built gene by gene as generate_domains does (any number of genes,
   each with its domains and motifs), saved and regenerated against the same record, come back
   identical *)
Lemma nrps_generated_codec cur rid names (genes : list (list Z * (list hmm * list hmm))) rs :
  NoDup (map fst genes) ->
  Forall (fun g => existsb (seqb (fst g)) names = true /\ forallb hvalidb (fst (snd g)) = true /\
                   forallb hvalidb (snd (snd g)) = true) genes ->
  mapR (fun g : list Z * (list hmm * list hmm) =>
          do r <- nrps_cds_result (fst g) (fst (snd g)) (snd (snd g)); Ok (fst g, r)) genes = Ok rs ->
  nrps_from_json cur rid names (nrps_to_json cur rid rs) = Ok (Some rs).
Proof.
  intros N W E. apply nrps_codec. revert rs E N.
  induction W as [|[name [doms motifs]] r (Hn & Hd & Hm) Hr IH]; intros rs E N; cbn [mapR] in E.
  - inversion E. split; constructor.
  - cbn [fst snd] in *.
    destruct (nrps_cds_result name doms motifs) as [res|k] eqn:Er; cbn [bind] in E; [|discriminate].
    destruct (mapR _ r) as [rest|k] eqn:Erest; cbn [bind] in E; [|discriminate].
    inversion E. subst rs. cbn [map fst] in N. inversion N as [|? ? Hx Hrest]. subst.
    destruct (IH rest eq_refl Hrest) as [N' W'].
    assert (Keys : map fst rest = map fst r).
    { clear - Erest. revert rest Erest. induction r as [|g r IHr]; intros rest Erest; cbn [mapR] in Erest.
      - inversion Erest. reflexivity.
      - destruct (nrps_cds_result (fst g) (fst (snd g)) (snd (snd g))) as [x|k]; cbn [bind] in Erest; [|discriminate].
        destruct (mapR _ r) as [rest'|k] eqn:E'; cbn [bind] in Erest; [|discriminate].
        inversion Erest. cbn [map fst]. rewrite (IHr rest' eq_refl). reflexivity. }
    split.
    + cbn [map fst]. constructor; [rewrite Keys; exact Hx | exact N'].
    + constructor; [|exact W']. cbn [fst snd]. split; [exact Hn|]. exact (nrps_cds_result_wf name doms motifs res Hd Hm Er).
Qed.

(* modules merged across two adjacent genes (combine_modules): every module of the two resulting
   lists - the merged one included - is, renumbered, a well-formed module value, hence is saved and
   regenerated identically (module_codec).  Identities: jointly distinct over both genes. *)
Lemma nrps_combined_wf tp tc same p c om p' c' :
  Forall comp_wf (tp ++ tc) -> NoDup (ids_of (tp ++ tc)) ->
  C14.Model.build_modules_for_cds (map co_c14 tp) = Ok p ->
  C14.Model.build_modules_for_cds (map co_c14 tc) = Ok c ->
  C14.Model.combine_modules same c p = Ok (om, p', c') ->
  Forall (fun m => cmodule_wf (canon_module (tp ++ tc) m)) (p' ++ c').
Proof.
  intros W N Bp Bc Cm.
  assert (Hcl : forall t, (forall x, In x t -> In x (tp ++ tc)) ->
                          Forall (fun k => C14.Model.c_classified k = true) (map co_c14 t)).
  { intros t Ht. apply Forall_forall. intros k Hk. destruct (in_map_co_c14 t k Hk) as (x & Hx & <-).
    rewrite Forall_forall in W. exact (proj2 (proj2 (proj2 (proj2 (proj2 (W x (Ht x Hx))))))). }
  pose proof (Hcl tp (fun x H => in_or_app _ _ x (or_introl H))) as Cp.
  pose proof (Hcl tc (fun x H => in_or_app _ _ x (or_intror H))) as Cc.
  assert (Nk : NoDup (map kcid (map co_c14 tp ++ map co_c14 tc))).
  { rewrite <- map_app, map_cid_co_c14. exact N. }
  pose proof (combine_nodup_in _ _ same p c om p' c' Cp Cc Nk Bp Bc Cm) as Hnd.
  destruct (C14.Proofs3.combine_total (map co_c14 tp) (map co_c14 tc) same Cp Cc)
    as (p0 & c0 & om0 & p0' & c0' & B1 & B2 & C0 & Fp & Fc & _).
  rewrite Bp in B1. inversion B1. subst p0. rewrite Bc in B2. inversion B2. subst c0.
  rewrite Cm in C0. inversion C0. subst om0 p0' c0'.
  apply Forall_forall. intros m Hm. rewrite Forall_forall in Hnd. destruct (Hnd m Hm) as [A B].
  assert (Hre : C14.Model.reload m = Ok m).
  { apply in_app_or in Hm. rewrite Forall_forall in Fp, Fc.
    destruct Hm as [Hm|Hm]; [exact (proj2 (Fp m Hm)) | exact (proj2 (Fc m Hm))]. }
  apply canon_module_wf; try assumption.
  rewrite map_app. exact B.
Qed.
