(* C11 - property theorems (reusing saved module results). *)
From ASV.C11 Require Import Model Proofs Proofs2 Proofs3 ModelRule ProofsRule.
From Coq Require Import String.
Close Scope string_scope.
Open Scope Z_scope.

(* HMMResult: saving and regenerating gives back the same value, for every value the constructors
   can build (internal hits overlap their parent at every depth), to any nesting depth *)
Theorem C11_codec_HMMResult : forall h, hvalidb h = true -> hmm_from_json (hmm_to_json h) = Ok h.
Proof. exact hmm_codec. Qed.
Print Assumptions C11_codec_HMMResult.

(* ... and therefore saves to the same JSON value again *)
Theorem C11_codec_HMMResult_json : forall h, hvalidb h = true ->
  (do h' <- hmm_from_json (hmm_to_json h); Ok (hmm_to_json h')) = Ok (hmm_to_json h).
Proof. exact hmm_codec_json. Qed.
Print Assumptions C11_codec_HMMResult_json.

(* the re-validation on load: whatever JSON is accepted yields a valid value (so the check cannot
   fail for a value the constructors built, and nothing invalid gets in through a file) *)
Theorem C11_hmmresult_validates : forall j h, hmm_from_json j = Ok h -> hvalidb h = true.
Proof. exact hmm_from_json_valid. Qed.
Print Assumptions C11_hmmresult_validates.

(* repeated cycles: after the first regeneration from ANY accepted JSON (reordered keys, ints for
   floats, ...), saving and regenerating is a fixed point *)
Theorem C11_hmmresult_cycle_fixed_point : forall j h, hmm_from_json j = Ok h ->
  hmm_from_json (hmm_to_json h) = Ok h.
Proof. exact hmm_cycle_fixed. Qed.
Print Assumptions C11_hmmresult_cycle_fixed_point.

(* an internal hit that does not overlap its parent is refused with ValueError *)
Theorem C11_hmmresult_refuses_outside_hit : forall hid qs qe ev bs ih x,
  In x ih -> overlaps (h_qs x) (h_qe x) qs qe = false -> mk_hmm hid qs qe ev bs ih = Err E_Value.
Proof. exact mk_hmm_refuses. Qed.
Print Assumptions C11_hmmresult_refuses_outside_hit.

(* TTA: results saved by detect under threshold thr1, regenerated while thr2 is in force, are
   discarded exactly when the saved run skipped the search and the present threshold would not;
   otherwise they equal what detect gives under thr2 (all floats, incl. gc == threshold) *)
Theorem C11_tta_regen_sound : forall cur rid gc thr1 thr2 codons,
  0 < snd gc -> 0 < snd thr1 ->
  tta_from_json cur thr2 (tta_to_json cur (tta_detect rid gc thr1 codons)) =
  if qlt gc thr1 && qle thr2 gc then Ok None else Ok (Some (tta_detect rid gc thr2 codons)).
Proof. exact tta_regen_sound. Qed.
Print Assumptions C11_tta_regen_sound.

Theorem C11_codec_TTAResults : forall cur rid gc thr codons,
  0 < snd gc -> 0 < snd thr ->
  tta_from_json cur thr (tta_to_json cur (tta_detect rid gc thr codons)) =
  Ok (Some (tta_detect rid gc thr codons)).
Proof. exact tta_same_options. Qed.
Print Assumptions C11_codec_TTAResults.

(* histories: along any sequence of threshold changes (regenerate when possible, detect afresh when
   discarded) the results in hand equal a fresh detection under the last threshold *)
Theorem C11_tta_history : forall cur rid gc codons, 0 < snd gc ->
  forall thrs thr0, 0 < snd thr0 -> Forall (fun t => 0 < snd t) thrs ->
  fold_left (tta_step cur codons) thrs (tta_detect rid gc thr0 codons) =
  tta_detect rid gc (last thrs thr0) codons.
Proof. exact tta_history. Qed.
Print Assumptions C11_tta_history.

Theorem C11_guards_tta_schema : forall cur sv thr r, sv <> cur ->
  tta_from_json cur thr (tta_to_json sv r) = Ok None.
Proof. exact tta_schema_guard. Qed.
Print Assumptions C11_guards_tta_schema.

Theorem C11_guards_tta_record : forall rid rid' r, t_rid r = JStr rid -> rid <> rid' ->
  tta_reused rid' r = false.
Proof. exact tta_record_guard. Qed.
Print Assumptions C11_guards_tta_record.

Theorem C11_guards_tta_reuse_inv : forall cur thr kv r, tta_from_json cur thr (JObj kv) = Ok (Some r) ->
  exists sv, jget K_schema_version kv = Ok sv /\ eq_int sv cur = true.
Proof. exact tta_reuse_inv. Qed.
Print Assumptions C11_guards_tta_reuse_inv.

(* HmmerResults *)
Theorem C11_guards_hmmer_reuse_inv : forall cur rid kv r, hmmer_from_json cur rid (JObj kv) = Ok (Some r) ->
  eq_str (jgetd K_record_id_sp kv JNull) rid = true /\ eq_int (jgetd K_schema kv JNull) cur = true
  /\ hr_rid r = rid.
Proof. exact hmmer_reuse_inv. Qed.
Print Assumptions C11_guards_hmmer_reuse_inv.

Theorem C11_hmmer_refilter_spec : forall max_evalue min_score r r',
  refilter max_evalue min_score r = Ok r' ->
  qlt (hr_evalue r) max_evalue = false /\ qlt min_score (hr_score r) = false /\
  hr_evalue r' = max_evalue /\ hr_score r' = min_score /\
  hr_rid r' = hr_rid r /\ hr_db r' = hr_db r /\ hr_tool r' = hr_tool r /\
  (forall h, In h (hr_hits r') <-> In h (hr_hits r) /\ hit_passes max_evalue min_score h = Ok true).
Proof. exact refilter_spec. Qed.
Print Assumptions C11_hmmer_refilter_spec.

(* narrowing saved results on reuse gives what a fresh run with the new limits gives (hmmer.build_hits: exclusive limits)
   for every hit that does not lie exactly on a limit; on a limit the inclusive test of refilter keeps a hit that a fresh
   run does not report (finding FC11b refilter_inclusive_limits, recorded: two existing tests pin it) *)
Theorem C11_hmmer_refilter_as_fresh_run_partial : forall max_evalue min_score h s e,
  as_num (hit_field K_score h) = Ok s -> as_num (hit_field K_evalue h) = Ok e ->
  qeq s min_score = false -> qeq e max_evalue = false ->
  hit_passes max_evalue min_score h = Ok (fresh_run_keeps max_evalue min_score s e).
Proof. exact hit_passes_as_fresh_run. Qed.
Print Assumptions C11_hmmer_refilter_as_fresh_run_partial.

Theorem C11_hmmer_refilter_on_limit_refuted : exists max_evalue min_score h s e,
  as_num (hit_field K_score h) = Ok s /\ as_num (hit_field K_evalue h) = Ok e /\
  hit_passes max_evalue min_score h = Ok true /\ fresh_run_keeps max_evalue min_score s e = false.
Proof. exact hit_passes_on_limit_differs. Qed.
Print Assumptions C11_hmmer_refilter_on_limit_refuted.

Theorem C11_guards_hmmer_refilter_lenient : forall max_evalue min_score r,
  qlt (hr_evalue r) max_evalue = true \/ qlt min_score (hr_score r) = true ->
  refilter max_evalue min_score r = Err E_Value.
Proof. exact refilter_lenient. Qed.
Print Assumptions C11_guards_hmmer_refilter_lenient.

Theorem C11_guards_hmmer_regen_inv : forall cur rid max_evalue min_score kv r',
  hmmer_regen cur rid max_evalue min_score (JObj kv) = Ok (Some r') ->
  eq_str (jgetd K_record_id_sp kv JNull) rid = true /\ eq_int (jgetd K_schema kv JNull) cur = true /\
  exists r, hmmer_from_json cur rid (JObj kv) = Ok (Some r) /\
            qlt (hr_evalue r) max_evalue = false /\ qlt min_score (hr_score r) = false /\
            hr_evalue r' = max_evalue /\ hr_score r' = min_score /\
            (forall h, In h (hr_hits r') <-> In h (hr_hits r) /\ hit_passes max_evalue min_score h = Ok true).
Proof. exact hmmer_regen_inv. Qed.
Print Assumptions C11_guards_hmmer_regen_inv.

(* HmmerResults: value-level codec, and the second cycle of cluster_hmmer/full_hmmer reuse *)
Theorem C11_codec_HmmerResults : forall cur r, hmmer_wf r ->
  hmmer_from_json cur (hr_rid r) (hmmer_to_json cur r) = Ok (Some r).
Proof. exact hmmer_codec. Qed.
Print Assumptions C11_codec_HmmerResults.

Theorem C11_hmmer_from_json_wf : forall cur rid kv r,
  hmmer_from_json cur rid (JObj kv) = Ok (Some r) -> hmmer_wf r.
Proof. exact hmmer_from_json_wf. Qed.
Print Assumptions C11_hmmer_from_json_wf.

Theorem C11_hmmer_regen_fixed_point : forall cur rid max_evalue min_score kv r',
  0 < snd max_evalue -> 0 < snd min_score ->
  hmmer_regen cur rid max_evalue min_score (JObj kv) = Ok (Some r') ->
  hmmer_regen cur rid max_evalue min_score (hmmer_to_json cur r') = Ok (Some r').
Proof. exact hmmer_regen_fixed. Qed.
Print Assumptions C11_hmmer_regen_fixed_point.

(* HMM detection *)
Theorem C11_guards_det_from_json_inv : forall cur_outer cur_inner rid kv d,
  det_from_json cur_outer cur_inner rid (JObj kv) = Ok d ->
  (exists sv, jget K_schema_version kv = Ok sv /\ eq_int sv cur_outer = true) /\
  (exists r, jget K_record_id kv = Ok r /\ eq_str r rid = true) /\
  (exists rkv, jget K_rule_results kv = Ok (JObj rkv) /\
               eq_int (jgetd K_schema_version rkv (JInt 1)) cur_inner = true) /\
  existsb (seqb (d_strict d)) strictness_levels = true.
Proof. exact det_from_json_inv. Qed.
Print Assumptions C11_guards_det_from_json_inv.

Theorem C11_guards_det_regen_inv : forall cur_outer cur_inner rid names fungi oc on kv d,
  det_regen cur_outer cur_inner rid names fungi oc on (JObj kv) = Ok (Some d) ->
  det_from_json cur_outer cur_inner rid (JObj kv) = Ok d /\
  set_eq (d_types d) names = true /\
  (fungi = true -> exists c n, as_num (d_cutoff d) = Ok c /\ qeq c oc = true /\
                               as_num (d_neigh d) = Ok n /\ qeq n on = true).
Proof. exact det_regen_inv. Qed.
Print Assumptions C11_guards_det_regen_inv.

Theorem C11_guards_det_rule_set_changed : forall cur_outer cur_inner rid names fungi oc on kv d,
  kv <> [] -> det_from_json cur_outer cur_inner rid (JObj kv) = Ok d ->
  set_eq (d_types d) names = false ->
  det_regen cur_outer cur_inner rid names fungi oc on (JObj kv) = Err E_Runtime.
Proof. exact det_rule_set_changed. Qed.
Print Assumptions C11_guards_det_rule_set_changed.

(* the comparison of rule names is equality of SETS of names: independent of order and repeats *)
Theorem C11_det_set_eq_spec : forall a b, set_eq a b = true <-> (forall x, In x a <-> In x b).
Proof. exact set_eq_spec. Qed.
Print Assumptions C11_det_set_eq_spec.

(* NRPS/PKS domains, sideloaded *)
Theorem C11_guards_nrps_reuse_inv : forall cur rid names kv rs,
  nrps_from_json cur rid names (JObj kv) = Ok (Some rs) ->
  eq_int (jgetd K_schema_version kv JNull) cur = true /\ eq_str (jgetd K_record_id kv JNull) rid = true.
Proof. exact nrps_reuse_inv. Qed.
Print Assumptions C11_guards_nrps_reuse_inv.

Theorem C11_guards_nrps_discards : forall cur rid names kv,
  eq_int (jgetd K_schema_version kv JNull) cur = false \/ eq_str (jgetd K_record_id kv JNull) rid = false ->
  nrps_from_json cur rid names (JObj kv) = Ok None.
Proof. exact nrps_discards. Qed.
Print Assumptions C11_guards_nrps_discards.

Theorem C11_guards_side_reuse_inv : forall cur rid origin kv r,
  side_from_json cur rid origin (JObj kv) = Ok r ->
  (exists sv, jget K_schema_version kv = Ok sv /\ eq_int sv cur = true) /\
  (exists i, jget K_record_id kv = Ok i /\ eq_str i rid = true).
Proof. exact side_reuse_inv. Qed.
Print Assumptions C11_guards_side_reuse_inv.

Theorem C11_side_subregion_valid : forall origin j a, sub_from_json origin j = Ok a ->
  match origin with
  | Some n => n = 0 /\ sa_start a < sa_end a \/ 0 < n /\ sa_start a <= n
  | None => sa_start a < sa_end a
  end.
Proof. exact sub_from_json_valid. Qed.
Print Assumptions C11_side_subregion_valid.

(* ---- value-level codecs, second part ---- *)
(* SideloadedResults: results valid for a record (every annotation carries the record's circular
   origin - None on a linear record - and satisfies its constructor's conditions for that topology;
   tool names valid) are regenerated identically, incl. circular_origin, whether or not an area or
   its core crosses the origin *)
Theorem C11_codec_Sideloaded : forall cur rid origin r, side_validb rid origin r = true ->
  side_from_json cur rid origin (side_to_json cur r) = Ok r.
Proof. exact side_codec. Qed.
Print Assumptions C11_codec_Sideloaded.

(* whatever JSON SideloadedResults.from_json accepts gives results valid for the record, ... *)
Theorem C11_side_from_json_valid : forall cur rid origin j r,
  side_from_json cur rid origin j = Ok r -> side_validb rid origin r = true.
Proof. exact side_from_json_valid. Qed.
Print Assumptions C11_side_from_json_valid.

(* ... so from the first regeneration on, save/regenerate is a fixed point, ... *)
Theorem C11_side_cycle_fixed_point : forall cur rid origin j r,
  side_from_json cur rid origin j = Ok r -> side_from_json cur rid origin (side_to_json cur r) = Ok r.
Proof. exact side_cycle_fixed. Qed.
Print Assumptions C11_side_cycle_fixed_point.

(* ... and every regenerated annotation carries the origin of the record it is loaded against
   (the decidable form of this is the harness' "saved form" specification, fn 16) *)
Theorem C11_side_origin_kept : forall cur rid origin j r,
  side_from_json cur rid origin j = Ok r ->
  Forall (fun a => sa_origin a = origin) (sd_subs r) /\ Forall (fun a => pa_origin a = origin) (sd_protos r).
Proof. exact side_origin_kept. Qed.
Print Assumptions C11_side_origin_kept.

(* Module: a module value whose slot state reloads identically in the C14 model is regenerated
   identically from its saved components *)
Theorem C11_codec_Module : forall cm, cmodule_wf cm -> module_from_json (module_to_json cm) = Ok cm.
Proof. exact module_codec. Qed.
Print Assumptions C11_codec_Module.

Theorem C11_codec_CDSResult : forall r, cdsresult_wf r -> cdsresult_from_json (cdsresult_to_json r) = Ok r.
Proof. exact cdsresult_codec. Qed.
Print Assumptions C11_codec_CDSResult.

(* NRPSPKSDomains: results over genes of the record (distinct names), each a well-formed CDSResult,
   are regenerated identically under the same schema version and record id *)
Theorem C11_codec_NRPSPKS : forall cur rid names rs, nrps_wf names rs ->
  nrps_from_json cur rid names (nrps_to_json cur rid rs) = Ok (Some rs).
Proof. exact nrps_codec. Qed.
Print Assumptions C11_codec_NRPSPKS.

(* every module build_modules_for_cds builds for a gene (through C14_reload) is well-formed ... *)
Theorem C11_nrps_built_modules_wf : forall locus doms mods, forallb hvalidb doms = true ->
  nrps_build_cds locus doms = Ok mods -> Forall cmodule_wf mods.
Proof. exact nrps_build_cds_wf. Qed.
Print Assumptions C11_nrps_built_modules_wf.

(* ... as is every module after combine_modules over two adjacent genes, the merged one included
   (through C14_combine_total) ... *)
Theorem C11_nrps_combined_modules_wf : forall tp tc same p c om p' c',
  Forall comp_wf (tp ++ tc) -> NoDup (ids_of (tp ++ tc)) ->
  C14.Model.build_modules_for_cds (map co_c14 tp) = Ok p ->
  C14.Model.build_modules_for_cds (map co_c14 tc) = Ok c ->
  C14.Model.combine_modules same c p = Ok (om, p', c') ->
  Forall (fun m => cmodule_wf (canon_module (tp ++ tc) m)) (p' ++ c').
Proof. exact nrps_combined_wf. Qed.
Print Assumptions C11_nrps_combined_modules_wf.

(* ... hence: the results generate_domains builds gene by gene (domains, motifs, modules of more
   than one component), saved and regenerated against the same record, come back identical *)
Theorem C11_codec_NRPSPKS_generated : forall cur rid names (genes : list (list Z * (list hmm * list hmm))) rs,
  NoDup (map fst genes) ->
  Forall (fun g => existsb (seqb (fst g)) names = true /\ forallb hvalidb (fst (snd g)) = true /\
                   forallb hvalidb (snd (snd g)) = true) genes ->
  mapR (fun g : list Z * (list hmm * list hmm) =>
          do r <- nrps_cds_result (fst g) (fst (snd g)) (snd (snd g)); Ok (fst g, r)) genes = Ok rs ->
  nrps_from_json cur rid names (nrps_to_json cur rid rs) = Ok (Some rs).
Proof. exact nrps_generated_codec. Qed.
Print Assumptions C11_codec_NRPSPKS_generated.

(* RuleDetectionResults (the payload of HMMDetectionResults): protoclusters saved as features
   (location and core_location as text, cutoff / neighbourhood as decimal text, qualifiers sorted by
   key), CDSResults with their domains and the definition_domains sets saved sorted.  Every
   well-formed value is regenerated identically except that the run-specific protocluster_number and
   contig_edge are dropped (rdr_strip; add_to_record recomputes them) *)
Theorem C11_codec_RuleDetectionResults : forall cur names r, rdr_wf names r = true ->
  rdr_from_json cur names (rdr_to_json cur r) = Ok (Some (rdr_strip r)).
Proof. exact rdr_codec. Qed.
Print Assumptions C11_codec_RuleDetectionResults.

Theorem C11_rule_results_strip_id : forall r,
  Forall (fun p => pc_inrec (fst p) = None) (rd_by r) -> rdr_strip r = r.
Proof. exact rdr_strip_id. Qed.
Print Assumptions C11_rule_results_strip_id.

(* repeated cycles: the regenerated value is a fixed point of save/regenerate *)
Theorem C11_rule_results_cycle_fixed_point : forall cur names r, rdr_wf names r = true ->
  rdr_from_json cur names (rdr_to_json cur (rdr_strip r)) = Ok (Some (rdr_strip r)).
Proof. exact rdr_codec_stable. Qed.
Print Assumptions C11_rule_results_cycle_fixed_point.

(* saved before the protoclusters are in a record: the same JSON value comes back *)
Theorem C11_rule_results_json_identical : forall cur names r, rdr_wf names r = true ->
  Forall (fun p => pc_inrec (fst p) = None) (rd_by r) ->
  omap (rdr_to_json cur) (rdr_from_json cur names (rdr_to_json cur r)) = Ok (Some (rdr_to_json cur r)).
Proof. exact rdr_roundtrip_json. Qed.
Print Assumptions C11_rule_results_json_identical.

(* the set-valued definition_domains: a strictly ascending name list is its own sorted set *)
Theorem C11_rule_results_sorted_sets : forall l, sasc l = true -> ssort l = l.
Proof. exact ssort_sasc. Qed.
Print Assumptions C11_rule_results_sorted_sets.

(* ---- non-vacuity ---- *)
Definition ex_hmm : hmm :=
  HMM (zs "PKS_KS"%string) 10 200 (1, 1024) (1234, 10)
      [HMM (zs "Trans-AT-KS"%string) 10 200 (1, 8) (333, 10) [HMM (zs "Clade_12"%string) 50 199 (1, 4) (20, 1) []]].
Example C11_ex_hmm_valid : hvalidb ex_hmm = true /\ hmm_from_json (hmm_to_json ex_hmm) = Ok ex_hmm.
Proof. split; vm_compute; reflexivity. Qed.
Example C11_ex_hmm_refused :
  hmm_from_json (JObj [(K_hit_id, JStr (zs "PKS_KS"%string)); (K_query_start, JInt 10); (K_query_end, JInt 20);
                       (K_evalue, JFlt 1 8); (K_bitscore, JInt 7);
                       (K_internal_hits, JArr [JObj [(K_hit_id, JStr (zs "x"%string)); (K_query_start, JInt 20);
                                                     (K_query_end, JInt 30); (K_evalue, JFlt 1 8);
                                                     (K_bitscore, JFlt 1 2)]])]) = Err E_Value.
Proof. vm_compute. reflexivity. Qed.
(* accepted JSON that is not in saved form (int for a float, keys reordered): first cycle normalises *)
Example C11_ex_cycle :
  exists h, hmm_from_json (JObj [(K_bitscore, JInt 7); (K_hit_id, JStr (zs "ACP"%string)); (K_query_end, JInt 20);
                                 (K_query_start, JInt 10); (K_evalue, JFlt 1 8)]) = Ok h /\
            hmm_to_json h <> JObj [(K_bitscore, JInt 7); (K_hit_id, JStr (zs "ACP"%string)); (K_query_end, JInt 20);
                                   (K_query_start, JInt 10); (K_evalue, JFlt 1 8)].
Proof. eexists. split; [vm_compute; reflexivity | vm_compute; discriminate]. Qed.
(* TTA: gc = 0.5; saved under 0.65 (search skipped), now 0.5: discarded; saved under 0.5, now 0.65: kept, no codons *)
Example C11_ex_tta_discard :
  tta_from_json 2 (1, 2) (tta_to_json 2 (tta_detect (JStr (zs "rec"%string)) (1, 2) (13, 20) [(3, 1)])) = Ok None.
Proof. vm_compute. reflexivity. Qed.
Example C11_ex_tta_keep :
  tta_from_json 2 (13, 20) (tta_to_json 2 (tta_detect (JStr (zs "rec"%string)) (1, 2) (1, 2) [(3, 1)]))
  = Ok (Some (mkTTA (JStr (zs "rec"%string)) (1, 2) (13, 20) [])).
Proof. vm_compute. reflexivity. Qed.
Example C11_ex_tta_boundary :
  tta_from_json 2 (1, 2) (tta_to_json 2 (tta_detect (JStr (zs "rec"%string)) (1, 2) (1, 2) [(3, 1)]))
  = Ok (Some (mkTTA (JStr (zs "rec"%string)) (1, 2) (1, 2) [(3, 1)])).
Proof. vm_compute. reflexivity. Qed.
Definition ex_hit (score evalue : jv) : jv :=
  JObj (combine hit_fields [JStr (zs "[0:9](+)"%string); JStr (zs "l"%string); JStr (zs "g"%string); JStr (zs "d"%string); evalue; score;
                            JStr (zs "PF1"%string); JStr (zs "x"%string); JInt 0; JInt 3; JStr (zs "MMM"%string)]).
Definition ex_hmmer : jv :=
  JObj [(K_hits, JArr [ex_hit (JFlt 25 1) (JFlt 1 1000); ex_hit (JFlt 5 1) (JFlt 1 1000)]);
        (K_record_id_sp, JStr (zs "rec"%string)); (K_schema, JInt 2); (K_max_evalue, JFlt 1 100);
        (K_min_score, JFlt 0 1); (K_database, JStr (zs "db"%string)); (K_tool, JStr (zs "t"%string))].
Example C11_ex_hmmer_regen :
  exists r, hmmer_regen 2 (zs "rec"%string) (1, 100) (10, 1) ex_hmmer = Ok (Some r) /\ List.length (hr_hits r) = 1%nat.
Proof. eexists. split; [vm_compute; reflexivity | reflexivity]. Qed.
Example C11_ex_hmmer_lenient : hmmer_regen 2 (zs "rec"%string) (1, 10) (0, 1) ex_hmmer = Ok None.
Proof. vm_compute. reflexivity. Qed.
Definition ex_det (types : list jv) : jv :=
  JObj [(K_record_id, JStr (zs "rec"%string)); (K_schema_version, JInt 2); (K_enabled_types, JArr types);
        (K_rule_results, JObj [(K_schema_version, JInt 4); (K_tool, JStr (zs "t"%string));
                               (K_cds_by_protocluster, JArr []); (K_outside_protoclusters, JArr []);
                               (K_multipliers, JObj [(K_cutoff, JFlt 1 1); (K_neighbourhood, JFlt 3 2)])]);
        (K_strictness, JStr (zs "relaxed"%string))].
Example C11_ex_det_reuse :
  exists d, det_regen 2 4 (zs "rec"%string) [zs "b"%string; zs "a"%string] true (1, 1) (3, 2) (ex_det [JStr (zs "a"%string); JStr (zs "b"%string)])
            = Ok (Some d).
Proof. eexists. vm_compute. reflexivity. Qed.
Example C11_ex_det_refuse_rules :
  det_regen 2 4 (zs "rec"%string) [zs "a"%string; zs "b"%string; zs "c"%string] false (1, 1) (3, 2) (ex_det [JStr (zs "a"%string); JStr (zs "b"%string)])
  = Err E_Runtime.
Proof. vm_compute. reflexivity. Qed.
Example C11_ex_det_refuse_multiplier :
  det_regen 2 4 (zs "rec"%string) [zs "a"%string; zs "b"%string] true (1, 1) (1, 1) (ex_det [JStr (zs "a"%string); JStr (zs "b"%string)])
  = Err E_Runtime.
Proof. vm_compute. reflexivity. Qed.
Example C11_ex_det_refuse_schema :
  det_regen 3 4 (zs "rec"%string) [zs "a"%string; zs "b"%string] false (1, 1) (3, 2) (ex_det [JStr (zs "a"%string); JStr (zs "b"%string)])
  = Err E_Value.
Proof. vm_compute. reflexivity. Qed.
Example C11_ex_side :
  exists a, sub_from_json (Some 1000)
    (JObj [(K_start, JInt 900); (K_end, JInt 100); (K_label, JStr (zs "l"%string));
           (K_tool, JObj [(K_name, JStr (zs "tool"%string)); (K_version, JStr (zs "1"%string))])]) = Ok a
  /\ sub_from_json None
    (JObj [(K_start, JInt 900); (K_end, JInt 100); (K_label, JStr (zs "l"%string));
           (K_tool, JObj [(K_name, JStr (zs "tool"%string)); (K_version, JStr (zs "1"%string))])]) = Err E_Value.
Proof. eexists. split; vm_compute; reflexivity. Qed.

(* sideloaded: a protocluster whose core does not cross the origin but whose neighbourhood does,
   on a circular record of 1000 nt: regenerated with circular_origin 1000 *)
Definition ex_tool : tool := mkTool (zs "tool"%string) (zs "1"%string) [] [].
Definition ex_side : sideres :=
  mkSide (JStr (zs "rec"%string))
         [mkSub (Some 1000) 900 100 (zs "l"%string) ex_tool []]
         [mkProto (Some 1000) 800 900 (zs "T1PKS"%string) ex_tool [] 0 200].
Example C11_ex_side_codec :
  side_validb (zs "rec"%string) (Some 1000) ex_side = true /\
  side_from_json 1 (zs "rec"%string) (Some 1000) (side_to_json 1 ex_side) = Ok ex_side /\
  side_validb (zs "rec"%string) None ex_side = false.
Proof. repeat split; vm_compute; reflexivity. Qed.
(* NRPS/PKS: KS(trans-AT) ACP ACP LPG_synthase_C Beta_elim_lyase on one gene: a module using the
   double carrier protein case is built, saved and regenerated identically *)
Definition ex_dom (name : String.string) (s : Z) : hmm := HMM (zs name) s (s + 8) (1, 1024) (50, 1) [].
Definition ex_doms : list hmm :=
  [HMM (zs "PKS_KS"%string) 10 18 (1, 1024) (50, 1) [HMM (zs "Trans-AT-KS"%string) 10 18 (1, 8) (33, 1) []];
   ex_dom "ACP"%string 30; ex_dom "ACP"%string 50; ex_dom "LPG_synthase_C"%string 70; ex_dom "Beta_elim_lyase"%string 90].
Example C11_ex_nrps_codec :
  exists r, nrps_cds_result (zs "g1"%string) ex_doms [] = Ok r /\
            List.length (cr_modules r) = 1%nat /\
            (nrps_from_json 4 (zs "rec"%string) [zs "g1"%string] (nrps_to_json 4 (zs "rec"%string) [(zs "g1"%string, r)])
             = Ok (Some [(zs "g1"%string, r)])).
Proof. eexists. split; [vm_compute; reflexivity|]. split; vm_compute; reflexivity. Qed.

(* rule detection results with a linear and an origin-spanning protocluster (the latter saved while
   in a record): regenerated up to the dropped run-specific qualifiers *)
Example C11_ex_rule_results :
  rdr_wf [zs "cds1"%string; zs "cds2"%string] W_rdr = true /\
  rdr_strip W_rdr <> W_rdr /\
  rdr_from_json 4 [zs "cds1"%string; zs "cds2"%string] (rdr_to_json 4 W_rdr) = Ok (Some (rdr_strip W_rdr)).
Proof. exact rdr_wf_witness. Qed.

(* ================= main level: main.run_module / analyse_record / run_detection (ModelMain.v) ================= *)
From ASV.C11 Require Import ModelMain ProofsMain.

(* one step, every input map, every module behaviour (also one that breaks the interface): when run_module
   returns, the module's entry is never a raw saved dict - neither a declined nor any other one *)
Theorem C11_main_no_raw_step : forall b m m' tr, run_module b m = Ok (m', tr) ->
  forall i t, ~ In (mb_name b, MRaw i t) m'.
Proof. exact step_no_raw. Qed.
Print Assumptions C11_main_no_raw_step.

(* ... and the entries of all other modules are exactly as they were *)
Theorem C11_main_step_frame : forall b m m' tr k e, run_module b m = Ok (m', tr) -> k <> mb_name b ->
  (In (k, e) m' <-> In (k, e) m).
Proof. exact step_frame. Qed.
Print Assumptions C11_main_step_frame.

(* the invariant over ANY sequence of modules (analyse_record), for every input map: no raw entry of a
   visited module survives, whatever happened in between (induction over the module list) *)
Theorem C11_main_no_raw_sequence : forall bs m m' tr, analyse_record bs m = Ok (m', tr) ->
  forall b, In b bs -> forall i t, ~ In (mb_name b, MRaw i t) m'.
Proof. exact (seq_no_raw run_module good_run_module). Qed.
Print Assumptions C11_main_no_raw_sequence.

(* the same for the module loops of run_detection *)
Theorem C11_main_no_raw_detection : forall bs m m' tr, run_detection bs m = Ok (m', tr) ->
  forall b, In b bs -> forall i t, ~ In (mb_name b, MRaw i t) m'.
Proof. exact (seq_no_raw detection_step good_detection_step). Qed.
Print Assumptions C11_main_no_raw_detection.

(* saved results that the module declines are DISCARDED when the module does not run: nothing is left *)
Theorem C11_main_declined_discarded : forall b m m' tr, mb_regen b = RNone -> ran b = false ->
  run_module b m = Ok (m', tr) -> forall e, ~ In (mb_name b, e) m'.
Proof. exact step_declined_discarded. Qed.
Print Assumptions C11_main_declined_discarded.

(* saved results that the module accepts are kept when the module does not run - for EVERY results object,
   whatever its truth value (the former guard "truthy" is gone with the repair of FC11a: run_module now tests
   `results is not None`) *)
Theorem C11_main_accepted_kept : forall b m id t0 i t, mget (mb_name b) m = Some (MRaw id t0) ->
  mb_regen b = RRes i t -> ran b = false ->
  exists tr, run_module b m = Ok (mremove (mb_name b) m ++ [(mb_name b, MRes i t)], tr).
Proof. exact step_accepted_kept. Qed.
Print Assumptions C11_main_accepted_kept.

(* the class of the repaired finding FC11a, stated positively (formerly C11_main_accepted_kept_refuted): accepted
   results whose truth value is False (TTAResults without codons: __len__ == 0) and a module that does not run -
   whenever run_module returns, the module's entry is exactly the regenerated results object, and nothing else
   is stored under its name *)
Theorem C11_main_accepted_falsy_kept : forall b m m' tr id t0 i, mget (mb_name b) m = Some (MRaw id t0) ->
  mb_regen b = RRes i false -> ran b = false -> run_module b m = Ok (m', tr) ->
  mget (mb_name b) m' = Some (MRes i false) /\ In (mb_name b, MRes i false) m' /\
  forall e, In (mb_name b, e) m' -> e = MRes i false.
Proof. exact accepted_falsy_kept. Qed.
Print Assumptions C11_main_accepted_falsy_kept.

(* when the module runs and returns new results, exactly those are in hand, at the end of the dict *)
Theorem C11_main_ran_new : forall b m m' tr i t, ran b = true -> mb_run b = UNew i t ->
  run_module b m = Ok (m', tr) -> m' = mremove (mb_name b) m ++ [(mb_name b, MRes i t)].
Proof. exact step_ran_new. Qed.
Print Assumptions C11_main_ran_new.

(* the later stage: if every saved entry belongs to a visited module and the modules honour their
   interface, every entry of the final map is a results object and dump_records writes it out *)
Theorem C11_main_dump_ok : forall bs m m' tr, analyse_record bs m = Ok (m', tr) ->
  forallb beh_contract bs = true -> (forall k, In k (keys_of m) -> In k (names_of bs)) -> dump_ok m' = true.
Proof. exact (seq_dump_ok run_module good_run_module). Qed.
Print Assumptions C11_main_dump_ok.

(* without that hypothesis the statement is false: the saved results of a module that is not visited
   (skipped record, module that no longer exists) stay raw and dump_records raises TypeError *)
Theorem C11_main_dump_ok_unvisited_refuted :
  exists bs m m' tr, bs <> [] /\ forallb beh_contract bs = true /\
    analyse_record bs m = Ok (m', tr) /\ dump_ok m' = false.
Proof. exact unvisited_raw_survives. Qed.
Print Assumptions C11_main_dump_ok_unvisited_refuted.

(* run_detection's `assert isinstance(results, ModuleResults)` never trips on what run_module leaves
   when the modules honour their interface: the detection loops go through exactly like analyse_record *)
Theorem C11_main_detection_as_analysis : forall bs m m' tr, forallb beh_contract bs = true ->
  analyse_record bs m = Ok (m', tr) -> exists tr', run_detection bs m = Ok (m', tr').
Proof. exact detection_as_analysis. Qed.
Print Assumptions C11_main_detection_as_analysis.

(* non-vacuity: a reusing run over three modules - accepted and kept, declined and discarded, declined and rerun *)
Example C11_ex_main_sequence :
  analyse_record [mkBeh 1 (RRes 50 true) false false (UNew 60 true);
                  mkBeh 2 RNone false true (UNew 61 true);
                  mkBeh 3 RNone true true (UNew 62 true)]
                 [(1, MRaw 41 true); (2, MRaw 42 true); (3, MRaw 43 true)]
  = Ok ([(1, MRes 50 true); (3, MRes 62 true)], [1; 1; 41; 1; 2; 42; 1; 3; 43; 2; 3; -1; 3; 3]) /\
  spec_final [mkBeh 1 (RRes 50 true) false false (UNew 60 true); mkBeh 2 RNone false true (UNew 61 true);
              mkBeh 3 RNone true true (UNew 62 true)]
             [(1, MRaw 41 true); (2, MRaw 42 true); (3, MRaw 43 true)]
             [(1, MRes 50 true); (3, MRes 62 true)] true = true /\
  (* what a run that keeps the declined dict in place (module_results.get instead of pop) would leave is rejected *)
  spec_final [mkBeh 2 RNone false true (UNew 61 true)] [(2, MRaw 42 true)] [(2, MRaw 42 true)] false = false.
Proof. repeat split; vm_compute; reflexivity. Qed.

(* the decidable specification used at run time (fn 19) is met by the model itself: under the guard (the entry
   of every visited module saved JSON or absent, modules visited once, honouring their interface and not
   raising; accepted falsy results left unrun are no longer excluded) the run does not die ... *)
Theorem C11_main_total_under_guard : forall mode bs m, guard bs m = true ->
  exists m' tr, pipeline mode bs m = Ok (m', tr).
Proof. exact pipeline_total. Qed.
Print Assumptions C11_main_total_under_guard.

(* ... and its final map satisfies the specification: every visited module's entry is exactly the expected
   results object or nothing, other entries are untouched, nothing is invented, and the map can be
   written out when every saved entry was visited (analyse_record and run_detection alike) *)
Theorem C11_main_model_meets_spec : forall mode bs m m' tr, guard bs m = true ->
  pipeline mode bs m = Ok (m', tr) -> spec_final bs m m' (dump_ok m') = true.
Proof. exact pipeline_meets_spec. Qed.
Print Assumptions C11_main_model_meets_spec.

Example C11_ex_main_guard :
  guard [mkBeh 1 (RRes 50 true) false false (UNew 60 true); mkBeh 2 RNone false true (UNew 61 true);
         mkBeh 3 RNone true true (UNew 62 true)]
        [(1, MRaw 41 true); (2, MRaw 42 true); (3, MRaw 43 true)] = true /\
  (* the witness of the repaired FC11a lies under the guard, the model keeps the falsy results and the
     specification accepts exactly that - and rejects the map the unrepaired code left (entry vanished) *)
  guard [mkBeh 1 (RRes 50 false) false false (UNew 60 true)] [(1, MRaw 41 true)] = true /\
  analyse_record [mkBeh 1 (RRes 50 false) false false (UNew 60 true)] [(1, MRaw 41 true)]
    = Ok ([(1, MRes 50 false)], [1; 1; 41]) /\
  spec_final [mkBeh 1 (RRes 50 false) false false (UNew 60 true)] [(1, MRaw 41 true)] [(1, MRes 50 false)] true = true /\
  spec_final [mkBeh 1 (RRes 50 false) false false (UNew 60 true)] [(1, MRaw 41 true)] [] true = false /\
  guard [mkBeh 1 (RJunk 50 true) false false (UNew 60 true)] [(1, MRaw 41 true)] = false.
Proof. repeat split; vm_compute; reflexivity. Qed.

(* ---------- fifth pass: the results file and the records of a reusing run (ModelTop.v / ProofsTop.v) ---------- *)
From ASV.C11 Require Import ModelTop ProofsTop.
From Coq Require Import Sorting.Permutation.

(* AntismashResults.from_file: an accepted results file has the current top-level schema or one listed as compatible
   with it (numerically: 4.0 and True count as 4 and 1, as Python's == and set membership do); a missing field is 1 *)
Theorem C11_top_accepted_schema : forall cur compat data ms,
  top_from_file cur compat data = Ok ms ->
  exists kv, data = JObj kv /\ schema_listed cur compat (top_schema kv) = true.
Proof. exact top_accepted_schema. Qed.
Print Assumptions C11_top_accepted_schema.

(* ... and a file of any other integer schema - older or NEWER - is refused with ValueError before anything is read *)
Theorem C11_top_refuses_unlisted : forall cur compat kv s,
  top_schema kv = JInt s -> s <> cur -> ~ In s compat ->
  top_from_file cur compat (JObj kv) = Err E_Value.
Proof. exact top_refuses_unlisted. Qed.
Print Assumptions C11_top_refuses_unlisted.

(* in particular every schema above the current one, as long as the compatibility table only lists older ones
   (antismash/common/test/test_serialiser.py test_schema_updated) *)
Theorem C11_top_newer_refused : forall cur compat kv s,
  top_schema kv = JInt s -> cur < s -> (forall c, In c compat -> c <= cur) ->
  top_from_file cur compat (JObj kv) = Err E_Value.
Proof. exact top_newer_refused. Qed.
Print Assumptions C11_top_newer_refused.

Theorem C11_top_missing_schema_is_1 : forall kv, jfind K_schema kv = None -> top_schema kv = JInt 1.
Proof. exact top_missing_schema. Qed.
Print Assumptions C11_top_missing_schema_is_1.

(* the run-time specification of the reader (fn 30) holds of the model on every input *)
Theorem C11_top_model_meets_spec : forall cur compat data,
  spec_top cur compat data (top_outcome (top_from_file cur compat data)) = true.
Proof. exact top_model_meets_spec. Qed.
Print Assumptions C11_top_model_meets_spec.

Example C11_ex_top :
  let file s := JObj [(K_version, JStr []); (K_input_file, JStr []); (K_records, JArr []); (K_schema, s)] in
  top_from_file 4 [3; 2; 1] (file (JInt 4)) = Ok [] /\
  top_from_file 4 [3; 2; 1] (file (JInt 2)) = Ok [] /\
  top_from_file 4 [3; 2; 1] (file (JInt 5)) = Err E_Value /\
  top_from_file 4 [3; 2; 1] (file (JInt 0)) = Err E_Value /\
  top_from_file 4 [3; 2; 1] (file (JStr [52])) = Err E_Value /\
  top_from_file 4 [3; 2; 1] (file (JArr [])) = Err E_Type /\
  top_from_file 4 [3; 2; 1] (file (JFlt 4 1)) = Ok [] /\
  top_from_file 4 [3; 2; 1] (JObj [(K_version, JStr []); (K_input_file, JStr []); (K_records, JArr [])]) = Ok [] /\
  (* what seed7 lets through is rejected by the specification *)
  spec_top 4 [3; 2; 1] (file (JInt 5)) None = false /\ spec_top 4 [3; 2; 1] (file (JInt 5)) (Some E_Value) = true.
Proof. repeat split; vm_compute; reflexivity. Qed.

(* main.read_data: stripping the record saved by a run gives back the input record, when the input carries nothing
   the strip removes and everything the detection stages added is of a kind the strip removes *)
Theorem C11_reuse_strip_restores_input : forall base c saved,
  reuse_guard base c = true -> detect_record base c = Ok saved -> strip saved = base.
Proof. exact strip_restores_input. Qed.
Print Assumptions C11_reuse_strip_restores_input.

(* reuse after the strip: regenerating the saved results against the stripped record succeeds and leaves exactly
   the first run's annotated record (same features, same order), for every record, contribution lists and stage *)
Theorem C11_reuse_after_strip_same_features : forall base c saved final,
  reuse_guard base c = true -> first_run base c = Ok (saved, final) ->
  strip saved = base /\ reuse_run saved c = Ok final.
Proof. exact reuse_after_strip. Qed.
Print Assumptions C11_reuse_after_strip_same_features.

(* WITHOUT the strip: any record carrying a saved whole-genome (or area-formation) annotation of a named kind
   (PFAM_domain, aSDomain, CDS_motif) cannot be regenerated: its own name collides *)
Theorem C11_reuse_without_strip_collides : forall base c saved f,
  detect_record base c = Ok saved -> In f (c_early c) -> is_domain (f_kind f) = true ->
  reuse_with no_strip saved c = Err E_SecmetInvalid.
Proof. exact reuse_without_strip_collides. Qed.
Print Assumptions C11_reuse_without_strip_collides.

(* ... and stripping only the records that have regions is not enough: a region-less record with such an annotation dies *)
Theorem C11_reuse_strip_only_with_regions_collides : forall base c saved f,
  detect_record base c = Ok saved -> has_region saved = false ->
  In f (c_early c) -> is_domain (f_kind f) = true ->
  reuse_with strip_if_regions saved c = Err E_SecmetInvalid.
Proof. exact reuse_strip_if_regions_collides. Qed.
Print Assumptions C11_reuse_strip_only_with_regions_collides.

(* the multiset comparison used at run time decides Permutation *)
Theorem C11_same_multiset_sound : forall a b, same_multiset a b = true <-> Permutation a b.
Proof. exact same_multiset_sound. Qed.
Print Assumptions C11_same_multiset_sound.

(* the run-time specification of the reuse path (fn 31) holds of the model under its guard, and whatever outcome
   meets it carries, feature for feature, the annotations of the first run *)
Theorem C11_reuse_model_meets_spec : forall base c,
  reuse_guard base c = true -> spec_reuse base c (reuse_outcome (reuse_pipeline base c)) = true.
Proof. exact reuse_model_meets_spec. Qed.
Print Assumptions C11_reuse_model_meets_spec.

Theorem C11_reuse_spec_sound : forall base c saved final l,
  first_run base c = Ok (saved, final) -> spec_reuse base c (Ok l) = true -> Permutation l (ids final).
Proof. exact spec_reuse_sound. Qed.
Print Assumptions C11_reuse_spec_sound.

Example C11_ex_reuse :
  let cds := mkFeat 0 0 0 false in
  let pfam := mkFeat 1 6 100 true in
  let sub := mkFeat 2 3 2 true in
  let region := mkFeat 3 4 3 true in
  let cpfam := mkFeat 4 6 101 true in
  let tta := mkFeat 5 0 5 true in
  let with_region := mkContribs [pfam; sub] [region] [cpfam] [tta] in
  let no_region := mkContribs [pfam] [] [cpfam] [tta] in
  reuse_guard [cds] with_region = true /\ reuse_guard [cds] no_region = true /\
  first_run [cds] with_region = Ok ([cds; pfam; sub; region; cpfam], [cds; pfam; sub; region; cpfam; tta]) /\
  reuse_run [cds; pfam; sub; region; cpfam] with_region = Ok [cds; pfam; sub; region; cpfam; tta] /\
  (* a record without regions: the whole-genome PFAM domain is saved, the per-area and analysis stages are skipped *)
  first_run [cds] no_region = Ok ([cds; pfam], [cds; pfam]) /\
  reuse_run [cds; pfam] no_region = Ok [cds; pfam] /\
  reuse_with no_strip [cds; pfam] no_region = Err E_SecmetInvalid /\
  (* seed8's treatment: fine with regions, dies without *)
  reuse_with strip_if_regions [cds; pfam; sub; region; cpfam] with_region = Ok [cds; pfam; sub; region; cpfam; tta] /\
  reuse_with strip_if_regions [cds; pfam] no_region = Err E_SecmetInvalid /\
  spec_reuse [cds] no_region (Err E_SecmetInvalid) = false /\ spec_reuse [cds] no_region (Ok [1; 0]) = true /\
  spec_reuse [cds] no_region (Ok [0; 1; 1]) = false.
Proof. repeat split; vm_compute; reflexivity. Qed.

(* Record.strip_antismash_annotations: nothing of a kind it clears survives ... *)
Theorem C11_strip_leaves_nothing_stripped : forall r f, In f (strip r) -> stripped f = false.
Proof. exact strip_leaves_nothing_stripped. Qed.
Print Assumptions C11_strip_leaves_nothing_stripped.

(* ... so fresh copies of the cleared annotations (pairwise distinct names, none carried by a survivor such as a CDS motif of
   the input file) can all be added again, and the record then holds exactly the survivors and the copies *)
Theorem C11_strip_then_readd : forall r r0 adds,
  add_all [] r = Ok r0 -> readd_ok r0 adds = true -> strip_and_add r adds = Ok (strip r0 ++ adds).
Proof. exact readd_after_strip. Qed.
Print Assumptions C11_strip_then_readd.

(* the run-time specification of the strip family (fn 32) holds of the model on every input *)
Theorem C11_strip_model_meets_spec : forall r adds, spec_strip r adds (strip_outcome (strip_and_add r adds)) = true.
Proof. exact strip_model_meets_spec. Qed.
Print Assumptions C11_strip_model_meets_spec.

Example C11_ex_strip :
  let pfam := mkFeat 1 6 100 true in
  let motif_in := mkFeat 2 8 101 false in       (* a CDS motif of the input file: survives, keeps its name *)
  let motif_as := mkFeat 3 8 102 true in
  let pfam' := mkFeat 4 6 100 true in
  let motif_as' := mkFeat 5 8 102 true in
  readd_ok [pfam; motif_in; motif_as] [pfam'; motif_as'] = true /\
  strip_and_add [pfam; motif_in; motif_as] [pfam'; motif_as'] = Ok [motif_in; pfam'; motif_as'] /\
  strip_and_add [pfam; motif_in; motif_as] [mkFeat 6 6 101 true] = Err E_SecmetInvalid /\
  (* a strip that keeps antiSMASH-made motifs makes the re-add die: rejected *)
  spec_strip [pfam; motif_in; motif_as] [pfam'; motif_as'] (Err E_SecmetInvalid) = false /\
  spec_strip [pfam; motif_in; motif_as] [pfam'; motif_as'] (Ok [5; 4; 2]) = true.
Proof. repeat split; vm_compute; reflexivity. Qed.
