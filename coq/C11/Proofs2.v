(* C11 - value-level codec lemmas, second part: sideloaded annotations, CDSResult / NRPSPKSDomains
   (module reload through C14_reload), decidable "saved form" specification. *)
From ASV.C11 Require Import Model Proofs.
From Coq Require Import Lia ZifyBool String.
Close Scope string_scope.
Open Scope Z_scope.

(* ---------- generic ---------- *)
Lemma mapR_map_codec {A} (fj : jv -> res A) (tj : A -> jv) (P : A -> Prop) :
  (forall a, P a -> fj (tj a) = Ok a) -> forall l, Forall P l -> mapR fj (map tj l) = Ok l.
Proof.
  intros H. induction 1 as [|x xs Hx Hxs IH]; [reflexivity|].
  cbn [map mapR]. rewrite (H x Hx). cbn [bind]. rewrite IH. reflexivity.
Qed.

Lemma mapR_as_str l : mapR as_str (map JStr l) = Ok l.
Proof. apply (mapR_map_codec as_str JStr (fun _ => True)); [reflexivity|]. induction l; constructor; auto. Qed.

Lemma mapR_Forall {A B} (f : A -> res B) (P : B -> Prop) :
  (forall a b, f a = Ok b -> P b) -> forall l r, mapR f l = Ok r -> Forall P r.
Proof.
  intros H. induction l as [|x xs IH]; intros r E; cbn [mapR] in E.
  - inversion E. constructor.
  - destruct (f x) as [y|k] eqn:Ex; cbn [bind] in E; [|discriminate].
    destruct (mapR f xs) as [ys|k] eqn:Exs; cbn [bind] in E; [|discriminate].
    inversion E. constructor; [exact (H x y Ex) | exact (IH ys eq_refl)].
Qed.

(* ---------- sideloaded annotations ---------- *)
Lemma qualifiers_codec m : qualifier_mapping (qualifiers_to_json m) = Ok m.
Proof.
  unfold qualifiers_to_json, qualifier_mapping.
  induction m as [|[k v] r IH]; [reflexivity|].
  cbn [map mapR fst snd]. rewrite mapR_as_str. cbn [bind]. rewrite IH. reflexivity.
Qed.

Definition tool_validb (t : tool) : bool := forallb name_char_ok (tl_name t).

Lemma tool_from_json_shape n v d c :
  tool_from_json (JObj [(K_name, JStr n); (K_version, JStr v); (K_description, JStr d); (K_configuration, c)]) =
  (do conf <- qualifier_mapping c; if forallb name_char_ok n then Ok (mkTool n v d conf) else Err E_Value).
Proof. reflexivity. Qed.

Lemma tool_codec t : tool_validb t = true -> tool_from_json (tool_to_json t) = Ok t.
Proof.
  destruct t as [n v d c]. unfold tool_validb, tool_to_json. cbn [tl_name tl_version tl_descr tl_conf].
  intros V. rewrite tool_from_json_shape, qualifiers_codec. cbn [bind]. rewrite V. reflexivity.
Qed.

(* the constructor's conditions (SubRegionAnnotation.__init__ / ProtoclusterAnnotation.__init__) *)
Definition sub_ctor_ok (origin : option Z) (s e : Z) : bool :=
  negb (negb (origin_truthy origin) && (e <=? s)) &&
  match origin with
  | Some n => negb (negb (n =? 0) && (n <? 0)) && negb (negb (n =? 0) && (n <? s))
  | None => true
  end.
Definition proto_ctor_ok (origin : option Z) (cs ce nl nr : Z) : bool :=
  if negb (origin_truthy origin) then
    negb (ce <=? cs) && negb ((nl <? 0) || (nr <? 0)) && negb (cs - nl <? 0)
  else match origin with Some n => negb (n <? 0) && negb (n <? cs) | None => true end.

Definition sub_validb (origin : option Z) (a : subann) : bool :=
  match sa_origin a, origin with
  | Some x, Some y => x =? y
  | None, None => true
  | _, _ => false
  end && tool_validb (sa_tool a) && sub_ctor_ok origin (sa_start a) (sa_end a).
Definition proto_validb (origin : option Z) (a : protoann) : bool :=
  match pa_origin a, origin with
  | Some x, Some y => x =? y
  | None, None => true
  | _, _ => false
  end && tool_validb (pa_tool a) && proto_ctor_ok origin (pa_cs a) (pa_ce a) (pa_nl a) (pa_nr a).

Lemma origin_same (x origin : option Z) :
  match x, origin with Some a, Some b => a =? b | None, None => true | _, _ => false end = true -> x = origin.
Proof. destruct x, origin; intros H; try discriminate; [f_equal; lia | reflexivity]. Qed.

Lemma sub_from_json_shape origin o s e l d t :
  sub_from_json origin (JObj [(K_circular_origin, o); (K_start, JInt s); (K_end, JInt e); (K_label, JStr l);
                              (K_details, d); (K_tool, t)]) =
  (do tl <- tool_from_json t; do details <- qualifier_mapping d;
   if sub_ctor_ok origin s e then Ok (mkSub origin s e l tl details) else Err E_Value).
Proof.
  unfold sub_ctor_ok. cbn -[tool_from_json qualifier_mapping origin_truthy].
  destruct (tool_from_json t) as [tl|k]; [|reflexivity]. cbn [bind].
  destruct (qualifier_mapping d) as [dd|k]; [|reflexivity]. cbn [bind].
  destruct (negb (origin_truthy origin) && (e <=? s)); [reflexivity|]. cbn [negb andb].
  destruct origin as [n|]; [|reflexivity].
  destruct (negb (n =? 0) && (n <? 0)); [reflexivity|]. cbn [negb andb].
  destruct (negb (n =? 0) && (n <? s)); reflexivity.
Qed.

Lemma sub_codec origin a : sub_validb origin a = true -> sub_from_json origin (sub_to_json a) = Ok a.
Proof.
  destruct a as [o s e l t d]. unfold sub_validb, sub_to_json.
  cbn [sa_origin sa_start sa_end sa_label sa_tool sa_details]. intros V.
  apply andb_true_iff in V. destruct V as [V Vc]. apply andb_true_iff in V. destruct V as [Vo Vt].
  rewrite sub_from_json_shape, (tool_codec t Vt), qualifiers_codec. cbn [bind]. rewrite Vc.
  rewrite (origin_same o origin Vo). reflexivity.
Qed.

Lemma proto_from_json_shape origin o cs ce p t d nl nr :
  proto_from_json origin (JObj [(K_circular_origin, o); (K_core_start, JInt cs); (K_core_end, JInt ce);
                                (K_product, JStr p); (K_tool, t); (K_details, d);
                                (K_neighbourhood_left, JInt nl); (K_neighbourhood_right, JInt nr)]) =
  (do tl <- tool_from_json t; do details <- qualifier_mapping d;
   if proto_ctor_ok origin cs ce nl nr then Ok (mkProto origin cs ce p tl details nl nr) else Err E_Value).
Proof.
  unfold proto_ctor_ok. cbn -[tool_from_json qualifier_mapping origin_truthy].
  destruct (tool_from_json t) as [tl|k]; [|reflexivity]. cbn [bind].
  destruct (qualifier_mapping d) as [dd|k]; [|reflexivity]. cbn [bind].
  destruct (negb (origin_truthy origin)).
  - destruct (ce <=? cs); [reflexivity|]. cbn [negb andb].
    destruct ((nl <? 0) || (nr <? 0)); [reflexivity|]. cbn [negb andb].
    destruct (cs - nl <? 0); reflexivity.
  - destruct origin as [n|]; [|reflexivity].
    destruct (n <? 0); [reflexivity|]. cbn [negb andb]. destruct (n <? cs); reflexivity.
Qed.

Lemma proto_codec origin a : proto_validb origin a = true -> proto_from_json origin (proto_to_json a) = Ok a.
Proof.
  destruct a as [o cs ce p t d nl nr]. unfold proto_validb, proto_to_json.
  cbn [pa_origin pa_cs pa_ce pa_product pa_tool pa_details pa_nl pa_nr]. intros V.
  apply andb_true_iff in V. destruct V as [V Vc]. apply andb_true_iff in V. destruct V as [Vo Vt].
  rewrite proto_from_json_shape, (tool_codec t Vt), qualifiers_codec. cbn [bind]. rewrite Vc.
  rewrite (origin_same o origin Vo). reflexivity.
Qed.

(* results as SideloadedResults holds them for a record with the given topology *)
Definition side_validb (rid : list Z) (origin : option Z) (r : sideres) : bool :=
  eq_str (sd_rid r) rid && forallb (sub_validb origin) (sd_subs r) && forallb (proto_validb origin) (sd_protos r).

Lemma side_from_json_shape cur rid origin r sv pl sl :
  side_from_json cur rid origin (JObj [(K_record_id, r); (K_schema_version, JInt sv);
                                       (K_protoclusters, JArr pl); (K_subregions, JArr sl)]) =
  if negb (sv =? cur) then Err E_Value else
  if negb (eq_str r rid) then Err E_Assert else
  do subs <- mapR (sub_from_json origin) sl;
  do protos <- mapR (proto_from_json origin) pl; Ok (mkSide r subs protos).
Proof. reflexivity. Qed.

Lemma forallb_Forall {A} (f : A -> bool) l : forallb f l = true -> Forall (fun x => f x = true) l.
Proof. rewrite forallb_forall, Forall_forall. auto. Qed.

Lemma side_codec cur rid origin r : side_validb rid origin r = true ->
  side_from_json cur rid origin (side_to_json cur r) = Ok r.
Proof.
  destruct r as [i subs protos]. unfold side_validb, side_to_json. cbn [sd_rid sd_subs sd_protos]. intros V.
  apply andb_true_iff in V. destruct V as [V Vp]. apply andb_true_iff in V. destruct V as [Vr Vs].
  rewrite side_from_json_shape, Z.eqb_refl, Vr. cbn [negb].
  rewrite (mapR_map_codec (sub_from_json origin) sub_to_json _ (sub_codec origin) subs (forallb_Forall _ _ Vs)).
  cbn [bind].
  rewrite (mapR_map_codec (proto_from_json origin) proto_to_json _ (proto_codec origin) protos (forallb_Forall _ _ Vp)).
  reflexivity.
Qed.

(* whatever from_json accepts is valid for the record it was loaded against: in particular every
   regenerated annotation carries the record's circular origin (None on a linear record) *)
Lemma tool_from_json_valid j t : tool_from_json j = Ok t -> tool_validb t = true.
Proof.
  destruct j as [| | | | | |kv]; cbn [tool_from_json]; try discriminate. intros E.
  destruct (jget K_name kv) as [a|k]; cbn [bind] in E; [|discriminate].
  destruct (as_str a) as [name|k]; cbn [bind] in E; [|discriminate].
  destruct (jget K_version kv) as [b|k]; cbn [bind] in E; [|discriminate].
  destruct (as_str b) as [version|k]; cbn [bind] in E; [|discriminate].
  destruct (as_str _) as [descr|k]; cbn [bind] in E; [|discriminate].
  destruct (qualifier_mapping _) as [conf|k]; cbn [bind] in E; [|discriminate].
  destruct (forallb name_char_ok name) eqn:V; [|discriminate].
  inversion E. exact V.
Qed.

Lemma origin_refl origin :
  match origin, origin with Some a, Some b => a =? b | None, None => true | _, _ => false end = true.
Proof. destruct origin; [apply Z.eqb_refl | reflexivity]. Qed.

Lemma sub_from_json_validb origin j a : sub_from_json origin j = Ok a -> sub_validb origin a = true.
Proof.
  destruct j as [| | | | | |kv]; cbn [sub_from_json]; try discriminate. intros E.
  destruct (jget K_start kv) as [x1|k]; cbn [bind] in E; [|discriminate].
  destruct (as_int x1) as [s|k]; cbn [bind] in E; [|discriminate].
  destruct (jget K_end kv) as [x2|k]; cbn [bind] in E; [|discriminate].
  destruct (as_int x2) as [e|k]; cbn [bind] in E; [|discriminate].
  destruct (jget K_label kv) as [x3|k]; cbn [bind] in E; [|discriminate].
  destruct (as_str x3) as [label|k]; cbn [bind] in E; [|discriminate].
  destruct (jget K_tool kv) as [x4|k]; cbn [bind] in E; [|discriminate].
  destruct (tool_from_json x4) as [t|k] eqn:Et; cbn [bind] in E; [|discriminate].
  destruct (qualifier_mapping _) as [details|k]; cbn [bind] in E; [|discriminate].
  pose proof (tool_from_json_valid _ _ Et) as Vt.
  unfold sub_validb, sub_ctor_ok.
  destruct (negb (origin_truthy origin) && (e <=? s)) eqn:E1; [discriminate|].
  destruct origin as [n|].
  - destruct (negb (n =? 0) && (n <? 0)) eqn:E2; [discriminate|].
    destruct (negb (n =? 0) && (n <? s)) eqn:E3; [discriminate|].
    inversion E. cbn [sa_origin sa_tool sa_start sa_end]. rewrite ?Z.eqb_refl, ?Vt, ?E1, ?E2, ?E3. reflexivity.
  - inversion E. cbn [sa_origin sa_tool sa_start sa_end]. rewrite ?Vt, ?E1. reflexivity.
Qed.

Lemma proto_from_json_validb origin j a : proto_from_json origin j = Ok a -> proto_validb origin a = true.
Proof.
  destruct j as [| | | | | |kv]; cbn [proto_from_json]; try discriminate. intros E.
  destruct (jget K_core_start kv) as [x1|k]; cbn [bind] in E; [|discriminate].
  destruct (as_int x1) as [cs|k]; cbn [bind] in E; [|discriminate].
  destruct (jget K_core_end kv) as [x2|k]; cbn [bind] in E; [|discriminate].
  destruct (as_int x2) as [ce|k]; cbn [bind] in E; [|discriminate].
  destruct (jget K_product kv) as [x3|k]; cbn [bind] in E; [|discriminate].
  destruct (as_str x3) as [product|k]; cbn [bind] in E; [|discriminate].
  destruct (jget K_tool kv) as [x4|k]; cbn [bind] in E; [|discriminate].
  destruct (tool_from_json x4) as [t|k] eqn:Et; cbn [bind] in E; [|discriminate].
  destruct (qualifier_mapping _) as [details|k]; cbn [bind] in E; [|discriminate].
  destruct (as_int (jgetd K_neighbourhood_left kv (JInt 0))) as [nl|k]; cbn [bind] in E; [|discriminate].
  destruct (as_int (jgetd K_neighbourhood_right kv (JInt 0))) as [nr|k]; cbn [bind] in E; [|discriminate].
  pose proof (tool_from_json_valid _ _ Et) as Vt.
  unfold proto_validb, proto_ctor_ok.
  destruct (negb (origin_truthy origin)) eqn:E0.
  - destruct (ce <=? cs) eqn:E1; [discriminate|].
    destruct ((nl <? 0) || (nr <? 0)) eqn:E2; [discriminate|].
    destruct (cs - nl <? 0) eqn:E3; [discriminate|].
    inversion E. cbn [pa_origin pa_tool pa_cs pa_ce pa_nl pa_nr]. rewrite ?Vt, ?E0, ?E1, ?E2, ?E3. destruct origin; rewrite ?Z.eqb_refl; reflexivity.
  - destruct origin as [n|]; [|discriminate].
    destruct (n <? 0) eqn:E1; [discriminate|]. destruct (n <? cs) eqn:E2; [discriminate|].
    inversion E. cbn [pa_origin pa_tool pa_cs pa_ce pa_nl pa_nr]. rewrite ?Z.eqb_refl, ?Vt, ?E0, ?E1, ?E2. reflexivity.
Qed.

Lemma Forall_forallb {A} (f : A -> bool) l : Forall (fun x => f x = true) l -> forallb f l = true.
Proof. rewrite forallb_forall, Forall_forall. auto. Qed.

Lemma side_from_json_valid cur rid origin j r :
  side_from_json cur rid origin j = Ok r -> side_validb rid origin r = true.
Proof.
  destruct j as [| | | | | |kv]; cbn [side_from_json]; try discriminate. intros E.
  destruct (jget K_schema_version kv) as [sv|k]; cbn [bind] in E; [|discriminate].
  destruct (eq_int sv cur); cbn [negb] in E; [|discriminate].
  destruct (jget K_record_id kv) as [i|k]; cbn [bind] in E; [|discriminate].
  destruct (eq_str i rid) eqn:E2; cbn [negb] in E; [|discriminate].
  destruct (jget K_subregions kv) as [sj|k]; cbn [bind] in E; [|discriminate].
  destruct sj as [| | | | |sl|]; try discriminate.
  destruct (mapR (sub_from_json origin) sl) as [subs|k] eqn:Es; cbn [bind] in E; [|discriminate].
  destruct (jget K_protoclusters kv) as [pj|k]; cbn [bind] in E; [|discriminate].
  destruct pj as [| | | | |pl|]; try discriminate.
  destruct (mapR (proto_from_json origin) pl) as [protos|k] eqn:Ep; cbn [bind] in E; [|discriminate].
  inversion E. unfold side_validb. cbn [sd_rid sd_subs sd_protos]. rewrite E2. cbn [andb].
  rewrite (Forall_forallb _ _ (mapR_Forall _ _ (sub_from_json_validb origin) _ _ Es)).
  rewrite (Forall_forallb _ _ (mapR_Forall _ _ (proto_from_json_validb origin) _ _ Ep)). reflexivity.
Qed.

(* repeated cycles: whatever was accepted once is, saved again, regenerated identically *)
Lemma side_cycle_fixed cur rid origin j r :
  side_from_json cur rid origin j = Ok r -> side_from_json cur rid origin (side_to_json cur r) = Ok r.
Proof. intros E. apply side_codec. exact (side_from_json_valid _ _ _ _ _ E). Qed.

(* circular_origin: every regenerated annotation carries the origin of the record it is loaded
   against, whatever the file said and wherever its core lies *)
Lemma side_origin_kept cur rid origin j r :
  side_from_json cur rid origin j = Ok r ->
  Forall (fun a => sa_origin a = origin) (sd_subs r) /\ Forall (fun a => pa_origin a = origin) (sd_protos r).
Proof.
  intros E. pose proof (side_from_json_valid _ _ _ _ _ E) as V. unfold side_validb in V.
  apply andb_true_iff in V. destruct V as [V Vp]. apply andb_true_iff in V. destruct V as [_ Vs].
  split; apply Forall_forall; intros a Ha.
  - rewrite forallb_forall in Vs. specialize (Vs a Ha). unfold sub_validb in Vs.
    apply andb_true_iff in Vs. destruct Vs as [Vs _]. apply andb_true_iff in Vs. destruct Vs as [Vo _].
    exact (origin_same _ _ Vo).
  - rewrite forallb_forall in Vp. specialize (Vp a Ha). unfold proto_validb in Vp.
    apply andb_true_iff in Vp. destruct Vp as [Vp _]. apply andb_true_iff in Vp. destruct Vp as [Vo _].
    exact (origin_same _ _ Vo).
Qed.
