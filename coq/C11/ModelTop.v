(* C11, top level of a reusing run: the results FILE and the records rebuilt from it.
   Modelled (file:function):
     common/serialiser.py   AntismashResults.from_file after the JSON text is parsed: the top-level schema guard
                            (`schema = data.get("schema", 1)`; refused unless equal to SCHEMA_VERSION or a member of
                            COMPATIBLE_SCHEMAS[SCHEMA_VERSION]), the required keys, the per-record "modules" entries
     main.py                read_data (reuse branch): every record rebuilt from the file is stripped of its antiSMASH
                            annotations (Record.strip_antismash_annotations), then run_detection / analyse_record /
                            annotate_records regenerate the saved results and add their features again
     common/secmet/record.py  strip_antismash_annotations (which feature kinds go), the shared name table of
                            add_pfam_domain / add_antismash_domain / add_cds_motif (SecmetInvalidInputError on a second
                            feature of the same name)
   A record is the list of its features; a feature is (identity, kind, name, created_by_antismash).  What a module's
   regenerated results add to the record is an input (a list of features per stage of main.run_detection): which
   features add_to_record builds goes through Biopython objects and is covered by the correspondence run.
   SCHEMA_VERSION and the compatible set are inputs, read from the class at run time.  No proofs in this file. *)
From ASV.C11 Require Export Model.
From Coq Require Import String Ascii.
Close Scope string_scope.
Open Scope Z_scope.

(* ---------- AntismashResults.from_file ---------- *)
Definition K_schema := zs "schema".
Definition K_version := zs "version".
Definition K_input_file := zs "input_file".
Definition K_records := zs "records".
Definition K_modules := zs "modules".

(* data.get("schema", 1) *)
Definition top_schema (kv : list (list Z * jv)) : jv := jgetd K_schema kv (JInt 1).

(* `schema in {ints}`: lists and dicts are unhashable (TypeError); 3.0 and True hash and compare as 3 and 1 *)
Definition in_compat (schema : jv) (compat : list Z) : res bool :=
  match schema with
  | JArr _ | JObj _ => Err E_Type
  | _ => Ok (existsb (eq_int schema) compat)
  end.

(* if schema != current and schema not in COMPATIBLE_SCHEMAS[current]: raise ValueError *)
Definition top_guard (cur : Z) (compat : list Z) (schema : jv) : res unit :=
  if eq_int schema cur then Ok tt
  else do m <- in_compat schema compat; if m then Ok tt else Err E_Value.

Definition record_modules (r : jv) : res jv :=
  match r with
  | JObj kv => jget K_modules kv
  | _ => Err E_Unmodelled                    (* records come from the real writer *)
  end.

(* the saved module results of every record, as handed on to main.read_data *)
Definition top_from_file (cur : Z) (compat : list Z) (data : jv) : res (list jv) :=
  match data with
  | JObj kv =>
    do _ <- top_guard cur compat (top_schema kv);
    do _ <- jget K_version kv;
    do _ <- jget K_input_file kv;
    do recs <- jget K_records kv;
    match recs with
    | JArr l => mapR record_modules l
    | _ => Err E_Unmodelled
    end
  | _ => Err E_Attribute                      (* data.get on a list / number / string / None *)
  end.

(* the property's clause as a decidable statement on an outcome: accepted only with the current or a listed schema;
   any other schema is refused with exactly the exception the guard raises *)
Definition schema_listed (cur : Z) (compat : list Z) (schema : jv) : bool :=
  eq_int schema cur || existsb (eq_int schema) compat.
Definition unhashable (j : jv) : bool := match j with JArr _ | JObj _ => true | _ => false end.

(* out: None = accepted, Some k = exception kind *)
Definition spec_top (cur : Z) (compat : list Z) (data : jv) (out : option Z) : bool :=
  match data with
  | JObj kv =>
    let s := top_schema kv in
    if schema_listed cur compat s then true
    else match out with
         | None => false
         | Some k => if unhashable s then k =? E_Type else k =? E_Value
         end
  | _ => match out with None => false | Some _ => true end
  end.

(* ---------- the records of a reused file: strip, regenerate, add ---------- *)
(* kinds: 0 anything the strip leaves alone (CDS, gene, misc_feature, source ...), 1 protocluster / proto_core,
   2 cand_cluster, 3 subregion, 4 region, 5 aSDomain, 6 PFAM_domain, 7 aSModule, 8 CDS_motif *)
Record feat : Type := mkFeat { f_id : Z; f_kind : Z; f_name : Z; f_as : bool }.

(* the kinds sharing Record._domains_by_name *)
Definition is_domain (k : Z) : bool := (k =? 5) || (k =? 6) || (k =? 8).

(* Record.strip_antismash_annotations: clear_protoclusters, clear_candidate_clusters, clear_subregions, clear_regions,
   clear_antismash_domains, clear_pfam_domains, clear_modules; CDS motifs only when created by antiSMASH *)
Definition stripped (f : feat) : bool :=
  ((1 <=? f_kind f) && (f_kind f <=? 7)) || ((f_kind f =? 8) && f_as f).
Definition strip (r : list feat) : list feat := filter (fun f => negb (stripped f)) r.

Definition name_taken (r : list feat) (n : Z) : bool :=
  existsb (fun g => is_domain (f_kind g) && (f_name g =? n)) r.

(* Record.add_feature: a domain-like feature whose name is already in the table is refused *)
Definition add_feat (r : list feat) (f : feat) : res (list feat) :=
  if is_domain (f_kind f) && name_taken r (f_name f) then Err E_SecmetInvalid else Ok (r ++ [f]).

Fixpoint add_all (r : list feat) (fs : list feat) : res (list feat) :=
  match fs with
  | [] => Ok r
  | f :: rest => do r' <- add_feat r f; add_all r' rest
  end.

(* what the (regenerated) results of the modules add, by stage of main.run_detection / main._run_antismash *)
Record contribs : Type := mkContribs {
  c_early : list feat;       (* FULL_GENOME add_to_record, then AREA_FORMATION / AREA_REFINEMENT protoclusters + subregions *)
  c_derived : list feat;     (* record.create_candidate_clusters(); record.create_regions() *)
  c_per_area : list feat;    (* PER_AREA add_to_record: only when the record has regions *)
  c_analysis : list feat     (* analyse_record's results, added by annotate_records AFTER the results file is written *)
}.

Definition has_region (r : list feat) : bool := existsb (fun f => f_kind f =? 4) r.

(* main.run_detection on a record *)
Definition detect_record (r0 : list feat) (c : contribs) : res (list feat) :=
  do r1 <- add_all r0 (c_early c);
  do r2 <- add_all r1 (c_derived c);
  if has_region r2 then add_all r2 (c_per_area c) else Ok r2.

(* analyse_record + annotate_records: skipped for a record without regions *)
Definition annotate_record (r : list feat) (c : contribs) : res (list feat) :=
  if has_region r then add_all r (c_analysis c) else Ok r.

(* the first run on the input record: the record as saved in the results file, and as annotated in the end *)
Definition first_run (base : list feat) (c : contribs) : res (list feat * list feat) :=
  do saved <- detect_record base c;
  do final <- annotate_record saved c;
  Ok (saved, final).

(* the reusing run on the saved record, for a given treatment of the record in read_data *)
Definition reuse_with (prepare : list feat -> list feat) (saved : list feat) (c : contribs) : res (list feat) :=
  do r <- detect_record (prepare saved) c;
  annotate_record r c.

(* main.read_data as it is: every record is stripped *)
Definition reuse_run (saved : list feat) (c : contribs) : res (list feat) := reuse_with strip saved c.

(* counterfactual treatments (used in theorems only): no strip at all; strip only records that have regions *)
Definition no_strip (r : list feat) : list feat := r.
Definition strip_if_regions (r : list feat) : list feat := if has_region r then strip r else r.

(* ---------- decidable specification on an outcome ---------- *)
Fixpoint count_z (l : list Z) (x : Z) : nat :=
  match l with
  | [] => O
  | y :: r => if y =? x then S (count_z r x) else count_z r x
  end.
Definition same_multiset (a b : list Z) : bool :=
  forallb (fun x => Nat.eqb (count_z a x) (count_z b x)) (a ++ b).

Definition ids (r : list feat) : list Z := map f_id r.

(* hypotheses of the theorems, decidably: the input record carries nothing the strip removes; everything the
   detection stages add is removed by the strip *)
Definition reuse_guard (base : list feat) (c : contribs) : bool :=
  forallb (fun f => negb (stripped f)) base &&
  forallb stripped (c_early c ++ c_derived c ++ c_per_area c).

(* out: the feature identities on the record after the reusing run, or the exception kind *)
Definition spec_reuse (base : list feat) (c : contribs) (out : res (list Z)) : bool :=
  match first_run base c with
  | Ok (_, final) =>
    match out with
    | Ok l => same_multiset l (ids final)
    | Err _ => false
    end
  | Err _ => true                      (* the first run itself dies: nothing was saved *)
  end.

(* ---------- entry points ---------- *)
Definition d_feat : dec feat := fun l =>
  match l with
  | i :: k :: n :: a :: r => Some (mkFeat i k n (negb (a =? 0)), r)
  | _ => None
  end.

Definition d_contribs : dec (list feat * contribs) := fun l =>
  match dList d_feat l with
  | Some (base, r1) =>
    match dList d_feat r1 with
    | Some (e, r2) =>
      match dList d_feat r2 with
      | Some (d, r3) =>
        match dList d_feat r3 with
        | Some (p, r4) =>
          match dList d_feat r4 with
          | Some (a, r5) => Some ((base, mkContribs e d p a), r5)
          | None => None
          end
        | None => None
        end
      | None => None
      end
    | None => None
    end
  | None => None
  end.

Definition zsort (l : list Z) : list Z := sort_by Z.ltb l.

(* fn 21: [base; early; derived; per_area; analysis] -> [0; 1; saved ids (sorted); final ids after reuse (sorted)] | [1; kind] *)
Definition e_reuse (r : res (list feat * list feat)) : list Z :=
  match r with
  | Err k => [1; k]
  | Ok (saved, final) => 0 :: 1 :: eList (fun x => [x]) (zsort (ids saved)) ++ eList (fun x => [x]) (zsort (ids final))
  end.

Definition reuse_pipeline (base : list feat) (c : contribs) : res (list feat * list feat) :=
  do sf <- first_run base c;
  do final <- reuse_run (fst sf) c;
  Ok (fst sf, final).

(* the implementation's outcome of fn 21: [0; 1; saved ids; final ids] | [1; kind] -> what spec_reuse reads *)
Definition d_reuse_out (l : list Z) : option (res (list Z)) :=
  match l with
  | 1 :: k :: [] => Some (Err k)
  | 0 :: 1 :: r =>
    match dList dZ r with
    | Some (_, r') => match dList dZ r' with Some (final, []) => Some (Ok final) | _ => None end
    | None => None
    end
  | _ => None
  end.

(* Record.strip_antismash_annotations and the name table on their own (fn 22): features added to an empty record,
   the strip, further features added *)
Definition strip_and_add (r adds : list feat) : res (list feat) :=
  do r0 <- add_all [] r; add_all (strip r0) adds.

(* the property on this level, independent of how add_all computes: when everything added after the strip is of a kind
   the strip removes (fresh copies of what a first run added), with names that are pairwise distinct and not carried by a
   feature the strip left behind, every addition succeeds and the record holds exactly the survivors and the additions *)
Definition dom_names (l : list feat) : list Z := map f_name (filter (fun f => is_domain (f_kind f)) l).
Definition mem_z (x : Z) (l : list Z) : bool := existsb (Z.eqb x) l.
Fixpoint nodup_z (l : list Z) : bool :=
  match l with [] => true | x :: r => negb (mem_z x r) && nodup_z r end.
Definition disjoint_z (a b : list Z) : bool := forallb (fun x => negb (mem_z x b)) a.
Definition readd_ok (r0 adds : list feat) : bool :=
  forallb stripped adds && nodup_z (dom_names adds) && disjoint_z (dom_names adds) (dom_names (strip r0)).
Definition spec_strip (r adds : list feat) (out : res (list Z)) : bool :=
  match add_all [] r with
  | Err _ => true
  | Ok r0 =>
    if readd_ok r0 adds then
      match out with Ok l => same_multiset l (ids (strip r0 ++ adds)) | Err _ => false end
    else true
  end.

Definition run_strip_spec (l : list Z) : list Z :=
  match dList d_feat l with
  | Some (r, r1) =>
    match dList d_feat r1 with
    | Some (adds, rest) =>
      let out := match rest with
                 | 1 :: k :: [] => Some (Err k)
                 | 0 :: 1 :: r2 => match dList dZ r2 with Some (fs, []) => Some (Ok fs) | _ => None end
                 | _ => Some (Err 0)         (* [7; _]: the harness's own marker of a leftover / foreign feature *)
                 end in
      match out with
      | Some o =>
        let cls := match add_all [] r with Ok r0 => readd_ok r0 adds | Err _ => false end in
        [if spec_strip r adds o then 1 else 0; if cls then 1 else 0]
      | None => bad_input
      end
    | None => bad_input
    end
  | None => bad_input
  end.

Definition run_strip (l : list Z) : list Z :=
  match dList d_feat l with
  | Some (r, r1) =>
    match dList d_feat r1 with
    | Some (adds, []) =>
      match strip_and_add r adds with
      | Ok fs => 0 :: 1 :: eList (fun x => [x]) (zsort (ids fs))
      | Err k => [1; k]
      end
    | _ => bad_input
    end
  | None => bad_input
  end.

(* fn 22: [features; features added after the strip] -> [0; 1; identities (sorted)] | [1; kind]; fn 32: the same followed by
   the implementation's outcome -> [verdict; re-add class];
   fn 20: [cur; compat; data] -> [0; 1; number of records] | [1; kind];
   fn 30: the same followed by the implementation's outcome -> [verdict; schema listed];
   fn 21 / fn 31: the reuse path and its specification -> [verdict; guard; region-less record with a whole-genome domain] *)
Definition run_top (fn : Z) (l : list Z) : list Z :=
  if fn =? 22 then run_strip l
  else if fn =? 32 then run_strip_spec l
  else if (fn =? 20) || (fn =? 30) then
    match djv (S (List.length l)) l with
    | Some (JArr [JInt cur; compat; data], rest) =>
      match mapR as_int (match compat with JArr c => c | _ => [JNull] end) with
      | Ok cs =>
        if fn =? 20 then
          match rest with
          | [] => match top_from_file cur cs data with Ok ms => [0; 1; zlen ms] | Err k => [1; k] end
          | _ => bad_input
          end
        else
          let listed := match data with JObj kv => schema_listed cur cs (top_schema kv) | _ => false end in
          let out := match rest with
                     | 0 :: _ => Some None
                     | 1 :: k :: [] => Some (Some k)
                     | _ => None
                     end in
          match out with
          | Some o => [if spec_top cur cs data o then 1 else 0; if listed then 1 else 0]
          | None => bad_input
          end
      | Err _ => bad_input
      end
    | _ => bad_input
    end
  else
    match d_contribs l with
    | Some ((base, c), rest) =>
      if fn =? 21 then
        match rest with [] => e_reuse (reuse_pipeline base c) | _ => bad_input end
      else
        match d_reuse_out rest with
        | Some out =>
          let cls := match first_run base c with
                     | Ok (saved, _) => negb (has_region saved) && existsb (fun f => is_domain (f_kind f)) (c_early c)
                     | Err _ => false
                     end in
          [if spec_reuse base c out then 1 else 0; if reuse_guard base c then 1 else 0; if cls then 1 else 0]
        | None => bad_input
        end
    | None => bad_input
    end.
