(* C11 (main level): lemmas about the bookkeeping model of main.run_module (ModelMain.v). *)
From ASV Require Import Base.
From ASV.C11 Require Import ModelMain.
Open Scope Z_scope.

(* ---------- dict operations ---------- *)
Lemma mremove_absent : forall n m p, In p (mremove n m) -> fst p <> n.
Proof.
  unfold mremove. intros n m p H. apply filter_In in H. destruct H as [_ H].
  apply negb_true_iff in H. apply Z.eqb_neq in H. exact H.
Qed.

Lemma mremove_In : forall n m p, In p (mremove n m) <-> In p m /\ fst p <> n.
Proof.
  unfold mremove. intros n m p. rewrite filter_In. rewrite negb_true_iff, Z.eqb_neq. tauto.
Qed.

Lemma mset_absent : forall n v m, (forall p, In p m -> fst p <> n) -> mset n v m = m ++ [(n, v)].
Proof.
  induction m as [|[k e] r IH]; intros H; simpl.
  - reflexivity.
  - destruct (k =? n) eqn:E.
    + apply Z.eqb_eq in E. exfalso. apply (H (k, e)); [left; reflexivity | exact E].
    + rewrite IH; [reflexivity|]. intros p Hp. apply H. right. exact Hp.
Qed.

Lemma mset_last : forall n v w m, (forall p, In p m -> fst p <> n) -> mset n v (m ++ [(n, w)]) = m ++ [(n, v)].
Proof.
  induction m as [|[k e] r IH]; intros H; simpl.
  - rewrite Z.eqb_refl. reflexivity.
  - destruct (k =? n) eqn:E.
    + apply Z.eqb_eq in E. exfalso. apply (H (k, e)); [left; reflexivity | exact E].
    + rewrite IH; [reflexivity|]. intros p Hp. apply H. right. exact Hp.
Qed.

Lemma mget_app_absent : forall n e m, (forall p, In p m -> fst p <> n) -> mget n (m ++ [(n, e)]) = Some e.
Proof.
  induction m as [|[k e'] r IH]; intros H; simpl.
  - rewrite Z.eqb_refl. reflexivity.
  - destruct (k =? n) eqn:E.
    + apply Z.eqb_eq in E. exfalso. apply (H (k, e')); [left; reflexivity | exact E].
    + apply IH. intros p Hp. apply H. right. exact Hp.
Qed.

Lemma mget_absent : forall n m, (forall p, In p m -> fst p <> n) -> mget n m = None.
Proof.
  induction m as [|[k e'] r IH]; intros H; simpl.
  - reflexivity.
  - destruct (k =? n) eqn:E.
    + apply Z.eqb_eq in E. exfalso. apply (H (k, e')); [left; reflexivity | exact E].
    + apply IH. intros p Hp. apply H. right. exact Hp.
Qed.

Lemma mget_In : forall n m e, mget n m = Some e -> In (n, e) m.
Proof.
  induction m as [|[k e'] r IH]; intros e H; simpl in *.
  - discriminate.
  - destruct (k =? n) eqn:E.
    + apply Z.eqb_eq in E. inversion H. subst. left. reflexivity.
    + right. apply IH. exact H.
Qed.

(* ---------- one step: what run_module leaves under the module's name ---------- *)
(* the entry left under the module's name by a step that returns normally *)
Definition final_entry (b : mbeh) (m : mmap) : option mentry :=
  let g := match mget (mb_name b) m with Some (MRaw _ _) => mb_regen b | _ => RNone end in
  if ran b then
    match mb_run b, g with
    | UNew i t, _ => Some (MRes i t)
    | UReuse _ _, RRes i t => Some (MRes i t)
    | UReuse i t, _ => Some (MRes i t)
    | _, _ => None
    end
  else
    match g with
    | RRes i t => Some (MRes i t)
    | RJunk i t => Some (MJunk i t)
    | _ => None
    end.

Definition tail_of (n : Z) (o : option mentry) : mmap := match o with Some e => [(n, e)] | None => [] end.

Lemma run_module_shape : forall b m m' tr, run_module b m = Ok (m', tr) ->
  m' = mremove (mb_name b) m ++ tail_of (mb_name b) (final_entry b m).
Proof.
  intros b m m' tr H.
  pose proof (mremove_absent (mb_name b) m) as Habs.
  pose proof (fun v => mset_absent (mb_name b) v _ Habs) as S1.
  pose proof (fun v w => mset_last (mb_name b) v w _ Habs) as S2.
  unfold run_module, regen_phase, final_entry, ran in *.
  destruct (mget (mb_name b) m) as [[id t0|id t0|id t0|]|];
    destruct (mb_regen b) as [|i [|]|i [|]|k];
    destruct (mb_in_all b); destruct (mb_enabled b);
    destruct (mb_run b) as [u t|u t| |kk]; simpl in *;
    try discriminate;
    inversion H; subst; clear H;
    try rewrite !S1; try rewrite !S2; try rewrite !S1; simpl; try rewrite app_nil_r; reflexivity.
Qed.

Lemma final_entry_not_raw : forall b m i t, final_entry b m <> Some (MRaw i t).
Proof.
  intros b m i t. unfold final_entry.
  destruct (ran b); destruct (mb_run b) as [u s|u s| |k];
    destruct (mget (mb_name b) m) as [[? ?|? ?|? ?|]|]; try destruct (mb_regen b) as [|? [|]|? [|]|?];
    discriminate.
Qed.

Lemma final_entry_contract : forall b m e, beh_contract b = true -> final_entry b m = Some e ->
  exists i t, e = MRes i t.
Proof.
  intros b m e Hc. unfold beh_contract in Hc. apply andb_true_iff in Hc. destruct Hc as [Hc1 Hc2].
  unfold final_entry.
  destruct (ran b); destruct (mb_run b) as [u s|u s| |k];
    destruct (mget (mb_name b) m) as [[? ?|? ?|? ?|]|]; try destruct (mb_regen b) as [|? [|]|? [|]|?];
    try discriminate; intros H; inversion H; eauto.
Qed.

Lemma step_In : forall b m m' tr k e, run_module b m = Ok (m', tr) ->
  (In (k, e) m' <-> (k <> mb_name b /\ In (k, e) m) \/ (k = mb_name b /\ final_entry b m = Some e)).
Proof.
  intros b m m' tr k e H. rewrite (run_module_shape _ _ _ _ H). rewrite in_app_iff, mremove_In. simpl.
  split.
  - intros [[H1 H2]|H1].
    + left. tauto.
    + right. destruct (final_entry b m) as [x|]; simpl in H1; [|contradiction].
      destruct H1 as [H1|[]]. inversion H1. subst. split; reflexivity.
  - intros [[H1 H2]|[H1 H2]].
    + left. tauto.
    + right. rewrite H2. simpl. left. subst. reflexivity.
Qed.

(* no raw (declined or otherwise) saved entry of the module survives the step, whatever the module does *)
Lemma step_no_raw : forall b m m' tr, run_module b m = Ok (m', tr) ->
  forall i t, ~ In (mb_name b, MRaw i t) m'.
Proof.
  intros b m m' tr H i t Hin. apply (step_In _ _ _ _ _ _ H) in Hin.
  destruct Hin as [[Hne _]|[_ Hf]]; [congruence|]. exact (final_entry_not_raw _ _ _ _ Hf).
Qed.

Lemma step_no_raw_get : forall b m m' tr, run_module b m = Ok (m', tr) ->
  forall i t, mget (mb_name b) m' <> Some (MRaw i t).
Proof.
  intros b m m' tr H i t Hg. apply mget_In in Hg. exact (step_no_raw _ _ _ _ H _ _ Hg).
Qed.

(* entries of other modules are untouched *)
Lemma step_frame : forall b m m' tr k e, run_module b m = Ok (m', tr) -> k <> mb_name b ->
  (In (k, e) m' <-> In (k, e) m).
Proof.
  intros b m m' tr k e H Hne. rewrite (step_In _ _ _ _ _ _ H). tauto.
Qed.

(* a module that honours its interface leaves a results object or nothing *)
Lemma step_contract_clean : forall b m m' tr e, run_module b m = Ok (m', tr) -> beh_contract b = true ->
  In (mb_name b, e) m' -> exists i t, e = MRes i t.
Proof.
  intros b m m' tr e H Hc Hin. apply (step_In _ _ _ _ _ _ H) in Hin.
  destruct Hin as [[Hne _]|[_ Hf]]; [congruence|]. exact (final_entry_contract _ _ _ Hc Hf).
Qed.

(* declined and not run: nothing is left *)
Lemma step_declined_discarded : forall b m m' tr, mb_regen b = RNone -> ran b = false ->
  run_module b m = Ok (m', tr) -> forall e, ~ In (mb_name b, e) m'.
Proof.
  intros b m m' tr Hr Hran H e Hin. apply (step_In _ _ _ _ _ _ H) in Hin.
  destruct Hin as [[Hne _]|[_ Hf]]; [congruence|].
  unfold final_entry in Hf. rewrite Hr, Hran in Hf.
  destruct (mget (mb_name b) m) as [[? ?|? ?|? ?|]|]; discriminate.
Qed.

(* accepted and not run: exactly the regenerated results are kept, at the end of the dict - whatever
   their truth value (`if results is not None:`) *)
Lemma step_accepted_kept : forall b m id t0 i t, mget (mb_name b) m = Some (MRaw id t0) ->
  mb_regen b = RRes i t -> ran b = false ->
  exists tr, run_module b m = Ok (mremove (mb_name b) m ++ [(mb_name b, MRes i t)], tr).
Proof.
  intros b m id t0 i t Hg Hr Hran.
  pose proof (mremove_absent (mb_name b) m) as Habs.
  unfold run_module, regen_phase. rewrite Hg, Hr. rewrite (mset_absent _ _ _ Habs).
  unfold ran in Hran. destruct (mb_in_all b); simpl in *.
  - rewrite Hran. simpl. eauto.
  - eauto.
Qed.

(* ran: the results of run_on_record are in hand (the regenerated ones when the module reuses them) *)
Lemma step_ran_new : forall b m m' tr i t, ran b = true -> mb_run b = UNew i t ->
  run_module b m = Ok (m', tr) -> m' = mremove (mb_name b) m ++ [(mb_name b, MRes i t)].
Proof.
  intros b m m' tr i t Hran Hu H. rewrite (run_module_shape _ _ _ _ H).
  unfold final_entry. rewrite Hran, Hu. reflexivity.
Qed.

(* ---------- sequences of modules ---------- *)
Definition good_step (step : mbeh -> mmap -> res (mmap * list Z)) : Prop :=
  forall b m m' tr, step b m = Ok (m', tr) -> exists tr0, run_module b m = Ok (m', tr0).

Lemma good_run_module : good_step run_module.
Proof. intros b m m' tr H. eauto. Qed.

Lemma good_detection_step : good_step detection_step.
Proof.
  intros b m m' tr H. unfold detection_step in H.
  destruct (run_module b m) as [[m1 t1]|k]; [|discriminate].
  destruct (mget (mb_name b) m1) as [e|].
  - destruct (entry_truthy e).
    + destruct e; try discriminate. inversion H. subst. eauto.
    + inversion H. subst. eauto.
  - inversion H. subst. eauto.
Qed.

Lemma seq_preserves_no_raw : forall step, good_step step -> forall n bs m m' tr,
  run_modules step bs m = Ok (m', tr) ->
  (forall i t, ~ In (n, MRaw i t) m) -> forall i t, ~ In (n, MRaw i t) m'.
Proof.
  intros step G n. induction bs as [|b r IH]; intros m m' tr H Hm; simpl in H.
  - inversion H. subst. exact Hm.
  - destruct (step b m) as [[m1 t1]|k] eqn:E; [|discriminate].
    destruct (run_modules step r m1) as [[m2 t2]|k] eqn:E2; [|discriminate].
    inversion H. subst. clear H.
    destruct (G _ _ _ _ E) as [tr0 R].
    apply (IH _ _ _ E2). intros i t Hin.
    destruct (Z.eq_dec n (mb_name b)) as [->|Hne].
    + exact (step_no_raw _ _ _ _ R _ _ Hin).
    + apply (step_frame _ _ _ _ _ _ R Hne) in Hin. exact (Hm _ _ Hin).
Qed.

(* the invariant over any sequence of modules, for every input map: no raw entry of a visited module survives *)
Lemma seq_no_raw : forall step, good_step step -> forall bs m m' tr,
  run_modules step bs m = Ok (m', tr) ->
  forall b, In b bs -> forall i t, ~ In (mb_name b, MRaw i t) m'.
Proof.
  intros step G. induction bs as [|b0 r IH]; intros m m' tr H b Hb; simpl in H.
  - destruct Hb.
  - destruct (step b0 m) as [[m1 t1]|k] eqn:E; [|discriminate].
    destruct (run_modules step r m1) as [[m2 t2]|k] eqn:E2; [|discriminate].
    inversion H. subst. clear H.
    destruct Hb as [->|Hb].
    + destruct (G _ _ _ _ E) as [tr0 R].
      apply (seq_preserves_no_raw step G _ _ _ _ _ E2). intros i t. exact (step_no_raw _ _ _ _ R i t).
    + exact (IH _ _ _ E2 _ Hb).
Qed.

(* where every entry of the final map comes from *)
Lemma seq_entries : forall step, good_step step -> forall bs m m' tr,
  run_modules step bs m = Ok (m', tr) -> forallb beh_contract bs = true ->
  forall k e, In (k, e) m' ->
  (In k (names_of bs) /\ exists i t, e = MRes i t) \/ (~ In k (names_of bs) /\ In (k, e) m).
Proof.
  intros step G. induction bs as [|b0 r IH]; intros m m' tr H Hc k e Hin; simpl in H.
  - inversion H. subst. right. split; [intros []|exact Hin].
  - destruct (step b0 m) as [[m1 t1]|k0] eqn:E; [|discriminate].
    destruct (run_modules step r m1) as [[m2 t2]|k0] eqn:E2; [|discriminate].
    inversion H. subst. clear H.
    simpl in Hc. apply andb_true_iff in Hc. destruct Hc as [Hc0 Hcr].
    destruct (G _ _ _ _ E) as [tr0 R].
    destruct (IH _ _ _ E2 Hcr _ _ Hin) as [[Hk He]|[Hk Hin1]].
    + left. split; [right; exact Hk|exact He].
    + destruct (Z.eq_dec k (mb_name b0)) as [->|Hne].
      * left. split; [left; reflexivity|]. exact (step_contract_clean _ _ _ _ _ R Hc0 Hin1).
      * right. split.
        -- simpl. intros [Hx|Hx]; [congruence|exact (Hk Hx)].
        -- apply (step_frame _ _ _ _ _ _ R Hne). exact Hin1.
Qed.

(* the later stage: when every saved entry belongs to a visited module and the modules honour their
   interface, the final map can be written out (dump_records does not meet a raw dict) *)
Lemma seq_dump_ok : forall step, good_step step -> forall bs m m' tr,
  run_modules step bs m = Ok (m', tr) -> forallb beh_contract bs = true ->
  (forall k, In k (keys_of m) -> In k (names_of bs)) ->
  dump_ok m' = true.
Proof.
  intros step G bs m m' tr H Hc Hk. unfold dump_ok. apply forallb_forall. intros [k e] Hin. simpl.
  destruct (seq_entries step G _ _ _ _ H Hc _ _ Hin) as [[_ [i [t ->]]]|[Hn Hm]].
  - reflexivity.
  - exfalso. apply Hn. apply Hk. unfold keys_of. apply in_map_iff. exists (k, e). split; [reflexivity|exact Hm].
Qed.

(* ... and that hypothesis is needed: an entry of a module that is not visited stays raw *)
Lemma unvisited_raw_survives :
  exists bs m m' tr, bs <> [] /\ forallb beh_contract bs = true /\
    analyse_record bs m = Ok (m', tr) /\ dump_ok m' = false.
Proof.
  exists [mkBeh 2 RNone true true (UNew 7 true)], [(1, MRaw 0 true)].
  eexists. eexists. split; [discriminate|]. split; [reflexivity|]. split; [vm_compute; reflexivity|reflexivity].
Qed.

(* the class of the repaired finding FC11a: accepted results that are FALSY (TTAResults without codons) and a
   module that does not run - the entry found under the module's name afterwards is exactly the regenerated
   results object, and with it the map can be written out by dump_records as far as this module is concerned *)
Lemma accepted_falsy_kept : forall b m m' tr id t0 i, mget (mb_name b) m = Some (MRaw id t0) ->
  mb_regen b = RRes i false -> ran b = false -> run_module b m = Ok (m', tr) ->
  mget (mb_name b) m' = Some (MRes i false) /\ In (mb_name b, MRes i false) m' /\
  forall e, In (mb_name b, e) m' -> e = MRes i false.
Proof.
  intros b m m' tr id t0 i Hg Hr Hran H.
  destruct (step_accepted_kept b m id t0 i false Hg Hr Hran) as [tr' H'].
  rewrite H in H'. inversion H'. subst. clear H'.
  pose proof (mremove_absent (mb_name b) m) as Habs.
  split; [apply mget_app_absent; exact Habs|]. split.
  - apply in_or_app. right. left. reflexivity.
  - intros e Hin. apply in_app_or in Hin. destruct Hin as [Hin|[Hin|[]]].
    + apply Habs in Hin. simpl in Hin. congruence.
    + inversion Hin. reflexivity.
Qed.

(* run_detection's assertion never trips when the modules honour their interface *)
Lemma detection_step_contract : forall b m m' tr, beh_contract b = true -> run_module b m = Ok (m', tr) ->
  exists tr', detection_step b m = Ok (m', tr').
Proof.
  intros b m m' tr Hc H. unfold detection_step. rewrite H.
  destruct (mget (mb_name b) m') as [e|] eqn:Eg; [|eauto].
  destruct (entry_truthy e); [|eauto].
  apply mget_In in Eg. destruct (step_contract_clean _ _ _ _ _ H Hc Eg) as [i [t ->]]. eauto.
Qed.

Lemma detection_as_analysis : forall bs m m' tr, forallb beh_contract bs = true ->
  analyse_record bs m = Ok (m', tr) -> exists tr', run_detection bs m = Ok (m', tr').
Proof.
  unfold analyse_record, run_detection.
  induction bs as [|b r IH]; intros m m' tr Hc H; simpl in *.
  - inversion H. subst. eauto.
  - apply andb_true_iff in Hc. destruct Hc as [Hc0 Hcr].
    destruct (run_module b m) as [[m1 t1]|k] eqn:E; [|discriminate].
    destruct (run_modules run_module r m1) as [[m2 t2]|k] eqn:E2; [|discriminate].
    inversion H. subst. clear H.
    destruct (detection_step_contract _ _ _ _ Hc0 E) as [t1' D]. rewrite D.
    destruct (IH _ _ _ Hcr E2) as [t2' D2]. rewrite D2. eauto.
Qed.


(* ---------- the decidable specification holds of the model's own outcome (under the guard) ---------- *)
Lemma zmem_In : forall x l, zmem x l = true <-> In x l.
Proof.
  intros x l. unfold zmem. rewrite existsb_exists. split.
  - intros [y [Hy E]]. apply Z.eqb_eq in E. subst. exact Hy.
  - intros H. exists x. split; [exact H|apply Z.eqb_refl].
Qed.

Lemma nodupb_NoDup : forall l, nodupb l = true <-> NoDup l.
Proof.
  induction l as [|x r IH]; simpl.
  - split; [constructor|reflexivity].
  - rewrite andb_true_iff, negb_true_iff, IH. split.
    + intros [H1 H2]. constructor; [|exact H2]. intros Hin. apply zmem_In in Hin. congruence.
    + intros H. inversion H. subst. split; [|assumption].
      destruct (zmem x r) eqn:E; [|reflexivity]. apply zmem_In in E. contradiction.
Qed.

Lemma entry_eqb_refl : forall e, entry_eqb e e = true.
Proof. destruct e; simpl; try rewrite Z.eqb_refl; try rewrite Bool.eqb_reflx; reflexivity. Qed.
Lemma oentry_eqb_refl : forall o, oentry_eqb o o = true.
Proof. destruct o; simpl; [apply entry_eqb_refl|reflexivity]. Qed.

Lemma mget_mremove_other : forall n k m, k <> n -> mget k (mremove n m) = mget k m.
Proof.
  induction m as [|[k0 e] r IH]; intros Hne; simpl.
  - reflexivity.
  - destruct (k0 =? n) eqn:E; simpl.
    + apply Z.eqb_eq in E. subst. destruct (n =? k) eqn:E2.
      * apply Z.eqb_eq in E2. congruence.
      * apply IH. exact Hne.
    + destruct (k0 =? k); [reflexivity|apply IH; exact Hne].
Qed.

Lemma mget_app_other : forall k m n o, k <> n -> mget k (m ++ tail_of n o) = mget k m.
Proof.
  induction m as [|[k0 e] r IH]; intros n o Hne; simpl.
  - destruct o; simpl; [|reflexivity]. destruct (n =? k) eqn:E; [|reflexivity].
    apply Z.eqb_eq in E. congruence.
  - destruct (k0 =? k); [reflexivity|apply IH; exact Hne].
Qed.

Lemma step_mget_other : forall b m m' tr k, run_module b m = Ok (m', tr) -> k <> mb_name b ->
  mget k m' = mget k m.
Proof.
  intros b m m' tr k H Hne. rewrite (run_module_shape _ _ _ _ H).
  rewrite mget_app_other by exact Hne. apply mget_mremove_other. exact Hne.
Qed.

Lemma step_mget_same : forall b m m' tr, run_module b m = Ok (m', tr) ->
  mget (mb_name b) m' = final_entry b m.
Proof.
  intros b m m' tr H. rewrite (run_module_shape _ _ _ _ H).
  pose proof (mremove_absent (mb_name b) m) as Habs.
  destruct (final_entry b m) as [e|]; simpl.
  - apply mget_app_absent. exact Habs.
  - rewrite app_nil_r. apply mget_absent. exact Habs.
Qed.

Lemma seq_mget_other : forall bs m m' tr k, analyse_record bs m = Ok (m', tr) ->
  ~ In k (names_of bs) -> mget k m' = mget k m.
Proof.
  unfold analyse_record. induction bs as [|b r IH]; intros m m' tr k H Hn; simpl in H.
  - inversion H. reflexivity.
  - destruct (run_module b m) as [[m1 t1]|k0] eqn:E; [|discriminate].
    destruct (run_modules run_module r m1) as [[m2 t2]|k0] eqn:E2; [|discriminate].
    inversion H. subst. clear H. simpl in Hn.
    rewrite (IH _ _ _ _ E2) by tauto.
    apply (step_mget_other _ _ _ _ _ E). intros Hx. apply Hn. left. symmetry. exact Hx.
Qed.

Lemma final_entry_ext : forall b m1 m2, mget (mb_name b) m1 = mget (mb_name b) m2 ->
  final_entry b m1 = final_entry b m2.
Proof. intros b m1 m2 H. unfold final_entry. rewrite H. reflexivity. Qed.

Lemma seq_mget_visited : forall bs m m' tr, analyse_record bs m = Ok (m', tr) -> NoDup (names_of bs) ->
  forall b, In b bs -> mget (mb_name b) m' = final_entry b m.
Proof.
  unfold analyse_record. induction bs as [|b0 r IH]; intros m m' tr H Hnd b Hb; simpl in H.
  - destruct Hb.
  - destruct (run_module b0 m) as [[m1 t1]|k0] eqn:E; [|discriminate].
    destruct (run_modules run_module r m1) as [[m2 t2]|k0] eqn:E2; [|discriminate].
    inversion H. subst. clear H. simpl in Hnd. inversion Hnd as [|x l Hnot Hnd']. subst.
    destruct Hb as [->|Hb].
    + rewrite (seq_mget_other _ _ _ _ _ E2 Hnot). exact (step_mget_same _ _ _ _ E).
    + rewrite (IH _ _ _ E2 Hnd' _ Hb). apply final_entry_ext.
      apply (step_mget_other _ _ _ _ _ E). intros Hx. apply Hnot. rewrite <- Hx.
      unfold names_of. apply in_map. exact Hb.
Qed.

Lemma final_is_expected : forall b m, beh_contract b = true -> beh_no_raise b = true ->
  final_entry b m = expected_entry b m.
Proof.
  intros b m Hc Hr. unfold beh_contract in Hc. unfold beh_no_raise in Hr.
  unfold final_entry, expected_entry, had_raw.
  destruct (ran b); destruct (mb_run b) as [u s|u s| |k];
    destruct (mget (mb_name b) m) as [[? ?|? ?|? ?|]|]; try destruct (mb_regen b) as [|? [|]|? [|]|?];
    simpl in *; try discriminate; reflexivity.
Qed.

Lemma seq_keys : forall bs m m' tr k e, analyse_record bs m = Ok (m', tr) -> In (k, e) m' ->
  In k (names_of bs) \/ In (k, e) m.
Proof.
  unfold analyse_record. induction bs as [|b r IH]; intros m m' tr k e H Hin; simpl in H.
  - inversion H. subst. right. exact Hin.
  - destruct (run_module b m) as [[m1 t1]|k0] eqn:E; [|discriminate].
    destruct (run_modules run_module r m1) as [[m2 t2]|k0] eqn:E2; [|discriminate].
    inversion H. subst. clear H.
    destruct (IH _ _ _ _ _ E2 Hin) as [Hk|Hin1].
    + left. right. exact Hk.
    + apply (step_In _ _ _ _ _ _ E) in Hin1. destruct Hin1 as [[_ Hm]|[Hk _]].
      * right. exact Hm.
      * left. left. symmetry. exact Hk.
Qed.

Lemma NoDup_keys_filter : forall n (m : mmap), NoDup (keys_of m) -> NoDup (keys_of (mremove n m)).
Proof.
  unfold keys_of, mremove. induction m as [|[k e] r IH]; intros H; simpl.
  - constructor.
  - inversion H as [|x l Hnot Hnd]. subst. destruct (negb (k =? n)); simpl.
    + constructor; [|apply IH; exact Hnd].
      intros Hin. apply Hnot. apply in_map_iff in Hin. destruct Hin as [p [Hp Hin]].
      apply filter_In in Hin. apply in_map_iff. exists p. tauto.
    + apply IH. exact Hnd.
Qed.

Lemma NoDup_app_one : forall (l : list Z) x, NoDup l -> ~ In x l -> NoDup (l ++ [x]).
Proof.
  induction l as [|y r IH]; intros x H Hn; simpl.
  - constructor; [intros []|constructor].
  - inversion H as [|z l Hnot Hnd]. subst. constructor.
    + rewrite in_app_iff. simpl. intros [Hi|[Hi|[]]]; [exact (Hnot Hi)|]. apply Hn. left. symmetry. exact Hi.
    + apply IH; [exact Hnd|]. intros Hi. apply Hn. right. exact Hi.
Qed.

Lemma step_NoDup : forall b m m' tr, run_module b m = Ok (m', tr) -> NoDup (keys_of m) -> NoDup (keys_of m').
Proof.
  intros b m m' tr H Hnd. rewrite (run_module_shape _ _ _ _ H).
  pose proof (NoDup_keys_filter (mb_name b) m Hnd) as H1.
  destruct (final_entry b m) as [e|]; simpl; [|rewrite app_nil_r; exact H1].
  unfold keys_of in *. rewrite map_app. simpl.
  apply NoDup_app_one; [exact H1|].
  intros Hin. apply in_map_iff in Hin. destruct Hin as [p [Hp Hin]].
  apply mremove_absent in Hin. congruence.
Qed.

Lemma seq_NoDup : forall bs m m' tr, analyse_record bs m = Ok (m', tr) -> NoDup (keys_of m) -> NoDup (keys_of m').
Proof.
  unfold analyse_record. induction bs as [|b r IH]; intros m m' tr H Hnd; simpl in H.
  - inversion H. subst. exact Hnd.
  - destruct (run_module b m) as [[m1 t1]|k0] eqn:E; [|discriminate].
    destruct (run_modules run_module r m1) as [[m2 t2]|k0] eqn:E2; [|discriminate].
    inversion H. subst. clear H.
    apply (IH _ _ _ E2). exact (step_NoDup _ _ _ _ E Hnd).
Qed.

Lemma detection_is_analysis : forall bs m m' tr, run_detection bs m = Ok (m', tr) ->
  exists tr', analyse_record bs m = Ok (m', tr').
Proof.
  unfold analyse_record, run_detection. induction bs as [|b r IH]; intros m m' tr H; simpl in *.
  - inversion H. subst. eauto.
  - destruct (detection_step b m) as [[m1 t1]|k0] eqn:E; [|discriminate].
    destruct (run_modules detection_step r m1) as [[m2 t2]|k0] eqn:E2; [|discriminate].
    inversion H. subst. clear H.
    destruct (good_detection_step _ _ _ _ E) as [t1' R]. rewrite R.
    destruct (IH _ _ _ E2) as [t2' R2]. rewrite R2. eauto.
Qed.

Lemma analysis_meets_spec : forall bs m m' tr, guard bs m = true -> analyse_record bs m = Ok (m', tr) ->
  spec_final bs m m' (dump_ok m') = true.
Proof.
  intros bs m m' tr G H. unfold guard, applicable in G.
  repeat rewrite andb_true_iff in G. destruct G as [[[[Hraw Hndk] Hndn] Hc] Hr].
  apply nodupb_NoDup in Hndk. apply nodupb_NoDup in Hndn.
  unfold spec_final. repeat rewrite andb_true_iff. repeat split.
  - apply forallb_forall. intros b Hb.
    rewrite (seq_mget_visited _ _ _ _ H Hndn _ Hb).
    rewrite final_is_expected.
    + apply oentry_eqb_refl.
    + exact (proj1 (forallb_forall _ _) Hc _ Hb).
    + exact (proj1 (forallb_forall _ _) Hr _ Hb).
  - apply forallb_forall. intros k Hk.
    destruct (zmem k (names_of bs)) eqn:E; [reflexivity|]. simpl.
    rewrite (seq_mget_other _ _ _ _ _ H); [apply oentry_eqb_refl|].
    intros Hin. apply zmem_In in Hin. congruence.
  - apply forallb_forall. intros k Hk. unfold keys_of in Hk. apply in_map_iff in Hk.
    destruct Hk as [[k0 e] [Hk0 Hin]]. simpl in Hk0. subst.
    destruct (seq_keys _ _ _ _ _ _ H Hin) as [Hn|Hm].
    + apply zmem_In in Hn. rewrite Hn. reflexivity.
    + apply orb_true_iff. right. apply zmem_In. unfold keys_of. apply in_map_iff. exists (k, e). split; [reflexivity|exact Hm].
  - apply nodupb_NoDup. exact (seq_NoDup _ _ _ _ H Hndk).
  - destruct (forallb (fun k => zmem k (names_of bs)) (keys_of m)) eqn:E; simpl; [|reflexivity].
    apply (seq_dump_ok run_module good_run_module _ _ _ _ H Hc).
    intros k Hk. apply zmem_In. exact (proj1 (forallb_forall _ _) E _ Hk).
Qed.

(* both settings: whatever the pipeline returns under the guard satisfies the specification *)
Lemma pipeline_meets_spec : forall mode bs m m' tr, guard bs m = true -> pipeline mode bs m = Ok (m', tr) ->
  spec_final bs m m' (dump_ok m') = true.
Proof.
  intros mode bs m m' tr G H. unfold pipeline in H. destruct (mode =? 0).
  - exact (analysis_meets_spec _ _ _ _ G H).
  - destruct (detection_is_analysis _ _ _ _ H) as [tr' H']. exact (analysis_meets_spec _ _ _ _ G H').
Qed.

(* totality under the guard's hypotheses: the run does not die *)
Definition raw_or_absent (o : option mentry) : Prop := o = None \/ exists i t, o = Some (MRaw i t).

Lemma step_total : forall b m, beh_contract b = true -> beh_no_raise b = true ->
  raw_or_absent (mget (mb_name b) m) -> exists m' tr, run_module b m = Ok (m', tr).
Proof.
  intros b m Hc Hr Hm. unfold beh_contract in Hc. unfold beh_no_raise in Hr.
  unfold run_module, regen_phase.
  destruct Hm as [->|[i [t ->]]];
    destruct (mb_regen b) as [|? [|]|? [|]|?]; destruct (mb_in_all b); destruct (mb_enabled b);
    destruct (mb_run b) as [u s|u s| |kk]; simpl in *; try discriminate; eauto.
Qed.

Lemma raw_or_absentb_sound : forall o, raw_or_absentb o = true -> raw_or_absent o.
Proof.
  intros [[i t|i t|i t|]|] H; try discriminate.
  - right. eauto.
  - left. reflexivity.
Qed.

Lemma seq_total : forall bs m, NoDup (names_of bs) -> forallb beh_contract bs = true ->
  forallb beh_no_raise bs = true -> (forall b, In b bs -> raw_or_absent (mget (mb_name b) m)) ->
  exists m' tr, analyse_record bs m = Ok (m', tr).
Proof.
  unfold analyse_record. induction bs as [|b r IH]; intros m Hnd Hc Hr Hm; simpl in *.
  - eauto.
  - apply andb_true_iff in Hc. destruct Hc as [Hc0 Hcr]. apply andb_true_iff in Hr. destruct Hr as [Hr0 Hrr].
    inversion Hnd as [|x l Hnot Hnd']. subst.
    destruct (step_total b m Hc0 Hr0 (Hm b (or_introl eq_refl))) as [m1 [t1 E]]. rewrite E.
    destruct (IH m1 Hnd' Hcr Hrr) as [m2 [t2 E2]].
    + intros b' Hb'. rewrite (step_mget_other _ _ _ _ _ E).
      * apply Hm. right. exact Hb'.
      * intros Hx. apply Hnot. rewrite <- Hx. unfold names_of. apply in_map. exact Hb'.
    + rewrite E2. eauto.
Qed.

Lemma pipeline_total : forall mode bs m, guard bs m = true -> exists m' tr, pipeline mode bs m = Ok (m', tr).
Proof.
  intros mode bs m G. unfold guard, applicable in G.
  repeat rewrite andb_true_iff in G. destruct G as [[[[Hraw Hndk] Hndn] Hc] Hr].
  apply nodupb_NoDup in Hndn.
  destruct (seq_total bs m Hndn Hc Hr) as [m' [tr H]].
  - intros b Hb. apply raw_or_absentb_sound. exact (proj1 (forallb_forall _ _) Hraw _ Hb).
  - unfold pipeline. destruct (mode =? 0); [eauto|].
    destruct (detection_as_analysis _ _ _ _ Hc H) as [tr' H']. eauto.
Qed.
