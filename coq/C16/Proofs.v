(* C16 - lemmas and proofs about the model of the identifier pipeline. *)
From ASV Require Import Base.
From ASV.Gen Require Tables_gen.
From ASV.C16 Require Import Model.
From Coq Require Import Lia ZifyBool Permutation.

(* ---------- strings and sets ---------- *)
Lemma str_eqb_eq : forall a b : str, str_eqb a b = true <-> a = b.
Proof.
  unfold str_eqb. induction a as [|x xs IH]; intros [|y ys]; cbn [list_eqb]; split; intro H;
    try reflexivity; try discriminate.
  - apply andb_true_iff in H. destruct H as [Hx Hr]. apply Z.eqb_eq in Hx. apply IH in Hr. now subst.
  - injection H as Hx Hr. subst. apply andb_true_iff. split; [apply Z.eqb_refl | now apply IH].
Qed.

Lemma str_eqb_neq : forall a b : str, str_eqb a b = false <-> a <> b.
Proof.
  intros a b. split.
  - intros H E. apply str_eqb_eq in E. congruence.
  - intro H. destruct (str_eqb a b) eqn:E; [apply str_eqb_eq in E; contradiction | reflexivity].
Qed.

Lemma smem_In : forall s set, smem s set = true <-> In s set.
Proof.
  intros s set. unfold smem. rewrite existsb_exists. split.
  - intros [x [Hin He]]. apply str_eqb_eq in He. now subst.
  - intro H. exists s. split; [assumption | now apply str_eqb_eq].
Qed.

Lemma smem_false : forall s set, smem s set = false <-> ~ In s set.
Proof.
  intros s set. split.
  - intros H Hin. apply smem_In in Hin. congruence.
  - intro H. destruct (smem s set) eqn:E; [apply smem_In in E; contradiction | reflexivity].
Qed.

Lemma sadd_In : forall x s set, In x (sadd s set) <-> x = s \/ In x set.
Proof.
  intros x s set. unfold sadd. destruct (smem s set) eqn:E.
  - apply smem_In in E. split; [now right | intros [->|H]; assumption].
  - cbn [In]. split; intros [H|H]; auto.
Qed.

Lemma sadd_incl : forall s set, incl set (sadd s set).
Proof. intros s set x H. apply sadd_In. now right. Qed.

Lemma sadd_self : forall s set, In s (sadd s set).
Proof. intros s set. apply sadd_In. now left. Qed.

Lemma zmem_In : forall x l, zmem x l = true <-> In x l.
Proof.
  intros x l. unfold zmem. rewrite existsb_exists. split.
  - intros [y [Hin He]]. apply Z.eqb_eq in He. now subst.
  - intro H. exists x. split; [assumption | apply Z.eqb_refl].
Qed.

Lemma zmem_false : forall x l, zmem x l = false <-> ~ In x l.
Proof.
  intros x l. split.
  - intros H Hin. apply zmem_In in Hin. congruence.
  - intro H. destruct (zmem x l) eqn:E; [apply zmem_In in E; contradiction | reflexivity].
Qed.

(* set_of: same elements, no more of them than the list has; as many only if the list has no duplicates *)
Lemma set_of_In : forall l x, In x (set_of l) <-> In x l.
Proof.
  induction l as [|a l IH]; intro x; cbn [set_of fold_right In]; [tauto|].
  fold (set_of l). rewrite sadd_In, IH. split; intros [H|H]; auto.
Qed.

Lemma set_of_length : forall l, (length (set_of l) <= length l)%nat.
Proof.
  induction l as [|a l IH]; cbn [set_of fold_right length]; [lia|].
  fold (set_of l). unfold sadd. destruct (smem a (set_of l)); cbn [length]; lia.
Qed.

Lemma set_of_full_NoDup : forall l, length (set_of l) = length l -> NoDup l.
Proof.
  induction l as [|a l IH]; intro H; [constructor|].
  cbn [set_of fold_right length] in H. fold (set_of l) in H. unfold sadd in H.
  pose proof (set_of_length l) as Hle.
  destruct (smem a (set_of l)) eqn:E.
  - lia.
  - cbn [length] in H. constructor.
    + apply smem_false in E. intro Hin. apply E. now apply set_of_In.
    + apply IH. lia.
Qed.

Lemma set_of_NoDup : forall l, NoDup (set_of l).
Proof.
  induction l as [|a l IH]; cbn [set_of fold_right]; [constructor|].
  fold (set_of l). unfold sadd. destruct (smem a (set_of l)) eqn:E; [assumption|].
  constructor; [now apply smem_false in E | assumption].
Qed.

(* ---------- characters: what the generated table must satisfy (re-checked when the source changes) ---------- *)
Definition clean (s : str) : Prop := Forall (fun c => is_illegal c = false) s.

Lemma table_digits_legal :
  forallb (fun c => negb (is_illegal c)) [48; 49; 50; 51; 52; 53; 54; 55; 56; 57; 95; 45; 99; 46] = true.
Proof. vm_compute. reflexivity. Qed.

Lemma table_covers_unsafe : forallb is_illegal spec_unsafe = true.
Proof. vm_compute. reflexivity. Qed.

Lemma table_covers_gene_unsafe : forallb is_gene_illegal spec_gene_unsafe = true.
Proof. vm_compute. reflexivity. Qed.

Lemma table_underscore_not_gene_illegal : is_gene_illegal 95 = false.
Proof. vm_compute. reflexivity. Qed.

Lemma legal_of_list : forall c,
  In c [48; 49; 50; 51; 52; 53; 54; 55; 56; 57; 95; 45; 99; 46] -> is_illegal c = false.
Proof.
  intros c H. pose proof table_digits_legal as T. rewrite forallb_forall in T.
  specialize (T c H). now apply negb_true_iff in T.
Qed.

Lemma digit_legal : forall c, 48 <= c <= 57 -> is_illegal c = false.
Proof.
  intros c H. apply legal_of_list.
  assert (E : c = 48 \/ c = 49 \/ c = 50 \/ c = 51 \/ c = 52 \/ c = 53 \/ c = 54 \/ c = 55 \/ c = 56 \/ c = 57) by lia.
  cbn [In]. repeat (destruct E as [E|E]; [subst; tauto|]). subst; tauto.
Qed.

Lemma clean_app : forall a b, clean a -> clean b -> clean (a ++ b).
Proof. intros a b Ha Hb. apply Forall_app. now split. Qed.

Lemma clean_strip : forall s, clean (strip s).
Proof.
  intro s. apply Forall_forall. intros c H. unfold strip in H. apply filter_In in H.
  destruct H as [_ H]. now apply negb_true_iff in H.
Qed.

Lemma In_firstn : forall (n : nat) (s : str) c, In c (firstn n s) -> In c s.
Proof.
  induction n as [|n IH]; intros s c H; [contradiction|].
  destruct s as [|x s]; [contradiction|]. cbn [firstn In] in *. destruct H as [H|H]; [now left | right; now apply IH].
Qed.

Lemma clean_firstn : forall n s, clean s -> clean (firstn n s).
Proof.
  intros n s H. apply Forall_forall. intros c Hc. unfold clean in H. rewrite Forall_forall in H.
  apply H. eapply In_firstn. eassumption.
Qed.

Lemma strip_clean_id : forall s, clean s -> strip s = s.
Proof.
  induction s as [|c s IH]; intro H; [reflexivity|].
  inversion H as [|? ? Hc Hs]; subst. unfold strip. cbn [filter]. rewrite Hc. cbn [negb].
  f_equal. now apply IH.
Qed.

(* ---------- decimal rendering ---------- *)
Lemma dig_chars : forall fuel n, 0 <= n -> Forall (fun c => 48 <= c <= 57) (dig fuel n).
Proof.
  induction fuel as [|f IH]; intros n Hn; cbn [dig]; [constructor|].
  destruct (n <? 10) eqn:E.
  - constructor; [lia | constructor].
  - apply Forall_app. split.
    + apply IH. apply Z.div_pos; lia.
    + constructor; [|constructor]. pose proof (Z.mod_pos_bound n 10). lia.
Qed.

Lemma clean_of_digit_chars : forall s, Forall (fun c => 48 <= c <= 57) s -> clean s.
Proof.
  intros s H. unfold clean. eapply Forall_impl; [|exact H]. intros c Hc. now apply digit_legal.
Qed.

Lemma clean_str_of_int : forall n, clean (str_of_int n).
Proof.
  intro n. unfold str_of_int, digits. destruct (n <? 0) eqn:E.
  - constructor.
    + apply legal_of_list. cbn [In]. tauto.
    + apply clean_of_digit_chars. apply dig_chars. lia.
  - apply clean_of_digit_chars. apply dig_chars. lia.
Qed.

Lemma dig_length : forall fuel k n, 0 <= n < 10 ^ Z.of_nat (S k) -> (length (dig fuel n) <= S k)%nat.
Proof.
  induction fuel as [|f IH]; intros k n Hn; cbn [dig]; [cbn [length]; lia|].
  destruct (n <? 10) eqn:E; [cbn [length]; lia|].
  rewrite app_length. cbn [length].
  destruct k as [|k].
  - change (10 ^ Z.of_nat 1) with 10 in Hn. lia.
  - assert (Hd : 0 <= n / 10 < 10 ^ Z.of_nat (S k)).
    { rewrite (Nat2Z.inj_succ (S k)) in Hn. rewrite Z.pow_succ_r in Hn by lia.
      split; [apply Z.div_pos; lia | apply Z.div_lt_upper_bound; lia]. }
    specialize (IH k (n / 10) Hd). lia.
Qed.

Lemma pad5_length : forall n, 0 <= n < 100000 -> length (pad5 n) = 5%nat.
Proof.
  intros n Hn. unfold pad5, digits.
  assert (H : (length (dig (S (Z.to_nat (Z.log2 n))) n) <= 5)%nat).
  { apply dig_length. change (10 ^ Z.of_nat 5) with 100000. exact Hn. }
  rewrite app_length, repeat_length. lia.
Qed.

Lemma clean_pad5 : forall n, 0 <= n -> clean (pad5 n).
Proof.
  intros n Hn. unfold pad5. apply clean_app.
  - apply Forall_forall. intros c Hc. apply repeat_spec in Hc. subst. apply digit_legal. lia.
  - apply clean_of_digit_chars. apply dig_chars. exact Hn.
Qed.

Lemma zlen_nat : forall (A : Type) (l : list A), zlen l = Z.of_nat (length l).
Proof. reflexivity. Qed.

(* since the repair of F26 for every contig number, whatever its size (and whatever pad5 makes of it) *)
Lemma shorten_length : forall cn idx s, zlen (shorten cn idx s) <= 16.
Proof.
  intros cn idx s. unfold shorten. cbv zeta.
  destruct (12 <? zlen (pad5 (cn idx s))) eqn:B; unfold zlen in *; repeat rewrite app_length;
    rewrite firstn_length; cbn [length].
  - pose proof (Nat.le_min_l 14 (length s)). lia.
  - apply Z.ltb_ge in B. pose proof (Nat.le_min_l (12 - length (pad5 (cn idx s))) (length s)). lia.
Qed.

(* the documented shape c<5 digits>_<7 characters>.. is kept for the numbers that fit into five digits *)
Lemma shorten_ordinary : forall cn idx s, 0 <= cn idx s < 100000 ->
  shorten cn idx s = [99] ++ pad5 (cn idx s) ++ [95] ++ firstn 7 s ++ [46; 46].
Proof.
  intros cn idx s H. unfold shorten. cbv zeta. unfold zlen. rewrite (pad5_length _ H). reflexivity.
Qed.

(* a larger number is kept in full as long as 16 characters have room for it (up to 12 digits) *)
Lemma shorten_keeps_number : forall cn idx s, zlen (pad5 (cn idx s)) <= 12 ->
  exists k, shorten cn idx s = [99] ++ pad5 (cn idx s) ++ [95] ++ firstn k s ++ [46; 46].
Proof.
  intros cn idx s H. unfold shorten. cbv zeta. apply Z.ltb_ge in H. rewrite H. eexists. reflexivity.
Qed.

Lemma filter_len_le : forall (f : Z -> bool) (s : str), (length (filter f s) <= length s)%nat.
Proof.
  intros f. induction s as [|c s IH]; cbn [filter length]; [lia|]. destruct (f c); cbn [length]; lia.
Qed.

Lemma strip_length : forall s, zlen (strip s) <= zlen s.
Proof.
  intro s. unfold zlen, strip. pose proof (filter_len_le (fun c => negb (is_illegal c)) s). lia.
Qed.

(* ---------- generate_unique_id ---------- *)
Lemma gen_loop_spec : forall fuel prefix set c name c',
  gen_loop fuel prefix set c = Ok (name, c') ->
  ~ In name set /\ name = prefix ++ [95] ++ str_of_int c' /\ c <= c'.
Proof.
  induction fuel as [|f IH]; intros prefix set c name c' H; cbn [gen_loop] in H.
  - destruct (smem (prefix ++ [95] ++ str_of_int c) set) eqn:E; [discriminate|].
    injection H as Hn Hc. subst. split; [now apply smem_false in E | split; [reflexivity | lia]].
  - destruct (smem (prefix ++ [95] ++ str_of_int c) set) eqn:E.
    + apply IH in H. destruct H as [H1 [H2 H3]]. split; [assumption | split; [assumption | lia]].
    + injection H as Hn Hc. subst. split; [now apply smem_false in E | split; [reflexivity | lia]].
Qed.

Lemma generate_unique_id_spec : forall prefix set start maxlen name c,
  generate_unique_id prefix set start maxlen = Ok (name, c) ->
  ~ In name set /\ name = prefix ++ [95] ++ str_of_int c /\ start <= c /\
  (0 < maxlen -> zlen name <= maxlen).
Proof.
  intros prefix set start maxlen name c H. unfold generate_unique_id in H.
  destruct (gen_loop (length set) prefix set start) as [[n c0]|k] eqn:E; cbn [bind] in H; [|discriminate].
  destruct ((0 <? maxlen) && (maxlen <? zlen n)) eqn:B; [discriminate|].
  injection H as Hn Hc. subst. apply gen_loop_spec in E. destruct E as [E1 [E2 E3]].
  repeat split; try assumption. intro Hpos. lia.
Qed.

Lemma gen_name_spec : forall prefix set maxlen name,
  gen_name prefix set maxlen = Ok name ->
  ~ In name set /\ (exists c, name = prefix ++ [95] ++ str_of_int c) /\ (0 < maxlen -> zlen name <= maxlen).
Proof.
  intros prefix set maxlen name H. unfold gen_name in H.
  destruct (generate_unique_id prefix set 0 maxlen) as [[n c]|k] eqn:E; cbn [bind] in H; [|discriminate].
  injection H as Hn. subst. apply generate_unique_id_spec in E. destruct E as [E1 [E2 [E3 E4]]].
  split; [assumption | split; [now exists c | assumption]].
Qed.

Lemma gen_name_clean : forall prefix set maxlen name,
  clean prefix -> gen_name prefix set maxlen = Ok name -> clean name.
Proof.
  intros prefix set maxlen name Hp H. apply gen_name_spec in H. destruct H as [_ [[c Hc] _]]. subst.
  apply clean_app; [assumption|]. apply clean_app; [|apply clean_str_of_int].
  constructor; [|constructor]. apply legal_of_list. cbn [In]. tauto.
Qed.

(* ---------- the two id steps of fix_record_name_id ---------- *)
Lemma fix_long_id_spec : forall cn allow idx old set id1 set1,
  fix_long_id cn allow idx old set = Ok (id1, set1) ->
  (id1 = old /\ set1 = set \/ ~ In id1 set /\ set1 = sadd id1 set).
Proof.
  intros cn allow idx old set id1 set1 H. unfold fix_long_id in H.
  destruct ((16 <? zlen old) && negb allow) eqn:B.
  - destruct (second_last_is 46 old && (count_char 46 old =? 1) && (zlen (before_char 46 old) <=? 16)
              && negb (smem (before_char 46 old) set)) eqn:C.
    + injection H as H1 H2. subst. right. split; [|reflexivity].
      apply andb_true_iff in C. destruct C as [_ C]. apply negb_true_iff in C. now apply smem_false in C.
    + destruct (negb (smem (shorten cn idx old) set)) eqn:D; cbn [bind] in H.
      * injection H as H1 H2. subst. right. split; [|reflexivity].
        apply negb_true_iff in D. now apply smem_false in D.
      * destruct (gen_name (firstn 12 old) set 16) as [n|k] eqn:G; cbn [bind] in H; [|discriminate].
        injection H as H1 H2. subst. right. split; [|reflexivity].
        apply gen_name_spec in G. tauto.
  - injection H as H1 H2. subst. now left.
Qed.

Lemma fix_long_id_length : forall cn idx old set id1 set1,
  fix_long_id cn false idx old set = Ok (id1, set1) -> zlen id1 <= 16.
Proof.
  intros cn idx old set id1 set1 H. unfold fix_long_id in H.
  destruct ((16 <? zlen old) && negb false) eqn:B.
  - destruct (second_last_is 46 old && (count_char 46 old =? 1) && (zlen (before_char 46 old) <=? 16)
              && negb (smem (before_char 46 old) set)) eqn:C.
    + injection H as H1 H2. subst. lia.
    + destruct (negb (smem (shorten cn idx old) set)) eqn:D; cbn [bind] in H.
      * injection H as H1 H2. subst. apply shorten_length.
      * destruct (gen_name (firstn 12 old) set 16) as [n|k] eqn:G; cbn [bind] in H; [|discriminate].
        injection H as H1 H2. subst. apply gen_name_spec in G. destruct G as [_ [_ G]]. apply G. lia.
  - injection H as H1 H2. subst. cbn [negb] in B. lia.
Qed.

Lemma fix_strip_id_spec : forall allow id1 set1 id2 set2,
  fix_strip_id allow id1 set1 = Ok (id2, set2) ->
  clean id2 /\
  (id2 = id1 /\ set2 = set1 \/ ~ In id2 set1 /\ set2 = sadd id2 set1) /\
  (allow = false -> zlen id1 <= 16 -> zlen id2 <= 16).
Proof.
  intros allow id1 set1 id2 set2 H. unfold fix_strip_id in H.
  destruct (negb (str_eqb (strip id1) id1)) eqn:B.
  - destruct (smem (strip id1) set1) eqn:M.
    + destruct (gen_name (if allow then strip id1 else firstn 12 (strip id1)) set1 (if allow then -1 else 16))
        as [n|k] eqn:G; cbn [bind] in H; [|discriminate].
      injection H as H1 H2. subst. split; [|split].
      * eapply gen_name_clean; [|exact G]. destruct allow; [apply clean_strip | apply clean_firstn, clean_strip].
      * right. split; [|reflexivity]. apply gen_name_spec in G. tauto.
      * intros Ha _. subst. apply gen_name_spec in G. destruct G as [_ [_ G]]. apply G. lia.
    + cbn [bind] in H. injection H as H1 H2. subst. split; [|split].
      * apply clean_strip.
      * right. split; [|reflexivity]. now apply smem_false in M.
      * intros _ Hl. pose proof (strip_length id1). lia.
  - injection H as H1 H2. subst. apply negb_false_iff in B. apply str_eqb_eq in B. split; [|split].
    + apply clean_strip.
    + left. split; [assumption | reflexivity].
    + intros _ Hl. rewrite B. assumption.
Qed.

Lemma fix_name_clean : forall cn allow idx name, clean (fix_name cn allow idx name).
Proof. intros. unfold fix_name. apply clean_strip. Qed.

Lemma fix_name_length : forall cn idx name, zlen (fix_name cn false idx name) <= 16.
Proof.
  intros cn idx name. unfold fix_name.
  destruct ((16 <? zlen name) && negb false) eqn:B.
  - pose proof (strip_length (shorten cn idx name)). pose proof (shorten_length cn idx name). lia.
  - pose proof (strip_length name). cbn [negb] in B. lia.
Qed.

(* everything the later proofs need to know about one call of fix_record_name_id *)
Lemma fix_record_spec : forall cn allow r set r' set',
  fix_record_name_id cn allow r set = Ok (r', set') ->
  clean (r_id r') /\ clean (r_name r') /\
  (In (r_id r) set -> (r_id r' = r_id r \/ ~ In (r_id r') set) /\ incl set set' /\ In (r_id r') set') /\
  r_orig r' = fix_orig (r_orig r) (r_id r) (r_id r') /\
  r_idx r' = r_idx r /\
  (allow = false -> zlen (r_id r') <= 16 /\ zlen (r_name r') <= 16).
Proof.
  intros cn allow r set r' set' H. unfold fix_record_name_id in H.
  destruct (fix_long_id cn allow (r_idx r) (r_id r) set) as [[id1 set1]|k] eqn:L; cbn [bind] in H; [|discriminate].
  destruct (fix_strip_id allow id1 set1) as [[id2 set2]|k] eqn:S; cbn [bind] in H; [|discriminate].
  injection H as Hr Hs. subst r' set'. cbn [r_id r_name r_orig r_idx].
  pose proof (fix_long_id_spec _ _ _ _ _ _ _ L) as HL.
  pose proof (fix_strip_id_spec _ _ _ _ _ S) as [HS1 [HS2 HS3]].
  split; [assumption|]. split; [apply fix_name_clean|]. split; [|split; [reflexivity|split; [reflexivity|]]].
  - intro Hin.
    assert (A : (id1 = r_id r \/ ~ In id1 set) /\ incl set set1 /\ In id1 set1).
    { destruct HL as [[E1 E2]|[E1 E2]]; subst.
      - split; [now left | split; [apply incl_refl | assumption]].
      - split; [now right | split; [apply sadd_incl | apply sadd_self]]. }
    destruct A as [A1 [A2 A3]].
    destruct HS2 as [[E1 E2]|[E1 E2]]; subst.
    + split; [assumption | split; assumption].
    + split; [|split].
      * right. intro Hc. apply E1. now apply A2.
      * intros x Hx. apply sadd_In. right. now apply A2.
      * apply sadd_self.
  - intros Ha. subst allow. split.
    + apply HS3; [reflexivity|]. eapply fix_long_id_length; eassumption.
    + apply fix_name_length.
Qed.

(* ---------- fix_all ---------- *)
Definition ids (l : list rec) : list str := map r_id l.

Lemma fix_all_length : forall cn allow recs set outs,
  fix_all cn allow recs set = Ok outs -> length outs = length recs.
Proof.
  intros cn allow. induction recs as [|r rest IH]; intros set outs H; cbn [fix_all] in H.
  - injection H as H. now subst.
  - destruct (fix_record_name_id cn allow r set) as [[r' set']|k] eqn:F; cbn [bind] in H; [|discriminate].
    destruct (fix_all cn allow rest set') as [rs|k] eqn:A; cbn [bind] in H; [|discriminate].
    injection H as H. subst. cbn [length]. f_equal. eapply IH. eassumption.
Qed.

Lemma fix_all_clean : forall cn allow recs set outs,
  fix_all cn allow recs set = Ok outs -> Forall (fun o => clean (r_id o) /\ clean (r_name o)) outs.
Proof.
  intros cn allow. induction recs as [|r rest IH]; intros set outs H; cbn [fix_all] in H.
  - injection H as H. subst. constructor.
  - destruct (fix_record_name_id cn allow r set) as [[r' set']|k] eqn:F; cbn [bind] in H; [|discriminate].
    destruct (fix_all cn allow rest set') as [rs|k] eqn:A; cbn [bind] in H; [|discriminate].
    injection H as H. subst. constructor.
    + apply fix_record_spec in F. tauto.
    + eapply IH. eassumption.
Qed.

Lemma fix_all_short : forall cn recs set outs,
  fix_all cn false recs set = Ok outs -> Forall (fun o => zlen (r_id o) <= 16 /\ zlen (r_name o) <= 16) outs.
Proof.
  intros cn recs set outs. revert set outs.
  induction recs as [|r rest IH]; intros set outs H; cbn [fix_all] in H.
  - injection H as H. subst. constructor.
  - destruct (fix_record_name_id cn false r set) as [[r' set']|k] eqn:F; cbn [bind] in H; [|discriminate].
    destruct (fix_all cn false rest set') as [rs|k] eqn:A; cbn [bind] in H; [|discriminate].
    injection H as H. subst. constructor.
    + apply fix_record_spec in F. destruct F as [_ [_ [_ [_ [_ F]]]]]. exact (F eq_refl).
    + eapply IH. eassumption.
Qed.

Lemma NoDup_replace_middle : forall (done : list str) x y rest,
  NoDup (done ++ x :: rest) -> ~ In y (done ++ x :: rest) -> NoDup (done ++ y :: rest).
Proof.
  intros done x y rest Hnd Hy.
  apply NoDup_remove in Hnd. destruct Hnd as [Hnd Hx].
  eapply Permutation_NoDup; [apply Permutation_middle|].
  constructor; [|assumption].
  intro Hc. apply Hy. apply in_app_or in Hc. apply in_or_app. destruct Hc as [Hc|Hc]; [now left | right; now right].
Qed.

(* ids already final (done) followed by the ids still to be fixed: pairwise distinct and all in the set *)
Lemma fix_all_unique : forall cn allow recs set done outs,
  fix_all cn allow recs set = Ok outs ->
  NoDup (done ++ ids recs) -> incl (done ++ ids recs) set ->
  NoDup (done ++ ids outs).
Proof.
  intros cn allow. induction recs as [|r rest IH]; intros set done outs H Hnd Hincl; cbn [fix_all] in H.
  - injection H as H. now subst.
  - destruct (fix_record_name_id cn allow r set) as [[r' set']|k] eqn:F; cbn [bind] in H; [|discriminate].
    destruct (fix_all cn allow rest set') as [rs|k] eqn:A; cbn [bind] in H; [|discriminate].
    injection H as H. subst outs. cbn [ids map] in *. fold (ids rest) in *. fold (ids rs).
    apply fix_record_spec in F. destruct F as [_ [_ [F _]]].
    assert (Hin : In (r_id r) set) by (apply Hincl; apply in_or_app; right; now left).
    destruct (F Hin) as [F1 [F2 F3]].
    assert (Hnd' : NoDup (done ++ r_id r' :: ids rest)).
    { destruct F1 as [E|Hn]; [rewrite E; assumption|].
      eapply NoDup_replace_middle; [exact Hnd|]. intro Hc. apply Hn. now apply Hincl. }
    replace (done ++ r_id r' :: ids rs) with ((done ++ [r_id r']) ++ ids rs) by (rewrite <- app_assoc; reflexivity).
    eapply IH; [exact A | rewrite <- app_assoc; exact Hnd' |].
    rewrite <- app_assoc. cbn [app]. intros x Hx. apply in_app_or in Hx. destruct Hx as [Hx|[Hx|Hx]].
    + apply F2. apply Hincl. apply in_or_app. now left.
    + subst x. assumption.
    + apply F2. apply Hincl. apply in_or_app. right. now right.
Qed.

(* ---------- the duplicate pass ---------- *)
Lemma dedup_loop_spec : forall recs set done recs' set',
  dedup_loop recs set = Ok (recs', set') ->
  NoDup done -> incl done set ->
  NoDup (done ++ ids recs') /\ incl (done ++ ids recs') set'.
Proof.
  induction recs as [|r rest IH]; intros set done recs' set' H Hnd Hincl; cbn [dedup_loop] in H.
  - injection H as H1 H2. subst. cbn [ids map]. rewrite app_nil_r. now split.
  - destruct (if smem (r_id r) set
              then do n <- gen_name (r_id r) set (-1); Ok (mkRec n (r_name r) (Some (r_id r)) (r_idx r))
              else Ok r) as [r1|k] eqn:R; cbn [bind] in H; [|discriminate].
    destruct (dedup_loop rest (sadd (r_id r1) set)) as [[rs set1]|k] eqn:D; cbn [bind] in H; [|discriminate].
    injection H as H1 H2. subst recs' set'.
    assert (Hnew : ~ In (r_id r1) set).
    { destruct (smem (r_id r) set) eqn:M.
      - destruct (gen_name (r_id r) set (-1)) as [n|k] eqn:G; cbn [bind] in R; [|discriminate].
        injection R as R. subst r1. cbn [r_id]. apply gen_name_spec in G. tauto.
      - injection R as R. subst r1. now apply smem_false in M. }
    cbn [ids map]. fold (ids rs).
    replace (done ++ r_id r1 :: ids rs) with ((done ++ [r_id r1]) ++ ids rs) by (rewrite <- app_assoc; reflexivity).
    eapply IH; [exact D | |].
    + eapply Permutation_NoDup; [apply Permutation_cons_append|]. constructor; [|assumption].
      intro Hc. apply Hnew. now apply Hincl.
    + intros x Hx. apply in_app_or in Hx. apply sadd_In. destruct Hx as [Hx|[Hx|[]]].
      * right. now apply Hincl.
      * left. now subst.
Qed.

Lemma dedup_pass_spec : forall recs recs' set,
  dedup_pass recs = Ok (recs', set) -> NoDup (ids recs') /\ incl (ids recs') set.
Proof.
  intros recs recs' set H. unfold dedup_pass in H.
  destruct (zlen (set_of (map r_id recs)) <? zlen recs) eqn:B.
  - destruct (dedup_loop recs []) as [[rs s]|k] eqn:D; cbn [bind] in H; [|discriminate].
    destruct (zlen s =? zlen recs); [|discriminate]. injection H as H1 H2. subst.
    apply (dedup_loop_spec recs [] [] recs' set D); [constructor | apply incl_nil_l].
  - injection H as H1 H2. subst recs' set. split.
    + apply set_of_full_NoDup. pose proof (set_of_length (map r_id recs)) as Hle.
      unfold ids. unfold zlen in B. rewrite map_length in *. lia.
    + intros x Hx. now apply set_of_In.
Qed.

(* ---------- original ids ---------- *)
(* relation between a record before and after the duplicate pass *)
Definition dedup_rel (a b : rec) : Prop :=
  r_name b = r_name a /\ r_idx b = r_idx a /\
  (b = a \/ (r_orig b = Some (r_id a) /\ r_id b <> r_id a)).

Lemma dedup_loop_rel : forall recs set recs' set',
  dedup_loop recs set = Ok (recs', set') -> Forall2 dedup_rel recs recs'.
Proof.
  induction recs as [|r rest IH]; intros set recs' set' H; cbn [dedup_loop] in H.
  - injection H as H1 H2. subst. constructor.
  - destruct (if smem (r_id r) set
              then do n <- gen_name (r_id r) set (-1); Ok (mkRec n (r_name r) (Some (r_id r)) (r_idx r))
              else Ok r) as [r1|k] eqn:R; cbn [bind] in H; [|discriminate].
    destruct (dedup_loop rest (sadd (r_id r1) set)) as [[rs set1]|k] eqn:D; cbn [bind] in H; [|discriminate].
    injection H as H1 H2. subst recs' set'. constructor; [|eapply IH; eassumption].
    destruct (smem (r_id r) set) eqn:M.
    + destruct (gen_name (r_id r) set (-1)) as [n|k] eqn:G; cbn [bind] in R; [|discriminate].
      injection R as R. subst r1. unfold dedup_rel. cbn [r_id r_name r_orig r_idx].
      split; [reflexivity | split; [reflexivity | right; split; [reflexivity|]]].
      apply gen_name_spec in G. destruct G as [G _]. apply smem_In in M. intro E. apply G. now rewrite E.
    + injection R as R. subst r1. unfold dedup_rel. split; [reflexivity | split; [reflexivity | now left]].
Qed.

Lemma Forall2_refl_rel : forall l, Forall2 dedup_rel l l.
Proof.
  induction l as [|a l IH]; constructor; [|assumption].
  unfold dedup_rel. split; [reflexivity | split; [reflexivity | now left]].
Qed.

Lemma dedup_pass_rel : forall recs recs' set,
  dedup_pass recs = Ok (recs', set) -> Forall2 dedup_rel recs recs'.
Proof.
  intros recs recs' set H. unfold dedup_pass in H.
  destruct (zlen (set_of (map r_id recs)) <? zlen recs).
  - destruct (dedup_loop recs []) as [[rs s]|k] eqn:D; cbn [bind] in H; [|discriminate].
    destruct (zlen s =? zlen recs); [|discriminate]. injection H as H1 H2. subst.
    eapply dedup_loop_rel. eassumption.
  - injection H as H1 H2. subst recs' set. apply Forall2_refl_rel.
Qed.

Definition fix_rel (a b : rec) : Prop :=
  r_orig b = fix_orig (r_orig a) (r_id a) (r_id b) /\ r_idx b = r_idx a.

Lemma fix_all_rel : forall cn allow recs set outs,
  fix_all cn allow recs set = Ok outs -> Forall2 fix_rel recs outs.
Proof.
  intros cn allow. induction recs as [|r rest IH]; intros set outs H; cbn [fix_all] in H.
  - injection H as H. subst. constructor.
  - destruct (fix_record_name_id cn allow r set) as [[r' set']|k] eqn:F; cbn [bind] in H; [|discriminate].
    destruct (fix_all cn allow rest set') as [rs|k] eqn:A; cbn [bind] in H; [|discriminate].
    injection H as H. subst. constructor; [|eapply IH; eassumption].
    apply fix_record_spec in F. unfold fix_rel. tauto.
Qed.

(* what the property says about one record: input id i, output record o *)
Definition remembers (i : str) (o : rec) : Prop :=
  (r_id o = i /\ r_orig o = None) \/ r_orig o = Some i.

Lemma orig_compose : forall a b c,
  r_orig a = None -> r_id a <> [] -> dedup_rel a b -> fix_rel b c -> remembers (r_id a) c.
Proof.
  intros a b c Ha Hne [_ [_ D]] [F _]. unfold remembers, fix_orig in *.
  destruct D as [D|[D1 D2]].
  - subst b. rewrite Ha in F. cbn [truthy negb andb] in F.
    destruct (str_eqb (r_id a) (r_id c)) eqn:E; cbn [negb] in F.
    + apply str_eqb_eq in E. left. split; [now symmetry | assumption].
    + now right.
  - rewrite D1 in F. destruct (r_id a) as [|x xs] eqn:Ea; [contradiction|].
    cbn [truthy negb andb] in F. now right.
Qed.

Lemma Forall2_compose : forall (l1 l2 l3 : list rec),
  Forall (fun a => r_orig a = None /\ r_id a <> []) l1 ->
  Forall2 dedup_rel l1 l2 -> Forall2 fix_rel l2 l3 ->
  Forall2 (fun a c => remembers (r_id a) c) l1 l3.
Proof.
  intros l1 l2 l3 Hw H12. revert l3 Hw. induction H12 as [|a b l1 l2 Hab H12 IH]; intros l3 Hw H23.
  - inversion H23. constructor.
  - inversion H23 as [|? c ? l3' Hbc H23']; subst. inversion Hw as [|? ? [Ha1 Ha2] Hw']; subst.
    constructor; [eapply orig_compose; eassumption | now apply IH].
Qed.

Lemma mk_inputs_ids : forall l i, ids (mk_inputs i l) = map fst l.
Proof.
  induction l as [|[id name] l IH]; intro i; cbn [mk_inputs ids map fst]; [reflexivity|].
  f_equal. apply IH.
Qed.

Lemma mk_inputs_orig : forall l i, Forall (fun a => r_orig a = None) (mk_inputs i l).
Proof.
  induction l as [|[id name] l IH]; intro i; cbn [mk_inputs]; constructor; [reflexivity | apply IH].
Qed.

(* ---------- the pipeline ---------- *)
Lemma pipeline_inv : forall cn allow l outs,
  pipeline cn allow l = Ok outs ->
  exists recs set, dedup_pass (mk_inputs 1 l) = Ok (recs, set) /\ fix_all cn allow recs set = Ok outs /\
                   forallb nonempty_id outs = true.
Proof.
  intros cn allow l outs H. unfold pipeline in H.
  destruct (dedup_pass (mk_inputs 1 l)) as [[recs set]|k] eqn:D; cbn [bind] in H; [|discriminate].
  destruct (fix_all cn allow recs set) as [os|k] eqn:F; cbn [bind] in H; [|discriminate].
  destruct (forallb nonempty_id os) eqn:N; [|discriminate].
  injection H as H. subst. exists recs, set. repeat split; assumption.
Qed.

Lemma pipeline_unique : forall cn allow l outs,
  pipeline cn allow l = Ok outs -> NoDup (map r_id outs).
Proof.
  intros cn allow l outs H. apply pipeline_inv in H. destruct H as [recs [set [D [F _]]]].
  apply dedup_pass_spec in D. destruct D as [D1 D2].
  apply (fix_all_unique cn allow recs set [] outs F); assumption.
Qed.

Lemma pipeline_clean : forall cn allow l outs,
  pipeline cn allow l = Ok outs ->
  Forall (fun o => clean (r_id o) /\ clean (r_name o)) outs.
Proof.
  intros cn allow l outs H. apply pipeline_inv in H. destruct H as [recs [set [_ [F _]]]].
  eapply fix_all_clean. eassumption.
Qed.

Lemma pipeline_short : forall cn l outs,
  pipeline cn false l = Ok outs ->
  Forall (fun o => zlen (r_id o) <= 16 /\ zlen (r_name o) <= 16) outs.
Proof.
  intros cn l outs H. apply pipeline_inv in H. destruct H as [recs [set [_ [F _]]]].
  eapply fix_all_short; eassumption.
Qed.

Lemma pipeline_named : forall cn allow l outs,
  pipeline cn allow l = Ok outs -> Forall (fun o => r_id o <> []) outs.
Proof.
  intros cn allow l outs H. apply pipeline_inv in H. destruct H as [_ [_ [_ [_ N]]]].
  rewrite forallb_forall in N. apply Forall_forall. intros o Ho. specialize (N o Ho).
  unfold nonempty_id in N. destruct (r_id o); [discriminate | discriminate].
Qed.

Lemma pipeline_original : forall cn allow l outs,
  Forall (fun p => fst p <> []) l ->
  pipeline cn allow l = Ok outs ->
  Forall2 (fun p o => remembers (fst p) o) l outs.
Proof.
  intros cn allow l outs Hne H. apply pipeline_inv in H. destruct H as [recs [set [D [F _]]]].
  apply dedup_pass_rel in D. apply fix_all_rel in F.
  assert (W : Forall (fun a => r_orig a = None /\ r_id a <> []) (mk_inputs 1 l)).
  { clear D. generalize 1 as i. induction l as [|[id name] l IH]; intro i; cbn [mk_inputs]; constructor.
    - cbn [r_orig r_id]. inversion Hne; subst. split; [reflexivity | assumption].
    - apply IH. now inversion Hne. }
  pose proof (Forall2_compose _ _ _ W D F) as C.
  clear - C. revert C. generalize 1 as i. revert outs.
  induction l as [|[id name] l IH]; intros outs i C; cbn [mk_inputs] in C.
  - inversion C. constructor.
  - inversion C as [|? o ? outs' Hh Ht]; subst. constructor; [exact Hh | eapply IH; exact Ht].
Qed.

Lemma Forall2_len : forall (A B : Type) (R : A -> B -> Prop) l1 l2, Forall2 R l1 l2 -> length l1 = length l2.
Proof. intros A B R l1 l2 H. induction H; cbn [length]; [reflexivity | now f_equal]. Qed.

Lemma pipeline_length : forall cn allow l outs,
  pipeline cn allow l = Ok outs -> length outs = length l.
Proof.
  intros cn allow l outs H. apply pipeline_inv in H. destruct H as [recs [set [D [F _]]]].
  apply fix_all_length in F. apply dedup_pass_rel in D.
  rewrite F. symmetry. rewrite <- (map_length fst l), <- (mk_inputs_ids l 1). unfold ids. rewrite map_length.
  eapply Forall2_len. eassumption.
Qed.

Lemma fix_record_length_local : forall cn r set r' set',
  fix_record_name_id cn false r set = Ok (r', set') -> zlen (r_id r') <= 16 /\ zlen (r_name r') <= 16.
Proof.
  intros cn r set r' set' H. apply fix_record_spec in H. destruct H as [_ [_ [_ [_ [_ H]]]]]. now apply H.
Qed.

Lemma fix_record_unique_local : forall cn allow r set r' set',
  fix_record_name_id cn allow r set = Ok (r', set') -> In (r_id r) set ->
  (r_id r' = r_id r \/ ~ In (r_id r') set) /\ incl set set' /\ In (r_id r') set'.
Proof.
  intros cn allow r set r' set' H. apply fix_record_spec in H. tauto.
Qed.

(* ---------- the decidable specification ---------- *)
Lemma distinct_NoDup : forall l, distinct l = true <-> NoDup l.
Proof.
  induction l as [|x l IH]; cbn [distinct]; split; intro H; try reflexivity; try constructor.
  - apply andb_true_iff in H. destruct H as [H _]. apply negb_true_iff in H. now apply smem_false in H.
  - apply IH. apply andb_true_iff in H. tauto.
  - inversion H as [|? ? Hn Hd]; subst. apply andb_true_iff. split.
    + apply negb_true_iff. now apply smem_false.
    + now apply IH.
Qed.

Lemma clean_safe : forall s, clean s -> safe_str s = true.
Proof.
  intros s H. unfold safe_str. apply forallb_forall. intros c Hc. apply negb_true_iff.
  unfold clean in H. rewrite Forall_forall in H. specialize (H c Hc).
  destruct (zmem c spec_unsafe) eqn:E; [|reflexivity]. apply zmem_In in E.
  pose proof table_covers_unsafe as T. rewrite forallb_forall in T. specialize (T c E). congruence.
Qed.

Lemma remembers_orig_ok : forall l outs,
  Forall2 (fun p o => remembers (fst p) o) l outs -> orig_ok l outs = true.
Proof.
  intros l outs H. induction H as [|[id name] o l outs Hh Ht IH]; cbn [orig_ok]; [reflexivity|].
  rewrite IH. rewrite andb_true_r. cbn [fst] in Hh. destruct Hh as [[E _]|E].
  - apply orb_true_iff. left. now apply str_eqb_eq.
  - apply orb_true_iff. right. rewrite E. cbn [opt_str_eqb]. now apply str_eqb_eq.
Qed.

Lemma pipeline_meets_spec : forall cn allow l outs,
  Forall (fun p => fst p <> []) l ->
  pipeline cn allow l = Ok outs -> spec_ok allow l outs = true.
Proof.
  intros cn allow l outs Hne H. unfold spec_ok. repeat (apply andb_true_iff; split).
  - unfold spec_unique. apply distinct_NoDup. eapply pipeline_unique. eassumption.
  - unfold spec_safe. apply forallb_forall. intros o Ho. pose proof (pipeline_clean _ _ _ _ H) as C.
    rewrite Forall_forall in C. destruct (C o Ho) as [C1 C2]. apply andb_true_iff. split; now apply clean_safe.
  - unfold spec_short. destruct allow; [reflexivity|]. cbn [orb]. apply forallb_forall. intros o Ho.
    pose proof (pipeline_short _ _ _ H) as S. rewrite Forall_forall in S. specialize (S o Ho). lia.
  - apply remembers_orig_ok. eapply pipeline_original; eassumption.
  - unfold spec_named. apply pipeline_inv in H. destruct H as [_ [_ [_ [_ N]]]]. exact N.
Qed.

(* spec_ok really is the property *)
Lemma spec_ok_sound : forall allow l outs,
  spec_ok allow l outs = true ->
  NoDup (map r_id outs) /\
  Forall (fun o => forall c, In c spec_unsafe -> ~ In c (r_id o) /\ ~ In c (r_name o)) outs /\
  (allow = false -> Forall (fun o => zlen (r_id o) <= 16 /\ zlen (r_name o) <= 16) outs) /\
  Forall2 (fun p o => r_id o <> fst p -> r_orig o = Some (fst p)) l outs /\
  Forall (fun o => r_id o <> []) outs.
Proof.
  intros allow l outs H. unfold spec_ok in H. repeat (apply andb_true_iff in H; destruct H as [H ?]).
  rename H into Hu, H3 into Hs, H2 into Hh, H1 into Ho, H0 into Hn.
  split; [now apply distinct_NoDup|]. split; [|split; [|split]].
  - apply Forall_forall. intros o Hin c Hc. unfold spec_safe in Hs. rewrite forallb_forall in Hs.
    specialize (Hs o Hin). apply andb_true_iff in Hs. destruct Hs as [S1 S2].
    unfold safe_str in S1, S2. rewrite forallb_forall in S1, S2. apply zmem_In in Hc. split; intro Hx.
    + specialize (S1 c Hx). rewrite Hc in S1. discriminate.
    + specialize (S2 c Hx). rewrite Hc in S2. discriminate.
  - intro Ha. subst allow. unfold spec_short in Hh. cbn [orb] in Hh. rewrite forallb_forall in Hh.
    apply Forall_forall. intros o Hin. specialize (Hh o Hin). lia.
  - clear - Ho. revert outs Ho. induction l as [|[id name] l IH]; intros [|o outs] Ho; cbn [orig_ok] in Ho;
      try discriminate; constructor.
    + apply andb_true_iff in Ho. destruct Ho as [Ho _]. cbn [fst]. intro Hne.
      apply orb_true_iff in Ho. destruct Ho as [Ho|Ho].
      * apply str_eqb_eq in Ho. contradiction.
      * destruct (r_orig o) as [x|]; cbn [opt_str_eqb] in Ho; [|discriminate]. apply str_eqb_eq in Ho. now subst.
    + apply IH. apply andb_true_iff in Ho. tauto.
  - unfold spec_named in Hn. rewrite forallb_forall in Hn. apply Forall_forall. intros o Hin.
    specialize (Hn o Hin). unfold nonempty_id in Hn. destruct (r_id o); [discriminate | discriminate].
Qed.

(* the witness of the repaired finding contig_number_overflow: a seven digit contig number now gives a
   15 character id that still carries the whole number *)
Lemma overflow_witness_repaired :
  pipeline contig_no false
    [([109; 121; 32; 99; 111; 110; 116; 105; 103; 49; 50; 51; 52; 53; 54; 55; 32; 111; 102; 32; 97; 32; 108; 111;
       110; 103; 32; 110; 97; 109; 101], [110])]
  = Ok [mkRec [99; 49; 50; 51; 52; 53; 54; 55; 95; 109; 121; 99; 111; 46; 46] [110]
              (Some [109; 121; 32; 99; 111; 110; 116; 105; 103; 49; 50; 51; 52; 53; 54; 55; 32; 111; 102; 32; 97; 32;
                     108; 111; 110; 103; 32; 110; 97; 109; 101]) 1].
Proof. vm_compute. reflexivity. Qed.

(* ---------- _sanitise_id_value ---------- *)
Lemma sanitise_spec : forall s,
  length (sanitise_id_value s) = length s /\
  Forall (fun c => is_gene_illegal c = false) (sanitise_id_value s) /\
  (Forall (fun c => is_gene_illegal c = false) s -> sanitise_id_value s = s).
Proof.
  intro s. unfold sanitise_id_value. split; [apply map_length|]. split.
  - apply Forall_forall. intros c Hc. apply in_map_iff in Hc. destruct Hc as [x [Hx _]].
    destruct (is_gene_illegal x) eqn:E; subst; [apply table_underscore_not_gene_illegal | assumption].
  - intro H. induction H as [|c s Hc Hs IH]; cbn [map]; [reflexivity|]. rewrite Hc. now f_equal.
Qed.

Lemma sanitise_safe : forall s c, In c spec_gene_unsafe -> ~ In c (sanitise_id_value s).
Proof.
  intros s c Hc Hin. destruct (sanitise_spec s) as [_ [F _]]. rewrite Forall_forall in F. specialize (F c Hin).
  pose proof table_covers_gene_unsafe as T. rewrite forallb_forall in T. specialize (T c Hc). congruence.
Qed.

(* ---------- add_cds_feature ---------- *)
Definition st_ok (st : cstate) : Prop :=
  NoDup (s_locs st) /\ NoDup (s_names st) /\ length (s_locs st) = length (s_names st).

Lemma NoDup_snoc : forall (l : list Z) x, NoDup l -> ~ In x l -> NoDup (l ++ [x]).
Proof.
  intros l x Hl Hx. eapply Permutation_NoDup; [apply Permutation_cons_append|]. now constructor.
Qed.

Lemma add_cds_ok : forall st c st',
  st_ok st -> add_cds_feature st c = Ok st' ->
  st_ok st' /\ s_locs st' = s_locs st ++ [c_loc c] /\
  (s_names st' = s_names st ++ [c_name c] \/
   (In (c_name c) (s_names st) /\ c_has_locus c = true /\ c_overlaps c = true /\
    s_names st' = s_names st ++ [c_renamed c])).
Proof.
  intros st c st' [H1 [H2 H3]] H. unfold add_cds_feature in H.
  destruct (zmem (c_loc c) (s_locs st)) eqn:L; [discriminate|]. apply zmem_false in L.
  destruct (zmem (c_name c) (s_names st)) eqn:N.
  - destruct (c_has_locus c) eqn:A; cbn [negb] in H; [|discriminate].
    destruct (c_overlaps c) eqn:B; cbn [negb] in H; [|discriminate].
    destruct (zmem (c_renamed c) (s_names st)) eqn:R; [discriminate|]. apply zmem_false in R.
    injection H as H. subst st'. cbn [s_locs s_names]. split; [|split; [reflexivity|]].
    + unfold st_ok. cbn [s_locs s_names]. split; [now apply NoDup_snoc | split; [now apply NoDup_snoc|]].
      repeat rewrite app_length. cbn [length]. lia.
    + right. apply zmem_In in N. tauto.
  - apply zmem_false in N. injection H as H. subst st'. cbn [s_locs s_names]. split; [|split; [reflexivity | now left]].
    unfold st_ok. cbn [s_locs s_names]. split; [now apply NoDup_snoc | split; [now apply NoDup_snoc|]].
    repeat rewrite app_length. cbn [length]. lia.
Qed.

(* a rejection happens exactly for a taken location, a taken name that may not be renamed, or a taken new name *)
Lemma add_cds_rejects : forall st c k,
  add_cds_feature st c = Err k ->
  In (c_loc c) (s_locs st) \/
  (In (c_name c) (s_names st) /\ (c_has_locus c = false \/ c_overlaps c = false \/ In (c_renamed c) (s_names st))).
Proof.
  intros st c k H. unfold add_cds_feature in H.
  destruct (zmem (c_loc c) (s_locs st)) eqn:L; [left; now apply zmem_In|].
  destruct (zmem (c_name c) (s_names st)) eqn:N; [|discriminate]. right. apply zmem_In in N. split; [assumption|].
  destruct (c_has_locus c); [|now left]. destruct (c_overlaps c); [|right; now left].
  cbn [negb] in H. destruct (zmem (c_renamed c) (s_names st)) eqn:R; [|discriminate]. right. right. now apply zmem_In.
Qed.

Lemma add_all_ok : forall cs st,
  st_ok st -> st_ok (fst (add_all st cs)) /\ length (snd (add_all st cs)) = length cs.
Proof.
  induction cs as [|c cs IH]; intros st Hst; cbn [add_all]; [split; [assumption | reflexivity]|].
  destruct (add_cds_feature st c) as [st'|k] eqn:A.
  - apply add_cds_ok in A; [|assumption]. destruct A as [A _]. specialize (IH st' A).
    destruct (add_all st' cs) as [f o]. cbn [fst snd length] in *. split; [tauto | lia].
  - specialize (IH st Hst). destruct (add_all st cs) as [f o]. cbn [fst snd length] in *. split; [tauto | lia].
Qed.

Lemma st_ok_empty : st_ok (mkState [] []).
Proof. unfold st_ok. cbn [s_locs s_names]. repeat split; constructor. Qed.

Lemma zdistinct_NoDup : forall l, zdistinct l = true <-> NoDup l.
Proof.
  induction l as [|x l IH]; cbn [zdistinct]; split; intro H; try reflexivity; try constructor.
  - apply andb_true_iff in H. destruct H as [H _]. apply negb_true_iff in H. now apply zmem_false in H.
  - apply IH. apply andb_true_iff in H. tauto.
  - inversion H as [|? ? Hn Hd]; subst. apply andb_true_iff. split.
    + apply negb_true_iff. now apply zmem_false.
    + now apply IH.
Qed.

(* ---------- the contig number is never negative ---------- *)
Definition digit_str (d : str) : Prop := Forall (fun c => 48 <= c <= 57) d.

Lemma span_digits_fst : forall s, digit_str (fst (span_digits s)).
Proof.
  induction s as [|c s IH]; cbn [span_digits]; [constructor|].
  destruct (is_digit c) eqn:E.
  - destruct (span_digits s) as [d t]. cbn [fst] in *. constructor; [unfold is_digit in E; lia | assumption].
  - constructor.
Qed.

Lemma ntb_digits : forall s d, number_then_boundary s = Some d -> digit_str d.
Proof.
  intros s d H. unfold number_then_boundary in H. pose proof (span_digits_fst s) as F.
  destruct (span_digits s) as [d0 t]. cbn [fst] in F. destruct d0 as [|x d0]; [discriminate|].
  destruct t as [|c t]; [injection H as H; now subst|]. destruct (is_word c); [discriminate|]. injection H as H. now subst.
Qed.

Lemma search_digits : forall m, (forall s d, m s = Some d -> digit_str d) ->
  forall s d, search m s = Some d -> digit_str d.
Proof.
  intros m Hm. induction s as [|c s IH]; intros d H; cbn [search] in H.
  - destruct (m []) eqn:E; [injection H as H; subst; eapply Hm; eassumption | discriminate].
  - destruct (m (c :: s)) eqn:E; [injection H as H; subst; eapply Hm; eassumption | now apply IH].
Qed.

Lemma search_c_digits : forall s b d, search_c b s = Some d -> digit_str d.
Proof.
  induction s as [|c s IH]; intros b d H; cbn [search_c] in H; [discriminate|].
  destruct (if negb b && (c =? 99) then number_then_boundary s else None) as [d0|] eqn:E.
  - injection H as H. subst. destruct (negb b && (c =? 99)); [eapply ntb_digits; eassumption | discriminate].
  - eapply IH. eassumption.
Qed.

Lemma int_of_digits_nonneg : forall d, digit_str d -> 0 <= int_of_digits d.
Proof.
  intros d H. unfold int_of_digits.
  assert (G : forall acc, 0 <= acc -> 0 <= fold_left (fun a c => a * 10 + (c - 48)) d acc).
  { induction H as [|c d Hc Hd IH]; intros acc Hacc; cbn [fold_left]; [assumption|]. apply IH. lia. }
  apply G. lia.
Qed.

Lemma contig_no_nonneg : forall idx s, 0 <= idx -> 0 <= contig_no idx s.
Proof.
  intros idx s Hidx. unfold contig_no.
  destruct (search m_contig s) as [d|] eqn:E1.
  { apply int_of_digits_nonneg. eapply search_digits; [|exact E1]. intros s0 d0 H. unfold m_contig in H.
    destruct (strip_prefix [111; 110; 116] s0); [eapply ntb_digits; eassumption | discriminate]. }
  destruct (search m_scaffold s) as [d|] eqn:E2.
  { apply int_of_digits_nonneg. eapply search_digits; [|exact E2]. intros s0 d0 H. unfold m_scaffold in H.
    destruct (strip_prefix [99; 97; 102] s0); [eapply ntb_digits; eassumption | discriminate]. }
  destruct (search_c false s) as [d|] eqn:E3.
  { apply int_of_digits_nonneg. eapply search_c_digits. eassumption. }
  assumption.
Qed.

(* a constant contig number function, for the non-vacuity examples *)
Definition cn_const (n : Z) : Z -> str -> Z := fun _ _ => n.
