(* C16 - property theorems: sanitised record identifiers are unique, short and filesystem-safe;
   gene identifiers are unique within a record or the gene is rejected.
   [pipeline cn allow l] is the identifier part of pre_process_sequences on the records with
   (id, name) pairs l; cn is the contig number function of _shorten_ids (every theorem that
   quantifies over cn holds for every such function, in particular for the transcription
   Model.contig_no of the three regular expressions). *)
From ASV Require Import Base.
From ASV.C16 Require Import Model Proofs.

(* ids pairwise distinct - for every id list, both settings, no guard (holds since the repair a2fe44a2) *)
Theorem C16_unique : forall cn allow l outs,
  pipeline cn allow l = Ok outs -> NoDup (map r_id outs).
Proof. exact pipeline_unique. Qed.
Print Assumptions C16_unique.

(* no output id or name contains a character of the illegal set read from the source *)
Theorem C16_safe_chars : forall cn allow l outs,
  pipeline cn allow l = Ok outs ->
  Forall (fun o => Forall (fun c => is_illegal c = false) (r_id o) /\
                   Forall (fun c => is_illegal c = false) (r_name o)) outs.
Proof. exact pipeline_clean. Qed.
Print Assumptions C16_safe_chars.

(* the set read from the source still contains every character the property calls unusable *)
Theorem C16_table_covers_unsafe : forallb is_illegal spec_unsafe = true.
Proof. exact table_covers_unsafe. Qed.
Print Assumptions C16_table_covers_unsafe.

(* at most 16 characters unless long headers are allowed - for every contig number function, no guard
   (holds since the repair of finding F26 contig_number_overflow; before it the clause needed the guard
   "contig numbers below 100 000" and was refuted without it) *)
Theorem C16_length : forall cn l outs,
  pipeline cn false l = Ok outs ->
  Forall (fun o => zlen (r_id o) <= 16 /\ zlen (r_name o) <= 16) outs.
Proof. exact pipeline_short. Qed.
Print Assumptions C16_length.

(* the same clause per call of fix_record_name_id, whatever the set and the record index *)
Theorem C16_length_per_record : forall cn r set r' set',
  fix_record_name_id cn false r set = Ok (r', set') -> zlen (r_id r') <= 16 /\ zlen (r_name r') <= 16.
Proof. exact fix_record_length_local. Qed.
Print Assumptions C16_length_per_record.

(* the repair kept the behaviour: numbers of up to five digits give the documented c<5 digits>_<7 characters>..,
   every number whose rendering has at most 12 digits is kept in full, in front of a shorter piece of the old name *)
Theorem C16_shorten_shape : forall cn idx s,
  (0 <= cn idx s < 100000 -> shorten cn idx s = [99] ++ pad5 (cn idx s) ++ [95] ++ firstn 7 s ++ [46; 46]) /\
  (zlen (pad5 (cn idx s)) <= 12 ->
   exists k, shorten cn idx s = [99] ++ pad5 (cn idx s) ++ [95] ++ firstn k s ++ [46; 46]) /\
  zlen (shorten cn idx s) <= 16.
Proof.
  intros cn idx s. split; [apply shorten_ordinary | split; [apply shorten_keeps_number | apply shorten_length]].
Qed.
Print Assumptions C16_shorten_shape.

(* the witness of the repaired finding: "my contig1234567 of a long name" -> c1234567_myco.. (15 characters) *)
Theorem C16_length_witness_repaired :
  exists outs, pipeline contig_no false
    [([109; 121; 32; 99; 111; 110; 116; 105; 103; 49; 50; 51; 52; 53; 54; 55; 32; 111; 102; 32; 97; 32; 108; 111;
       110; 103; 32; 110; 97; 109; 101], [110])] = Ok outs /\
    map r_id outs = [[99; 49; 50; 51; 52; 53; 54; 55; 95; 109; 121; 99; 111; 46; 46]].
Proof. eexists. split; [exact overflow_witness_repaired | reflexivity]. Qed.
Print Assumptions C16_length_witness_repaired.

(* the modelled contig number is never negative (pad5 renders exactly the numbers >= 0) *)
Theorem C16_contig_no_nonneg : forall idx s, 0 <= idx -> 0 <= contig_no idx s.
Proof. exact contig_no_nonneg. Qed.
Print Assumptions C16_contig_no_nonneg.

(* a record whose id changed remembers its input id (first change wins); an unchanged one has none or
   its own; guard: the input id is not empty *)
Theorem C16_original_id : forall cn allow l outs,
  Forall (fun p => fst p <> []) l ->
  pipeline cn allow l = Ok outs ->
  Forall2 (fun p o => (r_id o = fst p /\ r_orig o = None) \/ r_orig o = Some (fst p)) l outs.
Proof. exact pipeline_original. Qed.
Print Assumptions C16_original_id.

(* an accepted run keeps one record per input record and no record has an empty id *)
Theorem C16_named : forall cn allow l outs,
  pipeline cn allow l = Ok outs -> length outs = length l /\ Forall (fun o => r_id o <> []) outs.
Proof. intros cn allow l outs H. split; [exact (pipeline_length _ _ _ _ H) | exact (pipeline_named _ _ _ _ H)]. Qed.
Print Assumptions C16_named.

(* all clauses together, as the decidable test the check evaluates on the implementation's outputs,
   and what that test means *)
Theorem C16_model_meets_spec : forall cn allow l outs,
  Forall (fun p => fst p <> []) l ->
  pipeline cn allow l = Ok outs -> spec_ok allow l outs = true.
Proof. exact pipeline_meets_spec. Qed.
Print Assumptions C16_model_meets_spec.

Theorem C16_spec_ok_sound : forall allow l outs,
  spec_ok allow l outs = true ->
  NoDup (map r_id outs) /\
  Forall (fun o => forall c, In c spec_unsafe -> ~ In c (r_id o) /\ ~ In c (r_name o)) outs /\
  (allow = false -> Forall (fun o => zlen (r_id o) <= 16 /\ zlen (r_name o) <= 16) outs) /\
  Forall2 (fun p o => r_id o <> fst p -> r_orig o = Some (fst p)) l outs /\
  Forall (fun o => r_id o <> []) outs.
Proof. exact spec_ok_sound. Qed.
Print Assumptions C16_spec_ok_sound.

(* one call of fix_record_name_id on a set that holds the record's id: the new id is the old one or is
   not in the set, and it is in the returned set, which only grows *)
Theorem C16_fix_keeps_set_invariant : forall cn allow r set r' set',
  fix_record_name_id cn allow r set = Ok (r', set') -> In (r_id r) set ->
  (r_id r' = r_id r \/ ~ In (r_id r') set) /\ incl set set' /\ In (r_id r') set'.
Proof. exact fix_record_unique_local. Qed.
Print Assumptions C16_fix_keeps_set_invariant.

(* generate_unique_id: prefix_counter, not among the existing ids, within max_length when one is given *)
Theorem C16_generate_unique_id : forall prefix set start maxlen name c,
  generate_unique_id prefix set start maxlen = Ok (name, c) ->
  ~ In name set /\ name = prefix ++ [95] ++ str_of_int c /\ start <= c /\
  (0 < maxlen -> zlen name <= maxlen).
Proof. exact generate_unique_id_spec. Qed.
Print Assumptions C16_generate_unique_id.

(* gene identifiers: after any history of add_cds_feature calls the names in the record are pairwise
   distinct, the locations are pairwise distinct, and there is one name per location; a rejected call
   leaves the state unchanged (add_all continues with the old state) *)
Theorem C16_gene_ids : forall cs,
  let st := fst (add_all (mkState [] []) cs) in
  NoDup (s_locs st) /\ NoDup (s_names st) /\ length (s_locs st) = length (s_names st).
Proof. intro cs. exact (proj1 (add_all_ok cs (mkState [] []) st_ok_empty)). Qed.
Print Assumptions C16_gene_ids.

(* an accepted call appends the location and the (possibly renamed) name; renaming only for a taken
   name of a gene with a locus tag that overlaps its namesake *)
Theorem C16_gene_accept : forall st c st',
  st_ok st -> add_cds_feature st c = Ok st' ->
  st_ok st' /\ s_locs st' = s_locs st ++ [c_loc c] /\
  (s_names st' = s_names st ++ [c_name c] \/
   (In (c_name c) (s_names st) /\ c_has_locus c = true /\ c_overlaps c = true /\
    s_names st' = s_names st ++ [c_renamed c])).
Proof. exact add_cds_ok. Qed.
Print Assumptions C16_gene_accept.

Theorem C16_gene_reject : forall st c k,
  add_cds_feature st c = Err k ->
  In (c_loc c) (s_locs st) \/
  (In (c_name c) (s_names st) /\ (c_has_locus c = false \/ c_overlaps c = false \/ In (c_renamed c) (s_names st))).
Proof. exact add_cds_rejects. Qed.
Print Assumptions C16_gene_reject.

(* _sanitise_id_value: same length, no character of its illegal set left, identity on clean names *)
Theorem C16_sanitise : forall s,
  length (sanitise_id_value s) = length s /\
  Forall (fun c => is_gene_illegal c = false) (sanitise_id_value s) /\
  (Forall (fun c => is_gene_illegal c = false) s -> sanitise_id_value s = s).
Proof. exact sanitise_spec. Qed.
Print Assumptions C16_sanitise.

(* no character that breaks external programs survives in a gene identifier (the set read from the
   source still covers the fixed list Model.spec_gene_unsafe) *)
Theorem C16_sanitise_safe : forall s c, In c spec_gene_unsafe -> ~ In c (sanitise_id_value s).
Proof. exact sanitise_safe. Qed.
Print Assumptions C16_sanitise_safe.

(* ---- non-vacuity ---- *)
(* "a:b", "ab", a duplicate "ab" and a 21 character id: accepted, the guard of the theorems holds *)
Example C16_ex_pipeline :
  let l := [([97; 58; 98], [97; 58; 98]); ([97; 98], [97; 98]); ([97; 98], [97; 98]);
            ([97; 98; 99; 100; 101; 102; 103; 104; 105; 106; 107; 108; 109; 110; 111; 112; 113; 114; 115; 116; 117], [110])] in
  Forall (fun p => fst p <> []) l /\
  exists outs, pipeline (cn_const 7) false l = Ok outs /\
               map r_id outs = [[97; 98; 95; 49]; [97; 98]; [97; 98; 95; 48];
                                [99; 48; 48; 48; 48; 55; 95; 97; 98; 99; 100; 101; 102; 103; 46; 46]] /\
               map r_orig outs = [Some [97; 58; 98]; None; Some [97; 98];
                                  Some [97; 98; 99; 100; 101; 102; 103; 104; 105; 106; 107; 108; 109; 110; 111; 112; 113; 114; 115; 116; 117]].
Proof.
  split; [repeat constructor; discriminate|].
  eexists. split; [vm_compute; reflexivity|]. split; reflexivity.
Qed.

(* the same with the transcribed regular expressions: "contig12" inside a long id gives c00012_... *)
Example C16_ex_contig_no :
  contig_no 3 [109; 121; 32; 99; 111; 110; 116; 105; 103; 49; 50; 32; 120] = 12 /\
  contig_no 3 [120; 121; 122] = 3.
Proof. split; vm_compute; reflexivity. Qed.

(* fix_record_name_id with the id in the set (hypothesis of C16_fix_keeps_set_invariant) *)
Example C16_ex_fix :
  exists r' set', fix_record_name_id contig_no false (mkRec [97; 58; 98] [97] None 1) [[97; 58; 98]; [97; 98]] = Ok (r', set')
                  /\ r_id r' = [97; 98; 95; 48] /\ In [97; 58; 98] [[97; 58; 98]; [97; 98]].
Proof. eexists. eexists. split; [vm_compute; reflexivity|]. split; [reflexivity | now left]. Qed.

(* generate_unique_id with two taken counters *)
Example C16_ex_generate :
  generate_unique_id [120] [[120; 95; 48]; [120; 95; 49]] 0 16 = Ok ([120; 95; 50], 2).
Proof. vm_compute. reflexivity. Qed.

(* a splice variant is renamed, a clash of locations and an unrelated namesake are rejected *)
Example C16_ex_genes :
  add_all (mkState [] []) [mkCds 1 1 true false 10; mkCds 2 1 true true 11; mkCds 2 2 true false 12; mkCds 3 1 true false 13;
                           mkCds 4 1 true true 11]
  = (mkState [1; 2] [1; 11], [0; 0; E_SecmetInvalid; E_SecmetInvalid; E_Assert]).
Proof. vm_compute. reflexivity. Qed.
