(* C16 - model of the identifier part of input pre-processing
   (antismash/common/record_processing.py: pre_process_sequences (duplicate pass, fix loop, "record has
   no name" check), fix_record_name_id incl. _shorten_ids and its three regular expressions,
   generate_unique_id; antismash/common/secmet/features/cds_feature.py: _sanitise_id_value;
   antismash/common/secmet/record.py: Record.add_cds_feature duplicate name/location handling).
   Identifiers are lists of character codes (ASCII).  No proofs in this file. *)
From ASV Require Import Base.
From ASV.Gen Require Tables_gen.

Definition E_Input := 12.   (* AntismashInputError *)

Definition str := list Z.
Definition str_eqb (a b : str) : bool := list_eqb Z.eqb a b.
Definition zmem (x : Z) (l : list Z) : bool := existsb (Z.eqb x) l.

(* ---------- Python sets of strings: only membership and size are ever used ---------- *)
Definition smem (s : str) (set : list str) : bool := existsb (str_eqb s) set.
Definition sadd (s : str) (set : list str) : list str := if smem s set then set else s :: set.
Definition set_of (l : list str) : list str := fold_right sadd [] l.

(* ---------- decimal rendering: str(int), f"{n:05d}" ---------- *)
Fixpoint dig (fuel : nat) (n : Z) : str :=
  match fuel with
  | O => []
  | S f => if n <? 10 then [48 + n] else dig f (n / 10) ++ [48 + n mod 10]
  end.
Definition digits (n : Z) : str := dig (S (Z.to_nat (Z.log2 n))) n.        (* n >= 0 *)
Definition str_of_int (n : Z) : str := if n <? 0 then 45 :: digits (- n) else digits n.
Definition pad5 (n : Z) : str :=                                           (* n >= 0 *)
  let d := digits n in repeat 48 (5 - length d) ++ d.

(* ---------- the three regular expressions of _shorten_ids (ASCII semantics) ----------
   onti?g?(\d+)\b   caff?o?l?d?(\d+)\b   \bc(\d+)\b   with re.search = leftmost match.
   The optional letters are pairwise different and different from digits, and \d+ followed by \b can
   only match a maximal run of digits, so greedy matching without backtracking is exact. *)
Definition is_digit (c : Z) : bool := (48 <=? c) && (c <=? 57).
Definition is_word (c : Z) : bool :=
  is_digit c || ((65 <=? c) && (c <=? 90)) || ((97 <=? c) && (c <=? 122)) || (c =? 95).

Fixpoint span_digits (s : str) : str * str :=
  match s with
  | c :: r => if is_digit c then let '(d, t) := span_digits r in (c :: d, t) else ([], s)
  | [] => ([], [])
  end.
Fixpoint strip_prefix (lit s : str) : option str :=
  match lit, s with
  | [], _ => Some s
  | a :: lit', b :: s' => if a =? b then strip_prefix lit' s' else None
  | _ :: _, [] => None
  end.
Definition opt_char (c : Z) (s : str) : str :=
  match s with x :: r => if x =? c then r else s | [] => s end.
(* (\d+)\b at the head of s *)
Definition number_then_boundary (s : str) : option str :=
  let '(d, t) := span_digits s in
  match d with
  | [] => None
  | _ => match t with
         | [] => Some d
         | c :: _ => if is_word c then None else Some d
         end
  end.
Definition m_contig (s : str) : option str :=      (* onti?g?(\d+)\b anchored at the head of s *)
  match strip_prefix [111; 110; 116] s with
  | Some r => number_then_boundary (opt_char 103 (opt_char 105 r))
  | None => None
  end.
Definition m_scaffold (s : str) : option str :=    (* caff?o?l?d?(\d+)\b *)
  match strip_prefix [99; 97; 102] s with
  | Some r => number_then_boundary (opt_char 100 (opt_char 108 (opt_char 111 (opt_char 102 r))))
  | None => None
  end.
Fixpoint search (m : str -> option str) (s : str) : option str :=
  match m s with
  | Some d => Some d
  | None => match s with [] => None | _ :: r => search m r end
  end.
Fixpoint search_c (prev_word : bool) (s : str) : option str :=   (* \bc(\d+)\b *)
  match s with
  | [] => None
  | c :: r =>
    match (if negb prev_word && (c =? 99) then number_then_boundary r else None) with
    | Some d => Some d
    | None => search_c (is_word c) r
    end
  end.
Definition int_of_digits (d : str) : Z := fold_left (fun acc c => acc * 10 + (c - 48)) d 0.
(* the contig number _shorten_ids uses for idstring, given the record's 1-based index *)
Definition contig_no (idx : Z) (s : str) : Z :=
  match search m_contig s with
  | Some d => int_of_digits d
  | None =>
    match search m_scaffold s with
    | Some d => int_of_digits d
    | None =>
      match search_c false s with
      | Some d => int_of_digits d
      | None => idx
      end
    end
  end.

(* _shorten_ids (cn is the contig number function):
     number = f"{contig_no:05d}"
     if len(number) > 12: return f"{idstring[:14]}.."
     return f"c{number}_{idstring[:12 - len(number)]}.."
   (repair of finding F26 contig_number_overflow: the part kept of the old name shrinks as the number
   grows, and a number of 13 or more digits, for which 16 characters have no room, is dropped) *)
Definition shorten (cn : Z -> str -> Z) (idx : Z) (s : str) : str :=
  let number := pad5 (cn idx s) in
  if 12 <? zlen number then firstn 14 s ++ [46; 46]
  else [99] ++ number ++ [95] ++ firstn (12 - length number) s ++ [46; 46].

(* ---------- generate_unique_id ---------- *)
(* the while loop can run at most len(existing_ids) times *)
Fixpoint gen_loop (fuel : nat) (prefix : str) (set : list str) (counter : Z) : res (str * Z) :=
  let name := prefix ++ [95] ++ str_of_int counter in
  if smem name set then
    match fuel with
    | O => Err E_Fuel
    | S f => gen_loop f prefix set (counter + 1)
    end
  else Ok (name, counter).
Definition generate_unique_id (prefix : str) (set : list str) (start max_length : Z) : res (str * Z) :=
  do (name, counter) <- gen_loop (length set) prefix set start;
  if (0 <? max_length) && (max_length <? zlen name) then Err E_Runtime else Ok (name, counter).
Definition gen_name (prefix : str) (set : list str) (max_length : Z) : res str :=
  do (name, _) <- generate_unique_id prefix set 0 max_length; Ok name.

(* ---------- fix_record_name_id ---------- *)
Record rec := mkRec { r_id : str; r_name : str; r_orig : option str; r_idx : Z }.

Definition is_illegal (c : Z) : bool := zmem c Tables_gen.c16_illegal_chars.
(* for char in s: if char in illegal: s = s.replace(char, "") *)
Definition strip (s : str) : str := filter (fun c => negb (is_illegal c)) s.
Definition truthy (o : option str) : bool := match o with Some (_ :: _) => true | _ => false end.
Definition count_char (c : Z) (s : str) : Z := zlen (filter (Z.eqb c) s).
Fixpoint before_char (c : Z) (s : str) : str :=           (* s.partition(c)[0] *)
  match s with [] => [] | x :: r => if x =? c then [] else x :: before_char c r end.
Definition second_last_is (c : Z) (s : str) : bool :=     (* s[-2] == c *)
  match nth_error (rev s) 1 with Some x => x =? c | None => false end.

(* the block guarded by len(record.id) > 16 and not allow_long_names: new id and updated id set *)
Definition fix_long_id (cn : Z -> str -> Z) (allow : bool) (idx : Z) (old_id : str) (set : list str)
  : res (str * list str) :=
  if (16 <? zlen old_id) && negb allow then
    let head := before_char 46 old_id in
    if second_last_is 46 old_id && (count_char 46 old_id =? 1) && (zlen head <=? 16)
       && negb (smem head set)
    then Ok (head, sadd head set)
    else
      let short := shorten cn idx old_id in
      do name <- (if negb (smem short set) then Ok short
                  else gen_name (firstn 12 old_id) set 16);
      Ok (name, sadd name set)
  else Ok (old_id, set).

(* removal of the illegal characters from the id and the renaming on a collision *)
Definition fix_strip_id (allow : bool) (id1 : str) (set1 : list str) : res (str * list str) :=
  let stripped := strip id1 in
  if negb (str_eqb stripped id1) then
    do id' <- (if smem stripped set1
               then gen_name (if allow then stripped else firstn 12 stripped) set1
                             (if allow then -1 else 16)
               else Ok stripped);
    Ok (id', sadd id' set1)
  else Ok (stripped, set1).

Definition fix_name (cn : Z -> str -> Z) (allow : bool) (idx : Z) (name : str) : str :=
  strip (if (16 <? zlen name) && negb allow then shorten cn idx name else name).

Definition fix_orig (orig : option str) (old_id new_id : str) : option str :=
  if negb (truthy orig) && negb (str_eqb old_id new_id) then Some old_id else orig.

Definition fix_record_name_id (cn : Z -> str -> Z) (allow : bool) (r : rec) (set : list str)
  : res (rec * list str) :=
  let old_id := r_id r in
  do (id1, set1) <- fix_long_id cn allow (r_idx r) old_id set;
  let name2 := fix_name cn allow (r_idx r) (r_name r) in
  do (id2, set2) <- fix_strip_id allow id1 set1;
  Ok (mkRec id2 name2 (fix_orig (r_orig r) old_id id2) (r_idx r), set2).

(* ---------- pre_process_sequences, identifier part ---------- *)
Fixpoint dedup_loop (recs : list rec) (set : list str) : res (list rec * list str) :=
  match recs with
  | [] => Ok ([], set)
  | r :: rest =>
    do r' <- (if smem (r_id r) set
              then do n <- gen_name (r_id r) set (-1);
                   Ok (mkRec n (r_name r) (Some (r_id r)) (r_idx r))
              else Ok r);
    do (rs, set') <- dedup_loop rest (sadd (r_id r') set);
    Ok (r' :: rs, set')
  end.

Definition dedup_pass (recs : list rec) : res (list rec * list str) :=
  let all := set_of (map r_id recs) in
  if zlen all <? zlen recs then
    do (recs', set) <- dedup_loop recs [];
    if zlen set =? zlen recs then Ok (recs', set) else Err E_Assert
  else Ok (recs, all).

Fixpoint fix_all (cn : Z -> str -> Z) (allow : bool) (recs : list rec) (set : list str)
  : res (list rec) :=
  match recs with
  | [] => Ok []
  | r :: rest =>
    do (r', set') <- fix_record_name_id cn allow r set;
    do rs <- fix_all cn allow rest set';
    Ok (r' :: rs)
  end.

Fixpoint mk_inputs (i : Z) (l : list (str * str)) : list rec :=   (* record_index = i + 1 *)
  match l with
  | [] => []
  | (id, name) :: rest => mkRec id name None i :: mk_inputs (i + 1) rest
  end.

Definition nonempty_id (r : rec) : bool := match r_id r with [] => false | _ => true end.

Definition pipeline (cn : Z -> str -> Z) (allow : bool) (l : list (str * str)) : res (list rec) :=
  do (recs, set) <- dedup_pass (mk_inputs 1 l);
  do outs <- fix_all cn allow recs set;
  if forallb nonempty_id outs then Ok outs else Err E_Input.

(* ---------- _sanitise_id_value ---------- *)
Definition is_gene_illegal (c : Z) : bool := zmem c Tables_gen.c16_sanitise_chars.
Definition sanitise_id_value (s : str) : str := map (fun c => if is_gene_illegal c then 95 else c) s.

(* ---------- Record.add_cds_feature: duplicate name / location handling ----------
   names and location keys are abstract integers (the harness numbers the strings injectively);
   [c_overlaps] is the value of "overlaps the existing CDS of that name or a gene of that name",
   [c_renamed] the name locus_tag + "_" + crc32(location), both supplied by the caller. *)
Record cds := mkCds { c_loc : Z; c_name : Z; c_has_locus : bool; c_overlaps : bool; c_renamed : Z }.
Record cstate := mkState { s_locs : list Z; s_names : list Z }.

Definition add_cds_feature (st : cstate) (c : cds) : res cstate :=
  if zmem (c_loc c) (s_locs st) then Err E_SecmetInvalid else
  if zmem (c_name c) (s_names st) then
    if negb (c_has_locus c) then Err E_SecmetInvalid else
    if negb (c_overlaps c) then Err E_SecmetInvalid else
    if zmem (c_renamed c) (s_names st) then Err E_Assert else
    Ok (mkState (s_locs st ++ [c_loc c]) (s_names st ++ [c_renamed c]))
  else Ok (mkState (s_locs st ++ [c_loc c]) (s_names st ++ [c_name c])).

(* a history of calls; a rejected call leaves the state as it was.  Returns the final state and the
   outcome of every call (0 = added, otherwise the error kind) *)
Fixpoint add_all (st : cstate) (cs : list cds) : cstate * list Z :=
  match cs with
  | [] => (st, [])
  | c :: rest =>
    match add_cds_feature st c with
    | Ok st' => let '(f, o) := add_all st' rest in (f, 0 :: o)
    | Err k => let '(f, o) := add_all st rest in (f, k :: o)
    end
  end.

(* ---------- the property as a decidable test on an output (evaluated on the implementation's) ---------- *)
(* characters the property calls unusable in file names or GenBank headers: fixed here, independent of
   the source table (Theorems.C16_table_covers_unsafe re-checks that the table still covers them) *)
Definition spec_unsafe : list Z :=
  [32; 33; 34; 35; 36; 37; 38; 39; 40; 41; 42; 43; 44; 47; 58; 59; 61; 62; 63; 64; 91; 93; 94; 96; 123; 124; 125].
(* characters that break external programs when they occur in a gene identifier (_sanitise_id_value) *)
Definition spec_gene_unsafe : list Z :=
  [9; 10; 13; 32; 33; 34; 35; 36; 37; 38; 39; 40; 41; 42; 43; 44; 47; 58; 59; 61; 62; 63; 64; 91; 93; 94; 96; 123; 124; 125].
Definition safe_str (s : str) : bool := forallb (fun c => negb (zmem c spec_unsafe)) s.
Fixpoint distinct (l : list str) : bool :=
  match l with [] => true | x :: r => negb (smem x r) && distinct r end.
Definition opt_str_eqb (a b : option str) : bool :=
  match a, b with
  | None, None => true
  | Some x, Some y => str_eqb x y
  | _, _ => false
  end.
Fixpoint orig_ok (ins : list (str * str)) (outs : list rec) : bool :=
  match ins, outs with
  | [], [] => true
  | (id, _) :: ins', o :: outs' =>
    (str_eqb (r_id o) id || opt_str_eqb (r_orig o) (Some id))
    && orig_ok ins' outs'
  | _, _ => false
  end.
Definition spec_unique (outs : list rec) : bool := distinct (map r_id outs).
Definition spec_safe (outs : list rec) : bool :=
  forallb (fun o => safe_str (r_id o) && safe_str (r_name o)) outs.
Definition spec_short (allow : bool) (outs : list rec) : bool :=
  allow || forallb (fun o => (zlen (r_id o) <=? 16) && (zlen (r_name o) <=? 16)) outs.
Definition spec_named (outs : list rec) : bool := forallb nonempty_id outs.
(* [all; unique; safe; short; original id; named] *)
Definition spec_flags (allow : bool) (ins : list (str * str)) (outs : list rec) : list Z :=
  let u := spec_unique outs in let s := spec_safe outs in let h := spec_short allow outs in
  let o := orig_ok ins outs in let n := spec_named outs in
  eBool (u && s && h && o && n) ++ eBool u ++ eBool s ++ eBool h ++ eBool o ++ eBool n.
Definition spec_ok (allow : bool) (ins : list (str * str)) (outs : list rec) : bool :=
  spec_unique outs && spec_safe outs && spec_short allow outs && orig_ok ins outs && spec_named outs.

(* add_cds_feature history: names and locations of the record stay pairwise distinct *)
Fixpoint zdistinct (l : list Z) : bool :=
  match l with [] => true | x :: r => negb (zmem x r) && zdistinct r end.

(* ---------- encoding ---------- *)
Definition dStr : dec str := dList dZ.
Definition eStr (s : str) : list Z := eList (fun c => [c]) s.
Definition eRec (r : rec) : list Z := eStr (r_id r) ++ eStr (r_name r) ++ eOpt eStr (r_orig r).
Definition eRecs (l : list rec) : list Z := eList eRec l.
Definition dRecOut : dec rec := fun l =>
  match dPair (dPair dStr dStr) (dOpt dStr) l with
  | Some ((i, n, o), r) => Some (mkRec i n o 0, r)
  | None => None
  end.
Definition dCds : dec cds := fun l =>
  match l with
  | a :: b :: c :: d :: e :: r => Some (mkCds a b (negb (c =? 0)) (negb (d =? 0)) e, r)
  | _ => None
  end.
Definition eState (st : cstate) : list Z := eList (fun x => [x]) (s_locs st) ++ eList (fun x => [x]) (s_names st).

Definition run_C16 (fn : Z) (l : list Z) : list Z :=
  match fn with
  | 1 => (* pre_process_sequences: allow_long_headers, [(id, name)] -> [(id, name, original_id)] *)
    match dPair dBool (dList (dPair dStr dStr)) l with
    | Some ((allow, ins), []) => eRes eRecs (pipeline contig_no allow ins)
    | _ => bad_input
    end
  | 2 => (* generate_unique_id: prefix, existing ids, start, max_length -> (name, counter) *)
    match dPair (dPair dStr (dList dStr)) (dPair dZ dZ) l with
    | Some ((prefix, set, (start, maxlen)), []) =>
      eRes (fun p => eStr (fst p) ++ [snd p]) (generate_unique_id prefix (set_of set) start maxlen)
    | _ => bad_input
    end
  | 3 => (* fix_record_name_id: allow, index, id, name, original_id, existing ids
            -> (id, name, original_id), size of the set, is the new id in the set *)
    match dPair (dPair dBool dZ) (dPair (dPair dStr dStr) (dPair (dOpt dStr) (dList dStr))) l with
    | Some ((allow, idx, ((id, name), (orig, set))), []) =>
      eRes (fun p => eRec (fst p) ++ [zlen (snd p)] ++ eBool (smem (r_id (fst p)) (snd p)))
           (fix_record_name_id contig_no allow (mkRec id name orig idx) (set_of set))
    | _ => bad_input
    end
  | 4 => (* _sanitise_id_value *)
    match dStr l with
    | Some (s, []) => eStr (sanitise_id_value s)
    | _ => bad_input
    end
  | 5 => (* a history of add_cds_feature calls -> final locations, names, outcome per call *)
    match dList dCds l with
    | Some (cs, []) => let '(st, outcomes) := add_all (mkState [] []) cs in
                       eState st ++ eList (fun x => [x]) outcomes
    | _ => bad_input
    end
  | 6 => (* the contig number of _shorten_ids: index, string *)
    match dPair dZ dStr l with
    | Some ((idx, s), []) => [contig_no idx s]
    | _ => bad_input
    end
  | 11 => (* the property evaluated on an output of fn 1: payload of fn 1 ++ eRes output *)
    match dPair dBool (dList (dPair dStr dStr)) l with
    | Some ((allow, ins), 0 :: rest) =>
      match dList dRecOut rest with
      | Some (outs, []) => spec_flags allow ins outs
      | _ => bad_input
      end
    | Some (_, [1; _]) => [1; 1; 1; 1; 1; 1]     (* the run was rejected *)
    | _ => bad_input
    end
  | 15 => (* the property evaluated on an output of fn 5 *)
    match dList dCds l with
    | Some (cs, rest) =>
      match dPair (dList dZ) (dList dZ) rest with
      | Some ((locs, names), _) => eBool (zdistinct locs && zdistinct names)
      | None => bad_input
      end
    | _ => bad_input
    end
  | _ => bad_input
  end.
