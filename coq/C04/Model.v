(* C04: the location algebra.  The model itself lives in Common/Loc.v (shared with other
   properties); this file is the flat-encoding entry point used by the correspondence run. *)
From ASV Require Export Loc.

(* ====================================================================================
   Decidable set-of-bases specifications.  They are evaluated on the IMPLEMENTATION's output
   (function id + 100, payload = input ++ implementation output) and are independent of how the
   code computes its answer: membership of a base in a location (in_loc) is the only primitive.
   Verdict: [1] satisfied, [0; clause] violated, [2] precondition of the clause not met.
   Soundness lemmas (boolean -> Prop) are in Proofs.v.
   ==================================================================================== *)
Fixpoint zrange_n (a : Z) (n : nat) : list Z :=
  match n with O => [] | S m => a :: zrange_n (a + 1) m end.
(* the integers a, a+1, ..., a+n-1 *)
Definition zrange (a n : Z) : list Z := zrange_n a (Z.to_nat n).

Definition wf_partb (N : Z) (p : part) : bool := (0 <=? ps p) && (ps p <? pe p) && (pe p <=? N).
Definition wf_locb (N : Z) (l : loc) : bool := nonempty l && forallb (wf_partb N) l.
Definition proper_partb (p : part) : bool := ps p <? pe p.
Definition proper_locb (l : loc) : bool := nonempty l && forallb proper_partb l.
Fixpoint disjoint_parts (l : list part) : bool :=
  match l with
  | [] => true
  | p :: r => forallb (fun q => (pe p <=? ps q) || (pe q <=? ps p)) r && disjoint_parts r
  end.
Definition uniform_strand (l : loc) : bool :=
  match l with [] => true | p :: r => forallb (fun q => pst q =? pst p) r end.

(* two locations share a base *)
Definition share_base (a b : loc) : bool :=
  existsb (fun x => in_loc x a && in_loc x b) (zrange (lstart a) (lend a - lstart a)).

Definition ok_overlap (a b : loc) (out : bool) : bool := Bool.eqb out (share_base a b).

(* every part of the inner lies inside one part of the outer *)
Definition partwise_inside (o i : loc) : bool :=
  forallb (fun ip => existsb (fun op => (ps op <=? ps ip) && (pe ip <=? pe op)) o) i.
Definition ok_contains (o i : loc) (out : bool) : bool := Bool.eqb out (partwise_inside o i).

(* number of bases strictly between two disjoint intervals: on a line, and the other way round *)
Definition gap (a b : part) : Z := if pe a <=? ps b then ps b - pe a else ps a - pe b.
Definition wrap_gap (N : Z) (a b : part) : Z :=
  if pe a <=? ps b then ps a + N - pe b else ps b + N - pe a.
Definition between_ring (N : Z) (p q : part) : Z := Z.min (wrap_gap N p q) (gap p q).
Definition between (w : option Z) (p q : part) : Z :=
  match w with Some N => if N =? 0 then gap p q else between_ring N p q | None => gap p q end.
Definition expected_dist (a b : loc) (w : option Z) : Z :=
  if share_base a b then 0 else lmin (flat_map (fun p => map (fun q => between w p q) b) a).
Definition pre_dist (a b : loc) (w : option Z) : bool :=
  match w with
  | Some N => if N =? 0 then proper_locb a && proper_locb b else wf_locb N a && wf_locb N b
  | None => proper_locb a && proper_locb b
  end.
Definition ok_dist (a b : loc) (w : option Z) (out : Z) : bool := out =? expected_dist a b w.

(* ---- connect ---- *)
Definition all_parts (locs : list loc) : list part := concat locs.
(* a span on a ring of length N: one part, or [s,N) then [0,e) with e <= s *)
Definition is_spanb (N : Z) (r : loc) : bool :=
  match r with
  | [p] => wf_partb N p
  | [p; q] => wf_partb N p && wf_partb N q && (pe p =? N) && (ps q =? 0) && (pe q <=? ps p)
  | _ => false
  end.
(* an input that is itself a span, its two parts in transcription order *)
Definition is_span_input (N : Z) (l : loc) : bool :=
  match l with
  | [p; q] => uniform_strand l && (if pst p =? -1 then is_spanb N [q; p] else is_spanb N [p; q])
  | _ => is_spanb N l
  end.
Definition covers_part (r : loc) (p : part) : bool :=
  forallb (fun x => in_loc x r) (zrange (ps p) (pe p - ps p)).
Definition covers_all (r : loc) (locs : list loc) : bool := forallb (covers_part r) (all_parts locs).
(* base x lies on the arc of the given length starting at s *)
Definition on_arc (N s len x : Z) : bool := (x - s) mod N <? len.
Definition input_bases (N : Z) (locs : list loc) : list Z :=
  filter (fun x => existsb (in_loc x) locs) (zrange 0 N).
(* no arc shorter than the result and shorter than half the record covers every input base *)
Definition no_shorter_arc (N : Z) (r : loc) (locs : list loc) : bool :=
  let L := Z.min (llen r - 1) ((N - 1) / 2) in
  if L <? 1 then true else
  let U := input_bases N locs in
  forallb (fun s => negb (forallb (on_arc N s L) U)) (zrange 0 N).
Definition shortest_bound := 400.

(* 0 = satisfied, otherwise the number of the violated clause *)
Definition check_connect_line (locs : list loc) (out : res loc) : Z :=
  match out with
  | Err _ => if existsb bridges locs then -1 else 1
  | Ok [h] =>
    if negb (ps h <? pe h) then 2
    else if negb (ps h =? lmin (map ps (all_parts locs))) then 3
    else if negb (pe h =? lmax (map pe (all_parts locs))) then 3
    else 0
  | Ok _ => 2
  end.
Definition check_connect_ring (N : Z) (locs : list loc) (out : res loc) : Z :=
  match out with
  | Err _ => if forallb (is_span_input N) locs then 1 else -1
  | Ok r =>
    if negb (is_spanb N r) then 2
    else if negb (covers_all r locs) then 4
    else if negb (existsb bridges locs) &&
            negb (llen r <=? lmax (map pe (all_parts locs)) - lmin (map ps (all_parts locs))) then 5
    else if forallb (is_span_input N) locs && (N <=? shortest_bound) && negb (no_shorter_arc N r locs) then 6
    else 0
  end.
Definition pre_connect (locs : list loc) (w : option Z) : bool :=
  nonempty locs &&
  match w with
  | Some N => (0 <? N) && forallb (wf_locb N) locs
  | None => forallb proper_locb locs
  end.
Definition check_connect (locs : list loc) (w : option Z) (out : res loc) : Z :=
  match w with Some N => check_connect_ring N locs out | None => check_connect_line locs out end.

(* ---- offset ---- *)
Definition same_strands (r a : loc) : bool :=
  match a with [] => true | p :: _ => forallb (fun q => pst q =? pst p) r end.
Definition rotated_bases (N off : Z) (r a : loc) : bool :=
  forallb (fun x => Bool.eqb (in_loc ((x + off) mod N) r) (in_loc x a)) (zrange 0 N).
Definition check_offset_ring (N : Z) (a : loc) (off : Z) (out : res loc) : Z :=
  match out with
  | Err _ => 1
  | Ok r =>
    if negb (wf_locb N r) then 2
    else if negb (disjoint_parts r) then 3
    else if negb (llen r =? llen a) then 4
    else if negb (same_strands r a) then 5
    else if negb (rotated_bases N off r a) then 6
    else 0
  end.
Definition check_offset_line (a : loc) (off : Z) (out : res loc) : Z :=
  match out with
  | Err _ => if lstart a + off <? 0 then -1 else 1
  | Ok r => if loc_eqb r (map (fun p => mkPart (ps p + off) (pe p + off) (pst p)) a) then 0 else 6
  end.
Definition pre_offset (a : loc) (w : option Z) : bool :=
  disjoint_parts a && uniform_strand a &&
  match w with Some N => (0 <? N) && wf_locb N a | None => proper_locb a && (0 <=? lstart a) end.
Definition check_offset (a : loc) (off : Z) (w : option Z) (out : res loc) : Z :=
  match w with Some N => check_offset_ring N a off out | None => check_offset_line a off out end.

(* ---- extend ---- *)
(* the two ends in transcription order *)
Definition start_pt (a : loc) : Z :=
  match (if lstrand a =? -1 then rev a else a) with p :: _ => ps p | [] => 0 end.
Definition end_pt (a : loc) : Z :=
  match last_opt (if lstrand a =? -1 then rev a else a) with Some p => pe p | None => 0 end.
Definition within_line (a : loc) (d x : Z) : bool :=
  ((start_pt a - d <=? x) && (x <? start_pt a)) || ((end_pt a <=? x) && (x <? end_pt a + d)).
Definition within_ring (N : Z) (a : loc) (d x : Z) : bool :=
  existsb (fun k => within_line a d (x + k * N)) [-2; -1; 0; 1; 2].
Definition extended_bases (N : Z) (circ : bool) (a : loc) (d : Z) (r : loc) : bool :=
  forallb (fun x => Bool.eqb (in_loc x r)
                      (in_loc x a || (if circ then within_ring N a d x else within_line a d x)))
          (zrange 0 N).
Definition check_extend (a : loc) (d N : Z) (circ : bool) (out : res loc) : Z :=
  match out with
  | Err _ => 1
  | Ok r =>
    if negb (wf_locb N r) then 2
    else if negb (extended_bases N circ a d r) then 6
    else if negb (disjoint_parts r) then 3
    else 0
  end.
(* exon order is a possible transcription order: not running over the origin at all, or (on a
   ring) splitting into one ordered run before and one after it *)
Definition well_ordered (circ : bool) (a : loc) : bool :=
  if bridges a then circ && match split_bridging a with Ok _ => true | Err _ => false end else true.
Definition pre_extend (a : loc) (d N : Z) (circ : bool) : bool :=
  (0 <? N) && wf_locb N a && disjoint_parts a && uniform_strand a && well_ordered circ a &&
  (0 <=? d) && (d <=? N + 1).

(* recorded finding class of Record.extend_location on a circular record with a multi-part input:
   1 (extend_near_full) = the input itself runs over the origin and the two extensions reach each
       other round the ring (span + 2*distance > N): result parts may overlap.
   The former class 2 (extend_lower_lost: input not over the origin, both ends pass the record
   edges and meet, the lower extension was dropped) was repaired in the code: nothing is
   suppressed for it any more. *)
Definition extend_class (a : loc) (d N : Z) (circ : bool) : Z :=
  if negb (circ && is_compound a) then 0
  else if end_pt a <=? start_pt a
       then (if N <? end_pt a - start_pt a + N + 2 * d then 1 else 0)
       else 0.

Definition verdict (pre : bool) (clause : Z) : list Z :=
  if negb pre then [2] else if clause =? 0 then [1] else if clause <? 0 then [2] else [0; clause].
Definition verdict_b (pre ok : bool) : list Z := verdict pre (if ok then 0 else 1).

(* implementation outputs: a bare value, or [-1; kind] for an exception (total functions);
   0 :: value or [1; kind] (functions that may raise) *)
Definition dResLoc (l : list Z) : option (res loc) :=
  match l with
  | 0 :: r => match dLoc r with Some (x, []) => Some (Ok x) | _ => None end
  | [1; k] => Some (Err k)
  | _ => None
  end.

(* ---------- Feature.__lt__ / CDSCollection.__lt__ against a location ---------- *)
(* get_comparator: (start, len) resp. (start, -len); for an origin-spanning location the start is
   min(start) - max(end) of the part before the origin (negative) *)
Definition cmp_key (len_sign : Z) (l : loc) : res (Z * Z) :=
  if bridges l then
    do lu <- split_bridging l;
    let '(_, head) := lu in
    Ok (lmin (map ps head) - lmax (map pe head), len_sign * llen l)
  else Ok (lstart l, len_sign * llen l).
Definition pair_lt (a b : Z * Z) : bool :=
  (fst a <? fst b) || ((fst a =? fst b) && (snd a <? snd b)).
Definition pair_eqb (a b : Z * Z) : bool := (fst a =? fst b) && (snd a =? snd b).
(* is_source: the feature on the left is of type "source" *)
Definition feature_lt (is_source : bool) (a b : loc) : res bool :=
  do ka <- cmp_key 1 a;
  do kb <- cmp_key 1 b;
  if pair_eqb ka kb && is_source then Ok true else Ok (pair_lt ka kb).
Definition collection_lt (a b : loc) : res bool :=
  if contains a b && negb (contains b a) then Ok true else
  (* the same the other way round (repair of finding F53 collection_lt_not_asymmetric) *)
  if contains b a && negb (contains a b) then Ok false else
  do ka <- cmp_key (-1) a;
  do kb <- cmp_key (-1) b;
  Ok (pair_lt ka kb).
Definition eResBool (r : res bool) : list Z := eRes eBool r.
(* specification of the pair of answers (a < b, b < a) of CDSCollection.__lt__: never both *)
Definition ok_asym (x y : bool) : bool := negb (x && y).

Definition dWrap : dec (option Z) := dOpt dZ.

Definition run_C04 (fn : Z) (l : list Z) : list Z :=
  match fn with
  | 1 => match dPair dLoc dLoc l with Some ((a, b), []) => eBool (overlap a b) | _ => bad_input end
  | 2 => match dPair dLoc dLoc l with Some ((a, b), []) => eBool (contains a b) | _ => bad_input end
  | 3 => match dPair (dPair dLoc dLoc) dWrap l with
         | Some ((a, b, w), []) => [dist a b w] | _ => bad_input end
  | 4 => match dLoc l with Some (a, []) => eBool (bridges a) | _ => bad_input end
  | 5 => match dLoc l with
         | Some (a, []) => eRes (fun lu => eLoc (fst lu) ++ eLoc (snd lu)) (split_bridging a)
         | _ => bad_input end
  | 6 => match dPair (dList dLoc) dWrap l with
         | Some ((locs, w), []) => eRes eLoc (connect_locations locs w) | _ => bad_input end
  | 7 => match dPair (dPair dLoc dZ) dWrap l with
         | Some ((a, off, w), []) => eRes eLoc (offset_location a off w) | _ => bad_input end
  | 8 => match dPair (dPair dLoc dZ) (dPair dZ dBool) l with
         | Some ((a, d, (m, c)), []) => eRes eLoc (extend_location a d m c) | _ => bad_input end
  | 9 => match dLoc l with Some (a, []) => eLoc (make_forwards a) | _ => bad_input end
  | 10 => match dLoc l with Some (a, []) => eLoc (remove_redundant_exons a) | _ => bad_input end
  | 11 => match dPair (dPair dLoc dZ) dBool l with
          | Some ((a, s, u), []) => eRes eLoc (frameshift a s u) | _ => bad_input end
  | 12 => match dPair (dPair dLoc dLoc) dBool l with
          | Some ((a, b, src), []) => eResBool (feature_lt src a b) | _ => bad_input end
  | 13 => match dPair dLoc dLoc l with
          | Some ((a, b), []) => eResBool (collection_lt a b) | _ => bad_input end
  (* ---- specifications evaluated on the implementation's output ---- *)
  | 101 => match dPair dLoc dLoc l with
           | Some ((a, b), [o]) => verdict_b true (ok_overlap a b (negb (o =? 0)))
           | Some ((a, b), [-1; _]) => [0; 1]
           | _ => bad_input end
  | 102 => match dPair dLoc dLoc l with
           | Some ((a, b), [o]) => verdict_b true (ok_contains a b (negb (o =? 0)))
           | Some ((a, b), [-1; _]) => [0; 1]
           | _ => bad_input end
  | 103 => match dPair (dPair dLoc dLoc) dWrap l with
           | Some ((a, b, w), [o]) => verdict_b (pre_dist a b w) (ok_dist a b w o)
           | Some ((a, b, w), [-1; _]) => verdict_b (pre_dist a b w) false
           | _ => bad_input end
  | 106 => match dPair (dList dLoc) dWrap l with
           | Some ((locs, w), o) =>
             match dResLoc o with
             | Some out => verdict (pre_connect locs w) (check_connect locs w out)
             | None => bad_input end
           | _ => bad_input end
  | 107 => match dPair (dPair dLoc dZ) dWrap l with
           | Some ((a, off, w), o) =>
             match dResLoc o with
             | Some out => verdict (pre_offset a w) (check_offset a off w out)
             | None => bad_input end
           | _ => bad_input end
  | 108 => match dPair (dPair dLoc dZ) (dPair dZ dBool) l with
           | Some ((a, d, (m, c)), o) =>
             match dResLoc o with
             | Some out => verdict (pre_extend a d m c) (check_extend a d m c out)
             | None => bad_input end
           | _ => bad_input end
  (* payload = a ++ b ++ implementation output of a < b ++ implementation output of b < a *)
  | 113 => match dPair dLoc dLoc l with
           | Some ((a, b), [0; x; 0; y]) => verdict_b true (ok_asym (negb (x =? 0)) (negb (y =? 0)))
           | Some ((a, b), _) => [2]
           | _ => bad_input end
  | 208 => match dPair (dPair dLoc dZ) (dPair dZ dBool) l with
           | Some ((a, d, (m, c)), _) => [extend_class a d m c]
           | _ => bad_input end
  | _ => bad_input
  end.
