(* C04: the location algebra.  The model itself lives in Common/Loc.v (shared with other
   properties); this file is the flat-encoding entry point used by the correspondence run. *)
From ASV Require Export Loc.

(* ====================================================================================
   The text codec: str(location) (Biopython's SimpleLocation/CompoundLocation.__str__ for the three
   position kinds Exact / Before "<" / After ">", the four strand spellings "(+)" "(-)" "(?)" ""
   and "operator{part, part}") and secmet.locations.location_from_string (parse_position,
   parse_single_location, the "{" test, data[:-1].split("{", 1), split(", ")); strings are lists of
   character codes.  This is the same transcription as in C10/Model.v (which imports this file, so it
   cannot be imported from here); functions 14 / 15 of the entry point.
   ==================================================================================== *)
Module Text.
Definition E_Unsupported := 98.

Definition str := list Z.
Definition str_eqb (a b : str) : bool := list_eqb Z.eqb a b.
Definition cmem (c : Z) (s : str) : bool := existsb (Z.eqb c) s.

(* ---------- str(int) / int(str) ---------- *)
Fixpoint dig (fuel : nat) (n : Z) : str :=
  match fuel with
  | O => []
  | S f => if n <? 10 then [48 + n] else dig f (n / 10) ++ [48 + n mod 10]
  end.
Definition digits (n : Z) : str := dig (S (Z.to_nat (Z.log2 n))) n.        (* n >= 0 *)
Definition str_of_int (n : Z) : str := if n <? 0 then 45 :: digits (- n) else digits n.

Definition is_digit (c : Z) : bool := (48 <=? c) && (c <=? 57).
Definition int_of_digits (d : str) : Z := fold_left (fun acc c => acc * 10 + (c - 48)) d 0.
Definition parse_nat (s : str) : res Z :=
  match s with
  | [] => Err E_Value
  | _ => if forallb is_digit s then Ok (int_of_digits s) else Err E_Value
  end.
Definition parse_int (s : str) : res Z :=
  match s with
  | c :: r => if c =? 45 then (do n <- parse_nat r; Ok (- n))
              else if c =? 43 then parse_nat r
              else parse_nat s
  | [] => Err E_Value
  end.

(* ---------- textual locations ---------- *)
(* position kind: 0 ExactPosition, 1 BeforePosition "<", 2 AfterPosition ">" *)
Record tpos := mkTpos { tk : Z; tv : Z }.
(* strand: 1, -1, 0 ("?"), 2 (None) *)
Record tpart := mkTpart { tps : tpos; tpe : tpos; tst : Z }.
Inductive tloc := TSingle (p : tpart) | TCompound (op : str) (parts : list tpart).

Definition pos_str (p : tpos) : str :=
  (if tk p =? 1 then [60] else if tk p =? 2 then [62] else []) ++ str_of_int (tv p).
Definition strand_str (st : Z) : str :=
  if st =? 2 then [] else if st =? 1 then [40; 43; 41] else if st =? -1 then [40; 45; 41] else [40; 63; 41].
Definition part_str (p : tpart) : str :=
  [91] ++ pos_str (tps p) ++ [58] ++ pos_str (tpe p) ++ [93] ++ strand_str (tst p).
Fixpoint join (sep : str) (l : list str) : str :=
  match l with
  | [] => []
  | x :: r => match r with [] => x | _ => x ++ sep ++ join sep r end
  end.
Definition loc_str (l : tloc) : str :=
  match l with
  | TSingle p => part_str p
  | TCompound op ps => op ++ [123] ++ join [44; 32] (map part_str ps) ++ [125]
  end.

(* s.split(c, 1): (text before the first c, Some (text after it)) or (s, None) *)
Fixpoint split1 (c : Z) (s : str) : str * option str :=
  match s with
  | [] => ([], None)
  | x :: r => if x =? c then ([], Some r) else let '(a, b) := split1 c r in (x :: a, b)
  end.
Definition cons_head (x : Z) (l : list str) : list str :=
  match l with h :: t => (x :: h) :: t | [] => [[x]] end.
(* s.split(", ") *)
Fixpoint split_cs (s : str) : list str :=
  match s with
  | [] => [[]]
  | x :: r =>
    match r with
    | y :: r' => if (x =? 44) && (y =? 32) then [] :: split_cs r' else cons_head x (split_cs r)
    | [] => cons_head x (split_cs r)
    end
  end.

(* "UnknownPosition()" *)
Definition unknown_position_text : str :=
  [85; 110; 107; 110; 111; 119; 110; 80; 111; 115; 105; 116; 105; 111; 110; 40; 41].

Definition parse_position (s : str) : res tpos :=
  match s with
  | [] => Err E_Index
  | c :: r =>
    if c =? 60 then (do n <- parse_int r; Ok (mkTpos 1 n))
    else if c =? 62 then (do n <- parse_int r; Ok (mkTpos 2 n))
    else if str_eqb s unknown_position_text then Err E_Unsupported
    else (do n <- parse_int s; Ok (mkTpos 0 n))
  end.

(* string[-2] *)
Definition char_m2 (s : str) : res Z :=
  match rev s with _ :: c :: _ => Ok c | _ => Err E_Index end.

Definition parse_single (s : str) : res tpart :=
  do st <- parse_position (fst (split1 58 (tl s)));
  do en <- match snd (split1 58 s) with
           | None => Err E_Index
           | Some r => parse_position (fst (split1 93 r))
           end;
  do c <- char_m2 s;
  do strand <- (if c =? 45 then Ok (-1) else if c =? 43 then Ok 1 else if c =? 63 then Ok 0
                else if negb (cmem 40 s) then Ok 2 else Err E_Value);
  (* SimpleLocation.__init__: start > end raises ValueError *)
  if tv en <? tv st then Err E_Value else Ok (mkTpart st en strand).

Definition loc_from_string (data : str) : res tloc :=
  if negb (cmem 123 data) then (do p <- parse_single data; Ok (TSingle p)) else
  match split1 123 (removelast data) with
  | (op, Some combined) =>
    do ps <- mapM parse_single (split_cs combined);
    match ps with
    | _ :: _ :: _ => Ok (TCompound op ps)
    | _ => Err E_Value                       (* CompoundLocation needs two parts *)
    end
  | (_, None) => Err E_Value                 (* unpacking a one-element split *)
  end.

(* the locations of Common/Loc.v (exact positions) as text locations and back *)
Definition join_text : str := [106; 111; 105; 110].
Definition tpart_of (p : part) : tpart := mkTpart (mkTpos 0 (ps p)) (mkTpos 0 (pe p)) (pst p).
Definition part_of (t : tpart) : part := mkPart (tv (tps t)) (tv (tpe t)) (tst t).
Definition tloc_of_loc (l : loc) : tloc :=
  match l with
  | [p] => TSingle (tpart_of p)
  | _ => TCompound join_text (map tpart_of l)
  end.
Definition loc_of_tloc (t : tloc) : loc :=
  match t with TSingle p => [part_of p] | TCompound _ ps => map part_of ps end.

(* flat encoding *)
Definition dStr : dec str := dList dZ.
Definition eStr (s : str) : list Z := eList (fun c => [c]) s.

Definition dTpos : dec tpos := fun l => match l with a :: b :: r => Some (mkTpos a b, r) | _ => None end.
Definition dTpart : dec tpart := fun l =>
  match dPair dTpos dTpos l with
  | Some ((a, b), st :: r) => Some (mkTpart a b st, r)
  | _ => None
  end.
(* tloc ::= 0 part | 1 operator parts *)
Definition dTloc : dec tloc := fun l =>
  match l with
  | 0 :: r => match dTpart r with Some (p, r') => Some (TSingle p, r') | None => None end
  | 1 :: r => match dPair dStr (dList dTpart) r with
              | Some ((op, ps), r') => Some (TCompound op ps, r') | None => None end
  | _ => None
  end.
Definition eTpos (p : tpos) : list Z := [tk p; tv p].
Definition eTpart (p : tpart) : list Z := eTpos (tps p) ++ eTpos (tpe p) ++ [tst p].
Definition eTloc (t : tloc) : list Z :=
  match t with
  | TSingle p => 0 :: eTpart p
  | TCompound op ps => 1 :: eStr op ++ eList eTpart ps
  end.
End Text.

(* ====================================================================================
   Decidable set-of-bases specifications.  They are evaluated on the IMPLEMENTATION's output
   (function id + 100, payload = input ++ implementation output) and are independent of how the
   code computes its answer: membership of a base in a location (in_loc) is the only primitive.
   Verdict: [1] satisfied, [0; clause] violated, [2] precondition of the clause not met.
   Soundness lemmas (boolean -> Prop) are in Proofs.v.
   ==================================================================================== *)
Fixpoint zrange_n (a : Z) (n : nat) : list Z :=
  match n with O => [] | S m => a :: zrange_n (a + 1) m end.
(* the integers a, a+1, ..., a+n-1 *)
Definition zrange (a n : Z) : list Z := zrange_n a (Z.to_nat n).

Definition wf_partb (N : Z) (p : part) : bool := (0 <=? ps p) && (ps p <? pe p) && (pe p <=? N).
Definition wf_locb (N : Z) (l : loc) : bool := nonempty l && forallb (wf_partb N) l.
Definition proper_partb (p : part) : bool := ps p <? pe p.
Definition proper_locb (l : loc) : bool := nonempty l && forallb proper_partb l.
Fixpoint disjoint_parts (l : list part) : bool :=
  match l with
  | [] => true
  | p :: r => forallb (fun q => (pe p <=? ps q) || (pe q <=? ps p)) r && disjoint_parts r
  end.
Definition uniform_strand (l : loc) : bool :=
  match l with [] => true | p :: r => forallb (fun q => pst q =? pst p) r end.

(* two locations share a base *)
Definition share_base (a b : loc) : bool :=
  existsb (fun x => in_loc x a && in_loc x b) (zrange (lstart a) (lend a - lstart a)).

Definition ok_overlap (a b : loc) (out : bool) : bool := Bool.eqb out (share_base a b).

(* every part of the inner lies inside one part of the outer *)
Definition partwise_inside (o i : loc) : bool :=
  forallb (fun ip => existsb (fun op => (ps op <=? ps ip) && (pe ip <=? pe op)) o) i.
Definition ok_contains (o i : loc) (out : bool) : bool := Bool.eqb out (partwise_inside o i).

(* number of bases strictly between two disjoint intervals: on a line, and the other way round *)
Definition gap (a b : part) : Z := if pe a <=? ps b then ps b - pe a else ps a - pe b.
Definition wrap_gap (N : Z) (a b : part) : Z :=
  if pe a <=? ps b then ps a + N - pe b else ps b + N - pe a.
Definition between_ring (N : Z) (p q : part) : Z := Z.min (wrap_gap N p q) (gap p q).
Definition between (w : option Z) (p q : part) : Z :=
  match w with Some N => if N =? 0 then gap p q else between_ring N p q | None => gap p q end.
Definition expected_dist (a b : loc) (w : option Z) : Z :=
  if share_base a b then 0 else lmin (flat_map (fun p => map (fun q => between w p q) b) a).
Definition pre_dist (a b : loc) (w : option Z) : bool :=
  match w with
  | Some N => if N =? 0 then proper_locb a && proper_locb b else wf_locb N a && wf_locb N b
  | None => proper_locb a && proper_locb b
  end.
Definition ok_dist (a b : loc) (w : option Z) (out : Z) : bool := out =? expected_dist a b w.

(* ---- connect ---- *)
Definition all_parts (locs : list loc) : list part := concat locs.
(* a span on a ring of length N: one part, or [s,N) then [0,e) with e <= s *)
Definition is_spanb (N : Z) (r : loc) : bool :=
  match r with
  | [p] => wf_partb N p
  | [p; q] => wf_partb N p && wf_partb N q && (pe p =? N) && (ps q =? 0) && (pe q <=? ps p)
  | _ => false
  end.
(* an input that is itself a span, its two parts in transcription order *)
Definition is_span_input (N : Z) (l : loc) : bool :=
  match l with
  | [p; q] => uniform_strand l && (if pst p =? -1 then is_spanb N [q; p] else is_spanb N [p; q])
  | _ => is_spanb N l
  end.
Definition covers_part (r : loc) (p : part) : bool :=
  forallb (fun x => in_loc x r) (zrange (ps p) (pe p - ps p)).
Definition covers_all (r : loc) (locs : list loc) : bool := forallb (covers_part r) (all_parts locs).
(* base x lies on the arc of the given length starting at s *)
Definition on_arc (N s len x : Z) : bool := (x - s) mod N <? len.
Definition input_bases (N : Z) (locs : list loc) : list Z :=
  filter (fun x => existsb (in_loc x) locs) (zrange 0 N).
(* no arc shorter than the result and shorter than half the record covers every input base *)
Definition no_shorter_arc (N : Z) (r : loc) (locs : list loc) : bool :=
  let L := Z.min (llen r - 1) ((N - 1) / 2) in
  if L <? 1 then true else
  let U := input_bases N locs in
  forallb (fun s => negb (forallb (on_arc N s L) U)) (zrange 0 N).
Definition shortest_bound := 400.

(* 0 = satisfied, otherwise the number of the violated clause *)
Definition check_connect_line (locs : list loc) (out : res loc) : Z :=
  match out with
  | Err _ => if existsb bridges locs then -1 else 1
  | Ok [h] =>
    if negb (ps h <? pe h) then 2
    else if negb (ps h =? lmin (map ps (all_parts locs))) then 3
    else if negb (pe h =? lmax (map pe (all_parts locs))) then 3
    else 0
  | Ok _ => 2
  end.
Definition check_connect_ring (N : Z) (locs : list loc) (out : res loc) : Z :=
  match out with
  | Err _ => if forallb (is_span_input N) locs then 1 else -1
  | Ok r =>
    if negb (is_spanb N r) then 2
    else if negb (covers_all r locs) then 4
    else if negb (existsb bridges locs) &&
            negb (llen r <=? lmax (map pe (all_parts locs)) - lmin (map ps (all_parts locs))) then 5
    else if forallb (is_span_input N) locs && (N <=? shortest_bound) && negb (no_shorter_arc N r locs) then 6
    else 0
  end.
Definition pre_connect (locs : list loc) (w : option Z) : bool :=
  nonempty locs &&
  match w with
  | Some N => (0 <? N) && forallb (wf_locb N) locs
  | None => forallb proper_locb locs
  end.
Definition check_connect (locs : list loc) (w : option Z) (out : res loc) : Z :=
  match w with Some N => check_connect_ring N locs out | None => check_connect_line locs out end.

(* ---- offset ---- *)
Definition same_strands (r a : loc) : bool :=
  match a with [] => true | p :: _ => forallb (fun q => pst q =? pst p) r end.
Definition rotated_bases (N off : Z) (r a : loc) : bool :=
  forallb (fun x => Bool.eqb (in_loc ((x + off) mod N) r) (in_loc x a)) (zrange 0 N).
(* the bases of a location in TRANSCRIPTION order: exons as listed, each exon ascending, or descending on the
   reverse strand (a location is an ordered list of exons; location_bridges_origin, split_origin_bridging_location,
   connect_locations, Record.extend_location and the sort key of Feature.__lt__ all read the order) *)
Fixpoint zdown_n (b : Z) (n : nat) : list Z :=
  match n with O => [] | S m => (b - 1) :: zdown_n (b - 1) m end.
(* the integers b-1, b-2, ..., b-n *)
Definition zdown (b n : Z) : list Z := zdown_n b (Z.to_nat n).
Definition tx_bases (l : loc) : list Z :=
  if lstrand l =? -1 then flat_map (fun p => zdown (pe p) (pe p - ps p)) l
  else flat_map (fun p => zrange (ps p) (pe p - ps p)) l.
(* "shifting by an offset rotates the same bases": also as a sequence - the k-th transcribed base of the result is
   the rotated k-th transcribed base of the input (insensitive to where exon boundaries between touching exons are) *)
Definition rotated_tx (N off : Z) (r a : loc) : bool :=
  list_eqb Z.eqb (tx_bases r) (map (fun x => (x + off) mod N) (tx_bases a)).
Definition check_offset_ring (N : Z) (a : loc) (off : Z) (out : res loc) : Z :=
  match out with
  | Err _ => 1
  | Ok r =>
    if negb (wf_locb N r) then 2
    else if negb (disjoint_parts r) then 3
    else if negb (llen r =? llen a) then 4
    else if negb (same_strands r a) then 5
    else if negb (rotated_bases N off r a) then 6
    else if negb (llen a =? N) && negb (rotated_tx N off r a) then 7   (* a whole-record location is returned as it is *)
    else 0
  end.
Definition check_offset_line (a : loc) (off : Z) (out : res loc) : Z :=
  match out with
  | Err _ => if lstart a + off <? 0 then -1 else 1
  | Ok r => if loc_eqb r (map (fun p => mkPart (ps p + off) (pe p + off) (pst p)) a) then 0 else 6
  end.
Definition pre_offset (a : loc) (w : option Z) : bool :=
  disjoint_parts a && uniform_strand a &&
  match w with Some N => (0 <? N) && wf_locb N a | None => proper_locb a && (0 <=? lstart a) end.
Definition check_offset (a : loc) (off : Z) (w : option Z) (out : res loc) : Z :=
  match w with Some N => check_offset_ring N a off out | None => check_offset_line a off out end.

(* ---- extend ---- *)
(* the two ends in transcription order *)
Definition start_pt (a : loc) : Z :=
  match (if lstrand a =? -1 then rev a else a) with p :: _ => ps p | [] => 0 end.
Definition end_pt (a : loc) : Z :=
  match last_opt (if lstrand a =? -1 then rev a else a) with Some p => pe p | None => 0 end.
Definition within_line (a : loc) (d x : Z) : bool :=
  ((start_pt a - d <=? x) && (x <? start_pt a)) || ((end_pt a <=? x) && (x <? end_pt a + d)).
Definition within_ring (N : Z) (a : loc) (d x : Z) : bool :=
  existsb (fun k => within_line a d (x + k * N)) [-2; -1; 0; 1; 2].
Definition extended_bases (N : Z) (circ : bool) (a : loc) (d : Z) (r : loc) : bool :=
  forallb (fun x => Bool.eqb (in_loc x r)
                      (in_loc x a || (if circ then within_ring N a d x else within_line a d x)))
          (zrange 0 N).
Definition check_extend (a : loc) (d N : Z) (circ : bool) (out : res loc) : Z :=
  match out with
  | Err _ => 1
  | Ok r =>
    if negb (wf_locb N r) then 2
    else if negb (extended_bases N circ a d r) then 6
    else if negb (disjoint_parts r) then 3
    else 0
  end.
(* exon order is a possible transcription order: not running over the origin at all, or (on a
   ring) splitting into one ordered run before and one after it *)
Definition well_ordered (circ : bool) (a : loc) : bool :=
  if bridges a then circ && match split_bridging a with Ok _ => true | Err _ => false end else true.
Definition pre_extend (a : loc) (d N : Z) (circ : bool) : bool :=
  (0 <? N) && wf_locb N a && disjoint_parts a && uniform_strand a && well_ordered circ a &&
  (0 <=? d) && (d <=? N + 1).

(* recorded finding class of Record.extend_location on a circular record with a multi-part input:
   1 (extend_near_full) = the input itself runs over the origin and the two extensions reach each
       other round the ring (span + 2*distance > N): result parts may overlap.
   The former class 2 (extend_lower_lost: input not over the origin, both ends pass the record
   edges and meet, the lower extension was dropped) was repaired in the code: nothing is
   suppressed for it any more. *)
Definition extend_class (a : loc) (d N : Z) (circ : bool) : Z :=
  if negb (circ && is_compound a) then 0
  else if end_pt a <=? start_pt a
       then (if N <? end_pt a - start_pt a + N + 2 * d then 1 else 0)
       else 0.

(* The former finding classes of offset_location with a wrap point (fn 207: offset_merge_drops_part - the merge loop
   rebuilt a merged part from the last RAW part and lost the first part of a run of three touching parts;
   offset_reverse_wrap_order - a reverse-strand exon split at the wrap point was emitted in forward order and
   touching reverse-strand parts were merged in listed order) were repaired in the code: nothing is classified or
   suppressed for offset_location any more; Common/Loc.v transcribes the repaired loop and specification 107
   (check_offset_ring, all seven clauses) holds for the model on every input (Proofs.v offset_ring_spec). *)

(* ---- location_bridges_origin(location, allow_reversing=True): the answer and the argument afterwards ----
   documented: a reverse-strand location in the alternate exon order whose reversed order is a valid
   non-bridging one is left reversed and reported as not bridging; otherwise "swap back so it will be reported
   as it was".  Clause 1: reported as bridging but the argument was changed; 2: the argument was changed into
   something else than its reversal, or the reversal is not a valid order; 3: the answer itself *)
Definition check_bridges_reversing (a : loc) (ans : bool) (a' : loc) : Z :=
  if negb (Bool.eqb ans (bridges a && negb ((lstrand a =? -1) && negb (bridges (rev a))))) then 3
  else if ans then (if loc_eqb a' a then 0 else 1)
  else if loc_eqb a' a then 0
  else if loc_eqb a' (rev a) && (lstrand a =? -1) && negb (bridges a') then 0 else 2.

Definition verdict (pre : bool) (clause : Z) : list Z :=
  if negb pre then [2] else if clause =? 0 then [1] else if clause <? 0 then [2] else [0; clause].
Definition verdict_b (pre ok : bool) : list Z := verdict pre (if ok then 0 else 1).

(* implementation outputs: a bare value, or [-1; kind] for an exception (total functions);
   0 :: value or [1; kind] (functions that may raise) *)
Definition dResLoc (l : list Z) : option (res loc) :=
  match l with
  | 0 :: r => match dLoc r with Some (x, []) => Some (Ok x) | _ => None end
  | [1; k] => Some (Err k)
  | _ => None
  end.

(* ---------- Feature.__lt__ / CDSCollection.__lt__ against a location ---------- *)
(* get_comparator: (start, len) resp. (start, -len); for an origin-spanning location the start is
   min(start) - max(end) of the part before the origin (negative) *)
Definition cmp_key (len_sign : Z) (l : loc) : res (Z * Z) :=
  if bridges l then
    do lu <- split_bridging l;
    let '(_, head) := lu in
    Ok (lmin (map ps head) - lmax (map pe head), len_sign * llen l)
  else Ok (lstart l, len_sign * llen l).
Definition pair_lt (a b : Z * Z) : bool :=
  (fst a <? fst b) || ((fst a =? fst b) && (snd a <? snd b)).
Definition pair_eqb (a b : Z * Z) : bool := (fst a =? fst b) && (snd a =? snd b).
(* is_source: the feature on the left is of type "source" *)
Definition feature_lt (is_source : bool) (a b : loc) : res bool :=
  do ka <- cmp_key 1 a;
  do kb <- cmp_key 1 b;
  if pair_eqb ka kb && is_source then Ok true else Ok (pair_lt ka kb).
Definition collection_lt (a b : loc) : res bool :=
  if contains a b && negb (contains b a) then Ok true else
  (* the same the other way round (repair of finding F53 collection_lt_not_asymmetric) *)
  if contains b a && negb (contains a b) then Ok false else
  do ka <- cmp_key (-1) a;
  do kb <- cmp_key (-1) b;
  Ok (pair_lt ka kb).
Definition eResBool (r : res bool) : list Z := eRes eBool r.
(* specification of the pair of answers (a < b, b < a) of CDSCollection.__lt__: never both *)
Definition ok_asym (x y : bool) : bool := negb (x && y).

Definition dWrap : dec (option Z) := dOpt dZ.

(* ---------- location_bridges_origin(location, allow_reversing=True) ----------
   the answer and the state of the ARGUMENT afterwards: a reverse-strand location whose exons are in
   the alternate order is reversed in place and stays reversed when that order is a valid one *)
Definition bridges_reversing (l : loc) : bool * loc :=
  if is_compound l then
    let st := lstrand l in
    if (st =? 1) || (st =? -1) then
      if check_order st l then
        if (st =? -1) && negb (check_order st (rev l)) then (false, rev l) else (true, l)
      else (false, l)
    else (negb (sorted_le (map ps l)), l)
  else (false, l).

(* ---------- build_location_from_others ---------- *)
(* CompoundLocation(parts) raises ValueError with fewer than two parts *)
Definition mkCompound (parts : list part) : res loc :=
  if is_compound parts then Ok parts else Err E_Value.
Definition build_step (acc : res loc) (l : loc) : res loc :=
  do location <- acc;
  if lstart l =? lend location then
    match last_opt location, l with
    | Some lastp, firstp :: rest =>
      do new_sub <- mkFL (ps lastp) (pe firstp) (lstrand location);
      if is_compound location || is_compound l
      then mkCompound (removelast location ++ [new_sub] ++ rest)
      else Ok [new_sub]
    | _, _ => Err E_Index
    end
  else mkCompound (location ++ l).
Definition build_location_from_others (locs : list loc) : res loc :=
  match locs with
  | [] => Err E_Value
  | l :: r => fold_left build_step r (Ok l)
  end.

(* wrap point used by the Record helpers: len(record) when circular (and wrapping not disabled) *)
Definition record_wrap (n : Z) (circ : bool) : option Z := if circ then Some n else None.

(* specification 116: the implementation's results for several orders of the same argument list
   (each result as a length-prefixed list) are all the same *)
Fixpoint all_same (l : list (list Z)) : bool :=
  match l with
  | a :: ((b :: _) as t) => list_eqb Z.eqb a b && all_same t
  | _ => true
  end.

Definition run_call (fn : Z) (l : list Z) : list Z :=
  match fn with
  | 1 => match dPair dLoc dLoc l with Some ((a, b), []) => eBool (overlap a b) | _ => bad_input end
  | 2 => match dPair dLoc dLoc l with Some ((a, b), []) => eBool (contains a b) | _ => bad_input end
  | 3 => match dPair (dPair dLoc dLoc) dWrap l with
         | Some ((a, b, w), []) => [dist a b w] | _ => bad_input end
  | 4 => match dLoc l with Some (a, []) => eBool (bridges a) | _ => bad_input end
  | 5 => match dLoc l with
         | Some (a, []) => eRes (fun lu => eLoc (fst lu) ++ eLoc (snd lu)) (split_bridging a)
         | _ => bad_input end
  | 6 => match dPair (dList dLoc) dWrap l with
         | Some ((locs, w), []) => eRes eLoc (connect_locations locs w) | _ => bad_input end
  | 7 => match dPair (dPair dLoc dZ) dWrap l with
         | Some ((a, off, w), []) => eRes eLoc (offset_location a off w) | _ => bad_input end
  | 8 => match dPair (dPair dLoc dZ) (dPair dZ dBool) l with
         | Some ((a, d, (m, c)), []) => eRes eLoc (extend_location a d m c) | _ => bad_input end
  | 9 => match dLoc l with Some (a, []) => eLoc (make_forwards a) | _ => bad_input end
  | 10 => match dLoc l with Some (a, []) => eLoc (remove_redundant_exons a) | _ => bad_input end
  | 11 => match dPair (dPair dLoc dZ) dBool l with
          | Some ((a, s, u), []) => eRes eLoc (frameshift a s u) | _ => bad_input end
  | 12 => match dPair (dPair dLoc dLoc) dBool l with
          | Some ((a, b, src), []) => eResBool (feature_lt src a b) | _ => bad_input end
  | 13 => match dPair dLoc dLoc l with
          | Some ((a, b), []) => eResBool (collection_lt a b) | _ => bad_input end
  | 14 => match Text.dStr l with
          | Some (s, []) => eRes Text.eTloc (Text.loc_from_string s) | _ => bad_input end
  | 15 => match Text.dTloc l with
          | Some (t, []) => Text.eStr (Text.loc_str t) | _ => bad_input end
  | 16 => match dList dLoc l with
          | Some (locs, []) => eRes eLoc (build_location_from_others locs) | _ => bad_input end
  (* Record.connect_locations(locations, disable_wrapping=...) on a record of length n *)
  | 17 => match dPair (dList dLoc) (dPair dZ (dPair dBool dBool)) l with
          | Some ((locs, (n, (circ, off))), []) =>
            eRes eLoc (connect_locations locs (record_wrap n (circ && negb off)))
          | _ => bad_input end
  (* Record.get_distance_between_locations on a record of length n *)
  | 18 => match dPair (dPair dLoc dLoc) (dPair dZ dBool) l with
          | Some ((a, b, (n, circ)), []) => [dist a b (record_wrap n circ)] | _ => bad_input end
  | 19 => match dLoc l with
          | Some (a, []) => let '(b, a') := bridges_reversing a in eBool b ++ eLoc a'
          | _ => bad_input end
  (* ---- specifications evaluated on the implementation's output ---- *)
  | 101 => match dPair dLoc dLoc l with
           | Some ((a, b), [o]) => verdict_b true (ok_overlap a b (negb (o =? 0)))
           | Some ((a, b), [-1; _]) => [0; 1]
           | _ => bad_input end
  | 102 => match dPair dLoc dLoc l with
           | Some ((a, b), [o]) => verdict_b true (ok_contains a b (negb (o =? 0)))
           | Some ((a, b), [-1; _]) => [0; 1]
           | _ => bad_input end
  | 103 => match dPair (dPair dLoc dLoc) dWrap l with
           | Some ((a, b, w), [o]) => verdict_b (pre_dist a b w) (ok_dist a b w o)
           | Some ((a, b, w), [-1; _]) => verdict_b (pre_dist a b w) false
           | _ => bad_input end
  | 106 => match dPair (dList dLoc) dWrap l with
           | Some ((locs, w), o) =>
             match dResLoc o with
             | Some out => verdict (pre_connect locs w) (check_connect locs w out)
             | None => bad_input end
           | _ => bad_input end
  | 107 => match dPair (dPair dLoc dZ) dWrap l with
           | Some ((a, off, w), o) =>
             match dResLoc o with
             | Some out => verdict (pre_offset a w) (check_offset a off w out)
             | None => bad_input end
           | _ => bad_input end
  | 108 => match dPair (dPair dLoc dZ) (dPair dZ dBool) l with
           | Some ((a, d, (m, c)), o) =>
             match dResLoc o with
             | Some out => verdict (pre_extend a d m c) (check_extend a d m c out)
             | None => bad_input end
           | _ => bad_input end
  (* payload = a ++ b ++ implementation output of a < b ++ implementation output of b < a *)
  | 113 => match dPair dLoc dLoc l with
           | Some ((a, b), [0; x; 0; y]) => verdict_b true (ok_asym (negb (x =? 0)) (negb (y =? 0)))
           | Some ((a, b), _) => [2]
           | _ => bad_input end
  (* payload = locs ++ wrap ++ the implementation's results for several argument orders *)
  | 116 => match dPair (dList dLoc) dWrap l with
           | Some ((locs, w), o) =>
             match dList (dList dZ) o with
             | Some (outs, []) => verdict (nonempty locs) (if all_same outs then 0 else 7)
             | _ => bad_input end
           | _ => bad_input end
  (* payload = a ++ implementation output (answer ++ the argument afterwards) *)
  | 119 => match dLoc l with
           | Some (a, o :: r) =>
             match dLoc r with
             | Some (a', []) => verdict true (check_bridges_reversing a (negb (o =? 0)) a')
             | _ => match o :: r with [-1; _] => [0; 3] | _ => bad_input end
             end
           | _ => bad_input end
  | 208 => match dPair (dPair dLoc dZ) (dPair dZ dBool) l with
           | Some ((a, d, (m, c)), _) => [extend_class a d m c]
           | _ => bad_input end
  | _ => bad_input
  end.

(* ====================================================================================
   Histories.  The Python objects are mutable and the functions above are called again and again
   in one process; the property speaks about every call, whatever happened before.  A history is
   a list of operations on a heap of location objects:
     HCall fn payload   - the call `fn` on arguments freshly built from `payload`; the argument
                          locations and the returned location(s) become new heap objects;
     HMut kind addr x   - one of the in-place mutators of the code base applied to the object at
                          `addr`: 1 parts.reverse(); 2 location.strand = x (every part);
                          3 parts.sort(key=start); 4 location_bridges_origin(.., allow_reversing=True);
                          5 parts[0].strand = x; 6 the object is passed as an argument to function x
                          (which must leave it as it is).  Output: the object afterwards.
   run_history threads the heap through the operations and returns every operation's output.
   ==================================================================================== *)
Inductive hop := HCall (fn : Z) (payload : list Z) | HMut (kind addr x : Z).

Definition locs_of_res (r : res loc) : list loc := match r with Ok x => [x] | Err _ => [] end.

(* the location objects of a call: arguments in order, then the result *)
Definition call_objects (fn : Z) (l : list Z) : list loc :=
  match fn with
  | 1 | 2 | 3 | 12 | 13 | 18 =>
    match dPair dLoc dLoc l with Some ((a, b), _) => [a; b] | None => [] end
  | 4 | 5 => match dLoc l with Some (a, _) => [a] | None => [] end
  | 6 => match dPair (dList dLoc) dWrap l with
         | Some ((locs, w), _) => locs ++ locs_of_res (connect_locations locs w) | None => [] end
  | 7 => match dPair (dPair dLoc dZ) dWrap l with
         | Some ((a, off, w), _) => a :: locs_of_res (offset_location a off w) | None => [] end
  | 8 => match dPair (dPair dLoc dZ) (dPair dZ dBool) l with
         | Some ((a, d, (m, c)), _) => a :: locs_of_res (extend_location a d m c) | None => [] end
  | 9 => match dLoc l with Some (a, _) => [a; make_forwards a] | None => [] end
  | 10 => match dLoc l with Some (a, _) => [a; remove_redundant_exons a] | None => [] end
  | 11 => match dPair (dPair dLoc dZ) dBool l with
          | Some ((a, s, u), _) => a :: locs_of_res (frameshift a s u) | None => [] end
  | 14 => match Text.dStr l with
          | Some (s, _) => match Text.loc_from_string s with
                           | Ok t => [Text.loc_of_tloc t] | Err _ => [] end
          | None => [] end
  | 15 => match Text.dTloc l with Some (t, _) => [Text.loc_of_tloc t] | None => [] end
  | 16 => match dList dLoc l with
          | Some (locs, _) => locs ++ locs_of_res (build_location_from_others locs) | None => [] end
  | 17 => match dPair (dList dLoc) (dPair dZ (dPair dBool dBool)) l with
          | Some ((locs, (n, (circ, off))), _) =>
            locs ++ locs_of_res (connect_locations locs (record_wrap n (circ && negb off)))
          | None => [] end
  | 19 => match dLoc l with Some (a, _) => [snd (bridges_reversing a)] | None => [] end
  | _ => []
  end.

Definition set_strand (x : Z) (l : loc) : loc := map (fun p => mkPart (ps p) (pe p) x) l.
Definition set_strand_first (x : Z) (l : loc) : loc :=
  match l with p :: r => mkPart (ps p) (pe p) x :: r | [] => [] end.
Definition start_lt (a b : part) : bool := ps a <? ps b.

Definition mutate (kind x : Z) (l : loc) : loc * list Z :=
  match kind with
  | 1 => (rev l, eLoc (rev l))
  | 2 => (set_strand x l, eLoc (set_strand x l))
  | 3 => (sort_by start_lt l, eLoc (sort_by start_lt l))
  | 4 => let '(b, l') := bridges_reversing l in (l', eBool b ++ eLoc l')
  | 5 => (set_strand_first x l, eLoc (set_strand_first x l))
  | 6 => (l, eLoc l)
  | _ => (l, bad_input)
  end.

Fixpoint set_nth {A} (n : nat) (x : A) (l : list A) : list A :=
  match l, n with
  | [], _ => []
  | _ :: r, O => x :: r
  | y :: r, S m => y :: set_nth m x r
  end.

Definition no_object : list Z := [-998].

Definition hstep (h : list loc) (o : hop) : list loc * list Z :=
  match o with
  | HCall fn p => (h ++ call_objects fn p, run_call fn p)
  | HMut k a x =>
    if a <? 0 then (h, no_object) else
    match nth_error h (Z.to_nat a) with
    | Some l => let '(l', out) := mutate k x l in (set_nth (Z.to_nat a) l' h, out)
    | None => (h, no_object)
    end
  end.

Fixpoint run_history (h : list loc) (ops : list hop) : list (list Z) :=
  match ops with
  | [] => []
  | o :: r => let '(h', out) := hstep h o in out :: run_history h' r
  end.

Definition dHop : dec hop := fun l =>
  match l with
  | 0 :: fn :: r => match dList dZ r with Some (p, r') => Some (HCall fn p, r') | None => None end
  | 1 :: k :: a :: x :: r => Some (HMut k a x, r)
  | _ => None
  end.
(* the flat encoding of an operation (what the harness writes) *)
Definition eHop (o : hop) : list Z :=
  match o with
  | HCall fn p => 0 :: fn :: zlen p :: p
  | HMut k a x => [1; k; a; x]
  end.

Definition eOuts (outs : list (list Z)) : list Z := eList (fun o => zlen o :: o) outs.

(* function 300: a whole history; every other id: one call *)
Definition run_C04 (fn : Z) (l : list Z) : list Z :=
  match fn with
  | 300 => match dList dHop l with
           | Some (ops, []) => eOuts (run_history [] ops)
           | _ => bad_input end
  | _ => run_call fn l
  end.
