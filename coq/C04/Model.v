(* C04: the location algebra.  The model itself lives in Common/Loc.v (shared with other
   properties); this file is the flat-encoding entry point used by the correspondence run. *)
From ASV Require Export Loc.

Definition dWrap : dec (option Z) := dOpt dZ.

Definition run_C04 (fn : Z) (l : list Z) : list Z :=
  match fn with
  | 1 => match dPair dLoc dLoc l with Some ((a, b), []) => eBool (overlap a b) | _ => bad_input end
  | 2 => match dPair dLoc dLoc l with Some ((a, b), []) => eBool (contains a b) | _ => bad_input end
  | 3 => match dPair (dPair dLoc dLoc) dWrap l with
         | Some ((a, b, w), []) => [dist a b w] | _ => bad_input end
  | 4 => match dLoc l with Some (a, []) => eBool (bridges a) | _ => bad_input end
  | 5 => match dLoc l with
         | Some (a, []) => eRes (fun lu => eLoc (fst lu) ++ eLoc (snd lu)) (split_bridging a)
         | _ => bad_input end
  | 6 => match dPair (dList dLoc) dWrap l with
         | Some ((locs, w), []) => eRes eLoc (connect_locations locs w) | _ => bad_input end
  | 7 => match dPair (dPair dLoc dZ) dWrap l with
         | Some ((a, off, w), []) => eRes eLoc (offset_location a off w) | _ => bad_input end
  | 8 => match dPair (dPair dLoc dZ) (dPair dZ dBool) l with
         | Some ((a, d, (m, c)), []) => eRes eLoc (extend_location a d m c) | _ => bad_input end
  | 9 => match dLoc l with Some (a, []) => eLoc (make_forwards a) | _ => bad_input end
  | 10 => match dLoc l with Some (a, []) => eLoc (remove_redundant_exons a) | _ => bad_input end
  | 11 => match dPair (dPair dLoc dZ) dBool l with
          | Some ((a, s, u), []) => eRes eLoc (frameshift a s u) | _ => bad_input end
  | _ => bad_input
  end.
