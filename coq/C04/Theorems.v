(* C04 - property theorems only: statement, [exact lemma], Print Assumptions; Examples show the
   hypotheses are satisfiable (non-vacuity). *)
From ASV Require Import Loc.
From ASV.C04 Require Import Model Proofs.
From Coq Require Import Sorting.Permutation.

(* two locations overlap iff they share a base *)
Theorem C04_overlap : forall a b, Forall wf_part a -> Forall wf_part b ->
  (overlap a b = true <-> exists x, base_of a x /\ base_of b x).
Proof. exact overlap_spec. Qed.
Print Assumptions C04_overlap.

Theorem C04_overlap_sym : forall a b, Forall wf_part a -> Forall wf_part b ->
  overlap a b = overlap b a.
Proof. exact overlap_sym. Qed.
Print Assumptions C04_overlap_sym.

(* one contains another iff each part of the inner lies inside one part of the outer *)
Theorem C04_contains : forall o i, Forall wf_part i ->
  (contains o i = true <->
   Forall (fun ip => exists op, In op o /\ ps op <= ps ip /\ pe ip <= pe op) i).
Proof. exact contains_spec. Qed.
Print Assumptions C04_contains.

Theorem C04_contains_bases : forall o i, Forall wf_part i -> contains o i = true ->
  forall x, base_of i x -> base_of o x.
Proof. exact contains_bases. Qed.
Print Assumptions C04_contains_bases.

(* distance: 0 when overlapping ... *)
Theorem C04_distance_overlap : forall a b w, overlap a b = true -> dist a b w = 0.
Proof. exact dist_overlap. Qed.
Print Assumptions C04_distance_overlap.

(* ... otherwise, on a line, the number of bases between the closest pair of parts ... *)
Theorem C04_distance_line : forall a b,
  a <> [] -> b <> [] -> Forall wf_part a -> Forall wf_part b -> overlap a b = false ->
  (forall p q, In p a -> In q b -> dist a b None <= gap p q) /\
  (exists p q, In p a /\ In q b /\ dist a b None = gap p q).
Proof. exact dist_line_spec. Qed.
Print Assumptions C04_distance_line.

(* ... and on a ring the shorter way round, for every record length *)
Theorem C04_distance_ring : forall N a b,
  a <> [] -> b <> [] -> Forall wf_part a -> Forall wf_part b -> in_record N a -> in_record N b ->
  overlap a b = false ->
  (forall p q, In p a -> In q b -> dist a b (Some N) <= between_ring N p q) /\
  (exists p q, In p a /\ In q b /\ dist a b (Some N) = between_ring N p q).
Proof. exact dist_ring_spec. Qed.
Print Assumptions C04_distance_ring.

Theorem C04_distance_part_sym : forall a b w, pdist a b w = pdist b a w.
Proof. exact pdist_sym. Qed.
Print Assumptions C04_distance_part_sym.

(* connecting single-part locations on a line gives the exact hull *)
Theorem C04_connect_line : forall locs, locs <> [] -> simple_locs locs -> Forall wf_loc locs ->
  exists h, connect_locations locs None = Ok [h] /\
    ps h = lmin (map lstart locs) /\ pe h = lmax (map lend locs) /\
    pst h = common_strand locs /\ ps h < pe h.
Proof. exact connect_line_simple. Qed.
Print Assumptions C04_connect_line.

Theorem C04_connect_line_covers : forall locs h, simple_locs locs ->
  ps h = lmin (map lstart locs) -> pe h = lmax (map lend locs) ->
  forall l x, In l locs -> base_of l x -> ps h <= x < pe h.
Proof. exact hull_covers. Qed.
Print Assumptions C04_connect_line_covers.

Theorem C04_connect_line_tight : forall locs h, locs <> [] -> simple_locs locs ->
  ps h = lmin (map lstart locs) -> pe h = lmax (map lend locs) ->
  (exists l p, In l locs /\ l = [p] /\ ps p = ps h) /\
  (exists l p, In l locs /\ l = [p] /\ pe p = pe h).
Proof. exact hull_tight. Qed.
Print Assumptions C04_connect_line_tight.

(* shifting a single part on a ring rotates the same bases, keeps length and strand, and the
   result is well-formed (at most two parts, inside the record) - for every record length and
   every offset of less than one full turn *)
Theorem C04_offset_simple_ring : forall N p off,
  0 < N -> 0 <= ps p -> ps p < pe p -> pe p <= N -> - N < off < N -> pe p - ps p < N ->
  exists r, offset_location [p] off (Some N) = Ok r /\
    llen r = pe p - ps p /\
    Forall (fun q => pst q = pst p /\ 0 <= ps q /\ ps q < pe q /\ pe q <= N) r /\
    (forall y, 0 <= y < N -> (base_of r y <-> exists x, ps p <= x < pe p /\ y = rot N off x)).
Proof. exact offset_simple_ring. Qed.
Print Assumptions C04_offset_simple_ring.

(* extending a single part on a linear record covers exactly the bases within the distance, clipped *)
Theorem C04_extend_line_simple : forall p d N,
  0 <= ps p -> ps p < pe p -> pe p <= N -> 0 <= d ->
  extend_location [p] d N false = Ok [mkPart (Z.max 0 (ps p - d)) (Z.min (pe p + d) N) (pst p)].
Proof. exact extend_line_simple. Qed.
Print Assumptions C04_extend_line_simple.

(* ---- connect_locations on a ring ---- *)
(* one single-part input: returned unchanged *)
Theorem C04_connect_ring_single : forall N p, 0 < N -> ps p < pe p ->
  connect_locations [[p]] (Some N) = Ok [p].
Proof. exact connect_ring_single. Qed.
Print Assumptions C04_connect_ring_single.

(* two single-part inputs, any strands, any record length: the result in closed form - the
   origin-spanning arc [later start, N) + [0, earlier end) when the gap between them exceeds
   N/2, else the linear hull - and it does not depend on the argument order *)
Theorem C04_connect_ring_pair_partial : forall N a b, 0 < N -> wfp N a -> wfp N b -> ordered a b ->
  connect_locations [[a]; [b]] (Some N) = Ok (pair_result N a b) /\
  connect_locations [[b]; [a]] (Some N) = Ok (pair_result N a b).
Proof. exact connect_ring_pair. Qed.
Print Assumptions C04_connect_ring_pair_partial.

(* that result is a well-formed span, covers every base of both inputs, is never longer than the
   linear hull, and connecting it again returns it unchanged (idempotence) *)
Theorem C04_connect_ring_pair_props_partial : forall N a b, 0 < N -> wfp N a -> wfp N b -> ordered a b ->
  is_span N (pair_result N a b) /\
  (forall x, base_of [a] x \/ base_of [b] x -> base_of (pair_result N a b) x) /\
  llen (pair_result N a b) <= Z.max (pe a) (pe b) - ps a /\
  connect_locations [pair_result N a b] (Some N) = Ok (pair_result N a b).
Proof. exact pair_result_props. Qed.
Print Assumptions C04_connect_ring_pair_props_partial.

(* and it is the shortest covering arc whenever an arc shorter than half the record covers both *)
Theorem C04_connect_ring_pair_shortest_partial : forall N a b, 0 < N -> wfp N a -> wfp N b -> ordered a b ->
  forall s len, 0 <= s < N -> 2 * len < N ->
    (forall x, base_of [a] x \/ base_of [b] x -> arc N s len x) ->
    llen (pair_result N a b) <= len.
Proof. exact pair_result_shortest. Qed.
Print Assumptions C04_connect_ring_pair_shortest_partial.

(* an origin-spanning forward span is returned unchanged *)
Theorem C04_connect_ring_span_idem : forall N s e, 0 < e -> e <= s -> s < N ->
  connect_locations [[mkPart s N 1; mkPart 0 e 1]] (Some N) = Ok [mkPart s N 1; mkPart 0 e 1].
Proof. exact connect_ring_wrapped_idem. Qed.
Print Assumptions C04_connect_ring_span_idem.

(* ---- extend on a ring, single part ---- *)
(* extending a single part on a circular record covers exactly the bases within the distance,
   wrapped round the origin on either side: for every record length, strand and distance that
   leaves at least one base uncovered; the parts are well-formed, of the input's strand, and the
   length grows by exactly 2*distance (so the at most two parts are disjoint) *)
Theorem C04_extend_ring_simple : forall p d N,
  wfp N p -> 0 <= d -> pe p - ps p + 2 * d < N ->
  exists r, extend_location [p] d N true = Ok r /\
    Forall (fun q => pst q = pst p /\ 0 <= ps q /\ ps q < pe q /\ pe q <= N) r /\
    llen r = pe p - ps p + 2 * d /\
    (forall x, 0 <= x < N -> (base_of r x <-> within_ring_of N p d x)).
Proof. exact extend_ring_single_bases. Qed.
Print Assumptions C04_extend_ring_simple.

(* closed forms: start passes the origin / end passes the record end (parts in transcription order) *)
Theorem C04_extend_ring_wrap_start : forall p d N,
  wfp N p -> 0 <= d -> ps p - d < 0 -> pe p + d < ps p - d + N ->
  extend_location [p] d N true =
    Ok (order_by_strand (pst p) [mkPart (ps p - d + N) N (pst p); mkPart 0 (pe p + d) (pst p)]).
Proof. exact extend_ring_single_wrap_start. Qed.
Print Assumptions C04_extend_ring_wrap_start.

Theorem C04_extend_ring_wrap_end : forall p d N,
  wfp N p -> 0 <= d -> 0 <= ps p - d -> N < pe p + d -> pe p + d < ps p - d + N ->
  extend_location [p] d N true =
    Ok (order_by_strand (pst p) [mkPart (ps p - d) N (pst p); mkPart 0 (pe p + d - N) (pst p)]).
Proof. exact extend_ring_single_wrap_end. Qed.
Print Assumptions C04_extend_ring_wrap_end.

(* both extensions pass the edges and meet: the whole record, one part *)
Theorem C04_extend_ring_full : forall p d N,
  wfp N p -> 0 <= d -> ps p - d < 0 -> 0 <= ps p - d + N -> ps p - d + N <= pe p + d ->
  extend_location [p] d N true = Ok [mkPart 0 N (pst p)].
Proof. exact extend_ring_single_full. Qed.
Print Assumptions C04_extend_ring_full.

(* ---- offset of a multi-part location on a linear record: every part moved, same bases
   translated, same length ---- *)
Theorem C04_offset_line_multi : forall l off, off <> 0 ->
  Forall (fun p => ps p < pe p /\ 0 <= ps p + off) l ->
  offset_location l off None = Ok (map (shift_part off) l).
Proof. exact offset_line_multi. Qed.
Print Assumptions C04_offset_line_multi.

Theorem C04_offset_line_bases : forall l off x,
  base_of (map (shift_part off) l) (x + off) <-> base_of l x.
Proof. exact shift_bases. Qed.
Print Assumptions C04_offset_line_bases.

Theorem C04_offset_line_length : forall l off, llen (map (shift_part off) l) = llen l.
Proof. exact shift_llen. Qed.
Print Assumptions C04_offset_line_length.

(* ---- ordering ---- *)
(* Feature.__lt__ (left feature not a "source") is a strict weak order on every triple of
   locations whose sort key exists (always, unless an origin-spanning location cannot be split):
   irreflexive, asymmetric, transitive, incomparability transitive *)
Theorem C04_order_feature : forall a b c ka kb kc,
  cmp_key 1 a = Ok ka -> cmp_key 1 b = Ok kb -> cmp_key 1 c = Ok kc ->
  ~ flt a a /\ (flt a b -> ~ flt b a) /\ (flt a b -> flt b c -> flt a c) /\
  (~ flt a b -> ~ flt b a -> ~ flt b c -> ~ flt c b -> ~ flt a c /\ ~ flt c a).
Proof. exact feature_order. Qed.
Print Assumptions C04_order_feature.

Theorem C04_order_key_plain : forall s l, bridges l = false -> cmp_key s l = Ok (lstart l, s * llen l).
Proof. exact cmp_key_plain. Qed.
Print Assumptions C04_order_key_plain.

(* with the tie rule for "source" features the relation is not irreflexive *)
Theorem C04_order_feature_source_refuted : exists a, feature_lt true a a = Ok true.
Proof. exact feature_source_refuted. Qed.
Print Assumptions C04_order_feature_source_refuted.

(* CDSCollection.__lt__ (with the symmetric containment shortcut, repair of finding F53
   collection_lt_not_asymmetric) is irreflexive and asymmetric on ALL locations: a < b and b < a
   never both hold, so sorted()/bisect can no longer depend on which of the two is asked.  Before
   the repair the whole record and a span over the origin were each less than the other. *)
Theorem C04_order_collection_asym : forall a b,
  ~ clt a a /\ (clt a b -> ~ clt b a).
Proof. intros a b. split; [apply collection_lt_irrefl|apply collection_lt_asym]. Qed.
Print Assumptions C04_order_collection_asym.

(* on the locations a collection can have on a record of length N (coll_loc: one part inside the
   record, or the forward span [s,N)+[0,e), 0 < e <= s < N) it is the lexicographic order of a rank
   (whole record first, then (start, -length), the start of a span being s - N) ... *)
Theorem C04_order_collection_rank : forall N a b, coll_loc N a -> coll_loc N b ->
  collection_lt a b = Ok (pair_lt (rank N a) (rank N b)).
Proof. exact collection_lt_rank. Qed.
Print Assumptions C04_order_collection_rank.

(* ... hence a strict weak order: irreflexive, asymmetric, transitive, incomparability transitive *)
Theorem C04_order_collection : forall N a b c, coll_loc N a -> coll_loc N b -> coll_loc N c ->
  ~ clt a a /\ (clt a b -> ~ clt b a) /\ (clt a b -> clt b c -> clt a c) /\
  (~ clt a b -> ~ clt b a -> ~ clt b c -> ~ clt c b -> ~ clt a c /\ ~ clt c a).
Proof. exact collection_order. Qed.
Print Assumptions C04_order_collection.

(* a collection covering the whole record is less than every other collection location *)
Theorem C04_order_collection_whole_first : forall N st l, 0 < N -> coll_loc N l ->
  (forall st', l <> [mkPart 0 N st']) -> clt [mkPart 0 N st] l.
Proof. exact collection_whole_first. Qed.
Print Assumptions C04_order_collection_whole_first.

(* the former witness of the finding: the whole record comes first, one way only *)
Theorem C04_order_collection_witness :
  collection_lt [mkPart 0 10 1] [mkPart 7 10 1; mkPart 0 2 1] = Ok true /\
  collection_lt [mkPart 7 10 1; mkPart 0 2 1] [mkPart 0 10 1] = Ok false.
Proof. exact collection_order_witness. Qed.
Print Assumptions C04_order_collection_witness.

(* ---- soundness of the decidable specifications evaluated on the implementation's output ---- *)
(* specification 113 (the implementation's answers to a < b and b < a): never both *)
Theorem C04_spec_order_sound : forall x y, ok_asym x y = true -> ~ (x = true /\ y = true).
Proof. intros x y H [-> ->]. discriminate. Qed.
Print Assumptions C04_spec_order_sound.

Theorem C04_spec_overlap_sound : forall a b out, ok_overlap a b out = true ->
  (out = true <-> exists x, base_of a x /\ base_of b x).
Proof. exact ok_overlap_sound. Qed.
Print Assumptions C04_spec_overlap_sound.

Theorem C04_spec_contains_sound : forall o i out, ok_contains o i out = true ->
  (out = true <-> Forall (fun ip => exists op, In op o /\ ps op <= ps ip /\ pe ip <= pe op) i).
Proof. exact ok_contains_sound. Qed.
Print Assumptions C04_spec_contains_sound.

Theorem C04_spec_distance_sound : forall a b w out, a <> [] -> b <> [] -> ok_dist a b w out = true ->
  ((exists x, base_of a x /\ base_of b x) -> out = 0) /\
  (~ (exists x, base_of a x /\ base_of b x) ->
     (forall p q, In p a -> In q b -> out <= between w p q) /\
     (exists p q, In p a /\ In q b /\ out = between w p q)).
Proof. exact ok_dist_sound. Qed.
Print Assumptions C04_spec_distance_sound.

Theorem C04_spec_connect_ring_sound : forall N locs out,
  0 < N -> locs <> [] -> Forall (fun l => wf_locb N l = true) locs ->
  check_connect_ring N locs out = 0 ->
  exists r, out = Ok r /\ is_span N r /\
    (forall l x, In l locs -> base_of l x -> base_of r x) /\
    (existsb bridges locs = false -> llen r <= hull_len locs) /\
    (forallb (is_span_input N) locs = true -> N <= shortest_bound ->
       forall s len, 0 <= s < N -> 2 * len < N ->
         (forall l x, In l locs -> 0 <= x < N -> base_of l x -> arc N s len x) -> llen r <= len).
Proof. exact check_connect_ring_sound. Qed.
Print Assumptions C04_spec_connect_ring_sound.

Theorem C04_spec_connect_line_sound : forall locs out, check_connect_line locs out = 0 ->
  exists h, out = Ok [h] /\ ps h < pe h /\
    ps h = lmin (map ps (all_parts locs)) /\ pe h = lmax (map pe (all_parts locs)).
Proof. exact check_connect_line_sound. Qed.
Print Assumptions C04_spec_connect_line_sound.

Theorem C04_spec_line_hull_covers : forall locs h,
  ps h = lmin (map ps (all_parts locs)) -> pe h = lmax (map pe (all_parts locs)) ->
  forall l x, In l locs -> base_of l x -> ps h <= x < pe h.
Proof. exact line_hull_covers. Qed.
Print Assumptions C04_spec_line_hull_covers.

Theorem C04_spec_offset_ring_sound : forall N a off out, check_offset_ring N a off out = 0 ->
  exists r, out = Ok r /\
    (r <> [] /\ Forall (fun p => 0 <= ps p /\ ps p < pe p /\ pe p <= N) r) /\
    pairwise_disjoint r /\ llen r = llen a /\
    (forall p0, hd_error a = Some p0 -> Forall (fun q => pst q = pst p0) r) /\
    (forall x, 0 <= x < N -> (base_of r ((x + off) mod N) <-> base_of a x)).
Proof. exact check_offset_ring_sound. Qed.
Print Assumptions C04_spec_offset_ring_sound.

Theorem C04_spec_offset_line_sound : forall a off out, check_offset_line a off out = 0 ->
  out = Ok (map (fun p => mkPart (ps p + off) (pe p + off) (pst p)) a).
Proof. exact check_offset_line_sound. Qed.
Print Assumptions C04_spec_offset_line_sound.

Theorem C04_spec_extend_sound : forall a d N circ out, check_extend a d N circ out = 0 ->
  exists r, out = Ok r /\
    (r <> [] /\ Forall (fun p => 0 <= ps p /\ ps p < pe p /\ pe p <= N) r) /\
    pairwise_disjoint r /\
    (forall x, 0 <= x < N ->
       (base_of r x <-> base_of a x \/ (if circ then near_ring N a d x else near_line a d x))).
Proof. exact check_extend_sound. Qed.
Print Assumptions C04_spec_extend_sound.


(* ---- connect_locations without a wrap point: ANY number of arguments, multi-part arguments included ---- *)
(* the result does not depend on the order of the argument list (value or exception alike) *)
Theorem C04_connect_line_order : forall locs locs', Permutation locs locs' ->
  connect_locations locs None = connect_locations locs' None.
Proof. exact connect_line_order. Qed.
Print Assumptions C04_connect_line_order.

(* closed form: the hull of the arguments' own spans, with their common strand *)
Theorem C04_connect_line_nary : forall locs, locs <> [] -> existsb bridges locs = false ->
  connect_locations locs None = hull (map red1 locs).
Proof. exact connect_line_nary. Qed.
Print Assumptions C04_connect_line_nary.

(* applying the operation twice: connecting a result again gives it back *)
Theorem C04_connect_line_idem : forall locs r,
  connect_locations locs None = Ok r -> connect_locations [r] None = Ok r.
Proof. exact connect_line_idem. Qed.
Print Assumptions C04_connect_line_idem.

(* ---- connect_locations on a ring: the decision "is the way over the origin shorter" ---- *)
(* _is_wrapping_shorter does not depend on the order of the locations (any number, any shape) ... *)
Theorem C04_wrapping_shorter_order : forall locs locs' w, Permutation locs locs' ->
  wrapping_shorter locs w = wrapping_shorter locs' w.
Proof. exact wrapping_shorter_order. Qed.
Print Assumptions C04_wrapping_shorter_order.

(* ... because the sort key is (start, end): with the start alone (the same function, other key) two
   locations tied on the lowest start make the answer depend on the argument order *)
Theorem C04_wrapping_shorter_start_key_refuted : exists locs locs' w,
  Permutation locs locs' /\
  wrapping_shorter_by start_only_lt locs w = true /\ wrapping_shorter_by start_only_lt locs' w = false /\
  wrapping_shorter locs w = true /\ wrapping_shorter locs' w = true.
Proof. exact wrapping_shorter_start_key_refuted. Qed.
Print Assumptions C04_wrapping_shorter_start_key_refuted.

(* ANY number of arguments (multi-part ones included) on a ring, none running over the origin and no
   gap from the lowest one exceeding half the record: the result is the linear hull of the arguments'
   spans and does not depend on the argument order *)
Theorem C04_connect_ring_nowrap_order_partial : forall locs locs' w, locs <> [] -> 0 < w ->
  Permutation locs locs' -> existsb bridges locs = false -> wrapping_shorter (map red1 locs) w = false ->
  connect_locations locs (Some w) = hull (map red1 locs) /\
  connect_locations locs' (Some w) = connect_locations locs (Some w).
Proof. exact connect_ring_nowrap_order. Qed.
Print Assumptions C04_connect_ring_nowrap_order_partial.

(* ---- histories: results do not depend on earlier calls or on in-place changes of earlier results ---- *)
(* in every history (any heap to start with, any calls and in-place mutations before), the output at
   a position holding a call is the value of that call alone *)
Theorem C04_history_independent : forall ops h i fn p,
  nth_error ops i = Some (HCall fn p) ->
  nth_error (run_history h ops) i = Some (run_call fn p).
Proof. exact history_independent. Qed.
Print Assumptions C04_history_independent.

(* the same call gives the same value at any two positions of any two histories *)
Theorem C04_history_same_call : forall ops1 ops2 h1 h2 i j fn p,
  nth_error ops1 i = Some (HCall fn p) -> nth_error ops2 j = Some (HCall fn p) ->
  nth_error (run_history h1 ops1) i = nth_error (run_history h2 ops2) j.
Proof. exact history_same_call. Qed.
Print Assumptions C04_history_same_call.

(* the executable entry point (function 300, what the extracted driver evaluates for the harness's
   history cases) on an encoded history is run_history from the empty heap *)
Theorem C04_history_run : forall ops, run_C04 300 (eList eHop ops) = eOuts (run_history [] ops).
Proof. exact run_C04_history. Qed.
Print Assumptions C04_history_run.

Theorem C04_history_run_call : forall fn p, fn <> 300 -> run_C04 fn p = run_call fn p.
Proof. exact run_C04_call. Qed.
Print Assumptions C04_history_run_call.

(* a call changes no existing object (it only allocates its arguments and its result) ... *)
Theorem C04_history_call_frame : forall h fn p j, (j < length h)%nat ->
  nth_error (fst (hstep h (HCall fn p))) j = nth_error h j.
Proof. exact hstep_call_frame. Qed.
Print Assumptions C04_history_call_frame.

(* ... and an in-place mutator changes the addressed object only *)
Theorem C04_history_mut_frame : forall h k a x j, j <> Z.to_nat a ->
  nth_error (fst (hstep h (HMut k a x))) j = nth_error h j /\
  length (fst (hstep h (HMut k a x))) = length h.
Proof. exact hstep_mut_frame. Qed.
Print Assumptions C04_history_mut_frame.

(* the textual form of a location reads back to the same location: every position kind (exact, <, >),
   every strand spelling, any number of parts, any operator without "{" *)
Theorem C04_text : forall t, TextProofs.wf_tloc t -> Text.loc_from_string (Text.loc_str t) = Ok t.
Proof. exact TextProofs.loc_codec. Qed.
Print Assumptions C04_text.

(* the textual form of a location reads back to the same location at every position of every
   history (position kinds exact / < / >, every strand spelling, any operator without "{") *)
Theorem C04_text_history : forall ops h i t, TextProofs.wf_tloc t ->
  nth_error ops i = Some (HCall 14 (Text.eStr (Text.loc_str t))) ->
  nth_error (run_history h ops) i = Some (0 :: Text.eTloc t).
Proof. exact (text_reads_back_in_history TextProofs.wf_tloc TextProofs.loc_codec). Qed.
Print Assumptions C04_text_history.

(* specification 116 (the implementation's results for several orders of one argument list) *)
Theorem C04_spec_order_independent_sound : forall outs, all_same outs = true ->
  forall a b, In a outs -> In b outs -> a = b.
Proof. exact all_same_sound. Qed.
Print Assumptions C04_spec_order_independent_sound.

(* ---- non-vacuity ---- *)
Example C04_ex_ring_distance :
  let a := [mkPart 1 2 1] in let b := [mkPart 2 3 1; mkPart 0 1 1] in
  Forall wf_part a /\ Forall wf_part b /\ in_record 3 a /\ in_record 3 b /\
  overlap a b = false /\ dist a b (Some 3) = 0.
Proof. cbn. repeat split; repeat constructor; unfold wf_part; cbn; lia. Qed.

Example C04_ex_offset :
  offset_location [mkPart 5 10 (-1)] 10 (Some 20) = Ok [mkPart 15 20 (-1)] /\
  offset_location [mkPart 5 10 1] 12 (Some 20) = Ok [mkPart 17 20 1; mkPart 0 2 1].
Proof. split; reflexivity. Qed.

Example C04_ex_connect :
  connect_locations [[mkPart 5 10 1]; [mkPart 2 7 1]; [mkPart 20 30 1]] None = Ok [mkPart 2 30 1].
Proof. reflexivity. Qed.

Example C04_ex_order_keys :
  cmp_key 1 [mkPart 7 10 1; mkPart 0 2 1] = Ok (-3, 5) /\ cmp_key 1 [mkPart 3 8 (-1)] = Ok (3, 5) /\
  flt [mkPart 7 10 1; mkPart 0 2 1] [mkPart 3 8 (-1)].
Proof. repeat split; reflexivity. Qed.

Example C04_ex_spec_connect :
  check_connect_ring 20 [[mkPart 17 19 1]; [mkPart 1 3 (-1)]] (Ok [mkPart 17 20 1; mkPart 0 3 1]) = 0 /\
  check_connect_ring 20 [[mkPart 17 19 1]; [mkPart 1 3 (-1)]] (Ok [mkPart 1 19 1]) = 6 /\
  check_extend [mkPart 0 1 2; mkPart 3 4 2] 2 4 true (Ok [mkPart 2 4 2; mkPart 0 1 2]) = 6.
Proof. repeat split; reflexivity. Qed.

Example C04_ex_connect_ring_pair :
  wfp 20 (mkPart 1 3 (-1)) /\ wfp 20 (mkPart 17 19 1) /\ ordered (mkPart 1 3 (-1)) (mkPart 17 19 1) /\
  pair_result 20 (mkPart 1 3 (-1)) (mkPart 17 19 1) = [mkPart 17 20 1; mkPart 0 3 1] /\
  pair_result 20 (mkPart 1 3 (-1)) (mkPart 9 12 1) = [mkPart 1 12 2] /\
  arc 20 17 6 2 /\ ~ arc 20 17 6 3.
Proof. unfold wfp, ordered, arc. cbn. repeat split; try lia; try reflexivity. Qed.

Example C04_ex_extend_ring :
  wfp 20 (mkPart 1 4 (-1)) /\
  extend_location [mkPart 1 4 (-1)] 3 20 true = Ok [mkPart 0 7 (-1); mkPart 18 20 (-1)] /\
  extend_location [mkPart 15 19 1] 3 20 true = Ok [mkPart 12 20 1; mkPart 0 2 1] /\
  extend_location [mkPart 5 19 1] 8 20 true = Ok [mkPart 0 20 1].
Proof. unfold wfp. cbn. repeat split; try lia; reflexivity. Qed.

Example C04_ex_offset_line_multi :
  offset_location [mkPart 5 10 1; mkPart 12 14 1] (-3) None = Ok [mkPart 2 7 1; mkPart 9 11 1].
Proof. reflexivity. Qed.

(* the repaired first branch of Record.extend_location (finding F09b extend_lower_lost): the former
   witnesses now give every base within the distance, and the specification accepts the results *)
Example C04_ex_extend_lower_kept :
  extend_location [mkPart 0 1 2; mkPart 3 4 2] 2 4 true = Ok [mkPart 0 4 2] /\
  extend_location [mkPart 2 3 1; mkPart 8 10 1; mkPart 17 18 1] 6 20 true
    = Ok [mkPart 16 20 1; mkPart 0 4 1; mkPart 8 10 1] /\
  extend_location [mkPart 17 18 (-1); mkPart 8 10 (-1); mkPart 2 3 (-1)] 6 20 true
    = Ok [mkPart 8 10 (-1); mkPart 0 4 (-1); mkPart 16 20 (-1)] /\
  check_extend [mkPart 0 1 2; mkPart 3 4 2] 2 4 true (Ok [mkPart 0 4 2]) = 0 /\
  check_extend [mkPart 2 3 1; mkPart 8 10 1; mkPart 17 18 1] 6 20 true
    (Ok [mkPart 16 20 1; mkPart 0 4 1; mkPart 8 10 1]) = 0 /\
  check_extend [mkPart 2 3 1; mkPart 8 10 1; mkPart 17 18 1] 6 20 true
    (Ok [mkPart 16 20 1; mkPart 0 3 1; mkPart 8 10 1]) = 6.
Proof. repeat split; reflexivity. Qed.

Example C04_ex_order_collection :
  coll_loc 10 [mkPart 0 10 1] /\ coll_loc 10 [mkPart 7 10 1; mkPart 0 2 1] /\
  rank 10 [mkPart 0 10 1] = (-10, -10) /\ rank 10 [mkPart 7 10 1; mkPart 0 2 1] = (-3, -5).
Proof.
  split; [left; eexists; split; [reflexivity|cbn; lia]|].
  split; [right; exists 7, 2; split; [reflexivity|lia]|]. split; reflexivity.
Qed.

(* a history: parse the text of a reverse-strand location with ascending exons, let
   location_bridges_origin(.., allow_reversing=True) reverse the returned object in place (mutator 4
   on object 0: answer False, exons now 12, 6, 0), parse the same text again: the same location as
   the first time.  The in-place change is visible (the hypothesis of the theorem is not vacuous). *)
Example C04_ex_history_text :
  let text := Text.eStr
              [106; 111; 105; 110; 123; 91; 48; 58; 51; 93; 40; 45; 41; 44; 32; 91; 54; 58; 57; 93; 40;
               45; 41; 44; 32; 91; 49; 50; 58; 49; 53; 93; 40; 45; 41; 125] in
  let outs := run_history [] [HCall 14 text; HMut 4 0 0; HCall 14 text] in
  nth_error outs 0 = nth_error outs 2 /\
  nth_error outs 1 = Some [0; 3; 12; 15; -1; 6; 9; -1; 0; 3; -1] /\
  run_call 19 [3; 0; 3; -1; 6; 9; -1; 12; 15; -1] = [0; 3; 12; 15; -1; 6; 9; -1; 0; 3; -1] /\
  run_call 4 [3; 0; 3; -1; 6; 9; -1; 12; 15; -1] = [1].
Proof. repeat split; vm_compute; reflexivity. Qed.

Example C04_ex_history_connect :
  run_C04 300 (eList eHop [HCall 6 [2; 1; 0; 5; 1; 1; 60; 70; 1; 1; 100]; HMut 2 2 (-1);
                           HCall 6 [2; 1; 0; 5; 1; 1; 60; 70; 1; 1; 100]])
  = eOuts [[0; 2; 60; 100; 1; 0; 5; 1]; [2; 60; 100; -1; 0; 5; -1]; [0; 2; 60; 100; 1; 0; 5; 1]].
Proof. vm_compute. reflexivity. Qed.

Example C04_ex_order_spec :
  all_same [[0; 1; 0; 70; 1]; [0; 1; 0; 70; 1]] = true /\
  all_same [[0; 2; 60; 100; 1; 0; 12; 1]; [0; 1; 0; 70; 1]] = false /\
  build_location_from_others [[mkPart 0 3 1]; [mkPart 3 6 1]; [mkPart 8 9 1]] = Ok [mkPart 0 6 1; mkPart 8 9 1].
Proof. repeat split; reflexivity. Qed.

Example C04_ex_connect_line_order :
  let a := [mkPart 5 10 (-1); mkPart 1 3 (-1)] in let b := [mkPart 20 30 (-1)] in let c := [mkPart 2 7 (-1)] in
  Permutation [a; b; c] [c; a; b] /\
  connect_locations [a; b; c] None = Ok [mkPart 1 30 (-1)] /\
  connect_locations [c; a; b] None = Ok [mkPart 1 30 (-1)] /\
  connect_locations [[mkPart 1 30 (-1)]] None = Ok [mkPart 1 30 (-1)].
Proof.
  split; [|repeat split; reflexivity].
  apply Permutation_sym. apply (Permutation_cons_app [[mkPart 5 10 (-1); mkPart 1 3 (-1)]; [mkPart 20 30 (-1)]] []).
  apply Permutation_refl.
Qed.

Example C04_ex_connect_ring_nowrap :
  let locs := [[mkPart 0 5 1]; [mkPart 0 12 (-1)]; [mkPart 40 50 1; mkPart 30 35 1]] in
  existsb bridges locs = true /\
  let locs := [[mkPart 0 5 1]; [mkPart 0 12 (-1)]; [mkPart 30 35 1; mkPart 40 50 1]] in
  existsb bridges locs = false /\ wrapping_shorter (map red1 locs) 100 = false /\
  connect_locations locs (Some 100) = Ok [mkPart 0 50 2] /\
  wrapping_shorter [[mkPart 0 5 1]; [mkPart 0 12 1]; [mkPart 60 70 1]] 100 = true.
Proof. repeat split; reflexivity. Qed.

(* ====================================================================================
   Fourth pass.  location_bridges_origin(location, allow_reversing=True): the answer and the ARGUMENT
   afterwards (specification 119); offset_location on a ring after the repair of findings C04-K2 / C04-K3:
   the merge loop without a guard, and specification 107 incl. its transcription-order clause for every input.
   ==================================================================================== *)

(* the answer: the exon order is invalid for the strand and, on the reverse strand, so is the reversed order *)
Theorem C04_bridges_reversing_answer : forall l,
  fst (bridges_reversing l) = bridges l && negb ((lstrand l =? -1) && negb (bridges (rev l))).
Proof. exact bridges_reversing_answer. Qed.
Print Assumptions C04_bridges_reversing_answer.

(* a location reported as bridging is left exactly as it was ("swap back so it will be reported as it was") *)
Theorem C04_bridges_reversing_true_keeps : forall l,
  fst (bridges_reversing l) = true -> snd (bridges_reversing l) = l.
Proof. exact bridges_reversing_true_keeps. Qed.
Print Assumptions C04_bridges_reversing_true_keeps.

(* otherwise the argument is unchanged, or it is the reversed exon list of a reverse-strand location, reported
   as not bridging, and that reversed order is indeed a non-bridging one *)
Theorem C04_bridges_reversing_arg : forall l,
  snd (bridges_reversing l) = l \/
  (snd (bridges_reversing l) = rev l /\ lstrand l = -1 /\ fst (bridges_reversing l) = false /\
   bridges (rev l) = false).
Proof. exact bridges_reversing_arg. Qed.
Print Assumptions C04_bridges_reversing_arg.

(* asking twice: the same answer, the same object *)
Theorem C04_bridges_reversing_twice : forall l,
  bridges_reversing (snd (bridges_reversing l)) = bridges_reversing l.
Proof. exact bridges_reversing_twice. Qed.
Print Assumptions C04_bridges_reversing_twice.

(* the model satisfies specification 119 on every location; soundness of the specification *)
Theorem C04_bridges_reversing_spec : forall l,
  check_bridges_reversing l (fst (bridges_reversing l)) (snd (bridges_reversing l)) = 0.
Proof. exact bridges_reversing_spec. Qed.
Print Assumptions C04_bridges_reversing_spec.

Theorem C04_spec_bridges_reversing_sound : forall a ans a', check_bridges_reversing a ans a' = 0 ->
  (ans = true -> a' = a) /\
  (a' = a \/ (a' = rev a /\ lstrand a = -1 /\ bridges a' = false)) /\
  ans = fst (bridges_reversing a).
Proof. exact check_bridges_reversing_sound. Qed.
Print Assumptions C04_spec_bridges_reversing_sound.

(* the final merge loop of offset_location after the repair of findings C04-K2 / C04-K3 (formerly
   C04_offset_merge_guarded, with the guard "no touching pair directly after a touching pair"): for EVERY list of
   proper parts of one strand the loop succeeds and keeps exactly the bases, the length and the bases in
   transcription order (forward parts are merged into the last MERGED part, reverse-strand parts downwards) *)
Theorem C04_offset_merge : forall st p0 l,
  Forall (fun q => ps q <= pe q /\ pst q = st) (p0 :: l) ->
  exists r, merge_adjacent p0 [p0] l = Ok r /\
    (forall x, in_loc x r = in_loc x (p0 :: l)) /\ llen r = llen (p0 :: l) /\
    tx_of (st =? -1) r = tx_of (st =? -1) (p0 :: l).
Proof. exact merge_adjacent_unguarded. Qed.
Print Assumptions C04_offset_merge.

(* offset_location on a ring, ANY number of parts (formerly refuted by C04_offset_merge_drops_part_refuted): every
   location of one strand with non-empty disjoint parts inside the record is shifted successfully; the result has
   non-empty disjoint parts inside the record, the same length and strand, and exactly the rotated bases *)
Theorem C04_offset_ring_multi : forall N a off, pre_offset a (Some N) = true ->
  exists r, offset_location a off (Some N) = Ok r /\
    (r <> [] /\ Forall (fun p => 0 <= ps p /\ ps p < pe p /\ pe p <= N) r) /\
    pairwise_disjoint r /\ llen r = llen a /\
    (forall p0, hd_error a = Some p0 -> Forall (fun q => pst q = pst p0) r) /\
    (forall x, 0 <= x < N -> (base_of r ((x + off) mod N) <-> base_of a x)).
Proof.
  intros N a off Hpre. pose proof (offset_ring_spec_all N a off Hpre) as H.
  destruct (check_offset_ring_sound N a off _ H) as [r [E Hr]]. exists r. split; assumption.
Qed.
Print Assumptions C04_offset_ring_multi.

(* "shifting rotates the location" read on the bases in TRANSCRIPTION order (formerly refuted by
   C04_offset_reverse_wrap_order_refuted): for every such location that is not the whole record, the k-th
   transcribed base of the result is the rotated k-th transcribed base of the input - exons as listed, reverse
   strand downwards; a reverse-strand exon crossing the wrap point comes out with the part after the origin first *)
Theorem C04_offset_ring_order : forall N a off, pre_offset a (Some N) = true -> llen a <> N ->
  exists r, offset_location a off (Some N) = Ok r /\
    tx_bases r = map (fun x => (x + off) mod N) (tx_bases a).
Proof. exact offset_ring_tx. Qed.
Print Assumptions C04_offset_ring_order.

(* specification 107 (check_offset_ring, all seven clauses incl. the transcription-order clause 7) holds for the
   model on EVERY input that meets its precondition - no finding class is excluded any more *)
Theorem C04_offset_ring_spec : forall N a off, pre_offset a (Some N) = true ->
  check_offset_ring N a off (offset_location a off (Some N)) = 0.
Proof. exact offset_ring_spec_all. Qed.
Print Assumptions C04_offset_ring_spec.

(* soundness of the transcription-order clause (7) of specification 107 *)
Theorem C04_spec_offset_ring_order_sound : forall N a off out,
  check_offset_ring N a off out = 0 -> llen a <> N ->
  exists r, out = Ok r /\ tx_bases r = map (fun x => (x + off) mod N) (tx_bases a).
Proof. exact check_offset_ring_tx_sound. Qed.
Print Assumptions C04_spec_offset_ring_order_sound.

(* non-vacuity / the witnesses of this pass *)
Example C04_ex_bridges_reversing :
  (* a reverse-strand origin-spanning gene with two exons before the origin: both orders invalid, reported as
     bridging, left as it was *)
  bridges_reversing [mkPart 0 3 (-1); mkPart 15 18 (-1); mkPart 6 9 (-1)]
    = (true, [mkPart 0 3 (-1); mkPart 15 18 (-1); mkPart 6 9 (-1)]) /\
  (* the alternate annotation order of a plain reverse-strand gene: reversed in place, not bridging *)
  bridges_reversing [mkPart 0 3 (-1); mkPart 6 9 (-1); mkPart 12 15 (-1)]
    = (false, [mkPart 12 15 (-1); mkPart 6 9 (-1); mkPart 0 3 (-1)]).
Proof. vm_compute. split; reflexivity. Qed.

(* the witnesses of the repaired findings C04-K2 offset_merge_drops_part and C04-K3 offset_reverse_wrap_order *)
Example C04_ex_offset_merge :
  (* three touching parts in a row: all merged, nothing lost (was [5:14)) *)
  offset_location [mkPart 15 20 1; mkPart 0 5 1; mkPart 5 9 1] 5 (Some 20) = Ok [mkPart 0 14 1] /\
  merge_adjacent (mkPart 15 20 1) [mkPart 15 20 1] [mkPart 0 3 1; mkPart 3 9 1]
    = Ok [mkPart 15 20 1; mkPart 0 9 1] /\
  (* reverse strand: merged downwards only *)
  merge_adjacent (mkPart 8 9 (-1)) [mkPart 8 9 (-1)] [mkPart 5 8 (-1); mkPart 3 5 (-1)] = Ok [mkPart 3 9 (-1)] /\
  merge_adjacent (mkPart 3 5 (-1)) [mkPart 3 5 (-1)] [mkPart 5 8 (-1)] = Ok [mkPart 3 5 (-1); mkPart 5 8 (-1)].
Proof. vm_compute. repeat split; reflexivity. Qed.

Example C04_ex_offset_reverse_wrap_order :
  (* a reverse-strand exon crossing the wrap point: the part after the origin first (was join{[18:20),[0:3)}),
     recognised as crossing the origin, connected to the same 5-base arc *)
  offset_location [mkPart 13 18 (-1)] 5 (Some 20) = Ok [mkPart 0 3 (-1); mkPart 18 20 (-1)] /\
  bridges [mkPart 0 3 (-1); mkPart 18 20 (-1)] = true /\
  connect_locations [[mkPart 0 3 (-1); mkPart 18 20 (-1)]] (Some 20) = Ok [mkPart 18 20 1; mkPart 0 3 1] /\
  check_offset_ring 20 [mkPart 13 18 (-1)] 5 (Ok [mkPart 0 3 (-1); mkPart 18 20 (-1)]) = 0 /\
  (* the former output violates clause 7 *)
  check_offset_ring 20 [mkPart 13 18 (-1)] 5 (Ok [mkPart 18 20 (-1); mkPart 0 3 (-1)]) = 7 /\
  (* and shifted off the origin again the two halves are re-joined (was join{[5:8),[3:5)}) *)
  offset_location [mkPart 0 3 (-1); mkPart 18 20 (-1)] 5 (Some 20) = Ok [mkPart 3 8 (-1)].
Proof. vm_compute. repeat split; reflexivity. Qed.

(* the third reported input, Record.extend_location of join{[30:100),[0:5)} by 31 on a ring of 100, lies in the
   recorded class extend_near_full (class 1): bases right, parts overlapping *)
Example C04_ex_extend_near_full_second_witness :
  extend_location [mkPart 30 100 1; mkPart 0 5 1] 31 100 true
    = Ok [mkPart 99 100 1; mkPart 0 100 1; mkPart 0 36 1] /\
  extend_class [mkPart 30 100 1; mkPart 0 5 1] 31 100 true = 1 /\
  check_extend [mkPart 30 100 1; mkPart 0 5 1] 31 100 true
    (Ok [mkPart 99 100 1; mkPart 0 100 1; mkPart 0 36 1]) = 3.
Proof. vm_compute. repeat split; reflexivity. Qed.
