(* C04 - property theorems only: statement, [exact lemma], Print Assumptions; Examples show the
   hypotheses are satisfiable (non-vacuity). *)
From ASV Require Import Loc.
From ASV.C04 Require Import Proofs.

(* two locations overlap iff they share a base *)
Theorem C04_overlap : forall a b, Forall wf_part a -> Forall wf_part b ->
  (overlap a b = true <-> exists x, base_of a x /\ base_of b x).
Proof. exact overlap_spec. Qed.
Print Assumptions C04_overlap.

Theorem C04_overlap_sym : forall a b, Forall wf_part a -> Forall wf_part b ->
  overlap a b = overlap b a.
Proof. exact overlap_sym. Qed.
Print Assumptions C04_overlap_sym.

(* one contains another iff each part of the inner lies inside one part of the outer *)
Theorem C04_contains : forall o i, Forall wf_part i ->
  (contains o i = true <->
   Forall (fun ip => exists op, In op o /\ ps op <= ps ip /\ pe ip <= pe op) i).
Proof. exact contains_spec. Qed.
Print Assumptions C04_contains.

Theorem C04_contains_bases : forall o i, Forall wf_part i -> contains o i = true ->
  forall x, base_of i x -> base_of o x.
Proof. exact contains_bases. Qed.
Print Assumptions C04_contains_bases.

(* distance: 0 when overlapping ... *)
Theorem C04_distance_overlap : forall a b w, overlap a b = true -> dist a b w = 0.
Proof. exact dist_overlap. Qed.
Print Assumptions C04_distance_overlap.

(* ... otherwise, on a line, the number of bases between the closest pair of parts ... *)
Theorem C04_distance_line : forall a b,
  a <> [] -> b <> [] -> Forall wf_part a -> Forall wf_part b -> overlap a b = false ->
  (forall p q, In p a -> In q b -> dist a b None <= gap p q) /\
  (exists p q, In p a /\ In q b /\ dist a b None = gap p q).
Proof. exact dist_line_spec. Qed.
Print Assumptions C04_distance_line.

(* ... and on a ring the shorter way round, for every record length *)
Theorem C04_distance_ring : forall N a b,
  a <> [] -> b <> [] -> Forall wf_part a -> Forall wf_part b -> in_record N a -> in_record N b ->
  overlap a b = false ->
  (forall p q, In p a -> In q b -> dist a b (Some N) <= between_ring N p q) /\
  (exists p q, In p a /\ In q b /\ dist a b (Some N) = between_ring N p q).
Proof. exact dist_ring_spec. Qed.
Print Assumptions C04_distance_ring.

Theorem C04_distance_part_sym : forall a b w, pdist a b w = pdist b a w.
Proof. exact pdist_sym. Qed.
Print Assumptions C04_distance_part_sym.

(* connecting single-part locations on a line gives the exact hull *)
Theorem C04_connect_line : forall locs, locs <> [] -> simple_locs locs -> Forall wf_loc locs ->
  exists h, connect_locations locs None = Ok [h] /\
    ps h = lmin (map lstart locs) /\ pe h = lmax (map lend locs) /\
    pst h = common_strand locs /\ ps h < pe h.
Proof. exact connect_line_simple. Qed.
Print Assumptions C04_connect_line.

Theorem C04_connect_line_covers : forall locs h, simple_locs locs ->
  ps h = lmin (map lstart locs) -> pe h = lmax (map lend locs) ->
  forall l x, In l locs -> base_of l x -> ps h <= x < pe h.
Proof. exact hull_covers. Qed.
Print Assumptions C04_connect_line_covers.

Theorem C04_connect_line_tight : forall locs h, locs <> [] -> simple_locs locs ->
  ps h = lmin (map lstart locs) -> pe h = lmax (map lend locs) ->
  (exists l p, In l locs /\ l = [p] /\ ps p = ps h) /\
  (exists l p, In l locs /\ l = [p] /\ pe p = pe h).
Proof. exact hull_tight. Qed.
Print Assumptions C04_connect_line_tight.

(* shifting a single part on a ring rotates the same bases, keeps length and strand, and the
   result is well-formed (at most two parts, inside the record) - for every record length and
   every offset of less than one full turn *)
Theorem C04_offset_simple_ring : forall N p off,
  0 < N -> 0 <= ps p -> ps p < pe p -> pe p <= N -> - N < off < N -> pe p - ps p < N ->
  exists r, offset_location [p] off (Some N) = Ok r /\
    llen r = pe p - ps p /\
    Forall (fun q => pst q = pst p /\ 0 <= ps q /\ ps q < pe q /\ pe q <= N) r /\
    (forall y, 0 <= y < N -> (base_of r y <-> exists x, ps p <= x < pe p /\ y = rot N off x)).
Proof. exact offset_simple_ring. Qed.
Print Assumptions C04_offset_simple_ring.

(* extending a single part on a linear record covers exactly the bases within the distance, clipped *)
Theorem C04_extend_line_simple : forall p d N,
  0 <= ps p -> ps p < pe p -> pe p <= N -> 0 <= d ->
  extend_location [p] d N false = Ok [mkPart (Z.max 0 (ps p - d)) (Z.min (pe p + d) N) (pst p)].
Proof. exact extend_line_simple. Qed.
Print Assumptions C04_extend_line_simple.

(* ---- non-vacuity ---- *)
Example C04_ex_ring_distance :
  let a := [mkPart 1 2 1] in let b := [mkPart 2 3 1; mkPart 0 1 1] in
  Forall wf_part a /\ Forall wf_part b /\ in_record 3 a /\ in_record 3 b /\
  overlap a b = false /\ dist a b (Some 3) = 0.
Proof. cbn. repeat split; repeat constructor; unfold wf_part; cbn; lia. Qed.

Example C04_ex_offset :
  offset_location [mkPart 5 10 (-1)] 10 (Some 20) = Ok [mkPart 15 20 (-1)] /\
  offset_location [mkPart 5 10 1] 12 (Some 20) = Ok [mkPart 17 20 1; mkPart 0 2 1].
Proof. split; reflexivity. Qed.

Example C04_ex_connect :
  connect_locations [[mkPart 5 10 1]; [mkPart 2 7 1]; [mkPart 20 30 1]] None = Ok [mkPart 2 30 1].
Proof. reflexivity. Qed.
