From ASV Require Import Loc.
Theorem C04_placeholder : True. Proof. exact I. Qed.
Print Assumptions C04_placeholder.
