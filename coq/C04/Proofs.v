(* C04: proofs that the location model agrees with the set-of-bases semantics. *)
From ASV.C04 Require Import Model.
From Coq Require Import ZifyBool.

(* ---------- semantics ---------- *)
Definition wf_part (p : part) : Prop := ps p < pe p.
Definition wf_loc (l : loc) : Prop := l <> [] /\ Forall wf_part l.
Definition base_of (l : loc) (x : Z) : Prop := exists p, In p l /\ ps p <= x < pe p.
Definition in_record (N : Z) (l : loc) : Prop := Forall (fun p => 0 <= ps p /\ pe p <= N) l.

Lemma in_part_spec x p : in_part x p = true <-> ps p <= x < pe p.
Proof. unfold in_part. lia. Qed.

Lemma in_loc_spec x l : in_loc x l = true <-> base_of l x.
Proof.
  unfold in_loc, base_of. rewrite existsb_exists. split.
  - intros [p [Hin H]]. exists p. split; [assumption|]. apply in_part_spec. assumption.
  - intros [p [Hin H]]. exists p. split; [assumption|]. apply in_part_spec. assumption.
Qed.

(* ---------- overlap ---------- *)
Lemma part_overlap_spec a b : wf_part a -> wf_part b ->
  (part_overlap a b = true <-> exists x, (ps a <= x < pe a) /\ (ps b <= x < pe b)).
Proof.
  unfold wf_part, part_overlap, in_part. intros Ha Hb. split.
  - intros H.
    destruct (Z_le_gt_dec (ps a) (ps b)) as [Hle|Hgt].
    + exists (ps b). lia.
    + exists (ps a). lia.
  - intros [x [H1 H2]]. lia.
Qed.

Lemma overlap_spec a b : Forall wf_part a -> Forall wf_part b ->
  (overlap a b = true <-> exists x, base_of a x /\ base_of b x).
Proof.
  intros Ha Hb. unfold overlap. rewrite existsb_exists. split.
  - intros [p [Hp H]]. rewrite existsb_exists in H. destruct H as [q [Hq H]].
    rewrite Forall_forall in Ha, Hb.
    apply part_overlap_spec in H; [|apply Ha; assumption|apply Hb; assumption].
    destruct H as [x [H1 H2]]. exists x. split; [exists p|exists q]; auto.
  - intros [x [[p [Hp H1]] [q [Hq H2]]]]. exists p. split; [assumption|].
    rewrite existsb_exists. exists q. split; [assumption|].
    rewrite Forall_forall in Ha, Hb.
    apply part_overlap_spec; [apply Ha; assumption|apply Hb; assumption|].
    exists x. auto.
Qed.

Lemma part_overlap_sym a b : part_overlap a b = part_overlap b a.
Proof. unfold part_overlap. destruct (in_part (ps a) b), (in_part (pe a - 1) b), (in_part (ps b) a), (in_part (pe b - 1) a); reflexivity. Qed.

Lemma overlap_sym a b : Forall wf_part a -> Forall wf_part b -> overlap a b = overlap b a.
Proof.
  intros Ha Hb. apply eq_true_iff_eq. rewrite (overlap_spec a b Ha Hb), (overlap_spec b a Hb Ha).
  split; intros [x [H1 H2]]; exists x; auto.
Qed.

(* ---------- contains ---------- *)
Lemma part_contains_spec o i : wf_part i ->
  (part_contains o i = true <-> ps o <= ps i /\ pe i <= pe o).
Proof. unfold wf_part, part_contains. lia. Qed.

Lemma contains_spec o i : Forall wf_part i ->
  (contains o i = true <->
   Forall (fun ip => exists op, In op o /\ ps op <= ps ip /\ pe ip <= pe op) i).
Proof.
  intros Hi. unfold contains. rewrite forallb_forall, Forall_forall. rewrite Forall_forall in Hi.
  split; intros H ip Hip; specialize (H ip Hip).
  - rewrite existsb_exists in H. destruct H as [op [Hop H]]. exists op. split; [assumption|].
    apply part_contains_spec; auto.
  - rewrite existsb_exists. destruct H as [op [Hop H]]. exists op. split; [assumption|].
    apply part_contains_spec; auto.
Qed.

Lemma contains_bases o i : Forall wf_part i -> contains o i = true ->
  forall x, base_of i x -> base_of o x.
Proof.
  intros Hi H x [ip [Hip Hx]]. rewrite (contains_spec o i Hi) in H.
  rewrite Forall_forall in H. destruct (H ip Hip) as [op [Hop [H1 H2]]].
  exists op. split; [assumption|lia].
Qed.

(* ---------- distance, single parts ---------- *)
(* the number of bases strictly between two disjoint intervals on a line *)

Lemma lmin4 a b c d : lmin [a; b; c; d] = Z.min (Z.min (Z.min a b) c) d.
Proof. reflexivity. Qed.

Lemma part_overlap_false a b : wf_part a -> wf_part b ->
  part_overlap a b = false -> pe a <= ps b \/ pe b <= ps a.
Proof. unfold wf_part, part_overlap, in_part. lia. Qed.

Lemma pdist_line_spec a b : wf_part a -> wf_part b ->
  pdist_line a b = if part_overlap a b then 0 else gap a b.
Proof.
  intros Ha Hb. unfold pdist_line. destruct (part_overlap a b) eqn:Ho; [reflexivity|].
  apply part_overlap_false in Ho; [|assumption|assumption].
  unfold wf_part in *. rewrite lmin4. unfold gap.
  destruct (pe a <=? ps b) eqn:E; lia.
Qed.

(* on a ring of length N: the gap the other way round *)

Lemma mod_small_eq x N : 0 <= x < N -> x mod N = x.
Proof. intros. apply Z.mod_small. assumption. Qed.

Lemma pdist_ring_spec N a b : wf_part a -> wf_part b ->
  0 <= ps a -> pe a <= N -> 0 <= ps b -> pe b <= N ->
  pdist a b (Some N) =
    if part_overlap a b then 0 else Z.min (wrap_gap N a b) (gap a b).
Proof.
  intros Ha Hb Ha0 HaN Hb0 HbN. unfold pdist.
  destruct (part_overlap a b) eqn:Ho; [reflexivity|].
  assert (HN : 0 < N) by (unfold wf_part in *; lia).
  destruct (N =? 0) eqn:EN; [lia|].
  rewrite pdist_line_spec by assumption. rewrite Ho.
  apply part_overlap_false in Ho; [|assumption|assumption].
  unfold wf_part in *. rewrite lmin4. unfold wrap_gap, gap.
  destruct (pe a <=? ps b) eqn:E.
  - assert (Hle : pe a <= ps b) by lia. clear E Ho.
    rewrite (Z.abs_eq (ps a - pe b + N)) by lia. rewrite (Z.abs_eq (pe a - ps b + N)) by lia.
    rewrite (Z.abs_eq (ps b - pe a + N)) by lia. rewrite (Z.abs_eq (pe b - ps a + N)) by lia.
    rewrite (Z.min_l (ps a - pe b + N) (pe a - ps b + N)) by lia.
    rewrite (Z.min_l (ps a - pe b + N) (ps b - pe a + N)) by lia.
    rewrite (Z.min_l (ps a - pe b + N) (pe b - ps a + N)) by lia.
    replace (ps a - pe b + N) with (ps a + N - pe b) by lia.
    destruct (Z.eq_dec (ps a + N - pe b) N) as [Heq|Hne].
    + (* a starts at 0 and b ends at N: the other way round there is nothing in between *)
      lia.
    + rewrite mod_small_eq by lia. reflexivity.
  - assert (Hle : pe b <= ps a) by lia. clear E Ho.
    rewrite (Z.abs_eq (ps a - pe b + N)) by lia. rewrite (Z.abs_eq (pe a - ps b + N)) by lia.
    rewrite (Z.abs_eq (ps b - pe a + N)) by lia. rewrite (Z.abs_eq (pe b - ps a + N)) by lia.
    rewrite (Z.min_l (ps a - pe b + N) (pe a - ps b + N)) by lia.
    rewrite (Z.min_r (ps a - pe b + N) (ps b - pe a + N)) by lia.
    rewrite (Z.min_l (ps b - pe a + N) (pe b - ps a + N)) by lia.
    replace (ps b - pe a + N) with (ps b + N - pe a) by lia.
    destruct (Z.eq_dec (ps b + N - pe a) N) as [Heq|Hne].
    + lia.
    + rewrite mod_small_eq by lia. reflexivity.
Qed.

Lemma min4_perm x1 x2 x3 x4 :
  Z.min (Z.min (Z.min x1 x2) x3) x4 = Z.min (Z.min (Z.min x3 x4) x1) x2.
Proof. lia. Qed.

Lemma pdist_sym a b w : pdist a b w = pdist b a w.
Proof.
  unfold pdist, pdist_line. rewrite (part_overlap_sym b a).
  destruct (part_overlap a b); [reflexivity|].
  unfold lmin; cbn [fold_left].
  destruct w as [w|]; [destruct (w =? 0)|]; cbn zeta; rewrite ?(min4_perm (Z.abs (ps a - pe b)));
    rewrite ?(min4_perm (Z.abs (ps a - pe b + w))); reflexivity.
Qed.

(* ---------- linear connect ---------- *)
Lemma fold_min_le l : forall x y, In y (x :: l) -> fold_left Z.min l x <= y.
Proof.
  induction l as [|a l IH]; intros x y Hin; simpl in *.
  - destruct Hin as [->|[]]. lia.
  - destruct Hin as [->|[->|Hin]].
    + specialize (IH (Z.min y a) (Z.min y a) (or_introl eq_refl)). lia.
    + specialize (IH (Z.min x y) (Z.min x y) (or_introl eq_refl)). lia.
    + apply IH. right. assumption.
Qed.
Lemma fold_max_ge l : forall x y, In y (x :: l) -> y <= fold_left Z.max l x.
Proof.
  induction l as [|a l IH]; intros x y Hin; simpl in *.
  - destruct Hin as [->|[]]. lia.
  - destruct Hin as [->|[->|Hin]].
    + specialize (IH (Z.max y a) (Z.max y a) (or_introl eq_refl)). lia.
    + specialize (IH (Z.max x y) (Z.max x y) (or_introl eq_refl)). lia.
    + apply IH. right. assumption.
Qed.
Lemma fold_min_in l : forall x, In (fold_left Z.min l x) (x :: l).
Proof.
  induction l as [|a l IH]; intros x; simpl.
  - left. reflexivity.
  - destruct (IH (Z.min x a)) as [H|H].
    + destruct (Z.min_spec x a) as [[_ E]|[_ E]]; rewrite E in *; auto.
    + right. right. assumption.
Qed.
Lemma fold_max_in l : forall x, In (fold_left Z.max l x) (x :: l).
Proof.
  induction l as [|a l IH]; intros x; simpl.
  - left. reflexivity.
  - destruct (IH (Z.max x a)) as [H|H].
    + destruct (Z.max_spec x a) as [[_ E]|[_ E]]; rewrite E in *; auto.
    + right. right. assumption.
Qed.

Lemma lmin_le l y : In y l -> lmin l <= y.
Proof. destruct l as [|x l]; [intros []|]. apply fold_min_le. Qed.
Lemma lmax_ge l y : In y l -> y <= lmax l.
Proof. destruct l as [|x l]; [intros []|]. apply fold_max_ge. Qed.
Lemma lmin_in l : l <> [] -> In (lmin l) l.
Proof. destruct l as [|x l]; [congruence|]. intros _. apply fold_min_in. Qed.
Lemma lmax_in l : l <> [] -> In (lmax l) l.
Proof. destruct l as [|x l]; [congruence|]. intros _. apply fold_max_in. Qed.

Lemma bridges_single p : bridges [p] = false.
Proof. reflexivity. Qed.

(* For single-part inputs on a line, connect_locations is the exact hull. *)
Definition simple_locs (locs : list loc) : Prop := Forall (fun l => exists p, l = [p]) locs.

Lemma mapM_reduce_simple locs : simple_locs locs ->
  mapM (fun l => reduce_parts l None) locs = Ok locs.
Proof.
  induction 1 as [|l locs [p ->] _ IH]; simpl; [reflexivity|].
  rewrite IH. reflexivity.
Qed.

Lemma existsb_bridges_simple locs : simple_locs locs -> existsb bridges locs = false.
Proof.
  induction 1 as [|l locs [p ->] _ IH]; simpl; [reflexivity|assumption].
Qed.

Lemma connect_line_simple locs : locs <> [] -> simple_locs locs ->
  Forall wf_loc locs ->
  exists h, connect_locations locs None = Ok [h] /\
    ps h = lmin (map lstart locs) /\ pe h = lmax (map lend locs) /\
    pst h = common_strand locs /\ ps h < pe h.
Proof.
  intros Hne Hs Hwf. unfold connect_locations, connect_fuel.
  destruct locs as [|l0 locs']; [congruence|].
  set (locs := l0 :: locs') in *.
  replace (2 * length locs + 8)%nat with (S (2 * length locs + 7))%nat by lia.
  cbn [connect]. fold locs.
  rewrite existsb_bridges_simple by assumption.
  rewrite mapM_reduce_simple by assumption. cbn [bind].
  unfold hull, mkFL.
  assert (Hlt : lmin (map lstart locs) < lmax (map lend locs)).
  { inversion Hs as [|x xs [p Hp] _]; subst.
    inversion Hwf as [|y ys [_ Hw] _]; subst.
    inversion Hw as [|q qs Hq _]; subst. unfold wf_part in Hq.
    assert (H1 : lmin (map lstart locs) <= ps p).
    { apply lmin_le. unfold locs. simpl. left. reflexivity. }
    assert (H2 : pe p <= lmax (map lend locs)).
    { apply lmax_ge. unfold locs. simpl. left. reflexivity. }
    lia. }
  destruct (lmax (map lend locs) <? lmin (map lstart locs)) eqn:E; [lia|].
  cbn [bind]. eexists. split; [reflexivity|]. cbn [ps pe pst]. auto.
Qed.

(* the hull covers every base of every input and is tight at both ends *)
Lemma hull_covers locs h : simple_locs locs ->
  ps h = lmin (map lstart locs) -> pe h = lmax (map lend locs) ->
  forall l x, In l locs -> base_of l x -> ps h <= x < pe h.
Proof.
  intros Hs Hps Hpe l x Hl [p [Hp Hx]].
  unfold simple_locs in Hs. rewrite Forall_forall in Hs. destruct (Hs l Hl) as [q ->].
  destruct Hp as [<-|[]].
  assert (H1 : lmin (map lstart locs) <= ps q).
  { apply lmin_le. apply in_map_iff. exists [q]. split; [reflexivity|assumption]. }
  assert (H2 : pe q <= lmax (map lend locs)).
  { apply lmax_ge. apply in_map_iff. exists [q]. split; [reflexivity|assumption]. }
  lia.
Qed.

Lemma hull_tight locs h : locs <> [] -> simple_locs locs ->
  ps h = lmin (map lstart locs) -> pe h = lmax (map lend locs) ->
  (exists l p, In l locs /\ l = [p] /\ ps p = ps h) /\
  (exists l p, In l locs /\ l = [p] /\ pe p = pe h).
Proof.
  intros Hne Hs Hps Hpe. unfold simple_locs in Hs. rewrite Forall_forall in Hs. split.
  - assert (Hin : In (lmin (map lstart locs)) (map lstart locs)).
    { apply lmin_in. destruct locs; [congruence|discriminate]. }
    apply in_map_iff in Hin. destruct Hin as [l [Hl Hin]].
    destruct (Hs l Hin) as [p ->]. exists [p], p. repeat split; auto.
    rewrite Hps, <- Hl. reflexivity.
  - assert (Hin : In (lmax (map lend locs)) (map lend locs)).
    { apply lmax_in. destruct locs; [congruence|discriminate]. }
    apply in_map_iff in Hin. destruct Hin as [l [Hl Hin]].
    destruct (Hs l Hin) as [p ->]. exists [p], p. repeat split; auto.
    rewrite Hpe, <- Hl. reflexivity.
Qed.

(* ---------- offset of a single part on a ring ---------- *)
Definition rot (N off x : Z) : Z := (x + off) mod N.

Ltac solve_forallb :=
  match goal with
  | |- context [negb (forallb ?f ?l)] =>
    let H := fresh "Hfa" in
    assert (H : forallb f l = true) by (cbn [forallb ps pe]; lia); rewrite H; clear H
  end.

Lemma offset_simple_ring N p off :
  0 < N -> 0 <= ps p -> ps p < pe p -> pe p <= N -> - N < off < N -> pe p - ps p < N ->
  exists r, offset_location [p] off (Some N) = Ok r /\
    llen r = pe p - ps p /\
    Forall (fun q => pst q = pst p /\ 0 <= ps q /\ ps q < pe q /\ pe q <= N) r /\
    (forall y, 0 <= y < N -> (base_of r y <-> exists x, ps p <= x < pe p /\ y = rot N off x)).
Proof.
  intros HN H0 Hlt HeN Hoff Hlen.
  unfold offset_location.
  destruct (N =? 0) eqn:EN; [lia|].
  destruct (off =? 0) eqn:Eoff.
  - (* no shift *)
    cbn [orb]. unfold shifted. rewrite Eoff. exists [p]. split; [reflexivity|].
    split; [cbn; lia|]. split; [constructor; [lia|constructor]|].
    intros y Hy. unfold base_of, rot. split.
    + intros [q [[<-|[]] Hq]]. exists y. split; [assumption|].
      assert (off = 0) by lia. subst off. rewrite Z.add_0_r. symmetry. apply Z.mod_small. lia.
    + intros [x [Hx ->]]. exists p. split; [left; reflexivity|].
      assert (off = 0) by lia. subst off. rewrite Z.add_0_r. rewrite Z.mod_small by lia. assumption.
  - cbn [orb]. destruct (N <? 1) eqn:EN1; [lia|].
    assert (Hllen : llen [p] = pe p - ps p) by (cbn; lia). rewrite Hllen.
    destruct (pe p - ps p =? N) eqn:Efull; [lia|].
    assert (Hs : lstart [p] = ps p) by reflexivity. assert (He : lend [p] = pe p) by reflexivity.
    rewrite Hs, He.
    destruct ((0 <=? ps p + off) && (ps p + off <? pe p + off) && (pe p + off <=? N)) eqn:Etriv.
    + (* stays inside the record *)
      unfold shifted. rewrite Eoff. cbn [mapM bind].
      destruct (negb (ps p + off <? pe p + off)) eqn:E1; [lia|]. cbn [orb].
      eexists. split; [reflexivity|]. split; [cbn; lia|].
      split; [constructor; [cbn; lia|constructor]|].
      intros y Hy. unfold base_of, rot. split.
      * intros [q [[<-|[]] Hq]]. cbn in Hq. exists (y - off). split; [lia|].
        replace (y - off + off) with y by lia. symmetry. apply Z.mod_small. lia.
      * intros [x [Hx ->]]. eexists. split; [left; reflexivity|]. cbn.
        rewrite Z.mod_small by lia. lia.
    + unfold shifted. rewrite Eoff. cbn [mapM bind].
      destruct (negb (ps p + off <? pe p + off)) eqn:E1; [lia|]. cbn [orb bind flat_map app ps pe pst].
      set (s := (ps p + off + N) mod N). set (e := (pe p + off - 1 + N) mod N + 1).
      assert (Hs0 : 0 <= s < N) by (apply Z.mod_pos_bound; lia).
      assert (He0 : 0 < e <= N) by (unfold e; pose proof (Z.mod_pos_bound (pe p + off - 1 + N) N HN); lia).
      (* three possibilities for where the shifted interval sits *)
      assert (Hcase : (ps p + off < 0 /\ pe p + off <= 0) \/
                      (ps p + off < 0 /\ 0 < pe p + off) \/
                      (0 <= ps p + off < N /\ N < pe p + off) \/
                      (N <= ps p + off)) by lia.
      destruct Hcase as [[Ha Hb]|[[Ha Hb]|[[Ha Hb]|Ha]]].
      * (* entirely before the origin: moved up by N *)
        assert (Es : s = ps p + off + N).
        { unfold s. apply Z.mod_small. lia. }
        assert (Ee : e = pe p + off + N).
        { unfold e. rewrite Z.mod_small by lia. lia. }
        destruct ((0 <=? s) && (s <? e) && (e <=? N)) eqn:Ein; [|lia].
        cbn [app]. solve_forallb.
        cbn [negb merge_adjacent rev app]. eexists. split; [reflexivity|].
        split; [cbn; lia|]. split; [constructor; [cbn; lia|constructor]|].
        intros y Hy. unfold base_of, rot. split.
        -- intros [q [[<-|[]] Hq]]. cbn in Hq. exists (y - off - N). split; [lia|].
           replace (y - off - N + off) with (y + (-1) * N) by lia.
           rewrite Z.mod_add by lia. symmetry. apply Z.mod_small. lia.
        -- intros [x [Hx ->]]. eexists. split; [left; reflexivity|]. cbn.
           replace (x + off) with (x + off + N + (-1) * N) by lia.
           rewrite Z.mod_add by lia. rewrite Z.mod_small by lia. lia.
      * (* straddles the origin from below: [s, N) and [0, e) *)
        assert (Es : s = ps p + off + N).
        { unfold s. apply Z.mod_small. lia. }
        assert (Ee : e = pe p + off).
        { unfold e. replace (pe p + off - 1 + N) with (pe p + off - 1 + 1 * N) by lia.
          rewrite Z.mod_add by lia. rewrite Z.mod_small by lia. lia. }
        destruct ((0 <=? s) && (s <? e) && (e <=? N)) eqn:Ein; [lia|].
        destruct (pst p =? -1) eqn:Erev.
        { (* reverse strand: the half after the origin is listed first *)
        cbn [app]. solve_forallb.
        cbn [negb merge_adjacent ps pe pst]. rewrite Erev. cbn [andb].
        destruct (0 =? N) eqn:EN0; [lia|].
        cbn [merge_adjacent rev app]. eexists. split; [reflexivity|].
        split; [cbn; lia|].
        split; [constructor; [cbn; lia|constructor; [cbn; lia|constructor]]|].
        intros y Hy. unfold base_of, rot. split.
        -- intros [q [[<-|[<-|[]]] Hq]]; cbn in Hq.
           ++ exists (y - off). split; [lia|].
              replace (y - off + off) with y by lia. symmetry. apply Z.mod_small. lia.
           ++ exists (y - off - N). split; [lia|].
              replace (y - off - N + off) with (y + (-1) * N) by lia.
              rewrite Z.mod_add by lia. symmetry. apply Z.mod_small. lia.
        -- intros [x [Hx ->]].
           destruct (Z_lt_ge_dec (x + off) 0) as [Hneg|Hpos].
           ++ eexists. split; [right; left; reflexivity|]. cbn.
              replace (x + off) with (x + off + N + (-1) * N) by lia.
              rewrite Z.mod_add by lia. rewrite Z.mod_small by lia. lia.
           ++ eexists. split; [left; reflexivity|]. cbn.
              rewrite Z.mod_small by lia. lia. }
        cbn [app]. solve_forallb.
        cbn [negb merge_adjacent ps pe pst]. rewrite Erev. cbn [andb].
        destruct (N =? 0) eqn:EN0; [lia|].
        cbn [merge_adjacent rev app]. eexists. split; [reflexivity|].
        split; [cbn; lia|].
        split; [constructor; [cbn; lia|constructor; [cbn; lia|constructor]]|].
        intros y Hy. unfold base_of, rot. split.
        -- intros [q [[<-|[<-|[]]] Hq]]; cbn in Hq.
           ++ exists (y - off - N). split; [lia|].
              replace (y - off - N + off) with (y + (-1) * N) by lia.
              rewrite Z.mod_add by lia. symmetry. apply Z.mod_small. lia.
           ++ exists (y - off). split; [lia|].
              replace (y - off + off) with y by lia. symmetry. apply Z.mod_small. lia.
        -- intros [x [Hx ->]].
           destruct (Z_lt_ge_dec (x + off) 0) as [Hneg|Hpos].
           ++ eexists. split; [left; reflexivity|]. cbn.
              replace (x + off) with (x + off + N + (-1) * N) by lia.
              rewrite Z.mod_add by lia. rewrite Z.mod_small by lia. lia.
           ++ eexists. split; [right; left; reflexivity|]. cbn.
              rewrite Z.mod_small by lia. lia.
      * (* straddles the end of the record: [s, N) and [0, e) *)
        assert (Es : s = ps p + off).
        { unfold s. replace (ps p + off + N) with (ps p + off + 1 * N) by lia.
          rewrite Z.mod_add by lia. apply Z.mod_small. lia. }
        assert (Ee : e = pe p + off - N).
        { unfold e. replace (pe p + off - 1 + N) with (pe p + off - 1 - N + 2 * N) by lia.
          rewrite Z.mod_add by lia. rewrite Z.mod_small by lia. lia. }
        destruct ((0 <=? s) && (s <? e) && (e <=? N)) eqn:Ein; [lia|].
        destruct (pst p =? -1) eqn:Erev.
        { (* reverse strand: the half after the origin is listed first *)
        cbn [app]. solve_forallb.
        cbn [negb merge_adjacent ps pe pst]. rewrite Erev. cbn [andb].
        destruct (0 =? N) eqn:EN0; [lia|].
        cbn [merge_adjacent rev app]. eexists. split; [reflexivity|].
        split; [cbn; lia|].
        split; [constructor; [cbn; lia|constructor; [cbn; lia|constructor]]|].
        intros y Hy. unfold base_of, rot. split.
        -- intros [q [[<-|[<-|[]]] Hq]]; cbn in Hq.
           ++ exists (y - off + N). split; [lia|].
              replace (y - off + N + off) with (y + 1 * N) by lia.
              rewrite Z.mod_add by lia. symmetry. apply Z.mod_small. lia.
           ++ exists (y - off). split; [lia|].
              replace (y - off + off) with y by lia. symmetry. apply Z.mod_small. lia.
        -- intros [x [Hx ->]].
           destruct (Z_lt_ge_dec (x + off) N) as [Hlow|Hhigh].
           ++ eexists. split; [right; left; reflexivity|]. cbn.
              rewrite Z.mod_small by lia. lia.
           ++ eexists. split; [left; reflexivity|]. cbn.
              replace (x + off) with (x + off - N + 1 * N) by lia.
              rewrite Z.mod_add by lia. rewrite Z.mod_small by lia. lia. }
        cbn [app]. solve_forallb.
        cbn [negb merge_adjacent ps pe pst]. rewrite Erev. cbn [andb].
        destruct (N =? 0) eqn:EN0; [lia|].
        cbn [merge_adjacent rev app]. eexists. split; [reflexivity|].
        split; [cbn; lia|].
        split; [constructor; [cbn; lia|constructor; [cbn; lia|constructor]]|].
        intros y Hy. unfold base_of, rot. split.
        -- intros [q [[<-|[<-|[]]] Hq]]; cbn in Hq.
           ++ exists (y - off). split; [lia|].
              replace (y - off + off) with y by lia. symmetry. apply Z.mod_small. lia.
           ++ exists (y - off + N). split; [lia|].
              replace (y - off + N + off) with (y + 1 * N) by lia.
              rewrite Z.mod_add by lia. symmetry. apply Z.mod_small. lia.
        -- intros [x [Hx ->]].
           destruct (Z_lt_ge_dec (x + off) N) as [Hlow|Hhigh].
           ++ eexists. split; [left; reflexivity|]. cbn.
              rewrite Z.mod_small by lia. lia.
           ++ eexists. split; [right; left; reflexivity|]. cbn.
              replace (x + off) with (x + off - N + 1 * N) by lia.
              rewrite Z.mod_add by lia. rewrite Z.mod_small by lia. lia.
      * (* entirely past the end: moved down by N *)
        assert (Es : s = ps p + off - N).
        { unfold s. replace (ps p + off + N) with (ps p + off - N + 2 * N) by lia.
          rewrite Z.mod_add by lia. apply Z.mod_small. lia. }
        assert (Ee : e = pe p + off - N).
        { unfold e. replace (pe p + off - 1 + N) with (pe p + off - 1 - N + 2 * N) by lia.
          rewrite Z.mod_add by lia. rewrite Z.mod_small by lia. lia. }
        destruct ((0 <=? s) && (s <? e) && (e <=? N)) eqn:Ein; [|lia].
        cbn [app]. solve_forallb.
        cbn [negb merge_adjacent rev app]. eexists. split; [reflexivity|].
        split; [cbn; lia|]. split; [constructor; [cbn; lia|constructor]|].
        intros y Hy. unfold base_of, rot. split.
        -- intros [q [[<-|[]] Hq]]. cbn in Hq. exists (y - off + N). split; [lia|].
           replace (y - off + N + off) with (y + 1 * N) by lia.
           rewrite Z.mod_add by lia. symmetry. apply Z.mod_small. lia.
        -- intros [x [Hx ->]]. eexists. split; [left; reflexivity|]. cbn.
           replace (x + off) with (x + off - N + 1 * N) by lia.
           rewrite Z.mod_add by lia. rewrite Z.mod_small by lia. lia.
Qed.

(* ---------- distance between arbitrary (multi-part) locations ---------- *)
Definition pair_dists (a b : loc) (w : option Z) : list Z :=
  flat_map (fun p => map (fun q => pdist p q w) b) a.

Lemma dist_unfold a b w : overlap a b = false -> dist a b w = lmin (pair_dists a b w).
Proof.
  intros Ho. unfold dist. rewrite Ho.
  destruct a as [|p [|p' a']]; [reflexivity| |reflexivity].
  destruct b as [|q [|q' b']]; reflexivity.
Qed.

Lemma in_pair_dists a b w d :
  In d (pair_dists a b w) <-> exists p q, In p a /\ In q b /\ d = pdist p q w.
Proof.
  unfold pair_dists. rewrite in_flat_map. split.
  - intros [p [Hp H]]. apply in_map_iff in H. destruct H as [q [Hq H]].
    exists p, q. auto.
  - intros [p [q [Hp [Hq ->]]]]. exists p. split; [assumption|].
    apply in_map_iff. exists q. auto.
Qed.

Lemma overlap_false_parts a b p q :
  overlap a b = false -> In p a -> In q b -> part_overlap p q = false.
Proof.
  intros Ho Hp Hq. destruct (part_overlap p q) eqn:E; [|reflexivity].
  assert (overlap a b = true); [|congruence].
  unfold overlap. rewrite existsb_exists. exists p. split; [assumption|].
  rewrite existsb_exists. exists q. auto.
Qed.


Lemma dist_ring_spec N a b :
  a <> [] -> b <> [] -> Forall wf_part a -> Forall wf_part b -> in_record N a -> in_record N b ->
  overlap a b = false ->
  (forall p q, In p a -> In q b -> dist a b (Some N) <= between_ring N p q) /\
  (exists p q, In p a /\ In q b /\ dist a b (Some N) = between_ring N p q).
Proof.
  intros Hna Hnb Ha Hb Ra Rb Ho. rewrite dist_unfold by assumption.
  rewrite Forall_forall in Ha, Hb. unfold in_record in *. rewrite Forall_forall in Ra, Rb.
  assert (Hpd : forall p q, In p a -> In q b -> pdist p q (Some N) = between_ring N p q).
  { intros p q Hp Hq. rewrite pdist_ring_spec; try (apply Ha; assumption); try (apply Hb; assumption);
      try (apply Ra; assumption); try (apply Rb; assumption).
    rewrite (overlap_false_parts a b p q Ho Hp Hq). reflexivity. }
  split.
  - intros p q Hp Hq. rewrite <- Hpd by assumption. apply lmin_le.
    apply in_pair_dists. exists p, q. auto.
  - assert (Hne : pair_dists a b (Some N) <> []).
    { destruct a as [|p a']; [congruence|]. destruct b as [|q b']; [congruence|]. discriminate. }
    pose proof (lmin_in _ Hne) as Hin. apply in_pair_dists in Hin.
    destruct Hin as [p [q [Hp [Hq E]]]]. exists p, q. repeat split; try assumption.
    rewrite E. apply Hpd; assumption.
Qed.

Lemma dist_line_spec a b :
  a <> [] -> b <> [] -> Forall wf_part a -> Forall wf_part b ->
  overlap a b = false ->
  (forall p q, In p a -> In q b -> dist a b None <= gap p q) /\
  (exists p q, In p a /\ In q b /\ dist a b None = gap p q).
Proof.
  intros Hna Hnb Ha Hb Ho. rewrite dist_unfold by assumption.
  rewrite Forall_forall in Ha, Hb.
  assert (Hpd : forall p q, In p a -> In q b -> pdist p q None = gap p q).
  { intros p q Hp Hq. unfold pdist. rewrite (overlap_false_parts a b p q Ho Hp Hq).
    rewrite pdist_line_spec by (try (apply Ha; assumption); try (apply Hb; assumption)).
    rewrite (overlap_false_parts a b p q Ho Hp Hq). reflexivity. }
  split.
  - intros p q Hp Hq. rewrite <- Hpd by assumption. apply lmin_le.
    apply in_pair_dists. exists p, q. auto.
  - assert (Hne : pair_dists a b None <> []).
    { destruct a as [|p a']; [congruence|]. destruct b as [|q b']; [congruence|]. discriminate. }
    pose proof (lmin_in _ Hne) as Hin. apply in_pair_dists in Hin.
    destruct Hin as [p [q [Hp [Hq E]]]]. exists p, q. repeat split; try assumption.
    rewrite E. apply Hpd; assumption.
Qed.

Lemma dist_overlap a b w : overlap a b = true -> dist a b w = 0.
Proof. intros H. unfold dist. rewrite H. reflexivity. Qed.

Lemma gap_nonneg p q : wf_part p -> wf_part q -> part_overlap p q = false -> 0 <= gap p q.
Proof.
  intros Hp Hq Ho. apply part_overlap_false in Ho; [|assumption|assumption].
  unfold gap, wf_part in *. destruct (pe p <=? ps q) eqn:E; lia.
Qed.

(* ---------- extend_location of a single part on a linear record ---------- *)
Lemma extend_line_simple p d N :
  0 <= ps p -> ps p < pe p -> pe p <= N -> 0 <= d ->
  extend_location [p] d N false =
    Ok [mkPart (Z.max 0 (ps p - d)) (Z.min (pe p + d) N) (pst p)].
Proof.
  intros H0 Hlt HN Hd. unfold extend_location.
  assert (Hst : lstrand [p] = pst p) by reflexivity. rewrite Hst.
  assert (Hrev : (if pst p =? -1 then rev [p] else [p]) = [p]) by (destruct (pst p =? -1); reflexivity).
  rewrite Hrev. cbn [last_opt rev app andb].
  cbn [length merge_ends last_opt rev app tl removelast].
  cbn [andb]. rewrite andb_false_r.
  unfold mkFL. cbn [ps pe pst].
  destruct (pe p <? Z.max 0 (ps p - d)) eqn:E1; [lia|]. cbn [bind last_opt rev app].
  rewrite andb_false_r. cbn [ps pe pst].
  destruct (Z.min (pe p + d) N <? Z.max 0 (ps p - d)) eqn:E2; [lia|].
  cbn [bind removelast app length merge_ends last_opt rev]. reflexivity.
Qed.

(* ====================================================================================
   Soundness of the decidable specifications of Model.v (boolean verdict -> Prop).
   ==================================================================================== *)
Lemma zrange_n_spec n : forall a x, In x (zrange_n a n) <-> a <= x < a + Z.of_nat n.
Proof.
  induction n as [|n IH]; intros a x.
  - simpl. lia.
  - cbn [zrange_n In]. rewrite IH. lia.
Qed.

Lemma zrange_spec a n x : In x (zrange a n) <-> a <= x < a + n.
Proof.
  unfold zrange. rewrite zrange_n_spec. destruct (Z_le_gt_dec 0 n).
  - rewrite Z2Nat.id by assumption. reflexivity.
  - replace (Z.to_nat n) with 0%nat by lia. simpl. lia.
Qed.

Lemma forallb_zrange f a n : forallb f (zrange a n) = true <-> forall x, a <= x < a + n -> f x = true.
Proof.
  rewrite forallb_forall. split; intros H x Hx; apply H; apply zrange_spec; assumption.
Qed.

Lemma existsb_zrange f a n : existsb f (zrange a n) = true <-> exists x, a <= x < a + n /\ f x = true.
Proof.
  rewrite existsb_exists. split; intros [x [H1 H2]]; exists x; split; try assumption; apply zrange_spec; assumption.
Qed.

Lemma base_in_hull l x : base_of l x -> lstart l <= x < lend l.
Proof.
  intros [p [Hp Hx]]. unfold lstart, lend.
  assert (lmin (map ps l) <= ps p) by (apply lmin_le; apply in_map; assumption).
  assert (pe p <= lmax (map pe l)) by (apply lmax_ge; apply in_map; assumption).
  lia.
Qed.

Lemma share_base_spec a b : share_base a b = true <-> exists x, base_of a x /\ base_of b x.
Proof.
  unfold share_base. rewrite existsb_zrange. split.
  - intros [x [_ H]]. apply andb_true_iff in H. destruct H as [H1 H2].
    exists x. split; apply in_loc_spec; assumption.
  - intros [x [Ha Hb]]. exists x. split.
    + pose proof (base_in_hull a x Ha). lia.
    + apply andb_true_iff. split; apply in_loc_spec; assumption.
Qed.

Lemma eqb_true_iff_l (o b : bool) : Bool.eqb o b = true -> (o = true <-> b = true).
Proof. destruct o, b; simpl; intros H; try discriminate; tauto. Qed.

Lemma ok_overlap_sound a b out : ok_overlap a b out = true ->
  (out = true <-> exists x, base_of a x /\ base_of b x).
Proof. intros H. apply eqb_true_iff_l in H. rewrite H. apply share_base_spec. Qed.

Lemma partwise_inside_spec o i : partwise_inside o i = true <->
  Forall (fun ip => exists op, In op o /\ ps op <= ps ip /\ pe ip <= pe op) i.
Proof.
  unfold partwise_inside. rewrite forallb_forall, Forall_forall.
  split; intros H ip Hip; specialize (H ip Hip).
  - rewrite existsb_exists in H. destruct H as [op [Hop H]]. exists op. split; [assumption|lia].
  - rewrite existsb_exists. destruct H as [op [Hop H]]. exists op. split; [assumption|lia].
Qed.

Lemma ok_contains_sound o i out : ok_contains o i out = true ->
  (out = true <-> Forall (fun ip => exists op, In op o /\ ps op <= ps ip /\ pe ip <= pe op) i).
Proof. intros H. apply eqb_true_iff_l in H. rewrite H. apply partwise_inside_spec. Qed.

(* the implementation-independent reading of the model's own theorem: the specification accepts
   exactly the value the set-of-bases reading prescribes *)
Definition between_dists (a b : loc) (w : option Z) : list Z :=
  flat_map (fun p => map (fun q => between w p q) b) a.

Lemma in_between_dists a b w d :
  In d (between_dists a b w) <-> exists p q, In p a /\ In q b /\ d = between w p q.
Proof.
  unfold between_dists. rewrite in_flat_map. split.
  - intros [p [Hp H]]. apply in_map_iff in H. destruct H as [q [Hq H]]. exists p, q. auto.
  - intros [p [q [Hp [Hq ->]]]]. exists p. split; [assumption|]. apply in_map_iff. exists q. auto.
Qed.

Lemma ok_dist_sound a b w out : a <> [] -> b <> [] -> ok_dist a b w out = true ->
  ((exists x, base_of a x /\ base_of b x) -> out = 0) /\
  (~ (exists x, base_of a x /\ base_of b x) ->
     (forall p q, In p a -> In q b -> out <= between w p q) /\
     (exists p q, In p a /\ In q b /\ out = between w p q)).
Proof.
  intros Hna Hnb H. unfold ok_dist, expected_dist in H. apply Z.eqb_eq in H.
  split.
  - intros Hs. apply share_base_spec in Hs. rewrite Hs in H. assumption.
  - intros Hs. destruct (share_base a b) eqn:E.
    + exfalso. apply Hs. apply share_base_spec. assumption.
    + fold (between_dists a b w) in H. subst out. split.
      * intros p q Hp Hq. apply lmin_le. apply in_between_dists. exists p, q. auto.
      * assert (Hne : between_dists a b w <> []).
        { destruct a as [|p a']; [congruence|]. destruct b as [|q b']; [congruence|]. discriminate. }
        pose proof (lmin_in _ Hne) as Hin. apply in_between_dists in Hin.
        destruct Hin as [p [q [Hp [Hq E']]]]. exists p, q. auto.
Qed.

(* ---- connect ---- *)
Definition is_span (N : Z) (r : loc) : Prop :=
  (exists p, r = [p] /\ 0 <= ps p < pe p /\ pe p <= N) \/
  (exists p q, r = [p; q] /\ 0 <= ps p < pe p /\ pe p = N /\ ps q = 0 /\ 0 < pe q /\ pe q <= ps p).

Lemma wf_partb_spec N p : wf_partb N p = true <-> 0 <= ps p /\ ps p < pe p /\ pe p <= N.
Proof. unfold wf_partb. lia. Qed.

Lemma is_spanb_sound N r : is_spanb N r = true -> is_span N r.
Proof.
  unfold is_spanb, is_span. destruct r as [|p [|q [|x r]]]; try discriminate.
  - intros H. apply wf_partb_spec in H. left. exists p. split; [reflexivity|lia].
  - intros H. right. exists p, q. unfold wf_partb in H. split; [reflexivity|lia].
Qed.

Lemma covers_part_spec r p : covers_part r p = true <-> forall x, ps p <= x < pe p -> base_of r x.
Proof.
  unfold covers_part. rewrite forallb_zrange. split; intros H x Hx.
  - apply in_loc_spec. apply H. lia.
  - apply in_loc_spec. apply H. lia.
Qed.

Lemma in_all_parts locs p : In p (all_parts locs) <-> exists l, In l locs /\ In p l.
Proof.
  unfold all_parts. rewrite in_concat. split; intros [l [H1 H2]]; exists l; auto.
Qed.

Lemma covers_all_sound r locs : covers_all r locs = true ->
  forall l x, In l locs -> base_of l x -> base_of r x.
Proof.
  unfold covers_all. rewrite forallb_forall. intros H l x Hl [p [Hp Hx]].
  assert (Hc : covers_part r p = true) by (apply H; apply in_all_parts; exists l; auto).
  rewrite covers_part_spec in Hc. apply Hc. assumption.
Qed.

Definition arc (N s len x : Z) : Prop := (x - s) mod N < len.

Lemma no_shorter_arc_sound N r locs : no_shorter_arc N r locs = true ->
  (exists l x, In l locs /\ 0 <= x < N /\ base_of l x) ->
  forall s len, 0 <= s < N -> 2 * len < N ->
    (forall l x, In l locs -> 0 <= x < N -> base_of l x -> arc N s len x) -> llen r <= len.
Proof.
  unfold no_shorter_arc. intros H Hsome s len Hs Hlen Hcov.
  destruct (Z_le_gt_dec (llen r) len) as [|Hgt]; [assumption|exfalso].
  assert (HN : 0 < N) by lia.
  assert (Hhalf : len <= (N - 1) / 2).
  { apply Z.div_le_lower_bound; lia. }
  set (L := Z.min (llen r - 1) ((N - 1) / 2)) in *.
  assert (HL : len <= L) by lia.
  destruct (L <? 1) eqn:EL.
  - (* L < 1: then len <= 0 and an arc of length <= 0 covers nothing, so there is no input base;
       the result is still claimed longer: only possible if no base at all - but then any s works *)
    assert (len <= 0) by lia.
    (* the arc of non-positive length covers no base *)
    assert (Hnone : forall l x, In l locs -> 0 <= x < N -> base_of l x -> False).
    { intros l x Hl Hx Hb. specialize (Hcov l x Hl Hx Hb). unfold arc in Hcov.
      pose proof (Z.mod_pos_bound (x - s) N HN). lia. }
    destruct Hsome as [l [x [Hl [Hx Hb]]]]. exact (Hnone l x Hl Hx Hb).
  - rewrite forallb_zrange in H. specialize (H s ltac:(lia)).
    apply negb_true_iff in H.
    assert (Hall : forallb (on_arc N s L) (input_bases N locs) = true); [|congruence].
    apply forallb_forall. intros x Hx. unfold input_bases in Hx. apply filter_In in Hx.
    destruct Hx as [Hr Hex]. apply zrange_spec in Hr. apply existsb_exists in Hex.
    destruct Hex as [l [Hl Hin]]. apply in_loc_spec in Hin.
    specialize (Hcov l x Hl ltac:(lia) Hin). unfold arc in Hcov. unfold on_arc. lia.
Qed.

Lemma wf_locb_spec N l : wf_locb N l = true <->
  l <> [] /\ Forall (fun p => 0 <= ps p /\ ps p < pe p /\ pe p <= N) l.
Proof.
  unfold wf_locb. rewrite andb_true_iff, forallb_forall, Forall_forall. split.
  - intros [H1 H2]. split; [destruct l; [discriminate|congruence]|].
    intros p Hp. apply wf_partb_spec. auto.
  - intros [H1 H2]. split; [destruct l; [congruence|reflexivity]|].
    intros p Hp. apply wf_partb_spec. auto.
Qed.

Definition hull_len (locs : list loc) : Z :=
  lmax (map pe (all_parts locs)) - lmin (map ps (all_parts locs)).

(* what a verdict "satisfied" of the ring specification of connect_locations means *)
Lemma check_connect_ring_sound N locs out :
  0 < N -> locs <> [] -> Forall (fun l => wf_locb N l = true) locs ->
  check_connect_ring N locs out = 0 ->
  exists r, out = Ok r /\ is_span N r /\
    (forall l x, In l locs -> base_of l x -> base_of r x) /\
    (existsb bridges locs = false -> llen r <= hull_len locs) /\
    (forallb (is_span_input N) locs = true -> N <= shortest_bound ->
       forall s len, 0 <= s < N -> 2 * len < N ->
         (forall l x, In l locs -> 0 <= x < N -> base_of l x -> arc N s len x) -> llen r <= len).
Proof.
  intros HN Hne Hwf H. unfold check_connect_ring in H. destruct out as [r|k].
  2:{ destruct (forallb (is_span_input N) locs); discriminate. }
  destruct (is_spanb N r) eqn:E1; cbn [negb] in H; [|discriminate].
  destruct (covers_all r locs) eqn:E2; cbn [negb] in H; [|discriminate].
  exists r. split; [reflexivity|]. split; [apply is_spanb_sound; assumption|].
  split; [apply covers_all_sound; assumption|]. split.
  - intros Hb. rewrite Hb in H. cbn [negb andb] in H. unfold hull_len.
    destruct (llen r <=? lmax (map pe (all_parts locs)) - lmin (map ps (all_parts locs))) eqn:E3; [lia|discriminate].
  - intros Hsp HNb s len Hs Hlen Hcov.
    destruct (negb (existsb bridges locs) &&
              negb (llen r <=? lmax (map pe (all_parts locs)) - lmin (map ps (all_parts locs)))); [discriminate|].
    rewrite Hsp in H. assert (E4 : (N <=? shortest_bound) = true) by lia. rewrite E4 in H.
    cbn [andb] in H. destruct (no_shorter_arc N r locs) eqn:E5; [|discriminate].
    apply (no_shorter_arc_sound N r locs E5) with (s := s); try assumption.
    (* some input base exists *)
    destruct locs as [|l0 locs']; [congruence|]. inversion Hwf as [|? ? Hl0 _]; subst.
    apply wf_locb_spec in Hl0. destruct Hl0 as [Hl0 Hparts].
    destruct l0 as [|p0 l0']; [congruence|]. inversion Hparts as [|? ? Hp0 _]; subst.
    exists (p0 :: l0'), (ps p0). split; [left; reflexivity|]. split; [lia|].
    exists p0. split; [left; reflexivity|lia].
Qed.

Lemma check_connect_line_sound locs out : check_connect_line locs out = 0 ->
  exists h, out = Ok [h] /\ ps h < pe h /\
    ps h = lmin (map ps (all_parts locs)) /\ pe h = lmax (map pe (all_parts locs)).
Proof.
  unfold check_connect_line. destruct out as [r|k].
  2:{ destruct (existsb bridges locs); discriminate. }
  destruct r as [|h [|x r]]; try discriminate.
  destruct (ps h <? pe h) eqn:E1; cbn [negb]; [|discriminate].
  destruct (ps h =? lmin (map ps (all_parts locs))) eqn:E2; cbn [negb]; [|discriminate].
  destruct (pe h =? lmax (map pe (all_parts locs))) eqn:E3; cbn [negb]; [|discriminate].
  intros _. exists h. repeat split; lia.
Qed.

(* the hull [min start, max end) covers every base of every input *)
Lemma line_hull_covers locs h :
  ps h = lmin (map ps (all_parts locs)) -> pe h = lmax (map pe (all_parts locs)) ->
  forall l x, In l locs -> base_of l x -> ps h <= x < pe h.
Proof.
  intros Hs He l x Hl [p [Hp Hx]].
  assert (Hin : In p (all_parts locs)) by (apply in_all_parts; exists l; auto).
  assert (lmin (map ps (all_parts locs)) <= ps p) by (apply lmin_le; apply in_map; assumption).
  assert (pe p <= lmax (map pe (all_parts locs))) by (apply lmax_ge; apply in_map; assumption).
  lia.
Qed.

(* ---- offset ---- *)
Fixpoint pairwise_disjoint (l : list part) : Prop :=
  match l with
  | [] => True
  | p :: r => Forall (fun q => pe p <= ps q \/ pe q <= ps p) r /\ pairwise_disjoint r
  end.

Lemma disjoint_parts_spec l : disjoint_parts l = true <-> pairwise_disjoint l.
Proof.
  induction l as [|p r IH]; simpl; [tauto|].
  rewrite andb_true_iff, forallb_forall, Forall_forall, IH.
  split; intros [H1 H2]; split; try assumption; intros q Hq; specialize (H1 q Hq); lia.
Qed.

Lemma check_offset_ring_sound N a off out : check_offset_ring N a off out = 0 ->
  exists r, out = Ok r /\
    (r <> [] /\ Forall (fun p => 0 <= ps p /\ ps p < pe p /\ pe p <= N) r) /\
    pairwise_disjoint r /\ llen r = llen a /\
    (forall p0, hd_error a = Some p0 -> Forall (fun q => pst q = pst p0) r) /\
    (forall x, 0 <= x < N -> (base_of r ((x + off) mod N) <-> base_of a x)).
Proof.
  unfold check_offset_ring. destruct out as [r|k]; [|discriminate].
  destruct (wf_locb N r) eqn:E1; cbn [negb]; [|discriminate].
  destruct (disjoint_parts r) eqn:E2; cbn [negb]; [|discriminate].
  destruct (llen r =? llen a) eqn:E3; cbn [negb]; [|discriminate].
  destruct (same_strands r a) eqn:E4; cbn [negb]; [|discriminate].
  destruct (rotated_bases N off r a) eqn:E5; cbn [negb]; [|discriminate].
  intros _. exists r. split; [reflexivity|]. split; [apply wf_locb_spec; assumption|].
  split; [apply disjoint_parts_spec; assumption|]. split; [lia|]. split.
  - intros p0 Hp0. destruct a as [|p a']; [discriminate|]. injection Hp0 as <-.
    unfold same_strands in E4. rewrite forallb_forall in E4. apply Forall_forall.
    intros q Hq. specialize (E4 q Hq). lia.
  - intros x Hx. unfold rotated_bases in E5. rewrite forallb_zrange in E5.
    specialize (E5 x ltac:(lia)). apply eqb_true_iff_l in E5.
    rewrite <- !in_loc_spec. assumption.
Qed.

Lemma loc_eqb_eq a b : loc_eqb a b = true -> a = b.
Proof.
  revert b. induction a as [|p a IH]; intros [|q b]; simpl; try discriminate; [reflexivity|].
  intros H. apply andb_true_iff in H. destruct H as [H1 H2]. apply IH in H2. subst b.
  unfold part_eqb in H1. destruct p, q; cbn in *. f_equal. f_equal; lia.
Qed.

Lemma check_offset_line_sound a off out : check_offset_line a off out = 0 ->
  out = Ok (map (fun p => mkPart (ps p + off) (pe p + off) (pst p)) a).
Proof.
  unfold check_offset_line. destruct out as [r|k].
  2:{ destruct (lstart a + off <? 0); discriminate. }
  destruct (loc_eqb r _) eqn:E; [|discriminate]. intros _. apply loc_eqb_eq in E. subst r. reflexivity.
Qed.

(* ---- extend ---- *)
(* x lies within the distance d of the location's two ends (transcription order), on a line *)
Definition near_line (a : loc) (d x : Z) : Prop :=
  (start_pt a - d <= x < start_pt a) \/ (end_pt a <= x < end_pt a + d).
(* ... and on a ring of length N: some lift of x does *)
Definition near_ring (N : Z) (a : loc) (d x : Z) : Prop :=
  exists k, -2 <= k <= 2 /\ near_line a d (x + k * N).

Lemma within_line_spec a d x : within_line a d x = true <-> near_line a d x.
Proof. unfold within_line, near_line. lia. Qed.

Lemma within_ring_spec N a d x : within_ring N a d x = true <-> near_ring N a d x.
Proof.
  unfold within_ring, near_ring. rewrite existsb_exists. split.
  - intros [k [Hk H]]. exists k. split; [simpl in Hk; lia|]. apply within_line_spec. assumption.
  - intros [k [Hk H]]. exists k. split; [simpl; lia|]. apply within_line_spec. assumption.
Qed.

Lemma check_extend_sound a d N circ out : check_extend a d N circ out = 0 ->
  exists r, out = Ok r /\
    (r <> [] /\ Forall (fun p => 0 <= ps p /\ ps p < pe p /\ pe p <= N) r) /\
    pairwise_disjoint r /\
    (forall x, 0 <= x < N ->
       (base_of r x <-> base_of a x \/ (if circ then near_ring N a d x else near_line a d x))).
Proof.
  unfold check_extend. destruct out as [r|k]; [|discriminate].
  destruct (wf_locb N r) eqn:E1; cbn [negb]; [|discriminate].
  destruct (extended_bases N circ a d r) eqn:E2; cbn [negb]; [|discriminate].
  destruct (disjoint_parts r) eqn:E3; cbn [negb]; [|discriminate].
  intros _. exists r. split; [reflexivity|]. split; [apply wf_locb_spec; assumption|].
  split; [apply disjoint_parts_spec; assumption|].
  intros x Hx. unfold extended_bases in E2. rewrite forallb_zrange in E2.
  specialize (E2 x ltac:(lia)). apply eqb_true_iff_l in E2.
  rewrite <- in_loc_spec, E2, orb_true_iff, in_loc_spec.
  destruct circ; [rewrite within_ring_spec|rewrite within_line_spec]; reflexivity.
Qed.

(* ---------- ordering: Feature.__lt__ and CDSCollection.__lt__ ---------- *)
Lemma pair_lt_irrefl k : pair_lt k k = false.
Proof. unfold pair_lt. lia. Qed.
Lemma pair_lt_trans a b c : pair_lt a b = true -> pair_lt b c = true -> pair_lt a c = true.
Proof. unfold pair_lt. lia. Qed.
Lemma pair_lt_asym a b : pair_lt a b = true -> pair_lt b a = false.
Proof. unfold pair_lt. lia. Qed.
Lemma pair_lt_incomp_trans a b c :
  pair_lt a b = false -> pair_lt b a = false -> pair_lt b c = false -> pair_lt c b = false ->
  pair_lt a c = false /\ pair_lt c a = false.
Proof. unfold pair_lt. lia. Qed.

Lemma feature_lt_key a b ka kb : cmp_key 1 a = Ok ka -> cmp_key 1 b = Ok kb ->
  feature_lt false a b = Ok (pair_lt ka kb).
Proof. intros Ha Hb. unfold feature_lt. rewrite Ha, Hb. cbn [bind]. rewrite andb_false_r. reflexivity. Qed.

Lemma cmp_key_plain s l : bridges l = false -> cmp_key s l = Ok (lstart l, s * llen l).
Proof. intros H. unfold cmp_key. rewrite H. reflexivity. Qed.

(* Feature.__lt__ (left feature not of type "source") is a strict weak order on all locations
   whose sort key exists: irreflexive, asymmetric, transitive, incomparability transitive *)
Definition flt (a b : loc) : Prop := feature_lt false a b = Ok true.
Lemma feature_order a b c ka kb kc :
  cmp_key 1 a = Ok ka -> cmp_key 1 b = Ok kb -> cmp_key 1 c = Ok kc ->
  ~ flt a a /\ (flt a b -> ~ flt b a) /\ (flt a b -> flt b c -> flt a c) /\
  (~ flt a b -> ~ flt b a -> ~ flt b c -> ~ flt c b -> ~ flt a c /\ ~ flt c a).
Proof.
  intros Ha Hb Hc. unfold flt.
  rewrite (feature_lt_key a a ka ka Ha Ha), (feature_lt_key a b ka kb Ha Hb),
          (feature_lt_key b a kb ka Hb Ha), (feature_lt_key b c kb kc Hb Hc),
          (feature_lt_key c b kc kb Hc Hb), (feature_lt_key a c ka kc Ha Hc),
          (feature_lt_key c a kc ka Hc Ha).
  rewrite pair_lt_irrefl.
  split; [|split; [|split]].
  - intros H. discriminate.
  - intros H1 H2. injection H1 as H1. injection H2 as H2. rewrite (pair_lt_asym _ _ H1) in H2. discriminate.
  - intros H1 H2. injection H1 as H1. injection H2 as H2. rewrite (pair_lt_trans _ _ _ H1 H2). reflexivity.
  - intros N1 N2 N3 N4.
    assert (E1 : pair_lt ka kb = false) by (destruct (pair_lt ka kb); [exfalso; apply N1|]; reflexivity).
    assert (E2 : pair_lt kb ka = false) by (destruct (pair_lt kb ka); [exfalso; apply N2|]; reflexivity).
    assert (E3 : pair_lt kb kc = false) by (destruct (pair_lt kb kc); [exfalso; apply N3|]; reflexivity).
    assert (E4 : pair_lt kc kb = false) by (destruct (pair_lt kc kb); [exfalso; apply N4|]; reflexivity).
    destruct (pair_lt_incomp_trans ka kb kc E1 E2 E3 E4) as [H1 H2]. rewrite H1, H2. split; discriminate.
Qed.

(* a "source" feature is "less than" itself: with the tie rule the relation is not irreflexive *)
Lemma feature_source_refuted : exists a, feature_lt true a a = Ok true.
Proof. exists [mkPart 0 10 1]. reflexivity. Qed.

(* CDSCollection.__lt__ after the repair of finding F53 (symmetric containment shortcut): irreflexive
   and asymmetric on ALL locations (whenever the comparisons do not raise): a < b and b < a never
   both hold.  Before the repair the whole record [0,N) and a span over the origin were each "less
   than" the other (containment shortcut one way, negative start key the other way). *)
Definition clt (a b : loc) : Prop := collection_lt a b = Ok true.
Lemma collection_lt_irrefl a : ~ clt a a.
Proof.
  unfold clt, collection_lt. rewrite andb_negb_r.
  destruct (cmp_key (-1) a) as [k|e]; cbn [bind]; [|discriminate].
  rewrite pair_lt_irrefl. discriminate.
Qed.
Lemma collection_lt_asym a b : clt a b -> ~ clt b a.
Proof.
  unfold clt, collection_lt. intros H1 H2.
  destruct (contains a b) eqn:Cab; destruct (contains b a) eqn:Cba; cbn [andb negb] in H1, H2;
    try discriminate.
  all: destruct (cmp_key (-1) a) as [ka|ea]; destruct (cmp_key (-1) b) as [kb|eb];
    cbn [bind] in H1, H2; try discriminate.
  all: injection H1 as H1; injection H2 as H2; rewrite (pair_lt_asym _ _ H1) in H2; discriminate.
Qed.
(* the former witness: the whole record comes first, and only first *)
Lemma collection_order_witness :
  collection_lt [mkPart 0 10 1] [mkPart 7 10 1; mkPart 0 2 1] = Ok true /\
  collection_lt [mkPart 7 10 1; mkPart 0 2 1] [mkPart 0 10 1] = Ok false.
Proof. split; reflexivity. Qed.


(* ---- CDSCollection.__lt__ on the locations a collection can have on a record of length N (one
   part, or the forward span [s,N)+[0,e) over the origin, e <= s): it is the lexicographic order of
   a rank - the whole record first, then (start, -length) with the negative start s - N of a span -
   hence a strict weak order.  (Before the repair of F53 it was not even asymmetric.) ---- *)
Definition coll_loc (N : Z) (l : loc) : Prop :=
  (exists p, l = [p] /\ 0 <= ps p /\ ps p < pe p /\ pe p <= N) \/
  (exists s e, l = [mkPart s N 1; mkPart 0 e 1] /\ 0 < e /\ e <= s /\ s < N).
Definition rank (N : Z) (l : loc) : Z * Z :=
  match l with
  | [p] => if (ps p =? 0) && (pe p =? N) then (- N, - N) else (ps p, - (pe p - ps p))
  | p :: _ => (ps p - N, - llen l)
  | [] => (0, 0)
  end.

Lemma cmp_key_one k p : cmp_key k [p] = Ok (ps p, k * (pe p - ps p + 0)).
Proof. reflexivity. Qed.

Lemma cmp_key_span k s e N : 0 < e -> e <= s -> s < N ->
  cmp_key k [mkPart s N 1; mkPart 0 e 1] = Ok (s - N, k * (N - s + (e - 0 + 0))).
Proof.
  intros H1 H2 H3. unfold cmp_key, bridges, split_bridging, valid_split, hull_part, part_overlap, in_part, llen.
  cbn -[Z.ltb Z.leb Z.sub Z.add Z.mul Z.min Z.max Z.opp].
  destruct (0 <? s) eqn:E; [|lia]. cbn -[Z.ltb Z.leb Z.sub Z.add Z.mul Z.min Z.max Z.opp].
  destruct (s <? 0) eqn:E2; [lia|]. cbn -[Z.ltb Z.leb Z.sub Z.add Z.mul Z.min Z.max Z.opp].
  match goal with |- context [if negb ?c then _ else _] => destruct c eqn:E3 end; [|exfalso; lia].
  reflexivity.
Qed.

Ltac zc := cbn -[Z.ltb Z.leb Z.eqb Z.sub Z.add Z.mul Z.min Z.max Z.opp].

Lemma collection_lt_rank N a b : coll_loc N a -> coll_loc N b ->
  collection_lt a b = Ok (pair_lt (rank N a) (rank N b)).
Proof.
  intros [(p & -> & Hp)|(s & e & -> & Hs)] [(q & -> & Hq)|(s2 & e2 & -> & Hs2)];
    unfold collection_lt; rewrite ?cmp_key_one, ?cmp_key_span by lia;
    unfold contains, part_contains, rank, pair_lt, llen; zc.
  all: repeat match goal with |- context [if ?c then _ else _] => destruct c eqn:? end; zc; try (f_equal; lia).
Qed.

Lemma collection_order N a b c : coll_loc N a -> coll_loc N b -> coll_loc N c ->
  ~ clt a a /\ (clt a b -> ~ clt b a) /\ (clt a b -> clt b c -> clt a c) /\
  (~ clt a b -> ~ clt b a -> ~ clt b c -> ~ clt c b -> ~ clt a c /\ ~ clt c a).
Proof.
  intros Ha Hb Hc. unfold clt.
  rewrite (collection_lt_rank N a a Ha Ha), (collection_lt_rank N a b Ha Hb),
          (collection_lt_rank N b a Hb Ha), (collection_lt_rank N b c Hb Hc),
          (collection_lt_rank N c b Hc Hb), (collection_lt_rank N a c Ha Hc),
          (collection_lt_rank N c a Hc Ha).
  rewrite pair_lt_irrefl.
  set (ka := rank N a). set (kb := rank N b). set (kc := rank N c).
  split; [|split; [|split]].
  - intros H. discriminate.
  - intros H1 H2. injection H1 as H1. injection H2 as H2. rewrite (pair_lt_asym _ _ H1) in H2. discriminate.
  - intros H1 H2. injection H1 as H1. injection H2 as H2. rewrite (pair_lt_trans _ _ _ H1 H2). reflexivity.
  - intros N1 N2 N3 N4.
    assert (E1 : pair_lt ka kb = false) by (destruct (pair_lt ka kb); [exfalso; apply N1|]; reflexivity).
    assert (E2 : pair_lt kb ka = false) by (destruct (pair_lt kb ka); [exfalso; apply N2|]; reflexivity).
    assert (E3 : pair_lt kb kc = false) by (destruct (pair_lt kb kc); [exfalso; apply N3|]; reflexivity).
    assert (E4 : pair_lt kc kb = false) by (destruct (pair_lt kc kb); [exfalso; apply N4|]; reflexivity).
    destruct (pair_lt_incomp_trans ka kb kc E1 E2 E3 E4) as [H1 H2]. rewrite H1, H2. split; discriminate.
Qed.
(* the whole record comes first *)
Lemma collection_whole_first N st l : 0 < N -> coll_loc N l ->
  (forall st', l <> [mkPart 0 N st']) -> clt [mkPart 0 N st] l.
Proof.
  intros HN Hl Hne. unfold clt. rewrite (collection_lt_rank N _ l); [|left; eexists; split; [reflexivity|cbn; lia]|exact Hl].
  destruct Hl as [(p & -> & Hp)|(s & e & -> & Hs)]; unfold rank, pair_lt, llen; zc.
  - rewrite !Z.eqb_refl. zc. destruct ((ps p =? 0) && (pe p =? N)) eqn:E.
    + exfalso. apply (Hne (pst p)). destruct p; cbn in *. f_equal. f_equal; lia.
    + zc. f_equal. lia.
  - rewrite !Z.eqb_refl. zc. f_equal. lia.
Qed.


(* ====================================================================================
   connect_locations on a ring: two single-part inputs (and the one-input / idempotence cases)
   ==================================================================================== *)
Definition wfp (N : Z) (p : part) : Prop := 0 <= ps p /\ ps p < pe p /\ pe p <= N.
Definition ordered (a b : part) : Prop := ps a < ps b \/ (ps a = ps b /\ pe a <= pe b).
Definition fwd (p : part) : part := mkPart (ps p) (pe p) 1.

Lemma key_lt_single a b : key_lt [a] [b] = (ps a <? ps b) || ((ps a =? ps b) && (pe a <? pe b)).
Proof. reflexivity. Qed.

Lemma wrapping_shorter_pair N a b : ordered a b ->
  wrapping_shorter [[a]; [b]] N = (N / 2 <? ps b - pe a) /\
  (wrapping_shorter [[b]; [a]] N = (N / 2 <? ps b - pe a) \/
   (ps a = ps b /\ pe a = pe b /\ wrapping_shorter [[b]; [a]] N = (N / 2 <? ps a - pe b))).
Proof.
  intros Ho. unfold wrapping_shorter, sort_by. cbn [existsb bridges is_compound orb fold_left insert_by].
  rewrite !key_lt_single. unfold ordered in Ho. split.
  - destruct ((ps b <? ps a) || ((ps b =? ps a) && (pe b <? pe a))) eqn:E; [lia|].
    cbn [existsb lstart lend map lmin lmax fold_left ps pe orb]. rewrite orb_false_r. reflexivity.
  - destruct ((ps a <? ps b) || ((ps a =? ps b) && (pe a <? pe b))) eqn:E.
    + left. cbn [existsb lstart lend map lmin lmax fold_left ps pe orb]. rewrite orb_false_r. reflexivity.
    + right. split; [lia|]. split; [lia|].
      cbn [existsb lstart lend map lmin lmax fold_left ps pe orb]. rewrite orb_false_r. reflexivity.
Qed.

Lemma split_go_pair N a b : 0 < N -> wfp N a -> wfp N b -> N / 2 < ps b - pe a ->
  split_sections_go [[a]; [b]] N = Ok ([[fwd b]], [[fwd a]]) /\
  split_sections_go [[b]; [a]] N = Ok ([[fwd b]], [[fwd a]]).
Proof.
  intros HN [Ha0 [Ha1 Ha2]] [Hb0 [Hb1 Hb2]] Hgap.
  assert (Hdiv : N = 2 * (N / 2) + N mod 2) by (apply Z.div_mod; lia).
  assert (Hmod : 0 <= N mod 2 < 2) by (apply Z.mod_pos_bound; lia).
  assert (Ea : (ps a <? N - pe a) = true) by lia.
  assert (Eb : (ps b <? N - pe b) = false) by lia.
  assert (Fa : (pe a <? ps a) = false) by lia.
  assert (Fb : (pe b <? ps b) = false) by lia.
  split; cbn [split_sections_go bridges is_compound bind lstart lend map lmin lmax fold_left]; unfold mkFL;
    rewrite ?Fa, ?Fb; cbn [bind]; rewrite ?Ea, ?Eb; cbn [bind]; rewrite ?Ea, ?Eb; reflexivity.
Qed.

Definition wrapped_pair (N : Z) (a b : part) : loc := [mkPart (ps b) N 1; mkPart 0 (pe a) 1].
Definition hull_pair (a b : part) : loc :=
  [mkPart (ps a) (Z.max (pe a) (pe b)) (if pst a =? pst b then pst a else S_None)].

Lemma connect_line_single p : ps p < pe p -> connect_line [[p]] = Ok [p].
Proof.
  intros H. unfold connect_line. cbn [existsb bridges is_compound orb mapM reduce_parts bind].
  unfold hull, mkFL. cbn [map lstart lend lmin lmax fold_left common_strand forallb lstrand].
  destruct (pe p <? ps p) eqn:E; [lia|]. cbn [bind]. destruct p; reflexivity.
Qed.

Lemma merge_tail_wrap N a b : 0 < N -> wfp N a -> wfp N b -> N / 2 < ps b - pe a ->
  (let location := [fwd b] in let other := [fwd a] in
    if is_compound location || is_compound other then Err E_Assert else
    if dist location other (Some N) <? dist location other None then
      do up <- (if lstart other <? lstart location then mkFL (lstart location) N 1
                else mkFL (lstart other) N 1);
      do lo <- (if lstart other <? lstart location then mkFL 0 (lend other) 1
                else mkFL 0 (lend location) 1);
      Ok [[up; lo]]
    else Ok [location; other]) = Ok [wrapped_pair N a b].
Proof.
  intros HN [Ha0 [Ha1 Ha2]] [Hb0 [Hb1 Hb2]] Hgap.
  assert (Hdiv : N = 2 * (N / 2) + N mod 2) by (apply Z.div_mod; lia).
  assert (Hmod : 0 <= N mod 2 < 2) by (apply Z.mod_pos_bound; lia).
  cbn zeta. cbn [is_compound orb].
  assert (Hov : part_overlap (fwd b) (fwd a) = false).
  { unfold part_overlap, in_part, fwd. cbn [ps pe]. lia. }
  assert (Hd1 : dist [fwd b] [fwd a] (Some N) = Z.min (ps a + N - pe b) (ps b - pe a)).
  { unfold dist, overlap. cbn [existsb]. rewrite Hov. cbn [orb].
    rewrite pdist_ring_spec; unfold wf_part, fwd; cbn [ps pe]; try lia.
    fold (fwd a). fold (fwd b). rewrite Hov. unfold wrap_gap, gap, fwd. cbn [ps pe].
    destruct (pe b <=? ps a) eqn:E; [lia|]. reflexivity. }
  assert (Hd2 : dist [fwd b] [fwd a] None = ps b - pe a).
  { unfold dist, overlap. cbn [existsb]. rewrite Hov. cbn [orb]. unfold pdist. rewrite Hov.
    rewrite pdist_line_spec; unfold wf_part, fwd; cbn [ps pe]; try lia.
    fold (fwd a). fold (fwd b). rewrite Hov. unfold gap, fwd. cbn [ps pe].
    destruct (pe b <=? ps a) eqn:E; [lia|]. reflexivity. }
  rewrite Hd1, Hd2.
  destruct (Z.min (ps a + N - pe b) (ps b - pe a) <? ps b - pe a) eqn:E; [|lia].
  cbn [lstart lend map lmin lmax fold_left fwd ps pe].
  destruct (ps a <? ps b) eqn:E2; [|lia]. unfold mkFL.
  destruct (N <? ps b) eqn:E3; [lia|]. destruct (pe a <? 0) eqn:E4; [lia|]. reflexivity.
Qed.

Lemma merge_over_origin_wrap N a b : 0 < N -> wfp N a -> wfp N b -> ordered a b ->
  N / 2 < ps b - pe a ->
  merge_over_origin [[a]; [b]] N = Ok [wrapped_pair N a b] /\
  merge_over_origin [[b]; [a]] N = Ok [wrapped_pair N a b].
Proof.
  intros HN Ha Hb Ho Hgap.
  destruct (wrapping_shorter_pair N a b Ho) as [W1 W2].
  destruct (split_go_pair N a b HN Ha Hb Hgap) as [S1 S2].
  assert (Hg : (N / 2 <? ps b - pe a) = true) by lia.
  assert (W2' : wrapping_shorter [[b]; [a]] N = true).
  { destruct W2 as [W2|[E1 [E2 _]]]; [rewrite W2; assumption|].
    destruct Ha as [? [? ?]], Hb as [? [? ?]]. assert (0 <= N / 2) by (apply Z.div_pos; lia). lia. }
  rewrite Hg in W1.
  assert (La : ps (fwd a) < pe (fwd a)) by (destruct Ha as [? [? ?]]; cbn; lia).
  assert (Lb : ps (fwd b) < pe (fwd b)) by (destruct Hb as [? [? ?]]; cbn; lia).
  split; unfold merge_over_origin, split_sections.
  - rewrite W1. cbn [negb]. rewrite S1. cbn [bind].
    rewrite (connect_line_single _ Lb), (connect_line_single _ La). cbn [bind].
    exact (merge_tail_wrap N a b HN Ha Hb Hgap).
  - rewrite W2'. cbn [negb]. rewrite S2. cbn [bind].
    rewrite (connect_line_single _ Lb), (connect_line_single _ La). cbn [bind].
    exact (merge_tail_wrap N a b HN Ha Hb Hgap).
Qed.

Lemma merge_over_origin_nowrap N a b : 0 < N -> wfp N a -> wfp N b -> ordered a b ->
  ps b - pe a <= N / 2 ->
  merge_over_origin [[a]; [b]] N = Ok [hull_pair a b] /\
  merge_over_origin [[b]; [a]] N = Ok [hull_pair a b].
Proof.
  intros HN Ha Hb Ho Hgap.
  destruct (wrapping_shorter_pair N a b Ho) as [W1 W2].
  assert (Hg : (N / 2 <? ps b - pe a) = false) by lia.
  assert (W2' : wrapping_shorter [[b]; [a]] N = false).
  { destruct W2 as [W2|[E1 [E2 W2]]]; [rewrite W2; assumption|]. rewrite W2.
    destruct Ha as [? [? ?]], Hb as [? [? ?]]. assert (0 <= N / 2) by (apply Z.div_pos; lia). lia. }
  rewrite Hg in W1. destruct Ha as [Ha0 [Ha1 Ha2]], Hb as [Hb0 [Hb1 Hb2]]. unfold ordered in Ho.
  split; unfold merge_over_origin, split_sections.
  - rewrite W1. cbn [negb bind]. unfold connect_line.
    cbn [existsb bridges is_compound orb mapM reduce_parts bind].
    unfold hull, mkFL. cbn [map lstart lend lmin lmax fold_left common_strand forallb lstrand ps pe andb].
    rewrite andb_true_r.
    destruct (Z.max (pe a) (pe b) <? Z.min (ps a) (ps b)) eqn:E; [lia|]. cbn [bind].
    unfold hull_pair. rewrite (Z.min_l (ps a) (ps b)) by lia.
    rewrite (Z.eqb_sym (pst b) (pst a)). reflexivity.
  - rewrite W2'. cbn [negb bind]. unfold connect_line.
    cbn [existsb bridges is_compound orb mapM reduce_parts bind].
    unfold hull, mkFL. cbn [map lstart lend lmin lmax fold_left common_strand forallb lstrand ps pe andb].
    rewrite andb_true_r.
    destruct (Z.max (pe b) (pe a) <? Z.min (ps b) (ps a)) eqn:E; [lia|]. cbn [bind].
    unfold hull_pair. rewrite (Z.min_r (ps b) (ps a)) by lia. rewrite (Z.max_comm (pe b) (pe a)).
    destruct (pst a =? pst b) eqn:E2; [|reflexivity]. assert (E3 : pst a = pst b) by lia. rewrite E3. reflexivity.
Qed.

Definition pair_result (N : Z) (a b : part) : loc :=
  if N / 2 <? ps b - pe a then wrapped_pair N a b else hull_pair a b.

Lemma connect_ring_pair N a b : 0 < N -> wfp N a -> wfp N b -> ordered a b ->
  connect_locations [[a]; [b]] (Some N) = Ok (pair_result N a b) /\
  connect_locations [[b]; [a]] (Some N) = Ok (pair_result N a b).
Proof.
  intros HN Ha Hb Ho. unfold connect_locations, connect_fuel, pair_result.
  cbn [length Nat.mul Nat.add]. change 12%nat with (S 11). generalize 11%nat as fuel. intros fuel.
  cbn [connect existsb bridges is_compound orb mapM reduce_parts bind].
  destruct (N <=? 0) eqn:EN; [lia|].
  unfold loc in *.
  destruct (N / 2 <? ps b - pe a) eqn:Eg.
  - destruct (merge_over_origin_wrap N a b HN Ha Hb Ho ltac:(lia)) as [M1 M2].
    rewrite M1, M2. cbn [bind]. split; reflexivity.
  - destruct (merge_over_origin_nowrap N a b HN Ha Hb Ho ltac:(lia)) as [M1 M2].
    rewrite M1, M2. cbn [bind]. split; reflexivity.
Qed.

Lemma connect_ring_single N p : 0 < N -> ps p < pe p ->
  connect_locations [[p]] (Some N) = Ok [p].
Proof.
  intros HN Hp. unfold connect_locations, connect_fuel.
  cbn [length Nat.mul Nat.add]. change 10%nat with (S 9). generalize 9%nat as fuel. intros fuel.
  cbn [connect existsb bridges is_compound orb mapM reduce_parts bind].
  destruct (N <=? 0) eqn:EN; [lia|].
  unfold merge_over_origin, split_sections, wrapping_shorter, sort_by.
  cbn [existsb bridges is_compound orb fold_left insert_by negb bind].
  unfold loc in *. rewrite (connect_line_single p Hp). reflexivity.
Qed.

Lemma connect_ring_wrapped_idem N s e : 0 < e -> e <= s -> s < N ->
  connect_locations [[mkPart s N 1; mkPart 0 e 1]] (Some N) = Ok [mkPart s N 1; mkPart 0 e 1].
Proof.
  intros He Hes HsN. unfold connect_locations, connect_fuel.
  cbn [length Nat.mul Nat.add]. change 10%nat with (S 9). generalize 9%nat as fuel. intros fuel. cbn [connect existsb].
  assert (Hb : bridges [mkPart s N 1; mkPart 0 e 1] = true).
  { unfold bridges. cbn [is_compound lstrand forallb pst Z.eqb andb orb check_order ps]. 
    replace (1 =? 1) with true by reflexivity. cbn [andb orb].
    replace (1 =? 1) with true by reflexivity. cbn [orb check_order ps]. 
    replace (1 =? 1) with true by reflexivity. destruct (0 <? s) eqn:E; [reflexivity|lia]. }
  rewrite Hb. cbn [orb mapM]. unfold reduce_parts. rewrite Hb.
  destruct (N <=? 0) eqn:EN; [lia|].
  unfold split_bridging. cbn [is_compound negb all_same_strand forallb pst lstrand].
  replace (1 =? 1) with true by reflexivity. cbn [andb negb].
  replace (1 =? -1) with false by reflexivity.
  cbn [split_fwd ps]. destruct (s <? 0) eqn:E1; [lia|]. cbn [rev app nonempty andb negb].
  unfold valid_split, hull_part. cbn [nonempty andb map ps pe lmin lmax fold_left].
  assert (Hov : part_overlap (mkPart 0 e 0) (mkPart s N 0) = false).
  { unfold part_overlap, in_part. cbn [ps pe]. lia. }
  rewrite Hov. cbn [negb andb sorted_le]. replace (1 =? -1) with false by reflexivity.
  cbn [negb bind]. unfold mkFL. cbn [map ps pe lmin lmax fold_left]. destruct (N <? s) eqn:E2; [lia|]. destruct (e <? 0) eqn:E3; [lia|].
  cbn [bind]. reflexivity.
Qed.

(* ---- the result for a pair is the shortest covering arc (when one shorter than N/2 exists) ---- *)
Lemma arc_mod N s x : 0 < N -> 0 <= s < N -> 0 <= x < N ->
  (x - s) mod N = if s <=? x then x - s else x - s + N.
Proof.
  intros HN Hs Hx. destruct (s <=? x) eqn:E.
  - apply Z.mod_small. lia.
  - rewrite <- (Z.mod_add (x - s) 1 N) by lia. rewrite Z.mod_small by lia. lia.
Qed.

(* an arc shorter than the ring that covers every base of an interval covers it in one piece *)
Lemma arc_covers_interval N s len u v : 0 < N -> 0 <= s < N -> len < N -> 0 <= u -> u < v -> v <= N ->
  (forall x, u <= x < v -> arc N s len x) ->
  (s <= u /\ v <= s + len) \/ (v <= s /\ v + N <= s + len).
Proof.
  intros HN Hs Hlen Hu Huv Hv Hcov.
  pose proof (Hcov u ltac:(lia)) as Cu. pose proof (Hcov (v - 1) ltac:(lia)) as Cv.
  unfold arc in *. rewrite arc_mod in Cu, Cv by lia.
  destruct (s <=? u) eqn:E1.
  - left. destruct (s <=? v - 1) eqn:E2; lia.
  - right. destruct (s <=? v - 1) eqn:E2; [|lia].
    exfalso. pose proof (Hcov (s - 1) ltac:(lia)) as Cs. rewrite arc_mod in Cs by lia.
    destruct (s <=? s - 1) eqn:E3; lia.
Qed.

Lemma pair_result_shortest N a b : 0 < N -> wfp N a -> wfp N b -> ordered a b ->
  forall s len, 0 <= s < N -> 2 * len < N ->
    (forall x, base_of [a] x \/ base_of [b] x -> arc N s len x) ->
    llen (pair_result N a b) <= len.
Proof.
  intros HN [Ha0 [Ha1 Ha2]] [Hb0 [Hb1 Hb2]] Ho s len Hs Hlen Hcov.
  assert (Hdiv : N = 2 * (N / 2) + N mod 2) by (apply Z.div_mod; lia).
  assert (Hmod : 0 <= N mod 2 < 2) by (apply Z.mod_pos_bound; lia).
  assert (Ca : (s <= ps a /\ pe a <= s + len) \/ (pe a <= s /\ pe a + N <= s + len)).
  { apply (arc_covers_interval N s len (ps a) (pe a)); try lia.
    intros x Hx. apply Hcov. left. exists a. split; [left; reflexivity|lia]. }
  assert (Cb : (s <= ps b /\ pe b <= s + len) \/ (pe b <= s /\ pe b + N <= s + len)).
  { apply (arc_covers_interval N s len (ps b) (pe b)); try lia.
    intros x Hx. apply Hcov. right. exists b. split; [left; reflexivity|lia]. }
  unfold pair_result, ordered in *.
  destruct (N / 2 <? ps b - pe a) eqn:Eg; unfold wrapped_pair, hull_pair; cbn [llen fold_right ps pe]; lia.
Qed.

Lemma pair_result_props N a b : 0 < N -> wfp N a -> wfp N b -> ordered a b ->
  is_span N (pair_result N a b) /\
  (forall x, base_of [a] x \/ base_of [b] x -> base_of (pair_result N a b) x) /\
  llen (pair_result N a b) <= Z.max (pe a) (pe b) - ps a /\
  connect_locations [pair_result N a b] (Some N) = Ok (pair_result N a b).
Proof.
  intros HN [Ha0 [Ha1 Ha2]] [Hb0 [Hb1 Hb2]] Ho.
  assert (Hdiv : N = 2 * (N / 2) + N mod 2) by (apply Z.div_mod; lia).
  assert (Hmod : 0 <= N mod 2 < 2) by (apply Z.mod_pos_bound; lia).
  unfold pair_result, ordered in *.
  destruct (N / 2 <? ps b - pe a) eqn:Eg; unfold wrapped_pair, hull_pair.
  - split; [right; eexists; eexists; split; [reflexivity|cbn [ps pe]; lia]|].
    split; [|split; [cbn [llen fold_right ps pe]; lia|apply connect_ring_wrapped_idem; lia]].
    intros x [[p [[<-|[]] Hx]]|[p [[<-|[]] Hx]]].
    + eexists. split; [right; left; reflexivity|cbn [ps pe]; lia].
    + eexists. split; [left; reflexivity|cbn [ps pe]; lia].
  - split; [left; eexists; split; [reflexivity|cbn [ps pe]; lia]|].
    split; [|split; [cbn [llen fold_right ps pe]; lia|apply connect_ring_single; cbn [ps pe]; lia]].
    intros x [[p [[<-|[]] Hx]]|[p [[<-|[]] Hx]]]; eexists; (split; [left; reflexivity|cbn [ps pe]; lia]).
Qed.


(* ====================================================================================
   Record.extend_location of a single part on a ring; offset_location of a multi-part location
   on a linear record
   ==================================================================================== *)
Lemma single_rev p : (if pst p =? -1 then rev [p] else [p]) = [p].
Proof. destruct (pst p =? -1); reflexivity. Qed.

(* (A) nothing passes a record edge *)
Lemma extend_ring_single_inside p d N :
  wfp N p -> 0 <= d -> 0 <= ps p - d -> pe p + d <= N ->
  extend_location [p] d N true = Ok [mkPart (ps p - d) (pe p + d) (pst p)].
Proof.
  intros [H0 [Hlt HN]] Hd Hs He. unfold extend_location.
  change (lstrand [p]) with (pst p). rewrite single_rev.
  cbn [last_opt rev app andb ps pe].
  destruct (ps p - d <? 0) eqn:E0; [lia|]. cbn [andb].
  cbn [length merge_ends last_opt rev app tl removelast]. rewrite E0. cbn [andb].
  unfold mkFL. cbn [ps pe pst].
  destruct (pe p <? Z.max 0 (ps p - d)) eqn:E1; [lia|]. cbn [bind last_opt rev app ps pe pst].
  destruct (N <? pe p + d) eqn:E2; [lia|]. cbn [andb].
  destruct (Z.min (pe p + d) N <? Z.max 0 (ps p - d)) eqn:E3; [lia|].
  cbn [bind removelast app length merge_ends last_opt rev].
  rewrite Z.max_r by lia. rewrite Z.min_l by lia. reflexivity.
Qed.

Definition order_by_strand (st : Z) (l : list part) : list part := if st =? -1 then rev l else l.

(* (B) the start passes the origin, the two ends do not meet *)
Lemma extend_ring_single_wrap_start p d N :
  wfp N p -> 0 <= d -> ps p - d < 0 -> pe p + d < ps p - d + N ->
  extend_location [p] d N true =
    Ok (order_by_strand (pst p) [mkPart (ps p - d + N) N (pst p); mkPart 0 (pe p + d) (pst p)]).
Proof.
  intros [H0 [Hlt HN]] Hd Hs He. unfold extend_location, order_by_strand.
  change (lstrand [p]) with (pst p). rewrite single_rev.
  cbn [last_opt rev app andb ps pe].
  destruct (ps p - d <? 0) eqn:E0; [|lia]. cbn [andb].
  destruct (ps p - d + N <=? pe p + d) eqn:E00; [lia|].
  cbn [length merge_ends last_opt rev app tl removelast]. rewrite E0. cbn [andb].
  unfold mkFL. cbn [ps pe pst].
  destruct (pe p <? 0) eqn:E1; [lia|]. cbn [bind].
  destruct (N <? Z.min (N + (ps p - d)) N) eqn:E2; [lia|]. cbn [bind last_opt rev app ps pe pst].
  destruct (N <? pe p + d) eqn:E3; [lia|]. cbn [andb].
  destruct (Z.min (pe p + d) N <? 0) eqn:E4; [lia|].
  cbn [bind removelast app length merge_ends last_opt rev tl].
  assert (Hov : part_overlap (mkPart (Z.min (N + (ps p - d)) N) N (pst p))
                             (mkPart 0 (Z.min (pe p + d) N) (pst p)) = false).
  { unfold part_overlap, in_part. cbn [ps pe]. lia. }
  rewrite Hov. rewrite Z.min_l by lia. rewrite Z.min_l by lia.
  replace (N + (ps p - d)) with (ps p - d + N) by lia. reflexivity.
Qed.

(* (C) the end passes the end of the record, the two ends do not meet *)
Lemma extend_ring_single_wrap_end p d N :
  wfp N p -> 0 <= d -> 0 <= ps p - d -> N < pe p + d -> pe p + d < ps p - d + N ->
  extend_location [p] d N true =
    Ok (order_by_strand (pst p) [mkPart (ps p - d) N (pst p); mkPart 0 (pe p + d - N) (pst p)]).
Proof.
  intros [H0 [Hlt HN]] Hd Hs He Hm. unfold extend_location, order_by_strand.
  change (lstrand [p]) with (pst p). rewrite single_rev.
  cbn [last_opt rev app andb ps pe].
  destruct (ps p - d <? 0) eqn:E0; [lia|]. cbn [andb].
  cbn [length merge_ends last_opt rev app tl removelast]. rewrite E0. cbn [andb].
  unfold mkFL. cbn [ps pe pst].
  destruct (pe p <? Z.max 0 (ps p - d)) eqn:E1; [lia|]. cbn [bind last_opt rev app ps pe pst].
  destruct (N <? pe p + d) eqn:E3; [|lia]. cbn [andb].
  destruct (N <? Z.max 0 (ps p - d)) eqn:E4; [lia|]. cbn [bind].
  destruct (Z.min (pe p + d - N) N <? 0) eqn:E5; [lia|].
  cbn [bind removelast app length merge_ends last_opt rev tl].
  assert (Hov : part_overlap (mkPart (Z.max 0 (ps p - d)) N (pst p))
                             (mkPart 0 (Z.min (pe p + d - N) N) (pst p)) = false).
  { unfold part_overlap, in_part. cbn [ps pe]. lia. }
  rewrite Hov. rewrite Z.max_r by lia. rewrite Z.min_l by lia. reflexivity.
Qed.

(* ---------- offset of a multi-part location on a linear record ---------- *)
Definition shift_part (off : Z) (p : part) : part := mkPart (ps p + off) (pe p + off) (pst p).

Lemma offset_line_multi l off : off <> 0 ->
  Forall (fun p => ps p < pe p /\ 0 <= ps p + off) l ->
  offset_location l off None = Ok (map (shift_part off) l).
Proof.
  intros Hoff H. unfold offset_location, shifted.
  destruct (off =? 0) eqn:E; [lia|].
  induction H as [|p l [Hp1 Hp2] _ IH]; [reflexivity|].
  cbn [mapM map]. destruct (negb (ps p + off <? pe p + off)) eqn:E1; [lia|].
  destruct (false || (0 <=? ps p + off) && (0 <? pe p + off)) eqn:E2; [|lia].
  cbn [bind]. rewrite IH. reflexivity.
Qed.

Lemma shift_bases l off x : base_of (map (shift_part off) l) (x + off) <-> base_of l x.
Proof.
  unfold base_of. split.
  - intros [q [Hq Hx]]. apply in_map_iff in Hq. destruct Hq as [p [<- Hp]]. exists p. cbn in Hx. split; [assumption|lia].
  - intros [p [Hp Hx]]. exists (shift_part off p). split; [apply in_map; assumption|cbn; lia].
Qed.

Lemma shift_llen l off : llen (map (shift_part off) l) = llen l.
Proof. induction l as [|p l IH]; [reflexivity|]. cbn [map llen fold_right] in *. unfold llen in IH. rewrite IH. cbn. lia. Qed.

(* (D) both ends pass the record edges and meet: the whole record *)
Lemma extend_ring_single_full p d N :
  wfp N p -> 0 <= d -> ps p - d < 0 -> 0 <= ps p - d + N -> ps p - d + N <= pe p + d ->
  extend_location [p] d N true = Ok [mkPart 0 N (pst p)].
Proof.
  intros [H0 [Hlt HN]] Hd Hs Hs2 He. unfold extend_location.
  change (lstrand [p]) with (pst p). rewrite single_rev.
  cbn [last_opt rev app andb ps pe].
  destruct (ps p - d <? 0) eqn:E0; [|lia]. cbn [andb].
  destruct (ps p - d + N <=? pe p + d) eqn:E00; [|lia].
  unfold mkFL. destruct (pe p <? 0) eqn:E1; [lia|]. cbn [bind set_first last_opt rev app ps pe].
  destruct (N <? 0) eqn:E2; [lia|]. cbn [bind set_last removelast app rev].
  destruct (N <? ps p - d + N) eqn:E3; [lia|]. cbn [bind].
  assert (Hov : part_overlap (mkPart 0 N (pst p)) (mkPart (ps p - d + N) N (pst p)) = true).
  { unfold part_overlap, in_part. cbn [ps pe]. lia. }
  cbn [absorb_upper]. rewrite Hov. cbn [absorb_upper ps pe pst rev app].
  rewrite (Z.min_l 0 (ps p - d + N)) by lia.
  assert (Hmod : 0 <= (pe p + d) mod N < N) by (apply Z.mod_pos_bound; lia).
  destruct (N <? pe p + d) eqn:E4.
  - destruct ((pe p + d) mod N <? 0) eqn:E5; [lia|].
    cbn [bind length andb].
    change (1 <? Z.of_nat 1) with false. cbn iota.
    assert (Hov2 : part_overlap (mkPart 0 N (pst p)) (mkPart 0 ((pe p + d) mod N) (pst p)) = true).
    { unfold part_overlap, in_part. cbn [ps pe]. lia. }
    cbn [absorb_lower]. rewrite Hov2. cbn [absorb_lower ps pe pst negb]. rewrite (Z.max_l N) by lia.
    cbn [bind]. unfold part_eqb. cbn [ps pe pst]. rewrite !Z.eqb_refl. reflexivity.
  - cbn [bind]. unfold part_eqb. cbn [ps pe pst]. rewrite !Z.eqb_refl. reflexivity.
Qed.

(* extending a single part on a ring covers exactly the bases within the distance, wrapped *)
Definition within_ring_of (N : Z) (p : part) (d x : Z) : Prop :=
  exists k, (k = -1 \/ k = 0 \/ k = 1) /\ ps p - d <= x + k * N < pe p + d.

Lemma extend_ring_single_bases p d N :
  wfp N p -> 0 <= d -> pe p - ps p + 2 * d < N ->
  exists r, extend_location [p] d N true = Ok r /\
    Forall (fun q => pst q = pst p /\ 0 <= ps q /\ ps q < pe q /\ pe q <= N) r /\
    llen r = pe p - ps p + 2 * d /\
    (forall x, 0 <= x < N -> (base_of r x <-> within_ring_of N p d x)).
Proof.
  intros Hw Hd Hlen. pose proof Hw as [H0 [Hlt HN]].
  assert (Hcase : (0 <= ps p - d /\ pe p + d <= N) \/ (ps p - d < 0) \/ (0 <= ps p - d /\ N < pe p + d)) by lia.
  destruct Hcase as [[Ha Hb]|[Ha|[Ha Hb]]].
  - rewrite (extend_ring_single_inside p d N Hw Hd Ha Hb). eexists. split; [reflexivity|].
    split; [constructor; [cbn; lia|constructor]|]. split; [unfold llen; cbn [fold_right ps pe]; lia|].
    intros x Hx. unfold base_of, within_ring_of. split.
    + intros [q [[<-|[]] Hq]]. cbn in Hq. exists 0. lia.
    + intros [k [Hk Hq]]. eexists. split; [left; reflexivity|]. cbn. destruct Hk as [-> | [-> | ->]]; lia.
  - rewrite (extend_ring_single_wrap_start p d N Hw Hd Ha ltac:(lia)). unfold order_by_strand.
    destruct (pst p =? -1); cbn [rev app]; (eexists; split; [reflexivity|]);
      (split; [constructor; [cbn; lia|constructor; [cbn; lia|constructor]]|]); (split; [unfold llen; cbn [fold_right ps pe]; lia|]);
      intros x Hx; unfold base_of, within_ring_of; split.
    + intros [q [[<-|[<-|[]]] Hq]]; cbn in Hq; [exists 0|exists (-1)]; lia.
    + intros [k [Hk Hq]]. destruct Hk as [-> | [-> | ->]].
      * eexists. split; [right; left; reflexivity|cbn; lia].
      * eexists. split; [left; reflexivity|cbn; lia].
      * lia.
    + intros [q [[<-|[<-|[]]] Hq]]; cbn in Hq; [exists (-1)|exists 0]; lia.
    + intros [k [Hk Hq]]. destruct Hk as [-> | [-> | ->]].
      * eexists. split; [left; reflexivity|cbn; lia].
      * eexists. split; [right; left; reflexivity|cbn; lia].
      * lia.
  - rewrite (extend_ring_single_wrap_end p d N Hw Hd Ha Hb ltac:(lia)). unfold order_by_strand.
    destruct (pst p =? -1); cbn [rev app]; (eexists; split; [reflexivity|]);
      (split; [constructor; [cbn; lia|constructor; [cbn; lia|constructor]]|]); (split; [unfold llen; cbn [fold_right ps pe]; lia|]);
      intros x Hx; unfold base_of, within_ring_of; split.
    + intros [q [[<-|[<-|[]]] Hq]]; cbn in Hq; [exists 1|exists 0]; lia.
    + intros [k [Hk Hq]]. destruct Hk as [-> | [-> | ->]].
      * lia.
      * eexists. split; [right; left; reflexivity|cbn; lia].
      * eexists. split; [left; reflexivity|cbn; lia].
    + intros [q [[<-|[<-|[]]] Hq]]; cbn in Hq; [exists 0|exists 1]; lia.
    + intros [k [Hk Hq]]. destruct Hk as [-> | [-> | ->]].
      * lia.
      * eexists. split; [left; reflexivity|cbn; lia].
      * eexists. split; [right; left; reflexivity|cbn; lia].
Qed.

(* ====================================================================================
   The text codec reads back (same proof as in C10/Proofs.v, over the transcription in Model.Text)
   ==================================================================================== *)
Module TextProofs.
Import Text.

(* ================= str(int) / int(str) ================= *)

Lemma int_of_digits_app : forall l c, int_of_digits (l ++ [c]) = int_of_digits l * 10 + (c - 48).
Proof. intros l c. unfold int_of_digits. rewrite fold_left_app. reflexivity. Qed.

Definition digit_str (d : str) : Prop := d <> [] /\ forallb is_digit d = true.

Lemma dig_spec : forall f n, 0 <= n -> n < 2 ^ Z.of_nat (S f) ->
  digit_str (dig (S f) n) /\ int_of_digits (dig (S f) n) = n.
Proof.
  induction f as [|f IH]; intros n H0 H1.
  - change (2 ^ Z.of_nat 1) with 2 in H1. cbn [dig].
    destruct (n <? 10) eqn:E; [|lia].
    split; [split; [discriminate|] |].
    + cbn [forallb]. unfold is_digit. lia.
    + unfold int_of_digits. cbn [fold_left]. lia.
  - remember (S f) as g eqn:Hg. cbn [dig]. destruct (n <? 10) eqn:E.
    + split; [split; [discriminate|] |].
      * cbn [forallb]. unfold is_digit. lia.
      * unfold int_of_digits. cbn [fold_left]. lia.
    + assert (Hpow : 2 ^ Z.of_nat (S g) = 2 * 2 ^ Z.of_nat g).
      { rewrite Nat2Z.inj_succ. rewrite Z.pow_succ_r by lia. reflexivity. }
      assert (Hd : 0 <= n / 10) by (apply Z.div_pos; lia).
      assert (Hlt : n / 10 < 2 ^ Z.of_nat g).
      { apply Z.div_lt_upper_bound; [lia|]. lia. }
      destruct (IH (n / 10) Hd Hlt) as [[Hne Hall] Hval].
      pose proof (Z.mod_pos_bound n 10 ltac:(lia)) as Hm.
      split; [split|].
      * intro Hc. apply app_eq_nil in Hc. destruct Hc as [_ Hc]. discriminate.
      * rewrite forallb_app. rewrite Hall. cbn [forallb]. unfold is_digit. lia.
      * rewrite int_of_digits_app. rewrite Hval.
        pose proof (Z.div_mod n 10 ltac:(lia)) as Hdm. lia.
Qed.

Lemma digits_spec : forall n, 0 <= n -> digit_str (digits n) /\ int_of_digits (digits n) = n.
Proof.
  intros n H. unfold digits. apply dig_spec; [assumption|].
  rewrite Nat2Z.inj_succ. rewrite Z2Nat.id by apply Z.log2_nonneg.
  destruct (Z.eq_dec n 0) as [->|Hn].
  - cbn. lia.
  - apply Z.log2_spec. lia.
Qed.

Lemma parse_nat_digits : forall d, digit_str d -> parse_nat d = Ok (int_of_digits d).
Proof.
  intros d [Hne Hall]. unfold parse_nat. destruct d as [|c r]; [congruence|]. rewrite Hall. reflexivity.
Qed.

Lemma digit_head : forall d, digit_str d -> exists c r, d = c :: r /\ is_digit c = true.
Proof.
  intros d [Hne Hall]. destruct d as [|c r]; [congruence|]. exists c, r. split; [reflexivity|].
  cbn [forallb] in Hall. apply andb_true_iff in Hall. tauto.
Qed.

Lemma parse_int_digits : forall d, digit_str d -> parse_int d = Ok (int_of_digits d).
Proof.
  intros d H. destruct (digit_head d H) as [c [r [-> Hc]]]. unfold parse_int.
  unfold is_digit in Hc. apply andb_true_iff in Hc. destruct Hc as [Hc1 Hc2].
  apply Z.leb_le in Hc1. apply Z.leb_le in Hc2.
  destruct (Z.eqb_spec c 45) as [E1|E1]; [lia|]. destruct (Z.eqb_spec c 43) as [E2|E2]; [lia|].
  apply parse_nat_digits. assumption.
Qed.

Lemma parse_int_str_of_int : forall n, parse_int (str_of_int n) = Ok n.
Proof.
  intro n. unfold str_of_int. destruct (n <? 0) eqn:E.
  - destruct (digits_spec (- n) ltac:(lia)) as [Hd Hv].
    unfold parse_int. replace (45 =? 45) with true by reflexivity.
    rewrite (parse_nat_digits _ Hd). cbn [bind]. rewrite Hv. f_equal. lia.
  - destruct (digits_spec n ltac:(lia)) as [Hd Hv]. rewrite (parse_int_digits _ Hd). rewrite Hv. reflexivity.
Qed.


(* ================= the location text codec ================= *)

Definition okc (c : Z) : bool := is_digit c || (c =? 60) || (c =? 62).

Lemma forallb_weaken : forall (f g : Z -> bool) l, (forall x, f x = true -> g x = true) ->
  forallb f l = true -> forallb g l = true.
Proof.
  intros f g l H. induction l as [|x r IH]; cbn [forallb]; [reflexivity|].
  intro E. apply andb_true_iff in E. destruct E as [E1 E2]. rewrite (H _ E1), (IH E2). reflexivity.
Qed.

Lemma str_of_int_nonneg : forall n, 0 <= n -> str_of_int n = digits n.
Proof. intros n H. unfold str_of_int. destruct (n <? 0) eqn:E; [lia|reflexivity]. Qed.

Lemma cmem_okc : forall c s, forallb okc s = true -> okc c = false -> cmem c s = false.
Proof.
  intros c s. unfold cmem. induction s as [|x r IH]; cbn [forallb existsb]; [reflexivity|].
  intros E Hc. apply andb_true_iff in E. destruct E as [E1 E2]. rewrite (IH E2 Hc).
  destruct (Z.eqb_spec c x) as [->|Hne]; [congruence|reflexivity].
Qed.

Lemma split1_app : forall c a b, cmem c a = false -> split1 c (a ++ c :: b) = (a, Some b).
Proof.
  intros c a b. unfold cmem. induction a as [|x r IH]; cbn [app split1 existsb]; intro H.
  - rewrite Z.eqb_refl. reflexivity.
  - apply orb_false_iff in H. destruct H as [H1 H2]. rewrite Z.eqb_sym in H1. rewrite H1.
    rewrite (IH H2). reflexivity.
Qed.

Lemma pos_str_chars : forall p, 0 <= tv p -> forallb okc (pos_str p) = true.
Proof.
  intros p H. unfold pos_str. rewrite forallb_app. rewrite (str_of_int_nonneg _ H).
  destruct (digits_spec _ H) as [[_ Hall] _].
  rewrite (forallb_weaken is_digit okc _ ltac:(intros x Hx; unfold okc; rewrite Hx; reflexivity) Hall).
  destruct (tk p =? 1); [reflexivity|]. destruct (tk p =? 2); reflexivity.
Qed.

Definition wf_tpos (p : tpos) : Prop := (tk p = 0 \/ tk p = 1 \/ tk p = 2) /\ 0 <= tv p.

Lemma parse_position_pos_str : forall p, wf_tpos p -> parse_position (pos_str p) = Ok p.
Proof.
  intros [k v] [Hk Hv]. cbn [tk tv] in *. unfold pos_str. cbn [tk tv].
  rewrite (str_of_int_nonneg _ Hv).
  destruct (digits_spec _ Hv) as [Hd Hval].
  destruct Hk as [->|[->| ->]].
  - change (0 =? 1) with false. change (0 =? 2) with false. cbn [app].
    destruct (digit_head _ Hd) as [c [r [E Hc]]].
    unfold parse_position. rewrite E. rewrite <- E.
    unfold is_digit in Hc. apply andb_true_iff in Hc. destruct Hc as [Hc1 Hc2].
    apply Z.leb_le in Hc1. apply Z.leb_le in Hc2.
    destruct (Z.eqb_spec c 60) as [E1|E1]; [lia|]. destruct (Z.eqb_spec c 62) as [E2|E2]; [lia|].
    assert (Hu : str_eqb (digits v) unknown_position_text = false).
    { rewrite E. unfold str_eqb, unknown_position_text. cbn [list_eqb].
      destruct (Z.eqb_spec c 85) as [E3|E3]; [lia|reflexivity]. }
    rewrite Hu. rewrite (parse_int_digits _ Hd). cbn [bind]. rewrite Hval. reflexivity.
  - change (1 =? 1) with true. cbn [app]. unfold parse_position.
    change (60 =? 60) with true. cbv iota. rewrite (parse_int_digits _ Hd). cbn [bind]. rewrite Hval. reflexivity.
  - change (2 =? 1) with false. change (2 =? 2) with true. cbn [app]. unfold parse_position.
    change (62 =? 60) with false. change (62 =? 62) with true. cbv iota.
    rewrite (parse_int_digits _ Hd). cbn [bind]. rewrite Hval. reflexivity.
Qed.

(* the last character of a printed position is a digit *)
Lemma pos_str_last : forall p, 0 <= tv p -> exists l d, pos_str p = l ++ [d] /\ is_digit d = true.
Proof.
  intros p H. unfold pos_str. rewrite (str_of_int_nonneg _ H).
  destruct (digits_spec _ H) as [[Hne Hall] _].
  destruct (exists_last Hne) as [l [d E]]. rewrite E in *.
  exists ((if tk p =? 1 then [60] else if tk p =? 2 then [62] else []) ++ l), d.
  split; [rewrite app_assoc; reflexivity|].
  rewrite forallb_app in Hall. apply andb_true_iff in Hall. destruct Hall as [_ Hd].
  cbn [forallb] in Hd. apply andb_true_iff in Hd. tauto.
Qed.

Definition wf_tpart (p : tpart) : Prop :=
  wf_tpos (tps p) /\ wf_tpos (tpe p) /\ tv (tps p) <= tv (tpe p) /\
  (tst p = 1 \/ tst p = -1 \/ tst p = 0 \/ tst p = 2).

(* characters of a printed part: digits < > [ ] : ( ) + - ?  -- in particular no comma and no brace *)
Definition partc (c : Z) : bool :=
  okc c || (c =? 91) || (c =? 93) || (c =? 58) || (c =? 40) || (c =? 41) || (c =? 43) || (c =? 45) || (c =? 63).

Lemma okc_partc : forall x, okc x = true -> partc x = true.
Proof. intros x H. unfold partc. rewrite H. reflexivity. Qed.

Lemma part_str_chars : forall p, wf_tpart p -> forallb partc (part_str p) = true.
Proof.
  intros p [[_ H1] [[_ H2] [_ Hs]]]. unfold part_str. repeat rewrite forallb_app.
  rewrite (forallb_weaken okc partc _ okc_partc (pos_str_chars _ H1)).
  rewrite (forallb_weaken okc partc _ okc_partc (pos_str_chars _ H2)).
  destruct Hs as [->|[->|[->| ->]]]; reflexivity.
Qed.

Lemma cmem_partc : forall c s, forallb partc s = true -> partc c = false -> cmem c s = false.
Proof.
  intros c s. unfold cmem. induction s as [|x r IH]; cbn [forallb existsb]; [reflexivity|].
  intros E Hc. apply andb_true_iff in E. destruct E as [E1 E2]. rewrite (IH E2 Hc).
  destruct (Z.eqb_spec c x) as [->|Hne]; [congruence|reflexivity].
Qed.

Lemma rev_two : forall (l : list Z) a b, rev (l ++ [a; b]) = b :: a :: rev l.
Proof. intros. rewrite rev_app_distr. reflexivity. Qed.

Lemma parse_single_part_str : forall p, wf_tpart p -> parse_single (part_str p) = Ok p.
Proof.
  intros p Hwf. pose proof (part_str_chars p Hwf) as Hchars.
  destruct Hwf as [Hs [He [Hle Hst]]].
  pose proof (pos_str_chars _ (proj2 Hs)) as Cs. pose proof (pos_str_chars _ (proj2 He)) as Ce.
  unfold parse_single.
  assert (E1 : tl (part_str p) = pos_str (tps p) ++ 58 :: (pos_str (tpe p) ++ [93] ++ strand_str (tst p))).
  { unfold part_str. cbn [app tl]. reflexivity. }
  rewrite E1. rewrite (split1_app 58 _ _ (cmem_okc 58 _ Cs eq_refl)). cbn [fst].
  rewrite (parse_position_pos_str _ Hs). cbn [bind].
  assert (E2 : part_str p = (91 :: pos_str (tps p)) ++ 58 :: (pos_str (tpe p) ++ 93 :: strand_str (tst p))).
  { unfold part_str. cbn [app]. reflexivity. }
  assert (C91 : cmem 58 (91 :: pos_str (tps p)) = false).
  { unfold cmem. cbn [existsb]. change (58 =? 91) with false. cbn [orb]. exact (cmem_okc 58 _ Cs eq_refl). }
  rewrite E2 at 1. rewrite (split1_app 58 _ _ C91). cbn [snd].
  rewrite (split1_app 93 _ _ (cmem_okc 93 _ Ce eq_refl)). cbn [fst].
  rewrite (parse_position_pos_str _ He). cbn [bind].
  assert (Hle' : (tv (tpe p) <? tv (tps p)) = false) by lia.
  destruct (pos_str_last _ (proj2 He)) as [l [d [El Hd]]].
  assert (Hm2 : char_m2 (part_str p) =
                Ok (if tst p =? 2 then d else if tst p =? 1 then 43 else if tst p =? -1 then 45 else 63)).
  { unfold char_m2. rewrite E2. rewrite El. unfold strand_str.
    destruct Hst as [->|[->|[->| ->]]].
    - change (1 =? 2) with false. change (1 =? 1) with true. cbv iota.
      replace ((91 :: pos_str (tps p)) ++ 58 :: (l ++ [d]) ++ [93; 40; 43; 41])
        with (((91 :: pos_str (tps p)) ++ 58 :: (l ++ [d]) ++ [93; 40]) ++ [43; 41]).
      + rewrite rev_two. reflexivity.
      + repeat rewrite <- app_assoc. cbn [app]. repeat rewrite <- app_assoc. reflexivity.
    - change (-1 =? 2) with false. change (-1 =? 1) with false. change (-1 =? -1) with true. cbv iota.
      replace ((91 :: pos_str (tps p)) ++ 58 :: (l ++ [d]) ++ [93; 40; 45; 41])
        with (((91 :: pos_str (tps p)) ++ 58 :: (l ++ [d]) ++ [93; 40]) ++ [45; 41]).
      + rewrite rev_two. reflexivity.
      + repeat rewrite <- app_assoc. cbn [app]. repeat rewrite <- app_assoc. reflexivity.
    - change (0 =? 2) with false. change (0 =? 1) with false. change (0 =? -1) with false. cbv iota.
      replace ((91 :: pos_str (tps p)) ++ 58 :: (l ++ [d]) ++ [93; 40; 63; 41])
        with (((91 :: pos_str (tps p)) ++ 58 :: (l ++ [d]) ++ [93; 40]) ++ [63; 41]).
      + rewrite rev_two. reflexivity.
      + repeat rewrite <- app_assoc. cbn [app]. repeat rewrite <- app_assoc. reflexivity.
    - change (2 =? 2) with true. cbv iota.
      replace ((91 :: pos_str (tps p)) ++ 58 :: (l ++ [d]) ++ [93])
        with (((91 :: pos_str (tps p)) ++ 58 :: l) ++ [d; 93]).
      + rewrite rev_two. reflexivity.
      + repeat rewrite <- app_assoc. cbn [app]. repeat rewrite <- app_assoc. reflexivity. }
  rewrite Hm2. cbn [bind].
  unfold is_digit in Hd. apply andb_true_iff in Hd. destruct Hd as [Hd1 Hd2].
  apply Z.leb_le in Hd1. apply Z.leb_le in Hd2.
  destruct p as [s e st]. cbn [tps tpe tst] in *.
  destruct Hst as [->|[->|[->| ->]]].
  - change (1 =? 2) with false. change (1 =? 1) with true. cbv iota.
    change (43 =? 45) with false. change (43 =? 43) with true. cbv iota. cbn [bind]. rewrite Hle'. reflexivity.
  - change (-1 =? 2) with false. change (-1 =? 1) with false. change (-1 =? -1) with true. cbv iota.
    change (45 =? 45) with true. cbv iota. cbn [bind]. rewrite Hle'. reflexivity.
  - change (0 =? 2) with false. change (0 =? 1) with false. change (0 =? -1) with false. cbv iota.
    change (63 =? 45) with false. change (63 =? 43) with false. change (63 =? 63) with true. cbv iota.
    cbn [bind]. rewrite Hle'. reflexivity.
  - change (2 =? 2) with true. cbv iota.
    destruct (Z.eqb_spec d 45) as [X|X]; [lia|]. destruct (Z.eqb_spec d 43) as [Y|Y]; [lia|].
    destruct (Z.eqb_spec d 63) as [W|W]; [lia|].
    assert (Hno : cmem 40 (part_str (mkTpart s e 2)) = false).
    { unfold part_str, strand_str. cbn [tps tpe tst]. change (2 =? 2) with true. cbv iota.
      unfold cmem. repeat rewrite existsb_app. cbn [existsb].
      fold (cmem 40 (pos_str s)). fold (cmem 40 (pos_str e)).
      rewrite (cmem_okc 40 _ Cs eq_refl). rewrite (cmem_okc 40 _ Ce eq_refl). reflexivity. }
    rewrite Hno. cbn [negb bind]. rewrite Hle'. reflexivity.
Qed.

(* ---- "a, b, c".split(", ") ---- *)
Lemma split_cs_nocomma : forall a, cmem 44 a = false -> split_cs a = [a].
Proof.
  unfold cmem. induction a as [|x r IH]; intro H; [reflexivity|].
  cbn [existsb] in H. apply orb_false_iff in H. destruct H as [H1 H2].
  cbn [split_cs]. rewrite Z.eqb_sym in H1. rewrite H1. cbn [andb].
  destruct r as [|y r']; [reflexivity|]. rewrite (IH H2). reflexivity.
Qed.

Lemma split_cs_app : forall a rest, cmem 44 a = false ->
  split_cs (a ++ 44 :: 32 :: rest) = a :: split_cs rest.
Proof.
  unfold cmem. induction a as [|x r IH]; intros rest H.
  - cbn [app split_cs]. change (44 =? 44) with true. change (32 =? 32) with true. reflexivity.
  - cbn [existsb] in H. apply orb_false_iff in H. destruct H as [H1 H2].
    rewrite Z.eqb_sym in H1.
    change ((x :: r) ++ 44 :: 32 :: rest) with (x :: (r ++ 44 :: 32 :: rest)).
    cbn [split_cs]. rewrite H1. cbn [andb].
    destruct (r ++ 44 :: 32 :: rest) as [|y t] eqn:E.
    + destruct r; discriminate.
    + rewrite <- E. rewrite (IH rest H2). reflexivity.
Qed.

Lemma split_cs_join : forall parts, parts <> [] -> Forall (fun s => cmem 44 s = false) parts ->
  split_cs (join [44; 32] parts) = parts.
Proof.
  induction parts as [|x r IH]; intros Hne HF; [congruence|].
  inversion HF as [|? ? Hx Hr]; subst. cbn [join]. destruct r as [|y r'].
  - apply split_cs_nocomma. assumption.
  - change (x ++ [44; 32] ++ join [44; 32] (y :: r')) with (x ++ 44 :: 32 :: join [44; 32] (y :: r')).
    rewrite (split_cs_app x _ Hx). rewrite IH; [reflexivity|discriminate|assumption].
Qed.

Lemma mapM_parse_parts : forall ps, Forall wf_tpart ps -> mapM parse_single (map part_str ps) = Ok ps.
Proof.
  induction ps as [|p r IH]; intro HF; [reflexivity|].
  inversion HF as [|? ? Hp Hr]; subst. cbn [map mapM]. rewrite (parse_single_part_str _ Hp). cbn [bind].
  rewrite (IH Hr). reflexivity.
Qed.

Lemma cmem_app : forall c a b, cmem c (a ++ b) = cmem c a || cmem c b.
Proof. intros. unfold cmem. apply existsb_app. Qed.

Inductive wf_tloc : tloc -> Prop :=
| wf_single : forall p, wf_tpart p -> wf_tloc (TSingle p)
| wf_compound : forall op ps, cmem 123 op = false -> (2 <= length ps)%nat -> Forall wf_tpart ps ->
    wf_tloc (TCompound op ps).

Theorem loc_codec : forall t, wf_tloc t -> loc_from_string (loc_str t) = Ok t.
Proof.
  intros t H. destruct H as [p Hp | op ps Hop Hlen HF].
  - cbn [loc_str]. unfold loc_from_string.
    rewrite (cmem_partc 123 _ (part_str_chars _ Hp) eq_refl). cbn [negb].
    rewrite (parse_single_part_str _ Hp). reflexivity.
  - cbn [loc_str]. unfold loc_from_string.
    assert (Hin : cmem 123 (op ++ [123] ++ join [44; 32] (map part_str ps) ++ [125]) = true).
    { rewrite cmem_app. rewrite cmem_app. unfold cmem at 2. cbn [existsb]. change (123 =? 123) with true.
      cbn [orb]. apply orb_true_r. }
    rewrite Hin. cbn [negb].
    replace (op ++ [123] ++ join [44; 32] (map part_str ps) ++ [125])
      with ((op ++ 123 :: join [44; 32] (map part_str ps)) ++ [125])
      by (repeat rewrite <- app_assoc; reflexivity).
    rewrite removelast_last. rewrite (split1_app 123 _ _ Hop).
    rewrite split_cs_join.
    + rewrite (mapM_parse_parts _ HF). cbn [bind].
      destruct ps as [|a [|b r]]; cbn [length] in Hlen; try lia. reflexivity.
    + destruct ps; [cbn [length] in Hlen; lia | discriminate].
    + apply Forall_forall. intros s Hs. apply in_map_iff in Hs. destruct Hs as [p [<- Hp]].
      rewrite Forall_forall in HF. exact (cmem_partc 44 _ (part_str_chars _ (HF p Hp)) eq_refl).
Qed.

End TextProofs.

(* ====================================================================================
   Histories: the value of a call does not depend on what was called or mutated before
   ==================================================================================== *)
Lemma history_length : forall ops h, length (run_history h ops) = length ops.
Proof.
  induction ops as [|o r IH]; intros h; [reflexivity|].
  cbn [run_history]. destruct (hstep h o) as [h' out]. cbn [length]. now rewrite IH.
Qed.

(* the output of a call is a function of the call alone *)
Lemma hstep_call_out : forall h fn p, snd (hstep h (HCall fn p)) = run_call fn p.
Proof. reflexivity. Qed.

Lemma history_independent : forall ops h i fn p,
  nth_error ops i = Some (HCall fn p) ->
  nth_error (run_history h ops) i = Some (run_call fn p).
Proof.
  induction ops as [|o r IH]; intros h i fn p H.
  - destruct i; discriminate.
  - cbn [run_history]. destruct (hstep h o) as [h' out] eqn:E. destruct i as [|i].
    + cbn in H. injection H as ->. cbn in E. injection E as _ <-. reflexivity.
    + cbn in H. cbn [nth_error]. now apply IH.
Qed.

(* two histories with the same call at some positions give the same value there *)
Lemma history_same_call : forall ops1 ops2 h1 h2 i j fn p,
  nth_error ops1 i = Some (HCall fn p) -> nth_error ops2 j = Some (HCall fn p) ->
  nth_error (run_history h1 ops1) i = nth_error (run_history h2 ops2) j.
Proof.
  intros. rewrite (history_independent _ _ _ _ _ H), (history_independent _ _ _ _ _ H0). reflexivity.
Qed.

(* frame: a call leaves every existing object as it is (it only allocates) ... *)
Lemma hstep_call_frame : forall h fn p j, (j < length h)%nat ->
  nth_error (fst (hstep h (HCall fn p))) j = nth_error h j.
Proof. intros. cbn. now apply nth_error_app1. Qed.

Lemma set_nth_length : forall A n (x : A) l, length (set_nth n x l) = length l.
Proof. induction n; destruct l; cbn; intros; auto. Qed.

Lemma set_nth_other : forall A n (x : A) l j, j <> n -> nth_error (set_nth n x l) j = nth_error l j.
Proof.
  induction n; destruct l; intros j Hj; cbn; try reflexivity.
  - destruct j; [congruence|reflexivity].
  - destruct j; [reflexivity|]. cbn. apply IHn. congruence.
Qed.

(* ... and a mutator changes the addressed object only *)
Lemma hstep_mut_frame : forall h k a x j, j <> Z.to_nat a ->
  nth_error (fst (hstep h (HMut k a x))) j = nth_error h j /\
  length (fst (hstep h (HMut k a x))) = length h.
Proof.
  intros h k a x j Hj. cbn [hstep]. destruct (a <? 0); [split; reflexivity|].
  destruct (nth_error h (Z.to_nat a)) as [l|]; [|split; reflexivity].
  destruct (mutate k x l) as [l' out]. cbn [fst]. split; [now apply set_nth_other|apply set_nth_length].
Qed.

(* passing an object to a function (mutator 6) does not change it *)
Lemma mutate_pass_unchanged : forall x l, fst (mutate 6 x l) = l.
Proof. reflexivity. Qed.

(* ---- flat encoding of strings and histories reads back ---- *)
Lemma dRep_dZ : forall p r, dRep dZ (length p) (p ++ r) = Some (p, r).
Proof. induction p as [|x p IH]; intros r; cbn; [reflexivity|]. now rewrite IH. Qed.

Lemma dList_dZ : forall p r, dList dZ (zlen p :: p ++ r) = Some (p, r).
Proof.
  intros p r. unfold dList, zlen.
  assert (H : Z.of_nat (length p) <? 0 = false) by (apply Z.ltb_ge; lia).
  rewrite H, Nat2Z.id. apply dRep_dZ.
Qed.

Lemma flat_map_single : forall (s : list Z), flat_map (fun c => [c]) s = s.
Proof. induction s; cbn; congruence. Qed.

Lemma dStr_eStr : forall s, Text.dStr (Text.eStr s) = Some (s, []).
Proof.
  intros s. unfold Text.dStr, Text.eStr, eList. rewrite flat_map_single.
  rewrite <- (app_nil_r s) at 2. apply dList_dZ.
Qed.

Lemma dHop_eHop : forall o r, dHop (eHop o ++ r) = Some (o, r).
Proof.
  intros [fn p|k a x] r; [|reflexivity].
  cbn [eHop app dHop]. now rewrite dList_dZ.
Qed.

Lemma dRep_dHop : forall ops r, dRep dHop (length ops) (flat_map eHop ops ++ r) = Some (ops, r).
Proof.
  induction ops as [|o ops IH]; intros r; [reflexivity|].
  cbn [length dRep flat_map]. rewrite <- app_assoc, dHop_eHop, IH. reflexivity.
Qed.

(* the executable entry point on an encoded history is run_history *)
Lemma run_C04_history : forall ops, run_C04 300 (eList eHop ops) = eOuts (run_history [] ops).
Proof.
  intros ops. unfold run_C04, eList, dList, zlen.
  assert (H : Z.of_nat (length ops) <? 0 = false) by (apply Z.ltb_ge; lia).
  rewrite H, Nat2Z.id. rewrite <- (app_nil_r (flat_map eHop ops)). now rewrite dRep_dHop.
Qed.

(* every other function id of the entry point is the single call *)
Lemma run_C04_call : forall fn p, fn <> 300 -> run_C04 fn p = run_call fn p.
Proof.
  intros fn p H. unfold run_C04.
  destruct fn as [|q|q]; try reflexivity.
  repeat (destruct q as [q|q|]; try reflexivity). congruence.
Qed.

(* ---- the text clause under histories: whatever happened before (parses of the same text, in-place
   changes of their results), a location's text reads back to that location (stated for any codec
   lemma; Theorems.v supplies TextProofs.loc_codec) ---- *)

Lemma text_reads_back_in_history : forall (wf : Text.tloc -> Prop),
  (forall t, wf t -> Text.loc_from_string (Text.loc_str t) = Ok t) ->
  forall ops h i t, wf t ->
  nth_error ops i = Some (HCall 14 (Text.eStr (Text.loc_str t))) ->
  nth_error (run_history h ops) i = Some (0 :: Text.eTloc t).
Proof.
  intros wf codec ops h i t Ht H. rewrite (history_independent _ _ _ _ _ H).
  unfold run_call. rewrite dStr_eStr, (codec t Ht). reflexivity.
Qed.

(* ---- specification 116: all results equal ---- *)
Lemma list_eqb_Z_eq : forall a b : list Z, list_eqb Z.eqb a b = true -> a = b.
Proof.
  induction a as [|x a IH]; destruct b as [|y b]; cbn; intros H; try discriminate; [reflexivity|].
  apply andb_prop in H as [H1 H2]. apply Z.eqb_eq in H1. subst. f_equal. now apply IH.
Qed.

Lemma all_same_sound : forall outs, all_same outs = true ->
  forall a b, In a outs -> In b outs -> a = b.
Proof.
  assert (Hhd : forall outs x, all_same (x :: outs) = true -> forall a, In a outs -> a = x).
  { induction outs as [|y outs IH]; intros x H a Ha; [destruct Ha|].
    cbn [all_same] in H. apply andb_prop in H as [H1 H2]. apply list_eqb_Z_eq in H1. subst y.
    destruct Ha as [<-|Ha]; [reflexivity|]. now apply IH. }
  induction outs as [|x outs IH]; intros H a b Ha Hb; [destruct Ha|].
  assert (Ht : all_same outs = true).
  { destruct outs as [|y outs]; [reflexivity|]. cbn [all_same] in H. now apply andb_prop in H as [_ H]. }
  destruct Ha as [<-|Ha], Hb as [<-|Hb]; try reflexivity.
  - symmetry. now apply (Hhd outs).
  - now apply (Hhd outs).
  - now apply IH.
Qed.

(* ====================================================================================
   connect_locations without a wrap point, ANY number of arguments, multi-part arguments included:
   closed form, independence of the argument order, idempotence
   ==================================================================================== *)
From Coq Require Import Sorting.Permutation.

Definition red1 (l : loc) : loc :=
  match l with [p] => [p] | _ => [mkPart (lstart l) (lend l) (lstrand l)] end.

Lemma reduce_parts_line l : bridges l = false -> reduce_parts l None = Ok (red1 l).
Proof.
  destruct l as [|p [|q r]]; intros H; try reflexivity.
  unfold reduce_parts. rewrite H. reflexivity.
Qed.

Lemma mapM_ok {A B} (f : A -> res B) (g : A -> B) l :
  (forall x, In x l -> f x = Ok (g x)) -> mapM f l = Ok (map g l).
Proof.
  induction l as [|x l IH]; intros H; [reflexivity|].
  cbn [mapM map]. rewrite (H x (or_introl eq_refl)). cbn [bind].
  rewrite IH by (intros y Hy; apply H; now right). reflexivity.
Qed.

Lemma existsb_false_in {A} (f : A -> bool) l : existsb f l = false -> forall x, In x l -> f x = false.
Proof.
  intros H x Hx. destruct (f x) eqn:E; [|reflexivity].
  assert (existsb f l = true) by (apply existsb_exists; eauto). congruence.
Qed.

Lemma connect_line_closed f locs : locs <> [] ->
  connect (S f) locs None =
    if existsb bridges locs then Err E_Value else hull (map red1 locs).
Proof.
  intros Hne. destruct locs as [|l0 r0]; [congruence|].
  cbn [connect]. destruct (existsb bridges (l0 :: r0)) eqn:E; [reflexivity|].
  rewrite (mapM_ok _ red1).
  - reflexivity.
  - intros x Hx. apply reduce_parts_line. now apply (existsb_false_in _ _ E).
Qed.

Lemma existsb_perm {A} (f : A -> bool) a b : Permutation a b -> existsb f a = existsb f b.
Proof.
  intros P. destruct (existsb f a) eqn:Ea, (existsb f b) eqn:Eb; try reflexivity.
  - apply existsb_exists in Ea as [x [Hx Hf]].
    assert (existsb f b = true) by (apply existsb_exists; exists x; split; [eapply Permutation_in; eauto|exact Hf]).
    congruence.
  - apply existsb_exists in Eb as [x [Hx Hf]].
    assert (existsb f a = true)
      by (apply existsb_exists; exists x; split; [eapply Permutation_in; [apply Permutation_sym|]; eauto|exact Hf]).
    congruence.
Qed.

Lemma lmin_perm a b : Permutation a b -> lmin a = lmin b.
Proof.
  intros P. destruct a as [|x a].
  - apply Permutation_nil in P. now subst.
  - assert (Hb : b <> []) by (intros ->; apply Permutation_sym, Permutation_nil in P; discriminate).
    assert (Ha : x :: a <> []) by discriminate.
    pose proof (lmin_in _ Ha) as H1. pose proof (lmin_in _ Hb) as H2.
    pose proof (lmin_le b _ (Permutation_in _ P H1)).
    pose proof (lmin_le (x :: a) _ (Permutation_in _ (Permutation_sym P) H2)). lia.
Qed.

Lemma lmax_perm a b : Permutation a b -> lmax a = lmax b.
Proof.
  intros P. destruct a as [|x a].
  - apply Permutation_nil in P. now subst.
  - assert (Hb : b <> []) by (intros ->; apply Permutation_sym, Permutation_nil in P; discriminate).
    assert (Ha : x :: a <> []) by discriminate.
    pose proof (lmax_in _ Ha) as H1. pose proof (lmax_in _ Hb) as H2.
    pose proof (lmax_ge b _ (Permutation_in _ P H1)).
    pose proof (lmax_ge (x :: a) _ (Permutation_in _ (Permutation_sym P) H2)). lia.
Qed.

(* the common strand: the strand every location has, None (2) when they differ *)
Lemma common_strand_all locs s : locs <> [] -> (forall l, In l locs -> lstrand l = s) -> common_strand locs = s.
Proof.
  destruct locs as [|l r]; [congruence|]. intros _ H. unfold common_strand.
  assert (E : forallb (fun q => lstrand q =? lstrand l) r = true).
  { apply forallb_forall. intros q Hq. apply Z.eqb_eq. rewrite (H q), (H l); [reflexivity|now left|now right]. }
  rewrite E. apply H. now left.
Qed.

Lemma common_strand_differ locs a b : In a locs -> In b locs -> lstrand a <> lstrand b ->
  common_strand locs = S_None.
Proof.
  destruct locs as [|l r]; [intros []|]. intros Ha Hb Hd. unfold common_strand.
  destruct (forallb (fun q => lstrand q =? lstrand l) r) eqn:E; [|reflexivity].
  exfalso. apply Hd.
  assert (H : forall q, In q (l :: r) -> lstrand q = lstrand l).
  { intros q [<-|Hq]; [reflexivity|]. rewrite forallb_forall in E. now apply Z.eqb_eq, E. }
  rewrite (H a Ha), (H b Hb). reflexivity.
Qed.

Lemma all_or_differ (locs : list loc) : forall s,
  (forall l, In l locs -> lstrand l = s) \/ (exists a, In a locs /\ lstrand a <> s).
Proof.
  induction locs as [|l r IH]; intros s; [left; intros l []|].
  destruct (Z.eq_dec (lstrand l) s) as [E|E].
  - destruct (IH s) as [H|[a [Ha Hd]]].
    + left. intros q [<-|Hq]; auto.
    + right. exists a. split; [now right|exact Hd].
  - right. exists l. split; [now left|exact E].
Qed.

Lemma common_strand_perm a b : Permutation a b -> common_strand a = common_strand b.
Proof.
  intros P. destruct a as [|x a].
  - apply Permutation_nil in P. now subst.
  - assert (Hb : b <> []) by (intros ->; apply Permutation_sym, Permutation_nil in P; discriminate).
    destruct (all_or_differ (x :: a) (lstrand x)) as [H|[y [Hy Hd]]].
    + rewrite (common_strand_all (x :: a) (lstrand x)) by (auto; discriminate).
      symmetry. apply common_strand_all; [exact Hb|].
      intros l Hl. apply H. eapply Permutation_in; [apply Permutation_sym; exact P|exact Hl].
    + rewrite (common_strand_differ (x :: a) y x) by (auto; now left).
      symmetry. apply (common_strand_differ b y x); [eapply Permutation_in; eauto|eapply Permutation_in; [exact P|now left]|exact Hd].
Qed.

Lemma hull_perm a b : Permutation a b -> hull a = hull b.
Proof.
  intros P. unfold hull.
  rewrite (lmin_perm _ _ (Permutation_map lstart P)), (lmax_perm _ _ (Permutation_map lend P)),
          (common_strand_perm _ _ P). reflexivity.
Qed.

Lemma connect_fuel_S locs : exists f, connect_fuel locs = S f.
Proof. unfold connect_fuel. exists (2 * length locs + 7)%nat. lia. Qed.

Lemma connect_line_order locs locs' : Permutation locs locs' ->
  connect_locations locs None = connect_locations locs' None.
Proof.
  intros P. destruct locs as [|l r].
  - apply Permutation_nil in P. now subst.
  - assert (Hb : locs' <> []) by (intros ->; apply Permutation_sym, Permutation_nil in P; discriminate).
    unfold connect_locations.
    destruct (connect_fuel_S (l :: r)) as [f ->]. destruct (connect_fuel_S locs') as [f' ->].
    rewrite !connect_line_closed by (auto; discriminate).
    rewrite (existsb_perm bridges _ _ P), (hull_perm _ _ (Permutation_map red1 P)). reflexivity.
Qed.

(* the linear result in closed form (any arguments) ... *)
Lemma connect_line_nary locs : locs <> [] -> existsb bridges locs = false ->
  connect_locations locs None = hull (map red1 locs).
Proof.
  intros Hne Hb. unfold connect_locations. destruct (connect_fuel_S locs) as [f ->].
  rewrite connect_line_closed by exact Hne. now rewrite Hb.
Qed.

(* ... and connecting it again gives it back *)
Lemma connect_line_idem locs r : connect_locations locs None = Ok r -> connect_locations [r] None = Ok r.
Proof.
  intros H. destruct locs as [|l0 r0]; [discriminate|].
  unfold connect_locations in H. destruct (connect_fuel_S (l0 :: r0)) as [f Hf]. rewrite Hf in H.
  rewrite connect_line_closed in H by discriminate.
  destruct (existsb bridges (l0 :: r0)); [discriminate|].
  unfold hull in H.
  remember (lmin (map lstart (map red1 (l0 :: r0)))) as a eqn:Ea.
  remember (lmax (map lend (map red1 (l0 :: r0)))) as b eqn:Eb.
  remember (common_strand (map red1 (l0 :: r0))) as s eqn:Es.
  clear Ea Eb Es.
  unfold mkFL in H. destruct (b <? a) eqn:E; [discriminate|].
  change (Ok [mkPart a b s] = Ok r) in H. injection H as <-.
  rewrite connect_line_nary; [|discriminate|reflexivity].
  change (hull (map red1 [[mkPart a b s]])) with (do p <- mkFL a b s; Ok [p]).
  unfold mkFL. rewrite E. reflexivity.
Qed.

(* ====================================================================================
   _is_wrapping_shorter does not depend on the order of the locations (the sort key (start, end)
   makes the reference location's END unique); ring connect when wrapping is not shorter
   ==================================================================================== *)
Lemma insert_by_perm' {A} (lt : A -> A -> bool) x : forall l, Permutation (x :: l) (insert_by lt x l).
Proof.
  induction l as [|y l IH]; cbn; [apply Permutation_refl|].
  destruct (lt x y); [apply Permutation_refl|].
  eapply Permutation_trans; [apply perm_swap|]. now apply perm_skip.
Qed.

Lemma sort_by_perm' {A} (lt : A -> A -> bool) l : Permutation l (sort_by lt l).
Proof.
  unfold sort_by.
  assert (H : forall l acc, Permutation (acc ++ l) (fold_left (fun acc x => insert_by lt x acc) l acc)).
  { clear l. induction l as [|x l IH]; intros acc; cbn; [rewrite app_nil_r; apply Permutation_refl|].
    eapply Permutation_trans; [|apply IH].
    eapply Permutation_trans; [apply Permutation_sym, Permutation_middle|].
    change (x :: acc ++ l) with ((x :: acc) ++ l).
    apply Permutation_app_tail. apply insert_by_perm'. }
  apply (H l []).
Qed.

Definition key_of (l : loc) : Z * Z := (lstart l, lend l).
Lemma key_lt_spec a b : key_lt a b = true <->
  lstart a < lstart b \/ (lstart a = lstart b /\ lend a < lend b).
Proof. unfold key_lt. rewrite orb_true_iff, andb_true_iff, !Z.ltb_lt, Z.eqb_eq. tauto. Qed.

Lemma key_lt_false a b : key_lt a b = false <->
  lstart b < lstart a \/ (lstart a = lstart b /\ lend b <= lend a).
Proof.
  destruct (key_lt a b) eqn:E.
  - apply key_lt_spec in E. split; [discriminate|lia].
  - split; [intros _|reflexivity].
    assert (H : ~ (lstart a < lstart b \/ (lstart a = lstart b /\ lend a < lend b)))
      by (rewrite <- key_lt_spec; congruence). lia.
Qed.

(* the head of the list is not greater than any later element *)
Definition hd_min (l : list loc) : Prop :=
  match l with [] => True | h :: t => Forall (fun y => key_lt y h = false) t end.

Lemma insert_hd_min x l : hd_min l -> hd_min (insert_by key_lt x l).
Proof.
  destruct l as [|h t]; cbn [insert_by hd_min]; [constructor|]. intros H.
  destruct (key_lt x h) eqn:E.
  - cbn [hd_min]. constructor.
    + apply key_lt_spec in E. apply key_lt_false. lia.
    + rewrite Forall_forall in *. intros y Hy. specialize (H y Hy).
      apply key_lt_spec in E. apply key_lt_false in H. apply key_lt_false. lia.
  - cbn [hd_min]. rewrite Forall_forall in *. intros y Hy.
    apply (Permutation_in _ (Permutation_sym (insert_by_perm' key_lt x t))) in Hy.
    destruct Hy as [<-|Hy]; [exact E|now apply H].
Qed.

Lemma sort_hd_min l : hd_min (sort_by key_lt l).
Proof.
  unfold sort_by.
  assert (H : forall l acc, hd_min acc -> hd_min (fold_left (fun acc x => insert_by key_lt x acc) l acc)).
  { clear l. induction l as [|x l IH]; intros acc Hacc; cbn; [exact Hacc|]. apply IH. now apply insert_hd_min. }
  apply H. exact I.
Qed.

Definition far (w : Z) (first second : loc) : bool := w / 2 <? lstart second - lend first.

Lemma wrapping_shorter_unfold locs w : existsb bridges locs = false ->
  wrapping_shorter locs w =
    match sort_by key_lt locs with [] => false | f :: r => existsb (far w f) r end.
Proof. intros H. unfold wrapping_shorter. rewrite H. reflexivity. Qed.

Lemma part_eq_dec (a b : part) : {a = b} + {a <> b}.
Proof. decide equality; apply Z.eq_dec. Qed.
Lemma loc_eq_dec (a b : loc) : {a = b} + {a <> b}.
Proof. apply list_eq_dec, part_eq_dec. Qed.

Lemma existsb_in_true {A} (f : A -> bool) l x : In x l -> f x = true -> existsb f l = true.
Proof. intros. apply existsb_exists. eauto. Qed.

Lemma existsb_ext' {A} (f g : A -> bool) l : (forall x, f x = g x) -> existsb f l = existsb g l.
Proof. intros H. induction l as [|x l IH]; [reflexivity|]. cbn. now rewrite H, IH. Qed.

Lemma heads_far_equal w f r f' r' :
  Permutation (f :: r) (f' :: r') ->
  Forall (fun y => key_lt y f = false) r -> Forall (fun y => key_lt y f' = false) r' ->
  existsb (far w f) r = existsb (far w f') r'.
Proof.
  intros P Hf Hf'.
  (* the two heads have the same key *)
  assert (K : lstart f = lstart f' /\ lend f = lend f').
  { destruct (loc_eq_dec f f') as [->|Hne]; [split; reflexivity|].
    assert (I1 : In f' r).
    { pose proof (Permutation_in f' (Permutation_sym P) (or_introl eq_refl)) as [E|I]; [congruence|exact I]. }
    assert (I2 : In f r').
    { pose proof (Permutation_in f P (or_introl eq_refl)) as [E|I]; [congruence|exact I]. }
    rewrite Forall_forall in Hf, Hf'. pose proof (Hf f' I1) as A. pose proof (Hf' f I2) as B.
    apply key_lt_false in A. apply key_lt_false in B. lia. }
  destruct K as [K1 K2].
  assert (Efar : forall s, far w f' s = far w f s) by (intros s; unfold far; now rewrite K2).
  rewrite (existsb_ext' _ _ r' Efar).
  destruct (loc_eq_dec f f') as [->|Hne].
  - apply existsb_perm. eapply Permutation_cons_inv. exact P.
  - assert (I1 : In f' r).
    { pose proof (Permutation_in f' (Permutation_sym P) (or_introl eq_refl)) as [E|I]; [congruence|exact I]. }
    assert (I2 : In f r').
    { pose proof (Permutation_in f P (or_introl eq_refl)) as [E|I]; [congruence|exact I]. }
    pose proof (existsb_perm (far w f) _ _ P) as E. cbn [existsb] in E.
    assert (C : far w f f' = far w f f) by (unfold far; now rewrite K1).
    rewrite C in E. destruct (far w f f) eqn:Ec.
    + rewrite (existsb_in_true _ _ f' I1) by (now rewrite C).
      rewrite (existsb_in_true _ _ f I2) by exact Ec. reflexivity.
    + exact E.
Qed.

Lemma wrapping_shorter_order locs locs' w : Permutation locs locs' ->
  wrapping_shorter locs w = wrapping_shorter locs' w.
Proof.
  intros P. unfold wrapping_shorter. rewrite (existsb_perm bridges _ _ P).
  destruct (existsb bridges locs'); [reflexivity|].
  pose proof (sort_hd_min locs) as H1. pose proof (sort_hd_min locs') as H2.
  pose proof (sort_by_perm' key_lt locs) as P1. pose proof (sort_by_perm' key_lt locs') as P2.
  assert (PP : Permutation (sort_by key_lt locs) (sort_by key_lt locs')).
  { eapply Permutation_trans; [apply Permutation_sym, P1|]. eapply Permutation_trans; [exact P|exact P2]. }
  destruct (sort_by key_lt locs) as [|f r], (sort_by key_lt locs') as [|f' r'].
  - reflexivity.
  - apply Permutation_nil in PP. discriminate.
  - apply Permutation_sym, Permutation_nil in PP. discriminate.
  - now apply heads_far_equal.
Qed.

(* ring connect when no argument runs over the origin and wrapping is not shorter: the linear hull *)
Lemma bridges_red1 l : bridges (red1 l) = false.
Proof. destruct l as [|p [|q r]]; reflexivity. Qed.
Lemma red1_idem l : red1 (red1 l) = red1 l.
Proof. destruct l as [|p [|q r]]; reflexivity. Qed.
Lemma reduce_parts_nobridge l w : bridges l = false -> reduce_parts l w = Ok (red1 l).
Proof.
  destruct l as [|p [|q r]]; intros H; try reflexivity; unfold reduce_parts; rewrite H; reflexivity.
Qed.
Lemma existsb_bridges_red locs : existsb bridges (map red1 locs) = false.
Proof. induction locs as [|l r IH]; [reflexivity|]. cbn [map existsb]. now rewrite bridges_red1, IH. Qed.

Lemma connect_line_red locs : locs <> [] -> connect_line (map red1 locs) = hull (map red1 locs).
Proof.
  intros Hne. unfold connect_line. destruct (map red1 locs) eqn:E; [destruct locs; [congruence|discriminate]|].
  rewrite <- E. rewrite existsb_bridges_red.
  rewrite (mapM_ok _ red1).
  - rewrite map_map. rewrite (map_ext _ red1 red1_idem). reflexivity.
  - intros x Hx. apply reduce_parts_line. apply in_map_iff in Hx as [y [<- _]]. apply bridges_red1.
Qed.

Lemma connect_ring_nowrap f locs w : locs <> [] -> 0 < w -> existsb bridges locs = false ->
  wrapping_shorter (map red1 locs) w = false ->
  connect (S f) locs (Some w) = hull (map red1 locs).
Proof.
  intros Hne Hw Hb Hs. destruct locs as [|l0 r0] eqn:El; [congruence|]. rewrite <- El in *.
  assert (Hred : mapM (fun l => reduce_parts l (Some w)) locs = Ok (map red1 locs)).
  { apply mapM_ok. intros x Hx. apply reduce_parts_nobridge. now apply (existsb_false_in _ _ Hb). }
  assert (Hm : merge_over_origin (map red1 locs) w = do u <- hull (map red1 locs); Ok [u]).
  { unfold merge_over_origin, split_sections. rewrite Hs. cbn [negb bind].
    destruct (map red1 locs) eqn:E; [subst locs; discriminate|]. rewrite <- E.
    rewrite connect_line_red by (subst locs; discriminate).
    destruct (hull (map red1 locs)) as [u|k]; [|reflexivity]. cbn [bind].
    destruct (is_compound u); reflexivity. }
  subst locs. cbn [connect]. rewrite Hb. fold (map red1 (l0 :: r0)) in *.
  change (mapM (fun l => reduce_parts l (Some w)) (l0 :: r0)) with (mapM (fun l => reduce_parts l (Some w)) (l0 :: r0)).
  rewrite Hred. cbn [bind].
  assert (Hw' : (w <=? 0) = false) by (apply Z.leb_gt; lia). rewrite Hw'.
  rewrite Hm. destruct (hull (map red1 (l0 :: r0))) as [u|k]; reflexivity.
Qed.

Lemma connect_ring_nowrap_order locs locs' w : locs <> [] -> 0 < w -> Permutation locs locs' ->
  existsb bridges locs = false -> wrapping_shorter (map red1 locs) w = false ->
  connect_locations locs (Some w) = hull (map red1 locs) /\
  connect_locations locs' (Some w) = connect_locations locs (Some w).
Proof.
  intros Hne Hw P Hb Hs. destruct locs as [|l r].
  - congruence.
  - assert (Hne' : locs' <> []) by (intros ->; apply Permutation_sym, Permutation_nil in P; discriminate).
    unfold connect_locations.
    destruct (connect_fuel_S (l :: r)) as [f ->]. destruct (connect_fuel_S locs') as [f' ->].
    rewrite connect_ring_nowrap; [|discriminate|exact Hw|exact Hb|exact Hs].
    split; [reflexivity|].
    rewrite connect_ring_nowrap; [|exact Hne'|exact Hw| |].
    + apply hull_perm. apply Permutation_map. now apply Permutation_sym.
    + now rewrite <- (existsb_perm bridges _ _ P).
    + now rewrite <- (wrapping_shorter_order _ _ w (Permutation_map red1 P)).
Qed.

(* the end coordinate in the sort key is what makes this true: with the start alone as the key the
   reference location of a tie depends on the argument order *)
Definition wrapping_shorter_by (lt : loc -> loc -> bool) (locs : list loc) (w : Z) : bool :=
  if existsb bridges locs then true else
  match sort_by lt locs with
  | [] => false
  | first :: rest => existsb (fun second => w / 2 <? lstart second - lend first) rest
  end.
Definition start_only_lt (a b : loc) : bool := lstart a <? lstart b.

Lemma wrapping_shorter_is_by_key locs w : wrapping_shorter locs w = wrapping_shorter_by key_lt locs w.
Proof. reflexivity. Qed.

Lemma wrapping_shorter_start_key_refuted : exists locs locs' w,
  Permutation locs locs' /\
  wrapping_shorter_by start_only_lt locs w = true /\ wrapping_shorter_by start_only_lt locs' w = false /\
  wrapping_shorter locs w = true /\ wrapping_shorter locs' w = true.
Proof.
  exists [[mkPart 0 5 1]; [mkPart 0 12 1]; [mkPart 60 70 1]],
         [[mkPart 0 12 1]; [mkPart 0 5 1]; [mkPart 60 70 1]], 100.
  split; [apply perm_swap|]. repeat split; reflexivity.
Qed.

(* ====================================================================================
   Fourth pass: location_bridges_origin(allow_reversing=True), offset_location on a ring
   (transcription order; the two recorded finding classes)
   ==================================================================================== *)

(* ---------- lstrand / is_compound / bridges under reversal ---------- *)
Lemma forallb_rev {A} (f : A -> bool) l : forallb f (rev l) = forallb f l.
Proof.
  induction l as [|x l IH]; [reflexivity|]. simpl. rewrite forallb_app, IH. simpl.
  rewrite andb_true_r. apply andb_comm.
Qed.

Lemma is_compound_rev (l : loc) : is_compound (rev l) = is_compound l.
Proof.
  assert (H : forall l : loc, is_compound l = (2 <=? Z.of_nat (length l))).
  { intros [|a [|b r]]; try reflexivity. cbn [is_compound length]. lia. }
  rewrite !H, rev_length. reflexivity.
Qed.

(* all parts on the reverse strand *)
Lemma lstrand_m1 (l : loc) : lstrand l = -1 -> forallb (fun q => pst q =? -1) l = true.
Proof.
  destruct l as [|p r]; [discriminate|]. unfold lstrand.
  destruct (forallb (fun q => pst q =? pst p) r) eqn:E; [|discriminate].
  intros Hp. cbn [forallb]. rewrite Hp in E. rewrite E. lia.
Qed.

Lemma all_m1_lstrand (l : loc) : l <> [] -> forallb (fun q => pst q =? -1) l = true -> lstrand l = -1.
Proof.
  destruct l as [|p r]; [congruence|]. intros _ H. cbn [forallb] in H.
  apply andb_prop in H as [Hp Hr]. unfold lstrand.
  assert (E : forallb (fun q => pst q =? pst p) r = true).
  { rewrite forallb_forall in *. intros q Hq. specialize (Hr q Hq). lia. }
  rewrite E. lia.
Qed.

Lemma lstrand_rev_m1 (l : loc) : lstrand l = -1 -> lstrand (rev l) = -1.
Proof.
  intros H. apply all_m1_lstrand.
  - destruct l; [discriminate|]. simpl. intros E. apply app_eq_nil in E as [_ E]. discriminate.
  - rewrite forallb_rev. apply lstrand_m1. assumption.
Qed.

(* ---------- location_bridges_origin(location, allow_reversing=True) ---------- *)
Lemma bridges_reversing_answer l :
  fst (bridges_reversing l) = bridges l && negb ((lstrand l =? -1) && negb (bridges (rev l))).
Proof.
  unfold bridges_reversing, bridges. rewrite is_compound_rev.
  destruct (is_compound l) eqn:Ec; [|reflexivity].
  destruct (lstrand l =? -1) eqn:Em.
  - assert (Hm : lstrand l = -1) by lia. rewrite (lstrand_rev_m1 l Hm). rewrite Hm.
    change ((-1 =? 1) || (-1 =? -1)) with true. change (-1 =? -1) with true. cbn iota.
    destruct (check_order (-1) l); destruct (check_order (-1) (rev l)); reflexivity.
  - destruct ((lstrand l =? 1) || false) eqn:Es.
    + destruct (check_order (lstrand l) l); reflexivity.
    + cbn [fst andb negb]. rewrite andb_true_r. reflexivity.
Qed.

(* reported as bridging: the argument is left exactly as it was *)
Lemma bridges_reversing_true_keeps l : fst (bridges_reversing l) = true -> snd (bridges_reversing l) = l.
Proof.
  unfold bridges_reversing.
  destruct (is_compound l); [|reflexivity].
  destruct ((lstrand l =? 1) || (lstrand l =? -1)); [|reflexivity].
  destruct (check_order (lstrand l) l); [|reflexivity].
  destruct ((lstrand l =? -1) && negb (check_order (lstrand l) (rev l))); [discriminate|reflexivity].
Qed.

(* the argument afterwards is the argument or its reversal, and is then not bridging *)
Lemma bridges_reversing_arg l :
  snd (bridges_reversing l) = l \/
  (snd (bridges_reversing l) = rev l /\ lstrand l = -1 /\ fst (bridges_reversing l) = false /\
   bridges (rev l) = false).
Proof.
  unfold bridges_reversing.
  destruct (is_compound l) eqn:Ec; [|left; reflexivity].
  destruct ((lstrand l =? 1) || (lstrand l =? -1)) eqn:Es; [|left; reflexivity].
  destruct (check_order (lstrand l) l); [|left; reflexivity].
  destruct ((lstrand l =? -1) && negb (check_order (lstrand l) (rev l))) eqn:E; [|left; reflexivity].
  right. apply andb_prop in E as [E1 E2]. assert (Hm : lstrand l = -1) by lia.
  repeat split; try assumption.
  unfold bridges. rewrite is_compound_rev, Ec, (lstrand_rev_m1 l Hm).
  change ((-1 =? 1) || (-1 =? -1)) with true. cbn iota. rewrite Hm in E2.
  destruct (check_order (-1) (rev l)); [discriminate|reflexivity].
Qed.

Lemma loc_eqb_refl (l : loc) : loc_eqb l l = true.
Proof.
  induction l as [|p l IH]; [reflexivity|]. cbn [loc_eqb list_eqb]. fold (loc_eqb l l). rewrite IH.
  unfold part_eqb. lia.
Qed.

(* the model satisfies specification 119 *)
Lemma bridges_reversing_spec l :
  check_bridges_reversing l (fst (bridges_reversing l)) (snd (bridges_reversing l)) = 0.
Proof.
  unfold check_bridges_reversing. rewrite <- bridges_reversing_answer, eqb_reflx. cbn [negb].
  destruct (fst (bridges_reversing l)) eqn:Ea.
  - rewrite (bridges_reversing_true_keeps l Ea), loc_eqb_refl. reflexivity.
  - destruct (bridges_reversing_arg l) as [H|(H1 & H2 & _ & H4)].
    + rewrite H, loc_eqb_refl. reflexivity.
    + rewrite H1. destruct (loc_eqb (rev l) l); [reflexivity|].
      rewrite loc_eqb_refl, H4. replace (lstrand l =? -1) with true by lia. reflexivity.
Qed.

(* asking twice: the same answer, and nothing changes any more *)
Lemma bridges_reversing_twice l :
  bridges_reversing (snd (bridges_reversing l)) = bridges_reversing l.
Proof.
  destruct (bridges_reversing_arg l) as [H|(H1 & H2 & H3 & H4)].
  - rewrite H. reflexivity.
  - rewrite H1. rewrite (surjective_pairing (bridges_reversing l)), H1, H3.
    unfold bridges_reversing. unfold bridges in H4.
    destruct (is_compound (rev l)); [|reflexivity].
    rewrite (lstrand_rev_m1 l H2) in *. change ((-1 =? 1) || (-1 =? -1)) with true in *. cbn iota in *.
    rewrite H4. reflexivity.
Qed.

(* soundness of specification 119 *)
Lemma check_bridges_reversing_sound a ans a' : check_bridges_reversing a ans a' = 0 ->
  (ans = true -> a' = a) /\
  (a' = a \/ (a' = rev a /\ lstrand a = -1 /\ bridges a' = false)) /\
  ans = fst (bridges_reversing a).
Proof.
  unfold check_bridges_reversing. rewrite <- bridges_reversing_answer.
  destruct (Bool.eqb ans (fst (bridges_reversing a))) eqn:E; cbn [negb]; [|discriminate].
  apply eqb_prop in E. intros H. split; [|split; [|assumption]].
  - intros Ht. rewrite Ht in H. destruct (loc_eqb a' a) eqn:E1; [|discriminate].
    apply loc_eqb_eq. assumption.
  - destruct ans.
    + destruct (loc_eqb a' a) eqn:E1; [|discriminate]. left. apply loc_eqb_eq. assumption.
    + destruct (loc_eqb a' a) eqn:E1; [left; apply loc_eqb_eq; assumption|].
      destruct (loc_eqb a' (rev a)) eqn:E2; [|discriminate].
      destruct (lstrand a =? -1) eqn:E3; [|discriminate].
      destruct (bridges a') eqn:E4; [discriminate|].
      right. repeat split; [apply loc_eqb_eq; assumption|lia].
Qed.

(* soundness of the transcription-order clause of specification 107 *)
Lemma check_offset_ring_tx_sound N a off out : check_offset_ring N a off out = 0 -> llen a <> N ->
  exists r, out = Ok r /\ tx_bases r = map (fun x => (x + off) mod N) (tx_bases a).
Proof.
  unfold check_offset_ring. destruct out as [r|k]; [|discriminate].
  destruct (wf_locb N r); cbn [negb]; [|discriminate].
  destruct (disjoint_parts r); cbn [negb]; [|discriminate].
  destruct (llen r =? llen a); cbn [negb]; [|discriminate].
  destruct (same_strands r a); cbn [negb]; [|discriminate].
  destruct (rotated_bases N off r a); cbn [negb]; [|discriminate].
  intros H Hn. replace (llen a =? N) with false in H by lia. cbn [negb andb] in H.
  destruct (rotated_tx N off r a) eqn:E; [|discriminate].
  exists r. split; [reflexivity|]. apply list_eqb_Z_eq. exact E.
Qed.


(* ---------- the final merge loop of offset_location (merge_adjacent) ---------- *)
Lemma existsb_rev {A} (f : A -> bool) l : existsb f (rev l) = existsb f l.
Proof.
  induction l as [|x l IH]; [reflexivity|]. simpl. rewrite existsb_app, IH. simpl.
  rewrite orb_false_r. apply orb_comm.
Qed.

Lemma in_loc_app x (a b : loc) : in_loc x (a ++ b) = in_loc x a || in_loc x b.
Proof. unfold in_loc. apply existsb_app. Qed.

Lemma in_loc_rev x (a : loc) : in_loc x (rev a) = in_loc x a.
Proof. unfold in_loc. apply existsb_rev. Qed.

Lemma llen_app (a b : loc) : llen (a ++ b) = llen a + llen b.
Proof. induction a as [|p a IH]; [reflexivity|]. cbn [app llen fold_right] in *. unfold llen in *. simpl. lia. Qed.

Lemma llen_rev (a : loc) : llen (rev a) = llen a.
Proof.
  induction a as [|p a IH]; [reflexivity|]. simpl. rewrite llen_app, IH. unfold llen. simpl. lia.
Qed.

(* After the repair of findings C04-K2 offset_merge_drops_part and C04-K3 offset_reverse_wrap_order the loop keeps
   exactly the bases, the length and the bases in TRANSCRIPTION order, for every list of proper parts of one
   strand (no guard any more): forward parts are merged upwards into the last MERGED part, reverse-strand parts
   downwards. *)

(* the bases of a list of exons in transcription order (rv: reverse strand) *)
Definition tx_of (rv : bool) (l : list part) : list Z :=
  if rv then flat_map (fun p => zdown (pe p) (pe p - ps p)) l
  else flat_map (fun p => zrange (ps p) (pe p - ps p)) l.

Lemma tx_bases_of l : tx_bases l = tx_of (lstrand l =? -1) l.
Proof. reflexivity. Qed.

Lemma tx_of_app rv a b : tx_of rv (a ++ b) = tx_of rv a ++ tx_of rv b.
Proof. unfold tx_of. destruct rv; apply flat_map_app. Qed.

Lemma tx_of_cons rv p l :
  tx_of rv (p :: l) = (if rv then zdown (pe p) (pe p - ps p) else zrange (ps p) (pe p - ps p)) ++ tx_of rv l.
Proof. unfold tx_of. destruct rv; reflexivity. Qed.

Lemma zrange_n_app a n m : zrange_n a (n + m) = zrange_n a n ++ zrange_n (a + Z.of_nat n) m.
Proof.
  revert a. induction n as [|n IH]; intros a.
  - cbn [Nat.add zrange_n app]. f_equal. lia.
  - cbn [Nat.add zrange_n app]. rewrite IH. do 3 f_equal. lia.
Qed.

Lemma zrange_app a n m : 0 <= n -> 0 <= m -> zrange a (n + m) = zrange a n ++ zrange (a + n) m.
Proof.
  intros Hn Hm. unfold zrange. rewrite Z2Nat.inj_add by lia. rewrite zrange_n_app, Z2Nat.id by lia. reflexivity.
Qed.

Lemma zdown_n_app b n m : zdown_n b (n + m) = zdown_n b n ++ zdown_n (b - Z.of_nat n) m.
Proof.
  revert b. induction n as [|n IH]; intros b.
  - cbn [Nat.add zdown_n app]. f_equal. lia.
  - cbn [Nat.add zdown_n app]. rewrite IH. do 3 f_equal. lia.
Qed.

Lemma zdown_app b n m : 0 <= n -> 0 <= m -> zdown b (n + m) = zdown b n ++ zdown (b - n) m.
Proof.
  intros Hn Hm. unfold zdown. rewrite Z2Nat.inj_add by lia. rewrite zdown_n_app, Z2Nat.id by lia. reflexivity.
Qed.

(* downwards = upwards reversed *)
Lemma zdown_n_rev : forall n b, zdown_n b n = rev (zrange_n (b - Z.of_nat n) n).
Proof.
  induction n as [|n IH]; intros b; [reflexivity|].
  cbn [zdown_n]. replace (S n) with (n + 1)%nat at 2 by lia.
  rewrite zrange_n_app, rev_app_distr. cbn [zrange_n rev app].
  rewrite IH. f_equal; [lia|]. do 2 f_equal. lia.
Qed.

Lemma zdown_rev b n : zdown b n = rev (zrange (b - Z.max 0 n) n).
Proof. unfold zdown, zrange. rewrite zdown_n_rev. do 3 f_equal. lia. Qed.

Lemma zdown_spec b n x : In x (zdown b n) <-> b - n <= x < b.
Proof.
  rewrite zdown_rev, <- in_rev, zrange_spec. lia.
Qed.

Lemma in_loc_cons x p l : in_loc x (p :: l) = in_part x p || in_loc x l.
Proof. reflexivity. Qed.

Lemma llen_cons p l : llen (p :: l) = (pe p - ps p) + llen l.
Proof. reflexivity. Qed.

Lemma merge_adjacent_keeps st : forall l prev last acc,
  Forall (fun q => ps q <= pe q /\ pst q = st) (prev :: l) ->
  ps last <= pe last ->
  (if st =? -1 then ps last = ps prev else pe last = pe prev) ->
  exists r, merge_adjacent prev (last :: acc) l = Ok r /\
    (forall x, in_loc x r = in_loc x (rev (last :: acc) ++ l)) /\
    llen r = llen (rev (last :: acc)) + llen l /\
    tx_of (st =? -1) r = tx_of (st =? -1) (rev (last :: acc) ++ l).
Proof.
  induction l as [|p l IH]; intros prev last acc Hall Hlast Hinv.
  - exists (rev (last :: acc)). cbn [merge_adjacent]. rewrite app_nil_r.
    repeat split; try reflexivity. unfold llen at 3. simpl. lia.
  - cbn [merge_adjacent].
    assert (Hprev : ps prev <= pe prev /\ pst prev = st) by (inversion Hall; assumption).
    assert (Hall' : Forall (fun q => ps q <= pe q /\ pst q = st) (p :: l)) by (inversion Hall; assumption).
    assert (Hp : ps p <= pe p /\ pst p = st) by (inversion Hall'; assumption).
    (* the two ways of merging, and not merging *)
    assert (Hstep : forall last', ps last' <= pe last' ->
              (if st =? -1 then ps last' = ps p else pe last' = pe p) ->
              (forall x, in_part x last' = in_part x last || in_part x p) ->
              pe last' - ps last' = (pe last - ps last) + (pe p - ps p) ->
              tx_of (st =? -1) [last'] = tx_of (st =? -1) [last; p] ->
              exists r, merge_adjacent p (last' :: acc) l = Ok r /\
                (forall x, in_loc x r = in_loc x (rev (last :: acc) ++ p :: l)) /\
                llen r = llen (rev (last :: acc)) + llen (p :: l) /\
                tx_of (st =? -1) r = tx_of (st =? -1) (rev (last :: acc) ++ p :: l)).
    { intros last' H1 H2 H3 H4 H5.
      destruct (IH p last' acc Hall' H1 H2) as [r [Hr [Hb [Hl Ht]]]].
      exists r. split; [exact Hr|]. split; [|split].
      - intros x. rewrite Hb. cbn [rev]. rewrite <- !app_assoc. cbn [app].
        rewrite !in_loc_app, !in_loc_cons, H3.
        destruct (in_loc x (rev acc)), (in_part x last), (in_part x p), (in_loc x l); reflexivity.
      - rewrite Hl. cbn [rev]. rewrite !llen_app, !llen_cons. change (llen []) with 0. lia.
      - rewrite Ht. cbn [rev]. rewrite <- !app_assoc. cbn [app].
        rewrite !tx_of_app. f_equal.
        change (last' :: l) with ([last'] ++ l). change (last :: p :: l) with ([last; p] ++ l).
        rewrite !tx_of_app, H5. reflexivity. }
    assert (Hkeep : exists r, merge_adjacent p (p :: last :: acc) l = Ok r /\
                (forall x, in_loc x r = in_loc x (rev (last :: acc) ++ p :: l)) /\
                llen r = llen (rev (last :: acc)) + llen (p :: l) /\
                tx_of (st =? -1) r = tx_of (st =? -1) (rev (last :: acc) ++ p :: l)).
    { destruct (IH p p (last :: acc) Hall') as [r [Hr [Hb [Hl Ht]]]].
      - lia.
      - destruct (st =? -1); reflexivity.
      - exists r. split; [exact Hr|]. split; [|split].
        + intros x. rewrite Hb. cbn [rev]. rewrite <- !app_assoc. reflexivity.
        + rewrite Hl. cbn [rev]. rewrite !llen_app, !llen_cons. change (llen []) with 0. lia.
        + rewrite Ht. cbn [rev]. rewrite <- !app_assoc. reflexivity. }
    destruct (st =? -1) eqn:Est.
    + (* reverse strand: downwards *)
      replace ((pst prev =? -1) && (pst p =? -1)) with true by lia.
      destruct (ps prev =? pe p) eqn:Et; [|exact Hkeep].
      apply Hstep; cbn [ps pe pst].
      * lia.
      * reflexivity.
      * intros x. unfold in_part. cbn [ps pe]. lia.
      * lia.
      * unfold tx_of. cbn [flat_map ps pe]. rewrite !app_nil_r.
        replace (pe last - ps p) with ((pe last - ps last) + (pe p - ps p)) by lia.
        rewrite zdown_app by lia. do 2 f_equal. lia.
    + replace ((pst prev =? -1) && (pst p =? -1)) with false by lia.
      destruct (pe prev =? ps p) eqn:Et; [|exact Hkeep].
      replace (pst prev =? pst p) with true by lia. cbn [negb].
      apply Hstep; cbn [ps pe pst].
      * lia.
      * reflexivity.
      * intros x. unfold in_part. cbn [ps pe]. lia.
      * lia.
      * unfold tx_of. cbn [flat_map ps pe]. rewrite !app_nil_r.
        replace (pe p - ps last) with ((pe last - ps last) + (pe p - ps p)) by lia.
        rewrite zrange_app by lia. do 2 f_equal. lia.
Qed.

Lemma merge_adjacent_unguarded st p0 l :
  Forall (fun q => ps q <= pe q /\ pst q = st) (p0 :: l) ->
  exists r, merge_adjacent p0 [p0] l = Ok r /\
    (forall x, in_loc x r = in_loc x (p0 :: l)) /\ llen r = llen (p0 :: l) /\
    tx_of (st =? -1) r = tx_of (st =? -1) (p0 :: l).
Proof.
  intros Hall.
  destruct (merge_adjacent_keeps st l p0 p0 [] Hall) as [r [Hr [Hb [Hl Ht]]]].
  - inversion Hall; lia.
  - destruct (st =? -1); reflexivity.
  - exists r. split; [exact Hr|]. split; [|split].
    + intros x. rewrite Hb. reflexivity.
    + rewrite Hl. unfold llen. simpl. lia.
    + rewrite Ht. reflexivity.
Qed.

(* parts inside the record, non-empty, of one strand *)
Definition wfps (N st : Z) (q : part) : Prop := 0 <= ps q /\ ps q < pe q /\ pe q <= N /\ pst q = st.

Lemma merge_adjacent_wf N st : forall l prev last acc r,
  Forall (wfps N st) (prev :: l) -> Forall (wfps N st) (last :: acc) ->
  (if st =? -1 then ps last = ps prev else pe last = pe prev) ->
  merge_adjacent prev (last :: acc) l = Ok r -> Forall (wfps N st) r /\ r <> [].
Proof.
  induction l as [|p l IH]; intros prev last acc r Hall Hacc Hinv.
  - cbn [merge_adjacent]. intros H. injection H as <-. split.
    + change (rev acc ++ [last]) with (rev (last :: acc)). apply Forall_rev. exact Hacc.
    + intros E. apply app_eq_nil in E. destruct E; discriminate.
  - cbn [merge_adjacent].
    assert (Hprev : wfps N st prev) by (inversion Hall; assumption).
    assert (Hall' : Forall (wfps N st) (p :: l)) by (inversion Hall; assumption).
    assert (Hp : wfps N st p) by (inversion Hall'; assumption).
    assert (Hlast : wfps N st last) by (inversion Hacc; assumption).
    assert (Hacc' : Forall (wfps N st) acc) by (inversion Hacc; assumption).
    unfold wfps in Hprev, Hp, Hlast.
    assert (Hkeep : merge_adjacent p (p :: last :: acc) l = Ok r -> Forall (wfps N st) r /\ r <> []).
    { apply IH; [exact Hall'|constructor; [exact Hp|exact Hacc]|destruct (st =? -1); reflexivity]. }
    destruct (st =? -1) eqn:Est.
    + replace ((pst prev =? -1) && (pst p =? -1)) with true by lia.
      destruct (ps prev =? pe p) eqn:Et; [|exact Hkeep].
      apply IH; [exact Hall'| |try rewrite Est; reflexivity].
      constructor; [|exact Hacc']. unfold wfps. cbn [ps pe pst]. lia.
    + replace ((pst prev =? -1) && (pst p =? -1)) with false by lia.
      destruct (pe prev =? ps p) eqn:Et; [|exact Hkeep].
      replace (pst prev =? pst p) with true by lia. cbn [negb].
      apply IH; [exact Hall'| |try rewrite Est; reflexivity].
      constructor; [|exact Hacc']. unfold wfps. cbn [ps pe pst]. lia.
Qed.

(* ---------- offset_location on a ring, any number of parts ---------- *)
Lemma mod_eq x N k r : 0 <= r < N -> x = k * N + r -> x mod N = r.
Proof. intros Hr ->. rewrite Z.add_comm, Z.mod_add by lia. apply Z.mod_small. assumption. Qed.

Lemma rot_zrange_n N off : 0 < N -> forall n a, (a + off) mod N + Z.of_nat n <= N ->
  map (rot N off) (zrange_n a n) = zrange_n ((a + off) mod N) n.
Proof.
  intros HN. induction n as [|n IH]; intros a H; [reflexivity|].
  cbn [zrange_n map]. f_equal. destruct n as [|n]; [reflexivity|].
  pose proof (Z.div_mod (a + off) N ltac:(lia)) as Hd.
  pose proof (Z.mod_pos_bound (a + off) N HN) as Hb.
  set (m := (a + off) / N) in *. set (s0 := (a + off) mod N) in *.
  assert (E : (a + 1 + off) mod N = s0 + 1).
  { apply (mod_eq _ N m); lia. }
  rewrite IH; rewrite E; [reflexivity|lia].
Qed.

Lemma rot_zrange N off a n : 0 < N -> (a + off) mod N + n <= N ->
  map (rot N off) (zrange a n) = zrange ((a + off) mod N) n.
Proof.
  intros HN H. unfold zrange. apply rot_zrange_n; [assumption|].
  pose proof (Z.mod_pos_bound (a + off) N HN). set (s0 := (a + off) mod N) in *. lia.
Qed.

Lemma rot_zdown_n N off : 0 < N -> forall n b, Z.of_nat n <= (b - 1 + off) mod N + 1 ->
  map (rot N off) (zdown_n b n) = zdown_n ((b - 1 + off) mod N + 1) n.
Proof.
  intros HN. induction n as [|n IH]; intros b H; [reflexivity|].
  cbn [zdown_n map]. f_equal; [unfold rot; lia|]. destruct n as [|n]; [reflexivity|].
  pose proof (Z.div_mod (b - 1 + off) N ltac:(lia)) as Hd.
  pose proof (Z.mod_pos_bound (b - 1 + off) N HN) as Hb.
  set (m := (b - 1 + off) / N) in *. set (s0 := (b - 1 + off) mod N) in *.
  assert (E : (b - 1 - 1 + off) mod N = s0 - 1).
  { apply (mod_eq _ N m); lia. }
  rewrite IH; rewrite E; [f_equal; lia|lia].
Qed.

Lemma rot_zdown N off b n : 0 < N -> n <= (b - 1 + off) mod N + 1 ->
  map (rot N off) (zdown b n) = zdown ((b - 1 + off) mod N + 1) n.
Proof.
  intros HN H. unfold zdown. apply rot_zdown_n; [assumption|].
  pose proof (Z.mod_pos_bound (b - 1 + off) N HN). set (s0 := (b - 1 + off) mod N) in *. lia.
Qed.

(* what offset_location does to one shifted part *)
Definition split_part (N : Z) (q : part) : list part :=
  let s := (ps q + N) mod N in
  let e := (pe q - 1 + N) mod N + 1 in
  if (0 <=? s) && (s <? e) && (e <=? N) then [mkPart s e (pst q)]
  else if pst q =? -1 then [mkPart 0 e (pst q); mkPart s N (pst q)]
  else [mkPart s N (pst q); mkPart 0 e (pst q)].
Definition shift_p (off : Z) (p : part) : part := mkPart (ps p + off) (pe p + off) (pst p).

Lemma split_part_tx N off st p : 0 < N -> wfps N st p ->
  tx_of (st =? -1) (split_part N (shift_p off p)) = map (rot N off) (tx_of (st =? -1) [p]) /\
  Forall (wfps N st) (split_part N (shift_p off p)) /\ split_part N (shift_p off p) <> [].
Proof.
  intros HN (H0 & Hlt & HeN & Hst). unfold split_part, shift_p. cbn [ps pe pst].
  pose proof (Z.div_mod (ps p + off) N ltac:(lia)) as Hd.
  pose proof (Z.mod_pos_bound (ps p + off) N HN) as Hb.
  set (m := (ps p + off) / N) in *. set (s0 := (ps p + off) mod N) in *.
  set (len := pe p - ps p).
  assert (Es : (ps p + off + N) mod N = s0) by (apply (mod_eq _ N (m + 1)); lia).
  rewrite Es.
  destruct (Z_le_gt_dec (s0 + len) N) as [Hfit|Hwrap].
  - (* no split *)
    assert (Ee : (pe p + off - 1 + N) mod N + 1 = s0 + len).
    { rewrite (mod_eq _ N (m + 1) (s0 + len - 1)); unfold len; lia. }
    rewrite Ee. replace ((0 <=? s0) && (s0 <? s0 + len) && (s0 + len <=? N)) with true by (unfold len; lia).
    split; [|split; [|discriminate]].
    + unfold tx_of. destruct (st =? -1); cbn [flat_map ps pe]; rewrite !app_nil_r.
      * rewrite rot_zdown.
        -- replace (pe p - 1 + off) with (pe p + off - 1 + N + (-1) * N) by lia.
           rewrite Z.mod_add by lia. rewrite Ee. f_equal. unfold len. lia.
        -- assumption.
        -- replace (pe p - 1 + off) with (pe p + off - 1 + N + (-1) * N) by lia.
           rewrite Z.mod_add by lia. rewrite Ee. unfold len. lia.
      * rewrite rot_zrange by (fold s0; fold len; lia). fold s0. f_equal. unfold len. lia.
    + constructor; [|constructor]. unfold wfps. cbn [ps pe pst]. unfold len. lia.
  - (* split at the wrap point *)
    assert (Ee : (pe p + off - 1 + N) mod N + 1 = s0 + len - N).
    { rewrite (mod_eq _ N (m + 2) (s0 + len - N - 1)); unfold len; lia. }
    rewrite Ee.
    replace ((0 <=? s0) && (s0 <? s0 + len - N) && (s0 + len - N <=? N)) with false by (unfold len; lia).
    split; [|split].
    + destruct (st =? -1) eqn:Est.
      * replace (pst p =? -1) with true by lia.
        unfold tx_of. cbn [flat_map ps pe]. rewrite !app_nil_r.
        replace (pe p - ps p) with ((s0 + len - N) + (N - s0)) by (unfold len; lia).
        rewrite zdown_app by (unfold len; lia). rewrite map_app.
        assert (E1 : (pe p - 1 + off) mod N + 1 = s0 + len - N).
        { rewrite (mod_eq _ N (m + 1) (s0 + len - N - 1)); unfold len; lia. }
        assert (E2 : (pe p - (s0 + len - N) - 1 + off) mod N + 1 = N).
        { rewrite (mod_eq _ N m (N - 1)); unfold len; lia. }
        rewrite !rot_zdown by lia. rewrite E1, E2. f_equal; f_equal; lia.
      * replace (pst p =? -1) with false by lia.
        unfold tx_of. cbn [flat_map ps pe]. rewrite !app_nil_r.
        replace (pe p - ps p) with ((N - s0) + (s0 + len - N)) by (unfold len; lia).
        rewrite zrange_app by (unfold len; lia). rewrite map_app.
        assert (E2 : (ps p + (N - s0) + off) mod N = 0).
        { apply (mod_eq _ N (m + 1)); lia. }
        rewrite !rot_zrange by (try rewrite E2; fold s0; unfold len; lia).
        rewrite E2. fold s0. f_equal; f_equal; lia.
    + destruct (pst p =? -1); (constructor; [|constructor; [|constructor]]); unfold wfps; cbn [ps pe pst];
        unfold len in *; lia.
    + destruct (pst p =? -1); discriminate.
Qed.

Lemma tx_of_split_all N off st : 0 < N -> forall l, Forall (wfps N st) l ->
  tx_of (st =? -1) (flat_map (fun p => split_part N (shift_p off p)) l) = map (rot N off) (tx_of (st =? -1) l) /\
  Forall (wfps N st) (flat_map (fun p => split_part N (shift_p off p)) l).
Proof.
  intros HN. induction l as [|p l IH]; intros H.
  - split; [destruct (st =? -1); reflexivity|constructor].
  - inversion H as [|? ? Hp Hl]; subst. destruct (IH Hl) as [IH1 IH2].
    destruct (split_part_tx N off st p HN Hp) as [H1 [H2 _]].
    cbn [flat_map]. split.
    + change (p :: l) with ([p] ++ l). rewrite !tx_of_app, map_app, H1, IH1. reflexivity.
    + apply Forall_app. split; assumption.
Qed.

Lemma lstrand_uniform st (l : loc) : l <> [] -> Forall (fun q => pst q = st) l -> lstrand l = st.
Proof.
  destruct l as [|p l]; [congruence|]. intros _ H. inversion H as [|? ? Hp Hl]; subst. unfold lstrand.
  replace (forallb (fun q => pst q =? pst p) l) with true; [reflexivity|].
  symmetry. apply forallb_forall. intros q Hq. rewrite Forall_forall in Hl. specialize (Hl q Hq). lia.
Qed.

Lemma wfp_strand N st l : Forall (wfps N st) l -> Forall (fun q => pst q = st) l.
Proof. apply Forall_impl. intros q H. apply H. Qed.

Lemma tx_of_range N st rv l : Forall (wfps N st) l -> forall x, In x (tx_of rv l) -> 0 <= x < N.
Proof.
  intros H x Hx. unfold tx_of in Hx. rewrite Forall_forall in H.
  destruct rv; apply in_flat_map in Hx as [p [Hp Hx]]; specialize (H p Hp); unfold wfps in H.
  - apply zdown_spec in Hx. lia.
  - apply zrange_spec in Hx. lia.
Qed.

(* the trivial path: every part is shifted and stays inside the record *)
Lemma tx_of_shift_all N off st : 0 < N -> forall l,
  Forall (fun p => wfps N st p /\ 0 <= ps p + off /\ pe p + off <= N) l ->
  tx_of (st =? -1) (map (shift_p off) l) = map (rot N off) (tx_of (st =? -1) l).
Proof.
  intros HN. induction l as [|p l IH]; intros H; [destruct (st =? -1); reflexivity|].
  inversion H as [|? ? [Hp [Hlo Hhi]] Hl]; subst. cbn [map].
  rewrite !tx_of_cons, map_app, (IH Hl). f_equal. unfold wfps in Hp. unfold shift_p. cbn [ps pe].
  destruct (st =? -1).
  - assert (E : (pe p - 1 + off) mod N + 1 = pe p + off) by (rewrite Z.mod_small; lia).
    rewrite rot_zdown by lia. rewrite E. f_equal. lia.
  - assert (E : (ps p + off) mod N = ps p + off) by (apply Z.mod_small; lia).
    rewrite rot_zrange by lia. rewrite E. f_equal. lia.
Qed.

Lemma shifted_ok (l : loc) off : off <> 0 -> Forall (fun p => ps p < pe p) l ->
  shifted l off true = Ok (map (shift_p off) l).
Proof.
  intros Hoff H. unfold shifted. replace (off =? 0) with false by lia.
  apply mapM_ok. intros p Hp. rewrite Forall_forall in H. specialize (H p Hp).
  replace (negb (ps p + off <? pe p + off)) with false by lia. reflexivity.
Qed.

Lemma flat_map_map {A B C} (f : B -> list C) (g : A -> B) l :
  flat_map f (map g l) = flat_map (fun x => f (g x)) l.
Proof. induction l as [|x l IH]; [reflexivity|]. cbn [map flat_map]. rewrite IH. reflexivity. Qed.

Lemma wfp_of_wf_locb N a : wf_locb N a = true -> uniform_strand a = true ->
  exists st, a <> [] /\ Forall (wfps N st) a.
Proof.
  intros Hwf Hu. apply wf_locb_spec in Hwf as [Hne Hwf].
  destruct a as [|p a]; [congruence|]. exists (pst p). split; [discriminate|].
  unfold uniform_strand in Hu. rewrite forallb_forall in Hu.
  inversion Hwf as [|? ? Hp Ha]; subst. constructor; [unfold wfps; lia|].
  rewrite Forall_forall in *. intros q Hq. specialize (Ha q Hq). specialize (Hu q Hq). unfold wfps. lia.
Qed.

(* offset_location on a ring, every well-formed location of one strand that is not the whole record: the call
   succeeds, the result's parts are non-empty, inside the record and of the same strand, and the bases of the
   result in TRANSCRIPTION order are the rotated bases of the input in transcription order *)
Lemma offset_ring_tx_of N st a off : 0 < N -> a <> [] -> Forall (wfps N st) a -> llen a <> N ->
  exists r, offset_location a off (Some N) = Ok r /\ r <> [] /\ Forall (wfps N st) r /\
    tx_of (st =? -1) r = map (rot N off) (tx_of (st =? -1) a).
Proof.
  intros HN Hne Hwf Hlen. unfold offset_location.
  replace (N =? 0) with false by lia. cbn [orb].
  assert (Hproper : Forall (fun p => ps p < pe p) a).
  { eapply Forall_impl; [|exact Hwf]. intros q Hq. apply Hq. }
  destruct (off =? 0) eqn:Eoff.
  - (* no shift *)
    unfold shifted. rewrite Eoff. exists a. repeat split; try assumption.
    assert (off = 0) by lia. subst off.
    rewrite <- (map_id (tx_of (st =? -1) a)) at 1. apply map_ext_in.
    intros x Hx. pose proof (tx_of_range N st _ a Hwf x Hx). unfold rot. rewrite Z.add_0_r, Z.mod_small; lia.
  - replace (N <? 1) with false by lia. replace (llen a =? N) with false by lia.
    rewrite (shifted_ok a off ltac:(lia) Hproper).
    destruct ((0 <=? lstart a + off) && (lstart a + off <? lend a + off) && (lend a + off <=? N)) eqn:Etriv.
    + (* every part stays inside the record *)
      exists (map (shift_p off) a).
      assert (Hb : Forall (fun p => wfps N st p /\ 0 <= ps p + off /\ pe p + off <= N) a).
      { rewrite Forall_forall in *. intros p Hp. split; [apply Hwf; assumption|].
        assert (lstart a <= ps p) by (apply lmin_le, in_map; assumption).
        assert (pe p <= lend a) by (apply lmax_ge, in_map; assumption).
        lia. }
      split; [reflexivity|]. split; [destruct a; [congruence|discriminate]|]. split.
      * rewrite Forall_forall in *. intros q Hq. apply in_map_iff in Hq as [p [<- Hp]].
        destruct (Hb p Hp) as [(H1 & H2 & H3 & H4) [H5 H6]]. unfold wfps, shift_p. cbn [ps pe pst]. lia.
      * apply tx_of_shift_all; assumption.
    + (* the wrapping path *)
      cbn [bind]. rewrite flat_map_map.
      change (flat_map _ a) with (flat_map (fun p => split_part N (shift_p off p)) a).
      destruct (tx_of_split_all N off st HN a Hwf) as [Htx Hall].
      set (new_parts := flat_map (fun p => split_part N (shift_p off p)) a) in *.
      replace (forallb (fun p => (0 <=? ps p) && (ps p <? pe p) && (pe p <=? N)) new_parts) with true.
      2:{ symmetry. apply forallb_forall. intros q Hq. rewrite Forall_forall in Hall.
          specialize (Hall q Hq). unfold wfps in Hall. lia. }
      cbn [negb].
      destruct new_parts as [|p0 rest] eqn:Enew.
      { exfalso. destruct a as [|p a']; [congruence|]. unfold new_parts in Enew. cbn [flat_map] in Enew.
        inversion Hwf as [|? ? Hp _]; subst.
        destruct (split_part_tx N off st p HN Hp) as [_ [_ Hnn]].
        apply app_eq_nil in Enew. destruct Enew. contradiction. }
      destruct (merge_adjacent_unguarded st p0 rest) as [r [Hr [_ [_ Ht]]]].
      { eapply Forall_impl; [|exact Hall]. intros q Hq. unfold wfps in Hq. lia. }
      exists r. split; [exact Hr|].
      destruct (merge_adjacent_wf N st rest p0 p0 [] r Hall) as [Hwr Hnr].
      { constructor; [inversion Hall; assumption|constructor]. }
      { destruct (st =? -1); reflexivity. }
      { exact Hr. }
      split; [exact Hnr|]. split; [exact Hwr|]. rewrite Ht. exact Htx.
Qed.

(* ---------- specification 107 holds for the model ---------- *)
Lemma zrange_n_length a n : length (zrange_n a n) = n.
Proof. revert a. induction n as [|n IH]; intros a; [reflexivity|]. cbn [zrange_n length]. rewrite IH. reflexivity. Qed.

Lemma zrange_n_NoDup : forall n a, NoDup (zrange_n a n).
Proof.
  induction n as [|n IH]; intros a; [constructor|]. cbn [zrange_n]. constructor; [|apply IH].
  rewrite zrange_n_spec. lia.
Qed.

Lemma tx_piece_length (rv : bool) p : ps p <= pe p ->
  Z.of_nat (length (if rv then zdown (pe p) (pe p - ps p) else zrange (ps p) (pe p - ps p))) = pe p - ps p.
Proof.
  intros H. destruct rv.
  - rewrite zdown_rev, rev_length. unfold zrange. rewrite zrange_n_length. lia.
  - unfold zrange. rewrite zrange_n_length. lia.
Qed.

Lemma tx_of_length rv l : Forall (fun q => ps q <= pe q) l -> Z.of_nat (length (tx_of rv l)) = llen l.
Proof.
  induction l as [|p l IH]; intros H; [destruct rv; reflexivity|].
  inversion H as [|? ? Hp Hl]; subst. rewrite tx_of_cons, app_length, Nat2Z.inj_add, (IH Hl), llen_cons.
  rewrite tx_piece_length by assumption. reflexivity.
Qed.

Lemma tx_piece_in (rv : bool) p x :
  In x (if rv then zdown (pe p) (pe p - ps p) else zrange (ps p) (pe p - ps p)) <-> in_part x p = true.
Proof. destruct rv; [rewrite zdown_spec|rewrite zrange_spec]; unfold in_part; lia. Qed.

Lemma tx_of_in rv l x : In x (tx_of rv l) <-> in_loc x l = true.
Proof.
  induction l as [|p l IH]; [destruct rv; cbn; (split; [tauto|discriminate])|].
  rewrite tx_of_cons, in_app_iff, tx_piece_in, IH, in_loc_cons, orb_true_iff. reflexivity.
Qed.

Lemma tx_piece_NoDup (rv : bool) p : NoDup (if rv then zdown (pe p) (pe p - ps p) else zrange (ps p) (pe p - ps p)).
Proof.
  destruct rv; [rewrite zdown_rev; apply NoDup_rev|]; unfold zrange; apply zrange_n_NoDup.
Qed.

Lemma NoDup_app_intro {A} (a b : list A) :
  NoDup a -> NoDup b -> (forall x, In x a -> In x b -> False) -> NoDup (a ++ b).
Proof.
  induction a as [|y a IH]; intros Ha Hb Hd; [exact Hb|].
  inversion Ha as [|? ? Hy Ha']; subst. cbn [app]. constructor.
  - rewrite in_app_iff. intros [H|H]; [contradiction|]. apply (Hd y); [left; reflexivity|assumption].
  - apply IH; [assumption|assumption|]. intros x H1 H2. apply (Hd x); [right; assumption|assumption].
Qed.

Lemma NoDup_app_inv {A} (a b : list A) :
  NoDup (a ++ b) -> NoDup b /\ (forall x, In x a -> In x b -> False).
Proof.
  induction a as [|y a IH]; intros H; [split; [exact H|intros x Hx; destruct Hx]|].
  cbn [app] in H. inversion H as [|? ? Hy H']; subst. destruct (IH H') as [Hb Hd]. split; [exact Hb|].
  intros x [<-|Hx] Hxb; [apply Hy; rewrite in_app_iff; right; assumption|apply (Hd x); assumption].
Qed.

Lemma disjoint_parts_tx rv l : Forall (fun q => ps q < pe q) l ->
  (disjoint_parts l = true <-> NoDup (tx_of rv l)).
Proof.
  induction l as [|p l IH]; intros H; [destruct rv; cbn; (split; [constructor|reflexivity])|].
  inversion H as [|? ? Hp Hl]; subst. cbn [disjoint_parts]. rewrite tx_of_cons, andb_true_iff, (IH Hl). split.
  - intros [Hd Hn]. apply NoDup_app_intro; [apply tx_piece_NoDup|exact Hn|].
    intros x H1 H2. apply tx_piece_in in H1. apply tx_of_in in H2.
    unfold in_loc in H2. apply existsb_exists in H2 as [q [Hq Hx]].
    rewrite forallb_forall in Hd. specialize (Hd q Hq). unfold in_part in *. lia.
  - intros Hn. apply NoDup_app_inv in Hn as [Hn Hd]. split; [|exact Hn].
    apply forallb_forall. intros q Hq.
    destruct ((pe p <=? ps q) || (pe q <=? ps p)) eqn:E; [reflexivity|exfalso].
    rewrite Forall_forall in Hl. specialize (Hl q Hq).
    apply (Hd (Z.max (ps p) (ps q))).
    + apply tx_piece_in. unfold in_part. lia.
    + apply tx_of_in. unfold in_loc. apply existsb_exists. exists q. split; [assumption|]. unfold in_part. lia.
Qed.

Lemma NoDup_map_inj_in {A B} (f : A -> B) l :
  (forall x y, In x l -> In y l -> f x = f y -> x = y) -> NoDup l -> NoDup (map f l).
Proof.
  induction l as [|a l IH]; intros Hinj Hn; [constructor|].
  inversion Hn as [|? ? Ha Hl]; subst. cbn [map]. constructor.
  - intros Hin. apply in_map_iff in Hin as [y [Hy Hin]]. apply Ha.
    rewrite (Hinj a y); [assumption|left; reflexivity|right; assumption|symmetry; assumption].
  - apply IH; [|assumption]. intros x y Hx Hy. apply Hinj; right; assumption.
Qed.

Lemma rot_inj N off x y : 0 < N -> 0 <= x < N -> 0 <= y < N -> rot N off x = rot N off y -> x = y.
Proof.
  intros HN Hx Hy. unfold rot. intros E.
  pose proof (Z.div_mod (x + off) N ltac:(lia)) as H1. pose proof (Z.div_mod (y + off) N ltac:(lia)) as H2.
  rewrite E in H1. set (r := (y + off) mod N) in *. set (q1 := (x + off) / N) in *. set (q2 := (y + off) / N) in *.
  assert (q1 = q2) by nia. subst q1. lia.
Qed.

(* specification 107 (all seven clauses of check_offset_ring) holds for the model on every input that meets its
   precondition and is not the whole record (a whole-record location is returned as it is) *)
Lemma offset_ring_spec N a off : pre_offset a (Some N) = true -> llen a <> N ->
  exists r, offset_location a off (Some N) = Ok r /\ check_offset_ring N a off (Ok r) = 0.
Proof.
  unfold pre_offset. intros Hpre Hlen.
  apply andb_true_iff in Hpre as [Hpre Hwf]. apply andb_true_iff in Hpre as [Hdis Hu].
  apply andb_true_iff in Hwf as [HN Hwf]. assert (HN' : 0 < N) by lia.
  destruct (wfp_of_wf_locb N a Hwf Hu) as [st [Hne Hall]].
  destruct (offset_ring_tx_of N st a off HN' Hne Hall Hlen) as [r [Hr [Hnr [Hwr Htx]]]].
  exists r. split; [exact Hr|].
  assert (Hpa : Forall (fun q => ps q < pe q) a) by (eapply Forall_impl; [|exact Hall]; intros q Hq; apply Hq).
  assert (Hpr : Forall (fun q => ps q < pe q) r) by (eapply Forall_impl; [|exact Hwr]; intros q Hq; apply Hq).
  assert (Hsa : lstrand a = st) by (apply lstrand_uniform; [assumption|eapply wfp_strand; eassumption]).
  assert (Hsr : lstrand r = st) by (apply lstrand_uniform; [assumption|eapply wfp_strand; eassumption]).
  unfold check_offset_ring.
  (* 2: well-formed *)
  replace (wf_locb N r) with true.
  2:{ symmetry. apply wf_locb_spec. split; [assumption|]. eapply Forall_impl; [|exact Hwr].
      intros q Hq. unfold wfps in Hq. lia. }
  cbn [negb].
  (* 3: disjoint *)
  replace (disjoint_parts r) with true.
  2:{ symmetry. apply (disjoint_parts_tx (st =? -1) r Hpr). rewrite Htx. apply NoDup_map_inj_in.
      - intros x y Hx Hy. apply rot_inj; [assumption|apply (tx_of_range N st (st =? -1) a Hall); assumption|apply (tx_of_range N st (st =? -1) a Hall); assumption].
      - apply (disjoint_parts_tx (st =? -1) a Hpa). exact Hdis. }
  cbn [negb].
  (* 4: length *)
  replace (llen r =? llen a) with true.
  2:{ symmetry. apply Z.eqb_eq.
      rewrite <- (tx_of_length (st =? -1) r), <- (tx_of_length (st =? -1) a), Htx, map_length; [reflexivity| |].
      - eapply Forall_impl; [|exact Hpa]. intros q Hq. cbn beta in Hq. lia.
      - eapply Forall_impl; [|exact Hpr]. intros q Hq. cbn beta in Hq. lia. }
  cbn [negb].
  (* 5: strand *)
  replace (same_strands r a) with true.
  2:{ symmetry. unfold same_strands. destruct a as [|p a']; [reflexivity|]. apply forallb_forall. intros q Hq.
      inversion Hall as [|? ? Hp _]; subst. rewrite Forall_forall in Hwr. specialize (Hwr q Hq).
      unfold wfps in *. lia. }
  cbn [negb].
  (* 6: the bases *)
  replace (rotated_bases N off r a) with true.
  2:{ symmetry. unfold rotated_bases. apply forallb_zrange. intros x Hx. apply eqb_true_iff.
      fold (rot N off x).
      destruct (in_loc x a) eqn:Ea.
      - apply (tx_of_in (st =? -1)) in Ea. apply (tx_of_in (st =? -1)). rewrite Htx. apply in_map. exact Ea.
      - destruct (in_loc (rot N off x) r) eqn:Er; [|reflexivity].
        apply (tx_of_in (st =? -1)) in Er. rewrite Htx in Er. apply in_map_iff in Er as [y [Hy Hin]].
        pose proof (tx_of_range N st (st =? -1) a Hall y Hin) as Hyr.
        apply rot_inj in Hy; [|assumption|assumption|lia]. subst y.
        apply (tx_of_in (st =? -1)) in Hin. congruence. }
  cbn [negb].
  (* 7: the bases in transcription order *)
  replace (llen a =? N) with false by lia. cbn [negb andb].
  unfold rotated_tx. rewrite !tx_bases_of, Hsa, Hsr, Htx.
  replace (list_eqb Z.eqb _ _) with true; [reflexivity|].
  symmetry. clear. induction (tx_of (st =? -1) a) as [|x t IH]; [reflexivity|].
  cbn [map list_eqb]. unfold rot at 1. rewrite Z.eqb_refl. exact IH.
Qed.

Lemma offset_ring_tx N a off : pre_offset a (Some N) = true -> llen a <> N ->
  exists r, offset_location a off (Some N) = Ok r /\
    tx_bases r = map (fun x => (x + off) mod N) (tx_bases a).
Proof.
  intros Hpre Hlen. destruct (offset_ring_spec N a off Hpre Hlen) as [r [Hr Hc]].
  exists r. split; [exact Hr|].
  destruct (check_offset_ring_tx_sound N a off (Ok r) Hc Hlen) as [r' [E Ht]].
  injection E as <-. exact Ht.
Qed.

(* the whole record: returned as it is, and it holds every base *)
Lemma whole_record_all_bases N a : pre_offset a (Some N) = true -> llen a = N ->
  forall x, 0 <= x < N -> in_loc x a = true.
Proof.
  unfold pre_offset. intros Hpre Hlen x Hx.
  apply andb_true_iff in Hpre as [Hpre Hwf]. apply andb_true_iff in Hpre as [Hdis Hu].
  apply andb_true_iff in Hwf as [HN Hwf].
  destruct (wfp_of_wf_locb N a Hwf Hu) as [st [Hne Hall]].
  assert (Hpa : Forall (fun q => ps q < pe q) a) by (eapply Forall_impl; [|exact Hall]; intros q Hq; apply Hq).
  apply (tx_of_in false). apply (NoDup_length_incl (l := tx_of false a) (l' := zrange 0 N)).
  - apply (disjoint_parts_tx false a Hpa). exact Hdis.
  - unfold zrange. rewrite zrange_n_length. apply Nat2Z.inj_le. rewrite tx_of_length.
    + lia.
    + eapply Forall_impl; [|exact Hpa]. intros q Hq. cbn beta in Hq. lia.
  - intros y Hy. apply zrange_spec. pose proof (tx_of_range N st false a Hall y Hy). lia.
  - apply zrange_spec. lia.
Qed.

Lemma offset_ring_spec_whole N a off : pre_offset a (Some N) = true -> llen a = N ->
  offset_location a off (Some N) = Ok a /\ check_offset_ring N a off (Ok a) = 0.
Proof.
  intros Hpre Hlen. pose proof (whole_record_all_bases N a Hpre Hlen) as Hall.
  unfold pre_offset in Hpre.
  apply andb_true_iff in Hpre as [Hpre Hwf]. apply andb_true_iff in Hpre as [Hdis Hu].
  apply andb_true_iff in Hwf as [HN Hwf]. split.
  - unfold offset_location. replace (N =? 0) with false by lia. cbn [orb].
    destruct (off =? 0) eqn:Eoff; [unfold shifted; rewrite Eoff; reflexivity|].
    replace (N <? 1) with false by lia. replace (llen a =? N) with true by lia. reflexivity.
  - unfold check_offset_ring. rewrite Hwf, Hdis, Z.eqb_refl. cbn [negb].
    replace (same_strands a a) with true.
    2:{ symmetry. unfold same_strands. destruct a as [|p a']; [reflexivity|]. cbn [forallb].
        rewrite Z.eqb_refl. exact Hu. }
    cbn [negb].
    replace (rotated_bases N off a a) with true.
    2:{ symmetry. unfold rotated_bases. apply forallb_zrange. intros x Hx.
        rewrite (Hall x ltac:(lia)), (Hall ((x + off) mod N)); [reflexivity|].
        apply Z.mod_pos_bound. lia. }
    cbn [negb]. replace (llen a =? N) with true by lia. reflexivity.
Qed.

(* specification 107 holds for the model on EVERY input that meets its precondition *)
Lemma offset_ring_spec_all N a off : pre_offset a (Some N) = true ->
  check_offset_ring N a off (offset_location a off (Some N)) = 0.
Proof.
  intros Hpre. destruct (Z.eq_dec (llen a) N) as [E|E].
  - destruct (offset_ring_spec_whole N a off Hpre E) as [-> H]. exact H.
  - destruct (offset_ring_spec N a off Hpre E) as [r [-> H]]. exact H.
Qed.
