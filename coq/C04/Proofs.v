(* C04: proofs that the location model agrees with the set-of-bases semantics. *)
From ASV Require Import Loc.
From Coq Require Import ZifyBool.

(* ---------- semantics ---------- *)
Definition wf_part (p : part) : Prop := ps p < pe p.
Definition wf_loc (l : loc) : Prop := l <> [] /\ Forall wf_part l.
Definition base_of (l : loc) (x : Z) : Prop := exists p, In p l /\ ps p <= x < pe p.
Definition in_record (N : Z) (l : loc) : Prop := Forall (fun p => 0 <= ps p /\ pe p <= N) l.

Lemma in_part_spec x p : in_part x p = true <-> ps p <= x < pe p.
Proof. unfold in_part. lia. Qed.

Lemma in_loc_spec x l : in_loc x l = true <-> base_of l x.
Proof.
  unfold in_loc, base_of. rewrite existsb_exists. split.
  - intros [p [Hin H]]. exists p. split; [assumption|]. apply in_part_spec. assumption.
  - intros [p [Hin H]]. exists p. split; [assumption|]. apply in_part_spec. assumption.
Qed.

(* ---------- overlap ---------- *)
Lemma part_overlap_spec a b : wf_part a -> wf_part b ->
  (part_overlap a b = true <-> exists x, (ps a <= x < pe a) /\ (ps b <= x < pe b)).
Proof.
  unfold wf_part, part_overlap, in_part. intros Ha Hb. split.
  - intros H.
    destruct (Z_le_gt_dec (ps a) (ps b)) as [Hle|Hgt].
    + exists (ps b). lia.
    + exists (ps a). lia.
  - intros [x [H1 H2]]. lia.
Qed.

Lemma overlap_spec a b : Forall wf_part a -> Forall wf_part b ->
  (overlap a b = true <-> exists x, base_of a x /\ base_of b x).
Proof.
  intros Ha Hb. unfold overlap. rewrite existsb_exists. split.
  - intros [p [Hp H]]. rewrite existsb_exists in H. destruct H as [q [Hq H]].
    rewrite Forall_forall in Ha, Hb.
    apply part_overlap_spec in H; [|apply Ha; assumption|apply Hb; assumption].
    destruct H as [x [H1 H2]]. exists x. split; [exists p|exists q]; auto.
  - intros [x [[p [Hp H1]] [q [Hq H2]]]]. exists p. split; [assumption|].
    rewrite existsb_exists. exists q. split; [assumption|].
    rewrite Forall_forall in Ha, Hb.
    apply part_overlap_spec; [apply Ha; assumption|apply Hb; assumption|].
    exists x. auto.
Qed.

Lemma part_overlap_sym a b : part_overlap a b = part_overlap b a.
Proof. unfold part_overlap. destruct (in_part (ps a) b), (in_part (pe a - 1) b), (in_part (ps b) a), (in_part (pe b - 1) a); reflexivity. Qed.

Lemma overlap_sym a b : Forall wf_part a -> Forall wf_part b -> overlap a b = overlap b a.
Proof.
  intros Ha Hb. apply eq_true_iff_eq. rewrite (overlap_spec a b Ha Hb), (overlap_spec b a Hb Ha).
  split; intros [x [H1 H2]]; exists x; auto.
Qed.

(* ---------- contains ---------- *)
Lemma part_contains_spec o i : wf_part i ->
  (part_contains o i = true <-> ps o <= ps i /\ pe i <= pe o).
Proof. unfold wf_part, part_contains. lia. Qed.

Lemma contains_spec o i : Forall wf_part i ->
  (contains o i = true <->
   Forall (fun ip => exists op, In op o /\ ps op <= ps ip /\ pe ip <= pe op) i).
Proof.
  intros Hi. unfold contains. rewrite forallb_forall, Forall_forall. rewrite Forall_forall in Hi.
  split; intros H ip Hip; specialize (H ip Hip).
  - rewrite existsb_exists in H. destruct H as [op [Hop H]]. exists op. split; [assumption|].
    apply part_contains_spec; auto.
  - rewrite existsb_exists. destruct H as [op [Hop H]]. exists op. split; [assumption|].
    apply part_contains_spec; auto.
Qed.

Lemma contains_bases o i : Forall wf_part i -> contains o i = true ->
  forall x, base_of i x -> base_of o x.
Proof.
  intros Hi H x [ip [Hip Hx]]. rewrite (contains_spec o i Hi) in H.
  rewrite Forall_forall in H. destruct (H ip Hip) as [op [Hop [H1 H2]]].
  exists op. split; [assumption|lia].
Qed.

(* ---------- distance, single parts ---------- *)
(* the number of bases strictly between two disjoint intervals on a line *)
Definition gap (a b : part) : Z := if pe a <=? ps b then ps b - pe a else ps a - pe b.

Lemma lmin4 a b c d : lmin [a; b; c; d] = Z.min (Z.min (Z.min a b) c) d.
Proof. reflexivity. Qed.

Lemma part_overlap_false a b : wf_part a -> wf_part b ->
  part_overlap a b = false -> pe a <= ps b \/ pe b <= ps a.
Proof. unfold wf_part, part_overlap, in_part. lia. Qed.

Lemma pdist_line_spec a b : wf_part a -> wf_part b ->
  pdist_line a b = if part_overlap a b then 0 else gap a b.
Proof.
  intros Ha Hb. unfold pdist_line. destruct (part_overlap a b) eqn:Ho; [reflexivity|].
  apply part_overlap_false in Ho; [|assumption|assumption].
  unfold wf_part in *. rewrite lmin4. unfold gap.
  destruct (pe a <=? ps b) eqn:E; lia.
Qed.

(* on a ring of length N: the gap the other way round *)
Definition wrap_gap (N : Z) (a b : part) : Z :=
  if pe a <=? ps b then ps a + N - pe b else ps b + N - pe a.

Lemma mod_small_eq x N : 0 <= x < N -> x mod N = x.
Proof. intros. apply Z.mod_small. assumption. Qed.

Lemma pdist_ring_spec N a b : wf_part a -> wf_part b ->
  0 <= ps a -> pe a <= N -> 0 <= ps b -> pe b <= N ->
  pdist a b (Some N) =
    if part_overlap a b then 0 else Z.min (wrap_gap N a b) (gap a b).
Proof.
  intros Ha Hb Ha0 HaN Hb0 HbN. unfold pdist.
  destruct (part_overlap a b) eqn:Ho; [reflexivity|].
  assert (HN : 0 < N) by (unfold wf_part in *; lia).
  destruct (N =? 0) eqn:EN; [lia|].
  rewrite pdist_line_spec by assumption. rewrite Ho.
  apply part_overlap_false in Ho; [|assumption|assumption].
  unfold wf_part in *. rewrite lmin4. unfold wrap_gap, gap.
  destruct (pe a <=? ps b) eqn:E.
  - assert (Hle : pe a <= ps b) by lia. clear E Ho.
    rewrite (Z.abs_eq (ps a - pe b + N)) by lia. rewrite (Z.abs_eq (pe a - ps b + N)) by lia.
    rewrite (Z.abs_eq (ps b - pe a + N)) by lia. rewrite (Z.abs_eq (pe b - ps a + N)) by lia.
    rewrite (Z.min_l (ps a - pe b + N) (pe a - ps b + N)) by lia.
    rewrite (Z.min_l (ps a - pe b + N) (ps b - pe a + N)) by lia.
    rewrite (Z.min_l (ps a - pe b + N) (pe b - ps a + N)) by lia.
    replace (ps a - pe b + N) with (ps a + N - pe b) by lia.
    destruct (Z.eq_dec (ps a + N - pe b) N) as [Heq|Hne].
    + (* a starts at 0 and b ends at N: the other way round there is nothing in between *)
      lia.
    + rewrite mod_small_eq by lia. reflexivity.
  - assert (Hle : pe b <= ps a) by lia. clear E Ho.
    rewrite (Z.abs_eq (ps a - pe b + N)) by lia. rewrite (Z.abs_eq (pe a - ps b + N)) by lia.
    rewrite (Z.abs_eq (ps b - pe a + N)) by lia. rewrite (Z.abs_eq (pe b - ps a + N)) by lia.
    rewrite (Z.min_l (ps a - pe b + N) (pe a - ps b + N)) by lia.
    rewrite (Z.min_r (ps a - pe b + N) (ps b - pe a + N)) by lia.
    rewrite (Z.min_l (ps b - pe a + N) (pe b - ps a + N)) by lia.
    replace (ps b - pe a + N) with (ps b + N - pe a) by lia.
    destruct (Z.eq_dec (ps b + N - pe a) N) as [Heq|Hne].
    + lia.
    + rewrite mod_small_eq by lia. reflexivity.
Qed.

Lemma min4_perm x1 x2 x3 x4 :
  Z.min (Z.min (Z.min x1 x2) x3) x4 = Z.min (Z.min (Z.min x3 x4) x1) x2.
Proof. lia. Qed.

Lemma pdist_sym a b w : pdist a b w = pdist b a w.
Proof.
  unfold pdist, pdist_line. rewrite (part_overlap_sym b a).
  destruct (part_overlap a b); [reflexivity|].
  unfold lmin; cbn [fold_left].
  destruct w as [w|]; [destruct (w =? 0)|]; cbn zeta; rewrite ?(min4_perm (Z.abs (ps a - pe b)));
    rewrite ?(min4_perm (Z.abs (ps a - pe b + w))); reflexivity.
Qed.

(* ---------- linear connect ---------- *)
Lemma fold_min_le l : forall x y, In y (x :: l) -> fold_left Z.min l x <= y.
Proof.
  induction l as [|a l IH]; intros x y Hin; simpl in *.
  - destruct Hin as [->|[]]. lia.
  - destruct Hin as [->|[->|Hin]].
    + specialize (IH (Z.min y a) (Z.min y a) (or_introl eq_refl)). lia.
    + specialize (IH (Z.min x y) (Z.min x y) (or_introl eq_refl)). lia.
    + apply IH. right. assumption.
Qed.
Lemma fold_max_ge l : forall x y, In y (x :: l) -> y <= fold_left Z.max l x.
Proof.
  induction l as [|a l IH]; intros x y Hin; simpl in *.
  - destruct Hin as [->|[]]. lia.
  - destruct Hin as [->|[->|Hin]].
    + specialize (IH (Z.max y a) (Z.max y a) (or_introl eq_refl)). lia.
    + specialize (IH (Z.max x y) (Z.max x y) (or_introl eq_refl)). lia.
    + apply IH. right. assumption.
Qed.
Lemma fold_min_in l : forall x, In (fold_left Z.min l x) (x :: l).
Proof.
  induction l as [|a l IH]; intros x; simpl.
  - left. reflexivity.
  - destruct (IH (Z.min x a)) as [H|H].
    + destruct (Z.min_spec x a) as [[_ E]|[_ E]]; rewrite E in *; auto.
    + right. right. assumption.
Qed.
Lemma fold_max_in l : forall x, In (fold_left Z.max l x) (x :: l).
Proof.
  induction l as [|a l IH]; intros x; simpl.
  - left. reflexivity.
  - destruct (IH (Z.max x a)) as [H|H].
    + destruct (Z.max_spec x a) as [[_ E]|[_ E]]; rewrite E in *; auto.
    + right. right. assumption.
Qed.

Lemma lmin_le l y : In y l -> lmin l <= y.
Proof. destruct l as [|x l]; [intros []|]. apply fold_min_le. Qed.
Lemma lmax_ge l y : In y l -> y <= lmax l.
Proof. destruct l as [|x l]; [intros []|]. apply fold_max_ge. Qed.
Lemma lmin_in l : l <> [] -> In (lmin l) l.
Proof. destruct l as [|x l]; [congruence|]. intros _. apply fold_min_in. Qed.
Lemma lmax_in l : l <> [] -> In (lmax l) l.
Proof. destruct l as [|x l]; [congruence|]. intros _. apply fold_max_in. Qed.

Lemma bridges_single p : bridges [p] = false.
Proof. reflexivity. Qed.

(* For single-part inputs on a line, connect_locations is the exact hull. *)
Definition simple_locs (locs : list loc) : Prop := Forall (fun l => exists p, l = [p]) locs.

Lemma mapM_reduce_simple locs : simple_locs locs ->
  mapM (fun l => reduce_parts l None) locs = Ok locs.
Proof.
  induction 1 as [|l locs [p ->] _ IH]; simpl; [reflexivity|].
  rewrite IH. reflexivity.
Qed.

Lemma existsb_bridges_simple locs : simple_locs locs -> existsb bridges locs = false.
Proof.
  induction 1 as [|l locs [p ->] _ IH]; simpl; [reflexivity|assumption].
Qed.

Lemma connect_line_simple locs : locs <> [] -> simple_locs locs ->
  Forall wf_loc locs ->
  exists h, connect_locations locs None = Ok [h] /\
    ps h = lmin (map lstart locs) /\ pe h = lmax (map lend locs) /\
    pst h = common_strand locs /\ ps h < pe h.
Proof.
  intros Hne Hs Hwf. unfold connect_locations, connect_fuel.
  destruct locs as [|l0 locs']; [congruence|].
  set (locs := l0 :: locs') in *.
  replace (2 * length locs + 8)%nat with (S (2 * length locs + 7))%nat by lia.
  cbn [connect]. fold locs.
  rewrite existsb_bridges_simple by assumption.
  rewrite mapM_reduce_simple by assumption. cbn [bind].
  unfold hull, mkFL.
  assert (Hlt : lmin (map lstart locs) < lmax (map lend locs)).
  { inversion Hs as [|x xs [p Hp] _]; subst.
    inversion Hwf as [|y ys [_ Hw] _]; subst.
    inversion Hw as [|q qs Hq _]; subst. unfold wf_part in Hq.
    assert (H1 : lmin (map lstart locs) <= ps p).
    { apply lmin_le. unfold locs. simpl. left. reflexivity. }
    assert (H2 : pe p <= lmax (map lend locs)).
    { apply lmax_ge. unfold locs. simpl. left. reflexivity. }
    lia. }
  destruct (lmax (map lend locs) <? lmin (map lstart locs)) eqn:E; [lia|].
  cbn [bind]. eexists. split; [reflexivity|]. cbn [ps pe pst]. auto.
Qed.

(* the hull covers every base of every input and is tight at both ends *)
Lemma hull_covers locs h : simple_locs locs ->
  ps h = lmin (map lstart locs) -> pe h = lmax (map lend locs) ->
  forall l x, In l locs -> base_of l x -> ps h <= x < pe h.
Proof.
  intros Hs Hps Hpe l x Hl [p [Hp Hx]].
  unfold simple_locs in Hs. rewrite Forall_forall in Hs. destruct (Hs l Hl) as [q ->].
  destruct Hp as [<-|[]].
  assert (H1 : lmin (map lstart locs) <= ps q).
  { apply lmin_le. apply in_map_iff. exists [q]. split; [reflexivity|assumption]. }
  assert (H2 : pe q <= lmax (map lend locs)).
  { apply lmax_ge. apply in_map_iff. exists [q]. split; [reflexivity|assumption]. }
  lia.
Qed.

Lemma hull_tight locs h : locs <> [] -> simple_locs locs ->
  ps h = lmin (map lstart locs) -> pe h = lmax (map lend locs) ->
  (exists l p, In l locs /\ l = [p] /\ ps p = ps h) /\
  (exists l p, In l locs /\ l = [p] /\ pe p = pe h).
Proof.
  intros Hne Hs Hps Hpe. unfold simple_locs in Hs. rewrite Forall_forall in Hs. split.
  - assert (Hin : In (lmin (map lstart locs)) (map lstart locs)).
    { apply lmin_in. destruct locs; [congruence|discriminate]. }
    apply in_map_iff in Hin. destruct Hin as [l [Hl Hin]].
    destruct (Hs l Hin) as [p ->]. exists [p], p. repeat split; auto.
    rewrite Hps, <- Hl. reflexivity.
  - assert (Hin : In (lmax (map lend locs)) (map lend locs)).
    { apply lmax_in. destruct locs; [congruence|discriminate]. }
    apply in_map_iff in Hin. destruct Hin as [l [Hl Hin]].
    destruct (Hs l Hin) as [p ->]. exists [p], p. repeat split; auto.
    rewrite Hpe, <- Hl. reflexivity.
Qed.

(* ---------- offset of a single part on a ring ---------- *)
Definition rot (N off x : Z) : Z := (x + off) mod N.

Ltac solve_forallb :=
  match goal with
  | |- context [negb (forallb ?f ?l)] =>
    let H := fresh "Hfa" in
    assert (H : forallb f l = true) by (cbn [forallb ps pe]; lia); rewrite H; clear H
  end.

Lemma offset_simple_ring N p off :
  0 < N -> 0 <= ps p -> ps p < pe p -> pe p <= N -> - N < off < N -> pe p - ps p < N ->
  exists r, offset_location [p] off (Some N) = Ok r /\
    llen r = pe p - ps p /\
    Forall (fun q => pst q = pst p /\ 0 <= ps q /\ ps q < pe q /\ pe q <= N) r /\
    (forall y, 0 <= y < N -> (base_of r y <-> exists x, ps p <= x < pe p /\ y = rot N off x)).
Proof.
  intros HN H0 Hlt HeN Hoff Hlen.
  unfold offset_location.
  destruct (N =? 0) eqn:EN; [lia|].
  destruct (off =? 0) eqn:Eoff.
  - (* no shift *)
    cbn [orb]. unfold shifted. rewrite Eoff. exists [p]. split; [reflexivity|].
    split; [cbn; lia|]. split; [constructor; [lia|constructor]|].
    intros y Hy. unfold base_of, rot. split.
    + intros [q [[<-|[]] Hq]]. exists y. split; [assumption|].
      assert (off = 0) by lia. subst off. rewrite Z.add_0_r. symmetry. apply Z.mod_small. lia.
    + intros [x [Hx ->]]. exists p. split; [left; reflexivity|].
      assert (off = 0) by lia. subst off. rewrite Z.add_0_r. rewrite Z.mod_small by lia. assumption.
  - cbn [orb]. destruct (N <? 1) eqn:EN1; [lia|].
    assert (Hllen : llen [p] = pe p - ps p) by (cbn; lia). rewrite Hllen.
    destruct (pe p - ps p =? N) eqn:Efull; [lia|].
    assert (Hs : lstart [p] = ps p) by reflexivity. assert (He : lend [p] = pe p) by reflexivity.
    rewrite Hs, He.
    destruct ((0 <=? ps p + off) && (ps p + off <? pe p + off) && (pe p + off <=? N)) eqn:Etriv.
    + (* stays inside the record *)
      unfold shifted. rewrite Eoff. cbn [mapM bind].
      destruct (negb (ps p + off <? pe p + off)) eqn:E1; [lia|]. cbn [orb].
      eexists. split; [reflexivity|]. split; [cbn; lia|].
      split; [constructor; [cbn; lia|constructor]|].
      intros y Hy. unfold base_of, rot. split.
      * intros [q [[<-|[]] Hq]]. cbn in Hq. exists (y - off). split; [lia|].
        replace (y - off + off) with y by lia. symmetry. apply Z.mod_small. lia.
      * intros [x [Hx ->]]. eexists. split; [left; reflexivity|]. cbn.
        rewrite Z.mod_small by lia. lia.
    + unfold shifted. rewrite Eoff. cbn [mapM bind].
      destruct (negb (ps p + off <? pe p + off)) eqn:E1; [lia|]. cbn [orb bind flat_map app ps pe pst].
      set (s := (ps p + off + N) mod N). set (e := (pe p + off - 1 + N) mod N + 1).
      assert (Hs0 : 0 <= s < N) by (apply Z.mod_pos_bound; lia).
      assert (He0 : 0 < e <= N) by (unfold e; pose proof (Z.mod_pos_bound (pe p + off - 1 + N) N HN); lia).
      (* three possibilities for where the shifted interval sits *)
      assert (Hcase : (ps p + off < 0 /\ pe p + off <= 0) \/
                      (ps p + off < 0 /\ 0 < pe p + off) \/
                      (0 <= ps p + off < N /\ N < pe p + off) \/
                      (N <= ps p + off)) by lia.
      destruct Hcase as [[Ha Hb]|[[Ha Hb]|[[Ha Hb]|Ha]]].
      * (* entirely before the origin: moved up by N *)
        assert (Es : s = ps p + off + N).
        { unfold s. apply Z.mod_small. lia. }
        assert (Ee : e = pe p + off + N).
        { unfold e. rewrite Z.mod_small by lia. lia. }
        destruct ((0 <=? s) && (s <? e) && (e <=? N)) eqn:Ein; [|lia].
        cbn [app]. solve_forallb.
        cbn [negb merge_adjacent rev app]. eexists. split; [reflexivity|].
        split; [cbn; lia|]. split; [constructor; [cbn; lia|constructor]|].
        intros y Hy. unfold base_of, rot. split.
        -- intros [q [[<-|[]] Hq]]. cbn in Hq. exists (y - off - N). split; [lia|].
           replace (y - off - N + off) with (y + (-1) * N) by lia.
           rewrite Z.mod_add by lia. symmetry. apply Z.mod_small. lia.
        -- intros [x [Hx ->]]. eexists. split; [left; reflexivity|]. cbn.
           replace (x + off) with (x + off + N + (-1) * N) by lia.
           rewrite Z.mod_add by lia. rewrite Z.mod_small by lia. lia.
      * (* straddles the origin from below: [s, N) and [0, e) *)
        assert (Es : s = ps p + off + N).
        { unfold s. apply Z.mod_small. lia. }
        assert (Ee : e = pe p + off).
        { unfold e. replace (pe p + off - 1 + N) with (pe p + off - 1 + 1 * N) by lia.
          rewrite Z.mod_add by lia. rewrite Z.mod_small by lia. lia. }
        destruct ((0 <=? s) && (s <? e) && (e <=? N)) eqn:Ein; [lia|].
        cbn [app]. solve_forallb.
        cbn [negb merge_adjacent ps pe pst].
        destruct (N =? 0) eqn:EN0; [lia|].
        cbn [merge_adjacent rev app]. eexists. split; [reflexivity|].
        split; [cbn; lia|].
        split; [constructor; [cbn; lia|constructor; [cbn; lia|constructor]]|].
        intros y Hy. unfold base_of, rot. split.
        -- intros [q [[<-|[<-|[]]] Hq]]; cbn in Hq.
           ++ exists (y - off - N). split; [lia|].
              replace (y - off - N + off) with (y + (-1) * N) by lia.
              rewrite Z.mod_add by lia. symmetry. apply Z.mod_small. lia.
           ++ exists (y - off). split; [lia|].
              replace (y - off + off) with y by lia. symmetry. apply Z.mod_small. lia.
        -- intros [x [Hx ->]].
           destruct (Z_lt_ge_dec (x + off) 0) as [Hneg|Hpos].
           ++ eexists. split; [left; reflexivity|]. cbn.
              replace (x + off) with (x + off + N + (-1) * N) by lia.
              rewrite Z.mod_add by lia. rewrite Z.mod_small by lia. lia.
           ++ eexists. split; [right; left; reflexivity|]. cbn.
              rewrite Z.mod_small by lia. lia.
      * (* straddles the end of the record: [s, N) and [0, e) *)
        assert (Es : s = ps p + off).
        { unfold s. replace (ps p + off + N) with (ps p + off + 1 * N) by lia.
          rewrite Z.mod_add by lia. apply Z.mod_small. lia. }
        assert (Ee : e = pe p + off - N).
        { unfold e. replace (pe p + off - 1 + N) with (pe p + off - 1 - N + 2 * N) by lia.
          rewrite Z.mod_add by lia. rewrite Z.mod_small by lia. lia. }
        destruct ((0 <=? s) && (s <? e) && (e <=? N)) eqn:Ein; [lia|].
        cbn [app]. solve_forallb.
        cbn [negb merge_adjacent ps pe pst].
        destruct (N =? 0) eqn:EN0; [lia|].
        cbn [merge_adjacent rev app]. eexists. split; [reflexivity|].
        split; [cbn; lia|].
        split; [constructor; [cbn; lia|constructor; [cbn; lia|constructor]]|].
        intros y Hy. unfold base_of, rot. split.
        -- intros [q [[<-|[<-|[]]] Hq]]; cbn in Hq.
           ++ exists (y - off). split; [lia|].
              replace (y - off + off) with y by lia. symmetry. apply Z.mod_small. lia.
           ++ exists (y - off + N). split; [lia|].
              replace (y - off + N + off) with (y + 1 * N) by lia.
              rewrite Z.mod_add by lia. symmetry. apply Z.mod_small. lia.
        -- intros [x [Hx ->]].
           destruct (Z_lt_ge_dec (x + off) N) as [Hlow|Hhigh].
           ++ eexists. split; [left; reflexivity|]. cbn.
              rewrite Z.mod_small by lia. lia.
           ++ eexists. split; [right; left; reflexivity|]. cbn.
              replace (x + off) with (x + off - N + 1 * N) by lia.
              rewrite Z.mod_add by lia. rewrite Z.mod_small by lia. lia.
      * (* entirely past the end: moved down by N *)
        assert (Es : s = ps p + off - N).
        { unfold s. replace (ps p + off + N) with (ps p + off - N + 2 * N) by lia.
          rewrite Z.mod_add by lia. apply Z.mod_small. lia. }
        assert (Ee : e = pe p + off - N).
        { unfold e. replace (pe p + off - 1 + N) with (pe p + off - 1 - N + 2 * N) by lia.
          rewrite Z.mod_add by lia. rewrite Z.mod_small by lia. lia. }
        destruct ((0 <=? s) && (s <? e) && (e <=? N)) eqn:Ein; [|lia].
        cbn [app]. solve_forallb.
        cbn [negb merge_adjacent rev app]. eexists. split; [reflexivity|].
        split; [cbn; lia|]. split; [constructor; [cbn; lia|constructor]|].
        intros y Hy. unfold base_of, rot. split.
        -- intros [q [[<-|[]] Hq]]. cbn in Hq. exists (y - off + N). split; [lia|].
           replace (y - off + N + off) with (y + 1 * N) by lia.
           rewrite Z.mod_add by lia. symmetry. apply Z.mod_small. lia.
        -- intros [x [Hx ->]]. eexists. split; [left; reflexivity|]. cbn.
           replace (x + off) with (x + off - N + 1 * N) by lia.
           rewrite Z.mod_add by lia. rewrite Z.mod_small by lia. lia.
Qed.

(* ---------- distance between arbitrary (multi-part) locations ---------- *)
Definition pair_dists (a b : loc) (w : option Z) : list Z :=
  flat_map (fun p => map (fun q => pdist p q w) b) a.

Lemma dist_unfold a b w : overlap a b = false -> dist a b w = lmin (pair_dists a b w).
Proof.
  intros Ho. unfold dist. rewrite Ho.
  destruct a as [|p [|p' a']]; [reflexivity| |reflexivity].
  destruct b as [|q [|q' b']]; reflexivity.
Qed.

Lemma in_pair_dists a b w d :
  In d (pair_dists a b w) <-> exists p q, In p a /\ In q b /\ d = pdist p q w.
Proof.
  unfold pair_dists. rewrite in_flat_map. split.
  - intros [p [Hp H]]. apply in_map_iff in H. destruct H as [q [Hq H]].
    exists p, q. auto.
  - intros [p [q [Hp [Hq ->]]]]. exists p. split; [assumption|].
    apply in_map_iff. exists q. auto.
Qed.

Lemma overlap_false_parts a b p q :
  overlap a b = false -> In p a -> In q b -> part_overlap p q = false.
Proof.
  intros Ho Hp Hq. destruct (part_overlap p q) eqn:E; [|reflexivity].
  assert (overlap a b = true); [|congruence].
  unfold overlap. rewrite existsb_exists. exists p. split; [assumption|].
  rewrite existsb_exists. exists q. auto.
Qed.

Definition between_ring (N : Z) (p q : part) : Z := Z.min (wrap_gap N p q) (gap p q).

Lemma dist_ring_spec N a b :
  a <> [] -> b <> [] -> Forall wf_part a -> Forall wf_part b -> in_record N a -> in_record N b ->
  overlap a b = false ->
  (forall p q, In p a -> In q b -> dist a b (Some N) <= between_ring N p q) /\
  (exists p q, In p a /\ In q b /\ dist a b (Some N) = between_ring N p q).
Proof.
  intros Hna Hnb Ha Hb Ra Rb Ho. rewrite dist_unfold by assumption.
  rewrite Forall_forall in Ha, Hb. unfold in_record in *. rewrite Forall_forall in Ra, Rb.
  assert (Hpd : forall p q, In p a -> In q b -> pdist p q (Some N) = between_ring N p q).
  { intros p q Hp Hq. rewrite pdist_ring_spec; try (apply Ha; assumption); try (apply Hb; assumption);
      try (apply Ra; assumption); try (apply Rb; assumption).
    rewrite (overlap_false_parts a b p q Ho Hp Hq). reflexivity. }
  split.
  - intros p q Hp Hq. rewrite <- Hpd by assumption. apply lmin_le.
    apply in_pair_dists. exists p, q. auto.
  - assert (Hne : pair_dists a b (Some N) <> []).
    { destruct a as [|p a']; [congruence|]. destruct b as [|q b']; [congruence|]. discriminate. }
    pose proof (lmin_in _ Hne) as Hin. apply in_pair_dists in Hin.
    destruct Hin as [p [q [Hp [Hq E]]]]. exists p, q. repeat split; try assumption.
    rewrite E. apply Hpd; assumption.
Qed.

Lemma dist_line_spec a b :
  a <> [] -> b <> [] -> Forall wf_part a -> Forall wf_part b ->
  overlap a b = false ->
  (forall p q, In p a -> In q b -> dist a b None <= gap p q) /\
  (exists p q, In p a /\ In q b /\ dist a b None = gap p q).
Proof.
  intros Hna Hnb Ha Hb Ho. rewrite dist_unfold by assumption.
  rewrite Forall_forall in Ha, Hb.
  assert (Hpd : forall p q, In p a -> In q b -> pdist p q None = gap p q).
  { intros p q Hp Hq. unfold pdist. rewrite (overlap_false_parts a b p q Ho Hp Hq).
    rewrite pdist_line_spec by (try (apply Ha; assumption); try (apply Hb; assumption)).
    rewrite (overlap_false_parts a b p q Ho Hp Hq). reflexivity. }
  split.
  - intros p q Hp Hq. rewrite <- Hpd by assumption. apply lmin_le.
    apply in_pair_dists. exists p, q. auto.
  - assert (Hne : pair_dists a b None <> []).
    { destruct a as [|p a']; [congruence|]. destruct b as [|q b']; [congruence|]. discriminate. }
    pose proof (lmin_in _ Hne) as Hin. apply in_pair_dists in Hin.
    destruct Hin as [p [q [Hp [Hq E]]]]. exists p, q. repeat split; try assumption.
    rewrite E. apply Hpd; assumption.
Qed.

Lemma dist_overlap a b w : overlap a b = true -> dist a b w = 0.
Proof. intros H. unfold dist. rewrite H. reflexivity. Qed.

Lemma gap_nonneg p q : wf_part p -> wf_part q -> part_overlap p q = false -> 0 <= gap p q.
Proof.
  intros Hp Hq Ho. apply part_overlap_false in Ho; [|assumption|assumption].
  unfold gap, wf_part in *. destruct (pe p <=? ps q) eqn:E; lia.
Qed.

(* ---------- extend_location of a single part on a linear record ---------- *)
Lemma extend_line_simple p d N :
  0 <= ps p -> ps p < pe p -> pe p <= N -> 0 <= d ->
  extend_location [p] d N false =
    Ok [mkPart (Z.max 0 (ps p - d)) (Z.min (pe p + d) N) (pst p)].
Proof.
  intros H0 Hlt HN Hd. unfold extend_location.
  assert (Hst : lstrand [p] = pst p) by reflexivity. rewrite Hst.
  assert (Hrev : (if pst p =? -1 then rev [p] else [p]) = [p]) by (destruct (pst p =? -1); reflexivity).
  rewrite Hrev. cbn [last_opt rev app andb].
  cbn [length merge_ends last_opt rev app tl removelast].
  cbn [andb]. rewrite andb_false_r.
  unfold mkFL. cbn [ps pe pst].
  destruct (pe p <? Z.max 0 (ps p - d)) eqn:E1; [lia|]. cbn [bind last_opt rev app].
  rewrite andb_false_r. cbn [ps pe pst].
  destruct (Z.min (pe p + d) N <? Z.max 0 (ps p - d)) eqn:E2; [lia|].
  cbn [bind removelast app length merge_ends last_opt rev]. reflexivity.
Qed.
