(* C10 - property theorems only: statement, [exact lemma], Print Assumptions; Examples show that the
   hypotheses are satisfiable (non-vacuity). *)
From Coq Require Import Sorting.Permutation.
From ASV Require Import Base Loc.
From ASV.C10 Require Import Model Proofs.

(* numbers written into qualifiers (protocluster_number, protoclusters, candidate_cluster_numbers,
   subregion_numbers, neighbourhood, cutoff, coordinates inside core_location) read back as the same
   integer: int(str(n)) = n for every integer *)
Theorem C10_int_codec : forall n, parse_int (str_of_int n) = Ok n.
Proof. exact parse_int_str_of_int. Qed.
Print Assumptions C10_int_codec.

(* location_from_string(str(location)) = location for every well-formed location: any of the three
   position kinds at either end, the four strand spellings, start <= end, non-negative coordinates;
   compound locations with two or more parts and any operator name without "{" *)
Theorem C10_loc_codec : forall t, wf_tloc t -> loc_from_string (loc_str t) = Ok t.
Proof. exact loc_codec. Qed.
Print Assumptions C10_loc_codec.

(* the piece used by the area codec: a protocluster's core_location qualifier, written with
   str() and read with location_from_string, gives back the same parts (start, end, strand) *)
Theorem C10_area_codec_core : forall l, core_ok l = true ->
  exists t, loc_from_string (loc_str (tloc_of_loc l)) = Ok t /\ loc_of_tloc t = l.
Proof. exact area_codec_core. Qed.
Print Assumptions C10_area_codec_core.

(* add_protocluster / add_subregion / add_candidate_cluster on reload: an arriving collection that
   every stored one is less than is appended, whatever CDSCollection.__lt__ says otherwise (no
   strict-weak-order assumption): bisect_left returns the length *)
Theorem C10_bisect_append : forall A (lt : A -> bool) l, (forall e, In e l -> lt e = true) ->
  C05.Model.bisect_left lt l = length l.
Proof. exact bisect_left_all. Qed.
Print Assumptions C10_bisect_append.

(* Re-linking.  guard = every collection passes its own constructor checks against the lists it
   refers to and its stored location is the one the constructor recomputes (items_ok: numbers in range,
   connect_locations(wrap_point = record length) of the members = the stored candidate location, children
   contained, regions disjoint and in order), each kind is strictly increasing under
   CDSCollection.__lt__ (no_ties: no two members of a kind with equal sort keys), and sorted() writes
   every kind in stored order (order_kept; evaluated, not derived from no_ties).  Then writing and re-reading gives back exactly the same lists -
   same numbering, same cross references, same recomputed locations, same cores.
   PARTIAL: order_kept is a hypothesis checked at run time on every generated case, not a consequence
   proved from the sortedness of the stored lists. *)
Theorem C10_relink_partial : forall n R, guard n R = true -> roundtrip n R = Ok R.
Proof. exact relink. Qed.
Print Assumptions C10_relink_partial.

(* the from_biopython half with no assumption on sorted(): a file that lists every kind in stored
   order reloads as exactly the same record *)
Theorem C10_reload_identity : forall n R, items_ok n R = true -> no_ties R = true ->
  reload n (mkFile (map to_f (protos R)) (subs R) (cands R) (regns R)) = Ok R.
Proof. exact reload_identity. Qed.
Print Assumptions C10_reload_identity.

(* the to_biopython half: the model of CPython's sorted() (count_run + binary insertion) only
   rearranges - every collection of the record is written exactly once, whatever __lt__ answers *)
Theorem C10_dump_complete : forall R, Permutation (file_order R) (areas_of R).
Proof. exact file_order_complete. Qed.
Print Assumptions C10_dump_complete.

(* the first output is a fixed point: the re-read record writes the same file and re-reads as itself *)
Theorem C10_fixed_point_partial : forall n R, guard n R = true ->
  exists R', roundtrip n R = Ok R' /\ dump R' = dump R /\ roundtrip n R' = Ok R'.
Proof. exact relink_fixed_point. Qed.
Print Assumptions C10_fixed_point_partial.

(* without no_ties the statement is false: two protoclusters of identical extent are stored (2, 1),
   written in that order, and re-inserted with bisect_left as (1, 2); the candidate's reference
   "protocluster 1" now names the other one and the second file differs from the first
   (known finding equal_key_areas) *)
Theorem C10_relink_ties_refuted : exists n R R',
  items_ok n R = true /\ order_kept R = true /\ lt_consistent R = true /\ no_ties R = false /\
  roundtrip n R = Ok R' /\ skel_eqb R' R = false /\ file_eqb (dump R') (dump R) = false /\
  map ptag (protos R) = [2; 1] /\ map ptag (protos R') = [1; 2].
Proof. exact relink_ties_refuted. Qed.
Print Assumptions C10_relink_ties_refuted.

(* CDSCollection.__lt__ never answers "less" both ways (mirrored containment shortcut, repair of the
   finding whole_record_vs_origin_spanning_order): for ALL locations, hence every skeleton is
   lt_consistent - the class of the former finding is empty *)
Theorem C10_lt_asymmetric : forall a b, lt_loc a b = true -> lt_loc b a = false.
Proof. exact lt_loc_asym. Qed.
Print Assumptions C10_lt_asymmetric.

Theorem C10_lt_consistent : forall R, lt_consistent R = true.
Proof. exact lt_consistent_always. Qed.
Print Assumptions C10_lt_consistent.

(* the former witness (circular record of 300: a candidate covering the whole record as [0:300] and an
   origin-spanning candidate, which swapped numbers on every reload) satisfies the guard and is
   re-read as itself *)
Theorem C10_relink_whole_record_witness :
  guard 300 W_whole = true /\ roundtrip 300 W_whole = Ok W_whole.
Proof. exact relink_whole_record_witness. Qed.
Print Assumptions C10_relink_whole_record_witness.

(* ---- qualifier-level codecs ---- *)

(* the aStool qualifier: SubRegion / Protocluster write the tool name, the sideloaded variants write
   "externally annotated by: " ++ tool; from_biopython (startswith test when no feature is passed in,
   split(": ", 1)[1]) gives back the class and the full tool name - whatever the name contains (": ",
   quotes, ...).  For a sideloaded area (where the name is user input: any non-empty string of the
   sideload schema) there is no proviso any more (finding C10-F62 sideloaded_tool_prefix_recursion,
   repaired); for an ordinary area (where the name is one of antiSMASH's own module names) the name must
   not start with "externally annotated", the marker of the sideloaded classes *)
Theorem C10_astool_codec : forall side tool, (side = false -> starts_with ext_prefix tool = false) ->
  astool_decode (astool_text side tool) = Ok (side, tool).
Proof. exact astool_codec. Qed.
Print Assumptions C10_astool_codec.

(* the former refutation, now positive: the sideloaded tool "externally annotated by me" (it has the
   prefix; reading it recursed until RecursionError) comes back as the same sideloaded tool *)
Theorem C10_astool_prefix_repaired :
  starts_with ext_prefix W_tool_rec = true /\
  astool_decode (astool_text true W_tool_rec) = Ok (true, W_tool_rec).
Proof. exact astool_prefix_repaired. Qed.
Print Assumptions C10_astool_prefix_repaired.

(* the proviso that is left cannot be dropped, by the design of the format: the ordinary tool
   "externally annotated: x" is the text of the sideloaded tool "x", and "externally annotated" alone has
   no ": " to split at (IndexError).  No antiSMASH module has such a name *)
Theorem C10_astool_marker_reserved :
  astool_decode (astool_text false W_tool_plain) = Ok (true, [120]) /\
  astool_decode (astool_text false ext_prefix) = Err E_Index.
Proof. exact astool_marker_reserved. Qed.
Print Assumptions C10_astool_marker_reserved.

(* number lists (protoclusters, candidate_cluster_numbers, subregion_numbers): [int(t) for t in
   [str(n) for n in numbers]] = numbers, in the written order *)
Theorem C10_numbers_codec : forall l, numbers_parse (numbers_text l) = Ok l.
Proof. exact numbers_codec. Qed.
Print Assumptions C10_numbers_codec.

(* gene functions: from_string(str(annotation)) = annotation, through the model of _parse_format's
   regular expression (non-greedy fields, optional spaces, the four-field form tried first), when the
   tool has no white space and no ")", texts have no line break, a product has no ":" and - without
   product - neither tool nor description has a ":" and the function is not CORE *)
Theorem C10_gene_function_codec : forall g, wf_gfa g = true -> gfa_parse (gfa_text g) = Ok g.
Proof. exact gfa_codec. Qed.
Print Assumptions C10_gene_function_codec.

(* the two text forms overlap: ADDITIONAL (smcogs) "SMCOG1001: thing" without product reads back
   with product "SMCOG1001" and description "thing"; both print the same text
   (known finding gene_function_description_colon) *)
Theorem C10_gene_function_colon_refuted :
  gfa_parse (gfa_text W_gfa) = Ok W_gfa' /\ W_gfa' <> W_gfa /\ gfa_text W_gfa' = gfa_text W_gfa.
Proof. exact gfa_colon_refuted. Qed.
Print Assumptions C10_gene_function_colon_refuted.

(* ---- generic features on the read path, order of CDS features ---- *)

(* location_bridges_origin(location, allow_reversing=False), the test in Record.from_biopython's misc_feature
   prefilter, is a pure test: it answers what Common/Loc.v's bridges answers and leaves the location as it was *)
Theorem C10_bridges_test_is_pure : forall l, bridges_origin false l = (bridges l, l).
Proof. exact bridges_origin_plain. Qed.
Print Assumptions C10_bridges_test_is_pure.

(* "the test never changes the location" is false for allow_reversing=True: complement(join(551..600,1..40)) on a
   record of 600 (a reverse-strand feature over the origin as NCBI writes it) bridges the origin, and the call with
   allow_reversing leaves it with its exons in the other order, answering False - afterwards it no longer crosses the
   origin.  This is why the prefilter must pass False. *)
Theorem C10_bridges_reversing_keeps_location_refuted :
  bridges_origin false W_ncbi_rev = (true, W_ncbi_rev) /\
  bridges_origin true W_ncbi_rev = (false, rev W_ncbi_rev) /\ rev W_ncbi_rev <> W_ncbi_rev /\
  bridges (rev W_ncbi_rev) = false.
Proof. exact bridges_origin_reversing_witness. Qed.
Print Assumptions C10_bridges_reversing_keeps_location_refuted.

(* Record.from_biopython (taxon bacteria) on a feature of any type - misc_feature (prefilter: bridges and
   remove_redundant_exons), any other generic type, gene (add_gene's exon-order test on linear records) - on a linear or
   circular record of any length: a location that a record can hold and write (no exon inside another exon; for a gene on
   a linear record exons in strand order) is either refused or comes back exactly as it was: same parts, same order,
   same strands, hence the same crosses_origin *)
Theorem C10_read_keeps_location : forall n circular ty l l',
  writable circular ty l = true -> read_feature_loc n circular ty l = Ok l' -> l' = l.
Proof. exact read_keeps_location. Qed.
Print Assumptions C10_read_keeps_location.

(* the repair of finding C10-F65 (unsortable_exon_order_accepted): every location Record.from_biopython lets into a
   record - any feature type, topology, record length - has a sort key: when its exon order is not the strand's,
   split_origin_bridging_location accepts it as a crossing of the origin.  (Before the repair forward
   join(401..430,201..230,101..130) was accepted and had none.) *)
Theorem C10_read_is_sortable : forall n circular ty l l', read_feature_loc n circular ty l = Ok l' ->
  exists k, feature_key l' = Ok k.
Proof. exact read_is_sortable. Qed.
Print Assumptions C10_read_is_sortable.

(* ... hence Feature.__lt__ (C04's feature_lt: either operand order, "source" or not) and CDSCollection.__lt__ against
   a feature (C04's collection_lt) return an answer on any two locations accepted on reading, they do not raise:
   sorted(self.all_features) in Record.to_biopython cannot fail with ValueError, the record can be written *)
Theorem C10_read_features_compare : forall n c1 c2 ty1 ty2 l1 l2 a b,
  read_feature_loc n c1 ty1 l1 = Ok a -> read_feature_loc n c2 ty2 l2 = Ok b ->
  forall src, (exists r, C04.Model.feature_lt src a b = Ok r) /\ (exists r, C04.Model.collection_lt a b = Ok r).
Proof. exact read_features_compare. Qed.
Print Assumptions C10_read_features_compare.

(* the witnesses of the former finding are refused on reading (SecmetInvalidInputError) - forward three exons in
   descending order as misc_feature on a linear record (the location add_feature would hold has no key: Err E_Value),
   reverse-strand three exons ascending on a circular record, mixed strands out of order - while what worked keeps
   working: the reverse-strand gene on a linear record is reversed by add_gene, two exons in the other order are taken
   for a crossing of the origin *)
Theorem C10_read_unsortable_refused :
  read_feature_added 600 false T_misc W_f3 = Ok W_f3 /\ feature_key W_f3 = Err E_Value /\
  read_feature_loc 600 false T_misc W_f3 = Err E_SecmetInvalid /\
  read_feature_loc 600 true 1 W_r3 = Err E_SecmetInvalid /\ read_feature_loc 600 true T_gene W_mix = Err E_SecmetInvalid /\
  read_feature_loc 600 false T_gene W_r3 = Ok (rev W_r3) /\
  read_feature_loc 600 false T_misc [mkPart 100 130 (-1); mkPart 400 430 (-1)] = Ok [mkPart 100 130 (-1); mkPart 400 430 (-1)].
Proof. exact read_unsortable_refused. Qed.
Print Assumptions C10_read_unsortable_refused.

(* CDS features whose (start, length) sort keys never decrease - equal keys included since the repair of C10-F47 -
   are re-added by add_cds_feature (bisect_right with Feature.__lt__) in exactly the stored order *)
Theorem C10_cds_order_kept : forall locs keys, mapM feature_key locs = Ok keys ->
  weakly_sorted keys = true -> cds_reload locs = Ok locs.
Proof. exact cds_order_kept. Qed.
Print Assumptions C10_cds_order_kept.

(* the repair of finding C10-F47 (equal_key_genes_order), no guard on the keys: whatever CDS features arrive in
   whatever order, the list add_cds_feature has stored is re-read - re-added in stored order, which is the order
   Record.to_biopython's stable sorted() writes them in - as exactly itself: the CDS part of "the first output is a
   fixed point" *)
Theorem C10_cds_reload_fixed_point : forall file stored, cds_reload file = Ok stored -> cds_reload stored = Ok stored.
Proof. exact cds_reload_fixed_point. Qed.
Print Assumptions C10_cds_reload_fixed_point.

(* and re-adding does not raise when every location has a sort key, which C10_read_is_sortable guarantees for
   everything read from a file *)
Theorem C10_cds_reload_total : forall file, Forall (fun l => sortable l = true) file ->
  exists stored, cds_reload file = Ok stored.
Proof. exact cds_reload_total. Qed.
Print Assumptions C10_cds_reload_total.

(* alternative transcripts: two locations that do not cross the origin, with the same start (and possibly the same
   end) and different total exon length, have different sort keys - exactly one is less than the other *)
Theorem C10_alt_transcripts_ordered : forall a b, bridges a = false -> bridges b = false ->
  lstart a = lstart b -> llen a <> llen b ->
  exists ka kb, feature_key a = Ok ka /\ feature_key b = Ok kb /\
                (C04.Model.pair_lt ka kb = true /\ C04.Model.pair_lt kb ka = false \/
                 C04.Model.pair_lt kb ka = true /\ C04.Model.pair_lt ka kb = false).
Proof. exact alt_transcripts_ordered. Qed.
Print Assumptions C10_alt_transcripts_ordered.

(* the witness of the repaired finding equal_key_genes_order: [10:40](+) and [10:40](-) have equal keys; in either
   arrival order the stored list is the arrival order and is re-read as itself (replaces
   C10_cds_order_equal_keys_refuted: with bisect_left the stored order flipped on every reload) *)
Theorem C10_cds_order_equal_keys_repaired :
  exists a b, feature_key a = feature_key b /\ cds_reload [a; b] = Ok [a; b] /\ cds_reload [b; a] = Ok [b; a] /\ a <> b.
Proof. exact cds_equal_keys_repaired. Qed.
Print Assumptions C10_cds_order_equal_keys_repaired.

(* ---- non-vacuity ---- *)
Example C10_ex_loc_codec :
  let t := TCompound join_text [mkTpart (mkTpos 1 994) (mkTpos 0 1000) 1; mkTpart (mkTpos 0 0) (mkTpos 2 357) 1] in
  wf_tloc t /\ loc_str t = [106; 111; 105; 110; 123; 91; 60; 57; 57; 52; 58; 49; 48; 48; 48; 93; 40; 43; 41; 44; 32;
                            91; 48; 58; 62; 51; 53; 55; 93; 40; 43; 41; 125].
Proof.
  split; [|reflexivity]. constructor; [reflexivity | cbn; lia |].
  apply Forall_cons; [|apply Forall_cons; [|apply Forall_nil]];
    unfold wf_tpart, wf_tpos; cbn [tps tpe tst tk tv]; lia.
Qed.

Example C10_ex_guard_linear : guard 400 W_linear = true /\ length (protos W_linear) = 3%nat /\
  length (cands W_linear) = 3%nat /\ length (regns W_linear) = 2%nat.
Proof. vm_compute. repeat split; reflexivity. Qed.

Example C10_ex_guard_ring : guard 400 W_ring = true /\ bridges (cloc (hd (mkCand 0 [] []) (cands W_ring))) = true.
Proof. vm_compute. split; reflexivity. Qed.

(* a tool name holding ": " satisfies the guard of C10_astool_codec; a CORE annotation with product
   and a description holding ": " satisfies the guard of C10_gene_function_codec *)
Example C10_ex_astool : starts_with ext_prefix W_tool_colon = false /\
  astool_decode (astool_text true W_tool_colon) = Ok (true, W_tool_colon) /\
  astool_decode (astool_text false W_tool_colon) = Ok (false, W_tool_colon).
Proof. repeat split; reflexivity. Qed.

Example C10_ex_gene_function :
  wf_gfa (mkGfa 1 [115; 109; 99; 111; 103; 115] (Some [84; 49; 80; 75; 83]) [97; 58; 32; 98]) = true.
Proof. reflexivity. Qed.

(* the NCBI-style reverse-strand misc_feature over the origin satisfies the hypotheses of C10_read_keeps_location and is
   read back unchanged; an exon inside another exon is what falls outside (it is removed on reading) *)
Example C10_ex_read_ncbi :
  writable true T_misc W_ncbi_rev = true /\ read_feature_loc 600 true T_misc W_ncbi_rev = Ok W_ncbi_rev /\
  bridges W_ncbi_rev = true.
Proof. exact read_ncbi_witness. Qed.

Example C10_ex_read_nested_exon :
  read_feature_loc 600 true T_misc [mkPart 550 600 1; mkPart 0 40 1; mkPart 10 20 1] = Ok [mkPart 550 600 1; mkPart 0 40 1] /\
  writable true T_misc [mkPart 550 600 1; mkPart 0 40 1; mkPart 10 20 1] = false.
Proof. exact read_removes_nested_exon. Qed.

(* join(301..360,501..560,701..760) and join(301..360,701..760): same start, same end, different exons - the hypotheses
   of C10_alt_transcripts_ordered hold, and in either arrival order the stored list is [shorter; longer] *)
Example C10_ex_alt_transcripts :
  cds_reload [W_t1; W_t2] = Ok [W_t2; W_t1] /\ cds_reload [W_t2; W_t1] = Ok [W_t2; W_t1] /\
  lstart W_t1 = lstart W_t2 /\ lend W_t1 = lend W_t2.
Proof. exact alt_transcripts_witness. Qed.

(* ---------- optional qualifiers: written iff the attribute is not None ---------- *)
(* AntismashFeature.to_biopython writes score / evalue under `is not None` and from_biopython reads them when the key is
   present; Feature does the same for codon_start, CandidateCluster for SMILES / polymer.  For ANY text form that reads
   back as the value, EVERY attribute value - None, and every value however falsy: 0, 0.0, -0.0, "" - comes back from
   the qualifier dictionary.  (Python's float formatting / parsing is the hypothesis here: third party, exercised by the
   correspondence run on the values the formats keep.) *)
Theorem C10_optional_qualifier_codec : forall (A : Type) (fmt : A -> str) (parse : str -> res A),
  (forall x, parse (fmt x) = Ok x) -> forall v : option A, optq_read parse (optq_write fmt v) = Ok v.
Proof. exact optq_roundtrip. Qed.
Print Assumptions C10_optional_qualifier_codec.

(* integer-valued instance with the proved text codec str(int) / int(str): no hypothesis left, every integer incl. 0 *)
Theorem C10_optional_int_qualifier : forall v : option Z, optq_read parse_int (optq_write str_of_int v) = Ok v.
Proof. exact optq_int_roundtrip. Qed.
Print Assumptions C10_optional_int_qualifier.

(* codon_start: the attribute _original_codon_start = int(text) - 1 is written as str(attribute + 1) iff it is not None;
   the attribute 0 (codon_start=1) is falsy and comes back as 0, None as None *)
Theorem C10_codon_start_qualifier : forall v : option Z, optq_read codon_parse (optq_write codon_fmt v) = Ok v.
Proof. exact optq_codon_roundtrip. Qed.
Print Assumptions C10_codon_start_qualifier.

(* the run-time verdict on what an implementation wrote (fn 116 / 120) is sound: accepted => reading gives the value *)
Theorem C10_optional_qualifier_spec_sound : forall (A : Type) (eqb : A -> A -> bool) (parse : str -> res A),
  (forall x y, eqb x y = true -> x = y) ->
  forall v q, optq_spec_ok eqb parse v q = true -> optq_read parse q = Ok v.
Proof. exact optq_spec_sound. Qed.
Print Assumptions C10_optional_qualifier_spec_sound.

(* why the test must be `is not None`: with a truthiness test (`if self.evalue:`) the value 0 is written like None and
   comes back as None, while the modelled writer returns it *)
Theorem C10_optional_qualifier_truthy_test_refuted :
  exists v : option Z, optq_read parse_int (optq_write_truthy str_of_int v) <> Ok v /\
                       optq_read parse_int (optq_write str_of_int v) = Ok v /\
                       optq_write_truthy str_of_int v = optq_write_truthy str_of_int None.
Proof. exact optq_truthy_loses_zero. Qed.
Print Assumptions C10_optional_qualifier_truthy_test_refuted.

(* string attributes of AntismashFeature (label, database, detection, domain_id, locus_tag) ARE written under a
   truthiness test and read with `or None`: every value but the empty string comes back *)
Theorem C10_truthy_string_qualifier_partial : forall v : option str, v <> Some [] ->
  truthy_read (truthy_write v) = Ok v.
Proof. exact truthy_roundtrip. Qed.
Print Assumptions C10_truthy_string_qualifier_partial.

(* ... and the empty string does not (finding C10-F66 empty_string_attribute_read_as_none): it is written like None *)
Theorem C10_truthy_string_qualifier_empty_refuted :
  exists v : option str, truthy_read (truthy_write v) <> Ok v /\ truthy_read (truthy_write v) = Ok None /\
                         truthy_write v = truthy_write None.
Proof. exact truthy_empty_lost. Qed.
Print Assumptions C10_truthy_string_qualifier_empty_refuted.

Theorem C10_truthy_string_spec_sound : forall v q, v <> Some [] -> truthy_spec_ok v q = true -> truthy_read q = Ok v.
Proof. exact truthy_spec_sound. Qed.
Print Assumptions C10_truthy_string_spec_sound.

(* non-vacuity: the falsy values themselves - integer 0 is written as "0" and read as 0, codon_start attribute 0 as "1",
   the e-value text "0.00E+00" as itself, None as no qualifier *)
Example C10_ex_optional_qualifier_zero :
  optq_read parse_int (optq_write str_of_int (Some 0)) = Ok (Some 0) /\
  optq_write str_of_int (Some 0) = Some [[48]] /\
  optq_read codon_parse (optq_write codon_fmt (Some 0)) = Ok (Some 0) /\
  optq_write codon_fmt (Some 0) = Some [[49]] /\
  optq_read text_ok (optq_write id_str (Some [48; 46; 48; 48; 69; 43; 48; 48])) = Ok (Some [48; 46; 48; 48; 69; 43; 48; 48]) /\
  optq_read parse_int (optq_write str_of_int None) = Ok None.
Proof. exact optq_witnesses. Qed.

(* ---------- sorted(all_features) on the mixed list of collections and plain features ---------- *)
(* finding C10-F70 mixed_order_not_transitive: on a circular record of 900 bases the protocluster
   join{[775:900](+), [0:19](+)} is less than the sig_peptide join{[860:900](+), [0:40](+)} (containment / key), the
   sig_peptide is less than the source feature [0:900](+) (key -40 < 0), but the protocluster is NOT less than the source
   (the mirrored containment short cut of CDSCollection.__lt__ answers False because the source contains it) and the
   source is not less than the protocluster either: `<` is not transitive on the three, so what sorted() returns
   depends on the order in which the features arrive (and, from 64 features on, on Timsort's runs) *)
Theorem C10_mixed_order_not_transitive_refuted :
  exists a b c, mixed_lt a b = true /\ mixed_lt b c = true /\ mixed_lt a c = false /\ mixed_lt c a = false /\
                has_bad_triple [c; b; a] = true.
Proof. exact mixed_lt_not_transitive. Qed.
Print Assumptions C10_mixed_order_not_transitive_refuted.

(* the class test evaluated on a record's features (fn 22) only answers true when the record holds such a triple *)
Theorem C10_mixed_class_test_sound : forall l, has_bad_triple l = true ->
  exists a b c, In a l /\ In b l /\ In c l /\ mixed_lt a b = true /\ mixed_lt b c = true /\ mixed_lt a c = false.
Proof. exact has_bad_triple_sound. Qed.
Print Assumptions C10_mixed_class_test_sound.
