(* C10 - faithful executable model of the antiSMASH logic behind the GenBank / JSON round trip:

   (a) the location text codec: str(location) (Biopython's SimpleLocation/CompoundLocation.__str__
       for the three position kinds Exact / Before "<" / After ">", the four strand spellings
       "(+)" "(-)" "(?)" "" and "operator{part, part}") and
       antismash/common/secmet/locations.py: location_from_string (parse_position,
       parse_single_location, the "{" test, data[:-1].split("{", 1), split(", "));
       str(int) / int(str) for the numbers (Python's int() also accepts surrounding whitespace and
       "_" between digits: not modelled, never generated);
   (b) the area skeleton of a record and its re-linking:
       Record.to_biopython  = sorted(all_features), restricted to the four collection kinds
                              (subregions, protoclusters, candidate clusters, regions in the chain
                              order of Record.all_features), CDSCollection.__lt__ incl. the
                              `other in self` and the containment short cuts;
       Record.from_biopython = protoclusters and subregions re-added in file order with
                              bisect_left (add_protocluster / add_subregion), cand_cluster and region
                              features postponed; CandidateCluster.from_biopython (numbers -> objects,
                              location recomputed with connect_locations(wrap_point=len(record)),
                              CDSCollection.__init__ checks, parent assertion), add_candidate_cluster;
                              Region.from_biopython / Region.__init__ / add_region (overlap test,
                              linear insertion); ValueError inside the loops becomes
                              SecmetInvalidInputError;
       Protocluster.to_biopython / from_biopython: core_location travels as text (codec (a)).

   Strings are lists of character codes.  No proofs in this file. *)
From ASV Require Import Base Loc.
From ASV.C05 Require Model.
From ASV.C04 Require Model.

Definition E_Unsupported := 98.

Definition str := list Z.
Definition str_eqb (a b : str) : bool := list_eqb Z.eqb a b.
Definition cmem (c : Z) (s : str) : bool := existsb (Z.eqb c) s.

(* ---------- str(int) / int(str) ---------- *)
Fixpoint dig (fuel : nat) (n : Z) : str :=
  match fuel with
  | O => []
  | S f => if n <? 10 then [48 + n] else dig f (n / 10) ++ [48 + n mod 10]
  end.
Definition digits (n : Z) : str := dig (S (Z.to_nat (Z.log2 n))) n.        (* n >= 0 *)
Definition str_of_int (n : Z) : str := if n <? 0 then 45 :: digits (- n) else digits n.

Definition is_digit (c : Z) : bool := (48 <=? c) && (c <=? 57).
Definition int_of_digits (d : str) : Z := fold_left (fun acc c => acc * 10 + (c - 48)) d 0.
Definition parse_nat (s : str) : res Z :=
  match s with
  | [] => Err E_Value
  | _ => if forallb is_digit s then Ok (int_of_digits s) else Err E_Value
  end.
Definition parse_int (s : str) : res Z :=
  match s with
  | c :: r => if c =? 45 then (do n <- parse_nat r; Ok (- n))
              else if c =? 43 then parse_nat r
              else parse_nat s
  | [] => Err E_Value
  end.

(* ---------- textual locations ---------- *)
(* position kind: 0 ExactPosition, 1 BeforePosition "<", 2 AfterPosition ">" *)
Record tpos := mkTpos { tk : Z; tv : Z }.
(* strand: 1, -1, 0 ("?"), 2 (None) *)
Record tpart := mkTpart { tps : tpos; tpe : tpos; tst : Z }.
Inductive tloc := TSingle (p : tpart) | TCompound (op : str) (parts : list tpart).

Definition pos_str (p : tpos) : str :=
  (if tk p =? 1 then [60] else if tk p =? 2 then [62] else []) ++ str_of_int (tv p).
Definition strand_str (st : Z) : str :=
  if st =? 2 then [] else if st =? 1 then [40; 43; 41] else if st =? -1 then [40; 45; 41] else [40; 63; 41].
Definition part_str (p : tpart) : str :=
  [91] ++ pos_str (tps p) ++ [58] ++ pos_str (tpe p) ++ [93] ++ strand_str (tst p).
Fixpoint join (sep : str) (l : list str) : str :=
  match l with
  | [] => []
  | x :: r => match r with [] => x | _ => x ++ sep ++ join sep r end
  end.
Definition loc_str (l : tloc) : str :=
  match l with
  | TSingle p => part_str p
  | TCompound op ps => op ++ [123] ++ join [44; 32] (map part_str ps) ++ [125]
  end.

(* s.split(c, 1): (text before the first c, Some (text after it)) or (s, None) *)
Fixpoint split1 (c : Z) (s : str) : str * option str :=
  match s with
  | [] => ([], None)
  | x :: r => if x =? c then ([], Some r) else let '(a, b) := split1 c r in (x :: a, b)
  end.
Definition cons_head (x : Z) (l : list str) : list str :=
  match l with h :: t => (x :: h) :: t | [] => [[x]] end.
(* s.split(", ") *)
Fixpoint split_cs (s : str) : list str :=
  match s with
  | [] => [[]]
  | x :: r =>
    match r with
    | y :: r' => if (x =? 44) && (y =? 32) then [] :: split_cs r' else cons_head x (split_cs r)
    | [] => cons_head x (split_cs r)
    end
  end.

(* "UnknownPosition()" *)
Definition unknown_position_text : str :=
  [85; 110; 107; 110; 111; 119; 110; 80; 111; 115; 105; 116; 105; 111; 110; 40; 41].

Definition parse_position (s : str) : res tpos :=
  match s with
  | [] => Err E_Index
  | c :: r =>
    if c =? 60 then (do n <- parse_int r; Ok (mkTpos 1 n))
    else if c =? 62 then (do n <- parse_int r; Ok (mkTpos 2 n))
    else if str_eqb s unknown_position_text then Err E_Unsupported
    else (do n <- parse_int s; Ok (mkTpos 0 n))
  end.

(* string[-2] *)
Definition char_m2 (s : str) : res Z :=
  match rev s with _ :: c :: _ => Ok c | _ => Err E_Index end.

Definition parse_single (s : str) : res tpart :=
  do st <- parse_position (fst (split1 58 (tl s)));
  do en <- match snd (split1 58 s) with
           | None => Err E_Index
           | Some r => parse_position (fst (split1 93 r))
           end;
  do c <- char_m2 s;
  do strand <- (if c =? 45 then Ok (-1) else if c =? 43 then Ok 1 else if c =? 63 then Ok 0
                else if negb (cmem 40 s) then Ok 2 else Err E_Value);
  (* SimpleLocation.__init__: start > end raises ValueError *)
  if tv en <? tv st then Err E_Value else Ok (mkTpart st en strand).

Definition loc_from_string (data : str) : res tloc :=
  if negb (cmem 123 data) then (do p <- parse_single data; Ok (TSingle p)) else
  match split1 123 (removelast data) with
  | (op, Some combined) =>
    do ps <- mapM parse_single (split_cs combined);
    match ps with
    | _ :: _ :: _ => Ok (TCompound op ps)
    | _ => Err E_Value                       (* CompoundLocation needs two parts *)
    end
  | (_, None) => Err E_Value                 (* unpacking a one-element split *)
  end.

(* the locations of Common/Loc.v (exact positions) as text locations and back *)
Definition join_text : str := [106; 111; 105; 110].
Definition tpart_of (p : part) : tpart := mkTpart (mkTpos 0 (ps p)) (mkTpos 0 (pe p)) (pst p).
Definition part_of (t : tpart) : part := mkPart (tv (tps t)) (tv (tpe t)) (tst t).
Definition tloc_of_loc (l : loc) : tloc :=
  match l with
  | [p] => TSingle (tpart_of p)
  | _ => TCompound join_text (map tpart_of l)
  end.
Definition loc_of_tloc (t : tloc) : loc :=
  match t with TSingle p => [part_of p] | TCompound _ ps => map part_of ps end.

(* ---------- the area skeleton of a record ---------- *)
(* lists are in stored order; the number of an item is its position + 1; cnums / rcands / rsubs
   are such numbers *)
Record proto := mkProto { ptag : Z; ploc : loc; pcore : loc }.
Record subr := mkSub { stag : Z; sloc : loc }.
Record cand := mkCand { ckind : Z; cnums : list Z; cloc : loc }.
Record regn := mkRegn { rcands : list Z; rsubs : list Z; rloc : loc }.
Record skel := mkSkel { protos : list proto; subs : list subr; cands : list cand; regns : list regn }.

(* CDSCollection.__lt__ without the `other in self` short cut (same-kind comparisons on reload:
   a freshly built collection is never a child of one of its own kind) *)
Definition lt_loc (a b : loc) : bool :=
  if contains a b && negb (contains b a) then true
  else if contains b a && negb (contains a b) then false  (* mirrored shortcut: repair of finding F53 / C10-F46 *)
  else C05.Model.pair_lt (C05.Model.comparator a) (C05.Model.comparator b).

(* a collection as seen by sorted(all_features): kind 0 subregion, 1 protocluster, 2 candidate,
   3 region; aidx = stored position; adesc = the collections reachable through _children *)
Record area := mkArea { akind : Z; aidx : Z; aaloc : loc; adesc : list (Z * Z) }.
Definition area_lt (a b : area) : bool :=
  if existsb (fun d => (fst d =? akind b) && (snd d =? aidx b)) (adesc a) then true
  else lt_loc (aaloc a) (aaloc b).

Fixpoint number_from {A} (i : Z) (l : list A) : list (Z * A) :=
  match l with [] => [] | x :: r => (i, x) :: number_from (i + 1) r end.

Definition nth_z {A} (l : list A) (i : Z) : option A :=
  if i <? 0 then None else nth_error l (Z.to_nat i).

Definition cand_desc (c : cand) : list (Z * Z) := map (fun n => (1, n - 1)) (cnums c).
Definition regn_desc (R : skel) (r : regn) : list (Z * Z) :=
  map (fun n => (0, n - 1)) (rsubs r) ++
  flat_map (fun n => (2, n - 1) :: match nth_z (cands R) (n - 1) with
                                   | Some c => cand_desc c | None => [] end) (rcands r).

Definition areas_of (R : skel) : list area :=
  map (fun x => mkArea 0 (fst x) (sloc (snd x)) []) (number_from 0 (subs R)) ++
  map (fun x => mkArea 1 (fst x) (ploc (snd x)) []) (number_from 0 (protos R)) ++
  map (fun x => mkArea 2 (fst x) (cloc (snd x)) (cand_desc (snd x))) (number_from 0 (cands R)) ++
  map (fun x => mkArea 3 (fst x) (rloc (snd x)) (regn_desc R (snd x))) (number_from 0 (regns R)).

(* sorted() as CPython 3.12 runs it on fewer than 64 elements (listobject.c: count_run, then
   binarysort over the rest).  Only `x < y` is ever asked, so the result is defined even where
   CDSCollection.__lt__ is not a strict weak order (a candidate and a protocluster of equal extent). *)
Fixpoint run_asc {A} (lt : A -> A -> bool) (prev : A) (l : list A) (n : nat) : nat :=
  match l with [] => n | x :: r => if lt x prev then n else run_asc lt x r (S n) end.
Fixpoint run_desc {A} (lt : A -> A -> bool) (prev : A) (l : list A) (n : nat) : nat :=
  match l with [] => n | x :: r => if lt x prev then run_desc lt x r (S n) else n end.
Definition count_run {A} (lt : A -> A -> bool) (l : list A) : nat * bool :=
  match l with
  | [] => (O, false)
  | [x] => (1%nat, false)
  | x :: y :: r => if lt y x then (run_desc lt y r 2, true) else (run_asc lt y r 2, false)
  end.
(* binarysort's search: the leftmost position after every element the pivot is not less than *)
Fixpoint bin_go {A} (ltp : A -> bool) (l : list A) (fuel : nat) (lo hi : nat) : nat :=
  match fuel with
  | O => lo
  | S f =>
    if Nat.ltb lo hi then
      let mid := (lo + Nat.div2 (hi - lo))%nat in
      match nth_error l mid with
      | Some e => if ltp e then bin_go ltp l f lo mid else bin_go ltp l f (S mid) hi
      | None => lo
      end
    else lo
  end.
Definition bin_insert {A} (lt : A -> A -> bool) (sorted : list A) (pivot : A) : list A :=
  C05.Model.insert_at (bin_go (fun e => lt pivot e) sorted (S (length sorted)) 0 (length sorted)) pivot sorted.
Definition py_sorted {A} (lt : A -> A -> bool) (l : list A) : list A :=
  let '(n, descending) := count_run lt l in
  let run := firstn n l in
  fold_left (bin_insert lt) (skipn n l) (if descending then rev run else run).

(* Record.to_biopython: the order in which the collections are written *)
Definition file_order (R : skel) : list area := py_sorted area_lt (areas_of R).
Definition order_of_kind (k : Z) (f : list area) : list Z :=
  map aidx (filter (fun a => akind a =? k) f).
Definition pick {A} (l : list A) (idxs : list Z) : list A :=
  flat_map (fun i => match nth_z l i with Some x => [x] | None => [] end) idxs.

(* what the file says about the collections, per kind in file order *)
Record fproto := mkFproto { ftag : Z; floc : loc; fcore : str }.
Record gbfile := mkFile { fprotos : list fproto; fsubs : list subr; fcands : list cand; fregns : list regn }.

Definition dump (R : skel) : gbfile :=
  let f := file_order R in
  mkFile (map (fun p => mkFproto (ptag p) (ploc p) (loc_str (tloc_of_loc (pcore p))))
              (pick (protos R) (order_of_kind 1 f)))
         (pick (subs R) (order_of_kind 0 f))
         (pick (cands R) (order_of_kind 2 f))
         (pick (regns R) (order_of_kind 3 f)).

(* ---------- reload ---------- *)
(* `except ValueError as err: raise SecmetInvalidInputError(...)` *)
Definition wrapV {A} (r : res A) : res A :=
  match r with Err k => if k =? E_Value then Err E_SecmetInvalid else Err k | Ok a => Ok a end.

Definition insert_sorted {A} (locf : A -> loc) (l : list A) (x : A) : list A :=
  C05.Model.insert_at (C05.Model.bisect_left (fun e => lt_loc (locf e) (locf x)) l) x l.

(* assert location.start >= 0 ; assert location.end <= len(record) *)
Definition in_record_check (n : Z) (l : loc) : res unit :=
  if lstart l <? 0 then Err E_Assert else if n <? lend l then Err E_Assert else Ok tt.

(* Protocluster.from_biopython + Protocluster.__init__ *)
Definition build_proto (f : fproto) : res proto :=
  do t <- loc_from_string (fcore f);
  let core := loc_of_tloc t in
  if bridges core && negb (bridges (floc f)) then Err E_Value else
  if (length (floc f) <? length core)%nat then Err E_Assert else
  do _ <- C05.Model.check_collection_loc (floc f);
  Ok (mkProto (ftag f) (floc f) core).
Definition reload_proto (n : Z) (acc : res (list proto)) (f : fproto) : res (list proto) :=
  do l <- acc;
  do p <- wrapV (build_proto f);
  do _ <- in_record_check n (ploc p);
  Ok (insert_sorted ploc l p).

Definition reload_sub (n : Z) (acc : res (list subr)) (s : subr) : res (list subr) :=
  do l <- acc;
  do _ <- wrapV (C05.Model.check_collection_loc (sloc s));
  do _ <- in_record_check n (sloc s);
  Ok (insert_sorted sloc l s).

(* a Python list indexed with a possibly negative int *)
Definition py_index {A} (l : list A) (i : Z) : res A :=
  let i' := if i <? 0 then i + zlen l else i in
  match nth_z l i' with Some x => Ok x | None => Err E_Index end.

(* max(numbers) > len(all) ; max([]) raises ValueError *)
Definition check_numbers (nums : list Z) (len : Z) : res unit :=
  match nums with
  | [] => Err E_Value
  | _ => if len <? lmax nums then Err E_Value else Ok tt
  end.

(* CDSCollection.__init__ with children: location checks, then child.parent = self asserts that
   the child is contained *)
Definition check_collection (l : loc) (children : list loc) : res unit :=
  do _ <- C05.Model.check_collection_loc l;
  if forallb (fun c => contains l c) children then Ok tt else Err E_Assert.

(* CandidateCluster.from_biopython + __init__ *)
Definition build_cand (n : Z) (all : list proto) (c : cand) : res cand :=
  do _ <- check_numbers (cnums c) (zlen all);
  do children <- mapM (fun num => py_index all (num - 1)) (cnums c);
  do l <- connect_locations (map ploc children) (Some n);
  do _ <- check_collection l (map ploc children);
  Ok (mkCand (ckind c) (cnums c) l).
Definition reload_cand (n : Z) (all : list proto) (acc : res (list cand)) (c : cand) : res (list cand) :=
  do l <- acc;
  do c' <- wrapV (build_cand n all c);
  do _ <- in_record_check n (cloc c');
  Ok (insert_sorted cloc l c').

(* Region.from_biopython + __init__ *)
Definition build_regn (allc : list cand) (alls : list subr) (r : regn) : res regn :=
  do _ <- match rcands r with [] => Ok tt | _ => check_numbers (rcands r) (zlen allc) end;
  do _ <- match rsubs r with [] => Ok tt | _ => check_numbers (rsubs r) (zlen alls) end;
  do cs <- mapM (fun num => py_index allc (num - 1)) (rcands r);
  do ss <- mapM (fun num => py_index alls (num - 1)) (rsubs r);
  let locations := map sloc ss ++ map cloc cs in
  match locations with
  | [] => Err E_Value
  | _ =>
    let wrap := if existsb bridges locations
                then Some (lmax (map (fun l => match l with p :: _ => pe p | [] => 0 end) locations))
                else None in
    do l <- connect_locations locations wrap;
    do _ <- check_collection l locations;
    Ok (mkRegn (rcands r) (rsubs r) l)
  end.
(* add_region: `regions cannot overlap` when ANY existing region overlaps the new one, then the index of the first
   existing region the new one is less than *)
Fixpoint region_pos (l : list regn) (x : regn) (i : nat) : nat :=
  match l with
  | [] => i
  | e :: rest => if lt_loc (rloc x) (rloc e) then i else region_pos rest x (S i)
  end.
Definition region_index (l : list regn) (x : regn) (i : nat) : res nat :=
  if existsb (fun e => overlap (rloc x) (rloc e)) l then Err E_Value else Ok (region_pos l x i).
Definition reload_regn (n : Z) (allc : list cand) (alls : list subr) (acc : res (list regn)) (r : regn)
  : res (list regn) :=
  do l <- acc;
  do r' <- wrapV (build_regn allc alls r);
  do _ <- in_record_check n (rloc r');
  do i <- wrapV (region_index l r' 0);
  Ok (C05.Model.insert_at i r' l).

(* Record.from_biopython, collections only: protoclusters and subregions first (their relative file
   order does not matter to each other), then the postponed candidates, then the regions *)
Definition reload (n : Z) (f : gbfile) : res skel :=
  do ps <- fold_left (reload_proto n) (fprotos f) (Ok []);
  do ss <- fold_left (reload_sub n) (fsubs f) (Ok []);
  do cs <- fold_left (reload_cand n ps) (fcands f) (Ok []);
  do rs <- fold_left (reload_regn n cs ss) (fregns f) (Ok []);
  Ok (mkSkel ps ss cs rs).

Definition roundtrip (n : Z) (R : skel) : res skel := reload n (dump R).

(* ---------- the observable content (cross references resolved to tags) ---------- *)
Definition loc_list_eqb (a b : list loc) : bool := list_eqb loc_eqb a b.
Definition zlist_eqb (a b : list Z) : bool := list_eqb Z.eqb a b.

Definition proto_eqb (a b : proto) : bool :=
  (ptag a =? ptag b) && loc_eqb (ploc a) (ploc b) && loc_eqb (pcore a) (pcore b).
Definition sub_eqb (a b : subr) : bool := (stag a =? stag b) && loc_eqb (sloc a) (sloc b).
Definition cand_eqb (a b : cand) : bool :=
  (ckind a =? ckind b) && zlist_eqb (cnums a) (cnums b) && loc_eqb (cloc a) (cloc b).
Definition regn_eqb (a b : regn) : bool :=
  zlist_eqb (rcands a) (rcands b) && zlist_eqb (rsubs a) (rsubs b) && loc_eqb (rloc a) (rloc b).
(* numbers resolve by position, so two skeletons with equal lists have equal cross references *)
Definition skel_eqb (a b : skel) : bool :=
  list_eqb proto_eqb (protos a) (protos b) && list_eqb sub_eqb (subs a) (subs b) &&
  list_eqb cand_eqb (cands a) (cands b) && list_eqb regn_eqb (regns a) (regns b).

Definition fproto_eqb (a b : fproto) : bool :=
  (ftag a =? ftag b) && loc_eqb (floc a) (floc b) && str_eqb (fcore a) (fcore b).
Definition file_eqb (a b : gbfile) : bool :=
  list_eqb fproto_eqb (fprotos a) (fprotos b) && list_eqb sub_eqb (fsubs a) (fsubs b) &&
  list_eqb cand_eqb (fcands a) (fcands b) && list_eqb regn_eqb (fregns a) (fregns b).

(* the collection features of the two files are the same, including the numbers they carry
   (protocluster_number ... region_number = stored position + 1 of the feature written at that place) *)
Definition files_same (a b : skel) : bool :=
  file_eqb (dump a) (dump b) &&
  zlist_eqb (order_of_kind 1 (file_order a)) (order_of_kind 1 (file_order b)) &&
  zlist_eqb (order_of_kind 0 (file_order a)) (order_of_kind 0 (file_order b)) &&
  zlist_eqb (order_of_kind 2 (file_order a)) (order_of_kind 2 (file_order b)) &&
  zlist_eqb (order_of_kind 3 (file_order a)) (order_of_kind 3 (file_order b)).

(* ---------- the guard of the relink theorem (decidable; evaluated on every case) ---------- *)
Fixpoint strictly_sorted {A} (lt : A -> A -> bool) (l : list A) : bool :=
  match l with
  | [] => true
  | x :: r => forallb (fun y => lt x y) r && strictly_sorted lt r
  end.
Fixpoint upto (i : Z) (n : nat) : list Z :=
  match n with O => [] | S m => i :: upto (i + 1) m end.

(* the file keeps every kind in stored order *)
Definition order_kept (R : skel) : bool :=
  let f := file_order R in
  zlist_eqb (order_of_kind 1 f) (upto 0 (length (protos R))) &&
  zlist_eqb (order_of_kind 0 f) (upto 0 (length (subs R))) &&
  zlist_eqb (order_of_kind 2 f) (upto 0 (length (cands R))) &&
  zlist_eqb (order_of_kind 3 f) (upto 0 (length (regns R))).

Definition part_ok (p : part) : bool :=
  (0 <=? ps p) && (ps p <=? pe p) && ((pst p =? 1) || (pst p =? -1) || (pst p =? 0) || (pst p =? 2)).
Definition core_ok (l : loc) : bool := nonempty l && forallb part_ok l.

Definition proto_ok (n : Z) (p : proto) : bool :=
  core_ok (pcore p) &&
  match build_proto (mkFproto (ptag p) (ploc p) (loc_str (tloc_of_loc (pcore p)))) with
  | Ok _ => match in_record_check n (ploc p) with Ok _ => true | Err _ => false end
  | Err _ => false
  end.
Definition sub_ok (n : Z) (s : subr) : bool :=
  match C05.Model.check_collection_loc (sloc s), in_record_check n (sloc s) with
  | Ok _, Ok _ => true
  | _, _ => false
  end.
Definition cand_ok (n : Z) (all : list proto) (c : cand) : bool :=
  match build_cand n all c with
  | Ok c' => cand_eqb c' c && match in_record_check n (cloc c) with Ok _ => true | Err _ => false end
  | Err _ => false
  end.
Definition regn_ok (n : Z) (allc : list cand) (alls : list subr) (r : regn) : bool :=
  match build_regn allc alls r with
  | Ok r' => regn_eqb r' r && match in_record_check n (rloc r) with Ok _ => true | Err _ => false end
  | Err _ => false
  end.
(* stored regions: pairwise disjoint, and no later one is less than an earlier one *)
Fixpoint regns_sorted (l : list regn) : bool :=
  match l with
  | [] => true
  | x :: r => forallb (fun y => negb (overlap (rloc y) (rloc x)) && negb (lt_loc (rloc y) (rloc x))) r
              && regns_sorted r
  end.

(* no two members of a kind have equal sort keys: each kind is strictly increasing *)
Definition no_ties (R : skel) : bool :=
  strictly_sorted (fun a b => lt_loc (ploc a) (ploc b)) (protos R) &&
  strictly_sorted (fun a b => lt_loc (sloc a) (sloc b)) (subs R) &&
  strictly_sorted (fun a b => lt_loc (cloc a) (cloc b)) (cands R).

(* CDSCollection.__lt__ answers "less" both ways for some pair of one kind (a collection covering
   the whole record as [0:N] against an origin-spanning one: contained, but with the later key) *)
Fixpoint no_mutual {A} (lt : A -> A -> bool) (l : list A) : bool :=
  match l with
  | [] => true
  | x :: r => forallb (fun y => negb (lt x y && lt y x)) r && no_mutual lt r
  end.
Definition lt_consistent (R : skel) : bool :=
  no_mutual (fun a b => lt_loc (ploc a) (ploc b)) (protos R) &&
  no_mutual (fun a b => lt_loc (sloc a) (sloc b)) (subs R) &&
  no_mutual (fun a b => lt_loc (cloc a) (cloc b)) (cands R).

Definition items_ok (n : Z) (R : skel) : bool :=
  forallb (proto_ok n) (protos R) && forallb (sub_ok n) (subs R) &&
  forallb (cand_ok n (protos R)) (cands R) &&
  forallb (regn_ok n (cands R) (subs R)) (regns R) && regns_sorted (regns R).

Definition guard (n : Z) (R : skel) : bool := items_ok n R && no_ties R && order_kept R.

(* ---------- flat encoding ---------- *)
Definition dStr : dec str := dList dZ.
Definition eStr (s : str) : list Z := eList (fun c => [c]) s.

Definition dTpos : dec tpos := fun l => match l with a :: b :: r => Some (mkTpos a b, r) | _ => None end.
Definition dTpart : dec tpart := fun l =>
  match dPair dTpos dTpos l with
  | Some ((a, b), st :: r) => Some (mkTpart a b st, r)
  | _ => None
  end.
(* tloc ::= 0 part | 1 operator parts *)
Definition dTloc : dec tloc := fun l =>
  match l with
  | 0 :: r => match dTpart r with Some (p, r') => Some (TSingle p, r') | None => None end
  | 1 :: r => match dPair dStr (dList dTpart) r with
              | Some ((op, ps), r') => Some (TCompound op ps, r') | None => None end
  | _ => None
  end.
Definition eTpos (p : tpos) : list Z := [tk p; tv p].
Definition eTpart (p : tpart) : list Z := eTpos (tps p) ++ eTpos (tpe p) ++ [tst p].
Definition eTloc (t : tloc) : list Z :=
  match t with
  | TSingle p => 0 :: eTpart p
  | TCompound op ps => 1 :: eStr op ++ eList eTpart ps
  end.

Definition dProto : dec proto := fun l =>
  match l with
  | t :: r => match dPair dLoc dLoc r with Some ((a, b), r') => Some (mkProto t a b, r') | None => None end
  | [] => None
  end.
Definition dSub : dec subr := fun l =>
  match l with
  | t :: r => match dLoc r with Some (a, r') => Some (mkSub t a, r') | None => None end
  | [] => None
  end.
Definition dCand : dec cand := fun l =>
  match l with
  | k :: r => match dPair (dList dZ) dLoc r with Some ((ns, a), r') => Some (mkCand k ns a, r') | None => None end
  | [] => None
  end.
Definition dRegn : dec regn := fun l =>
  match dPair (dPair (dList dZ) (dList dZ)) dLoc l with
  | Some ((cs, ss, a), r') => Some (mkRegn cs ss a, r')
  | None => None
  end.
Definition dSkel : dec skel := fun l =>
  match dPair (dPair (dList dProto) (dList dSub)) (dPair (dList dCand) (dList dRegn)) l with
  | Some ((ps, ss, (cs, rs)), r') => Some (mkSkel ps ss cs rs, r')
  | None => None
  end.

Definition eZs (l : list Z) : list Z := eList (fun c => [c]) l.
Definition eProto (p : proto) : list Z := ptag p :: eLoc (ploc p) ++ eLoc (pcore p).
Definition eSub (s : subr) : list Z := stag s :: eLoc (sloc s).
Definition eCand (c : cand) : list Z := ckind c :: eZs (cnums c) ++ eLoc (cloc c).
Definition eRegn (r : regn) : list Z := eZs (rcands r) ++ eZs (rsubs r) ++ eLoc (rloc r).
Definition eSkel (R : skel) : list Z :=
  eList eProto (protos R) ++ eList eSub (subs R) ++ eList eCand (cands R) ++ eList eRegn (regns R).
(* the order in which each kind is written: tags for protoclusters and subregions, stored
   positions for candidates and regions *)
Definition eOrder (R : skel) : list Z :=
  let f := file_order R in
  eZs (map ptag (pick (protos R) (order_of_kind 1 f))) ++
  eZs (map stag (pick (subs R) (order_of_kind 0 f))) ++
  eZs (order_of_kind 2 f) ++ eZs (order_of_kind 3 f).

(* fn 5: [file order] ++ result of the reload ++ (when it succeeds) [same skeleton?; second file
   identical to the first?] *)
Definition run_roundtrip (n : Z) (R : skel) : list Z :=
  eOrder R ++
  match roundtrip n R with
  | Ok R' => 0 :: eSkel R' ++ eBool (skel_eqb R' R) ++ eBool (files_same R' R)
  | Err k => [1; k]
  end.

(* ---------- qualifier-level codecs (antiSMASH logic, strings as character codes) ---------- *)

(* s.startswith(p) *)
Fixpoint starts_with (p s : str) : bool :=
  match p with
  | [] => true
  | c :: p' => match s with x :: s' => (x =? c) && starts_with p' s' | [] => false end
  end.

(* s.split(": ", 1): Some (text before the first ": ", text after it), None when there is none *)
Fixpoint split_colon_space (s : str) : option (str * str) :=
  match s with
  | [] => None
  | x :: r =>
    match r with
    | y :: r' => if (x =? 58) && (y =? 32) then Some ([], r')
                 else match split_colon_space r with Some (a, b) => Some (x :: a, b) | None => None end
    | [] => None
    end
  end.

(* "externally annotated" (the dispatch test) and "externally annotated by: " (the written prefix) *)
Definition ext_prefix : str :=
  [101; 120; 116; 101; 114; 110; 97; 108; 108; 121; 32; 97; 110; 110; 111; 116; 97; 116; 101; 100].
Definition ext_label : str := ext_prefix ++ [32; 98; 121; 58; 32].

(* SideloadedSubRegion.to_biopython / SideloadedProtocluster.to_biopython:
   qualifiers["aStool"] = [f"externally annotated by: {self.tool}"];  SubRegion / Protocluster: [self.tool] *)
Definition astool_text (sideloaded : bool) (tool : str) : str :=
  if sideloaded then ext_label ++ tool else tool.

(* SubRegion.from_biopython / Protocluster.from_biopython on the aStool qualifier (called without a feature):
     not feature and tool.startswith("externally annotated") -> Sideloaded*.from_biopython(bio_feature):
         tool = tool.split(": ", 1)[1]            (IndexError without ": ")
         leftovers["aStool"] = [tool]; feature = cls(..., tool, ...)
         super().from_biopython(bio_feature, feature=feature, leftovers=leftovers):
             a feature is passed in, so the startswith test is not made again (repaired finding C10-F62:
             it was, and a recovered name with that prefix recursed until RecursionError); the parent
             reader only takes its own qualifiers
     otherwise the qualifier is the tool of an ordinary area.
   Result: (is sideloaded, tool name). *)
Definition astool_decode (text : str) : res (bool * str) :=
  if starts_with ext_prefix text then
    match split_colon_space text with
    | None => Err E_Index
    | Some (_, tool) => Ok (true, tool)
    end
  else Ok (false, text).

(* [str(n) for n in numbers] / [int(text) for text in qualifier]: protoclusters,
   candidate_cluster_numbers, subregion_numbers *)
Definition numbers_text (l : list Z) : list str := map str_of_int l.
Definition numbers_parse (l : list str) : res (list Z) := mapM parse_int l.

(* secmet.py: _parse_format(fmt, data) for formats made of literal text and "{}" fields.  The regular
   expression built from the format is ^ items $ where every "{}" is (.+?) (non-greedy, "." does not
   match a newline), every space of the format is optional ("\ ?", greedy) and "$" also matches before
   a final newline.  pmatch is the leftmost/backtracking search of Python's re on that shape. *)
Inductive pitem := PLit (c : Z) | POptSpace | PGroup.

Definition at_end (s : str) : bool := match s with [] => true | [c] => c =? 10 | _ => false end.

Fixpoint pmatch (pat : list pitem) (s : str) {struct pat} : option (list str) :=
  match pat with
  | [] => if at_end s then Some [] else None
  | PLit c :: p => match s with x :: r => if x =? c then pmatch p r else None | [] => None end
  | POptSpace :: p =>
    match s with
    | x :: r => if x =? 32 then match pmatch p r with Some g => Some g | None => pmatch p s end
                else pmatch p s
    | [] => pmatch p s
    end
  | PGroup :: p =>
    (fix grp (acc : str) (s : str) {struct s} : option (list str) :=
       match s with
       | [] => None
       | x :: r => if x =? 10 then None else
                   match pmatch p r with
                   | Some g => Some (rev (x :: acc) :: g)
                   | None => grp (x :: acc) r
                   end
       end) [] s
  end.

(* a format string -> items: "{}" is a field, " " an optional space, anything else literal
   (formats with "{{", "}}" or ":d" fields are not used by the qualifiers modelled here) *)
Fixpoint pat_of_format (fmt : str) : list pitem :=
  match fmt with
  | [] => []
  | c :: r =>
    match r with
    | d :: r' => if (c =? 123) && (d =? 125) then PGroup :: pat_of_format r'
                 else if c =? 32 then POptSpace :: pat_of_format r else PLit c :: pat_of_format r
    | [] => if c =? 32 then [POptSpace] else [PLit c]
    end
  end.

(* "{} ({}) {}: {}" and "{} ({}) {}" *)
Definition gf_format4 : str := [123; 125; 32; 40; 123; 125; 41; 32; 123; 125; 58; 32; 123; 125].
Definition gf_format3 : str := [123; 125; 32; 40; 123; 125; 41; 32; 123; 125].
(* SecMetQualifier.Domain.qualifier_label = "{} (E-value: {}, bitscore: {}, seeds: {}, tool: {})" *)
Definition domain_format : str :=
  [123; 125] ++ [32; 40; 69; 45; 118; 97; 108; 117; 101; 58; 32] ++ [123; 125] ++
  [44; 32; 98; 105; 116; 115; 99; 111; 114; 101; 58; 32] ++ [123; 125] ++
  [44; 32; 115; 101; 101; 100; 115; 58; 32] ++ [123; 125] ++ [44; 32; 116; 111; 111; 108; 58; 32] ++ [123; 125] ++ [41].

Definition parse_format (fmt data : str) : res (list str) :=
  match pmatch (pat_of_format fmt) data with Some g => Ok g | None => Err E_Value end.

(* str(GeneFunction): OTHER 0, CORE 1, ADDITIONAL 2, TRANSPORT 3, REGULATORY 4, RESISTANCE 5 *)
Definition gf_names : list (Z * str) :=
  [(0, [111; 116; 104; 101; 114]);
   (1, [98; 105; 111; 115; 121; 110; 116; 104; 101; 116; 105; 99]);
   (2, [98; 105; 111; 115; 121; 110; 116; 104; 101; 116; 105; 99; 45; 97; 100; 100; 105; 116; 105; 111; 110; 97; 108]);
   (3, [116; 114; 97; 110; 115; 112; 111; 114; 116]);
   (4, [114; 101; 103; 117; 108; 97; 116; 111; 114; 121]);
   (5, [114; 101; 115; 105; 115; 116; 97; 110; 99; 101])].
Definition gf_name (f : Z) : str :=
  match find (fun e => fst e =? f) gf_names with Some e => snd e | None => [] end.
(* GeneFunction.from_string *)
Definition gf_from_string (label : str) : res Z :=
  match find (fun e => str_eqb (snd e) label) gf_names with Some e => Ok (fst e) | None => Err E_Value end.

(* _GeneFunctionAnnotation *)
Record gfa := mkGfa { gfun : Z; gtool : str; gproduct : option str; gdesc : str }.

(* str.split() separators among the ASCII codes *)
Definition is_space (c : Z) : bool := ((9 <=? c) && (c <=? 13)) || ((28 <=? c) && (c <=? 32)).
(* len(tool.split()) *)
Fixpoint count_tokens (in_token : bool) (s : str) : nat :=
  match s with
  | [] => O
  | c :: r => if is_space c then count_tokens false r
              else ((if in_token then 0 else 1) + count_tokens true r)%nat
  end.

(* __str__ *)
Definition gfa_text (g : gfa) : str :=
  gf_name (gfun g) ++ [32; 40] ++ gtool g ++ [41; 32] ++
  match gproduct g with
  | Some p => match p with [] => gdesc g | _ => p ++ [58; 32] ++ gdesc g end
  | None => gdesc g
  end.

(* __init__ after GeneFunction.from_string: the asserts, then CORE needs a product *)
Definition gfa_build (label tool desc : str) (product : option str) : res gfa :=
  do f <- gf_from_string label;
  match tool with
  | [] => Err E_Assert
  | _ => if negb (Nat.eqb (count_tokens false tool) 1) then Err E_Assert else
         match desc with
         | [] => Err E_Assert
         | _ => if (f =? 1) && match product with Some (_ :: _) => false | _ => true end then Err E_Value
                else Ok (mkGfa f tool product desc)
         end
  end.

(* from_string: the four-field format first, the three-field format when that does not match *)
Definition gfa_parse (text : str) : res gfa :=
  match pmatch (pat_of_format gf_format4) text with
  | Some [f; t; p; d] => gfa_build f t d (Some p)
  | _ => match pmatch (pat_of_format gf_format3) text with
         | Some [f; t; d] => gfa_build f t d None
         | _ => Err E_Value
         end
  end.

(* ---------- generic features on the read path (Record.from_biopython) ---------- *)

(* location_bridges_origin(location, allow_reversing): the answer AND the location as the call leaves it.  With
   allow_reversing a reverse-strand location whose exon order is "invalid for the strand" is reversed IN PLACE
   (location.parts.reverse()); when the reversed order is valid it stays reversed and the answer is False, otherwise it
   is swapped back.  Without allow_reversing nothing is written.  (Common/Loc.v: bridges = the answer for False.) *)
Definition bridges_origin (allow : bool) (l : loc) : bool * loc :=
  if negb (is_compound l) then (false, l) else
  let st := lstrand l in
  if negb ((st =? 1) || (st =? -1)) then (negb (sorted_le (map ps l)), l) else
  if check_order st l then
    if allow && (st =? -1) then
      if negb (check_order st (rev l)) then (false, rev l) else (true, l)
    else (true, l)
  else (false, l).

(* location_contains_overlapping_exons: exons sharing an end coordinate *)
Fixpoint has_dup (l : list Z) : bool :=
  match l with [] => false | x :: r => existsb (Z.eqb x) r || has_dup r end.
Definition overlapping_exons (l : loc) : bool := is_compound l && has_dup (map pe l).

(* feature types as far as the read path distinguishes them: 0 "misc_feature", 1 any other type that becomes a plain
   Feature (regulatory, repeat_region, tRNA, mobile_element, ...), 2 "gene" *)
Definition T_misc := 0.
Definition T_gene := 2.

(* Record.from_biopython(seq_record, "bacteria") on one feature of a record of length n, as far as its location goes:
     ensure_valid_locations(features, can_be_circular=True, n): end > n, exons sharing an end -> ValueError ->
         SecmetInvalidInputError; (can_be_circular: return before the exon-order tests);
     a multi-part location from 0 to n on a linear record -> SecmetInvalidInputError;
     the NCBI-Pfam prefilter: misc_feature and location_bridges_origin(location, allow_reversing=False)
         -> remove_redundant_exons;
     add_biopython_feature -> Feature.__init__ (negative start: ValueError -> SecmetInvalidInputError)
         -> add_feature / add_gene -> ensure_valid_locations([feature], record.is_circular(), n): only for a gene with a
         strand on a linear record whose exon order bridges: location_bridges_origin(location, allow_reversing=True)
         (reverses in place when that helps, ValueError -> SecmetInvalidInputError when not).
   This is the location the record holds once the feature is added. *)
Definition read_feature_added (n : Z) (circular : bool) (ty : Z) (l : loc) : res loc :=
  if n <? lend l then Err E_SecmetInvalid else
  if overlapping_exons l then Err E_SecmetInvalid else
  if is_compound l && (lstart l =? 0) && (lend l =? n) && negb circular then Err E_SecmetInvalid else
  let l1 := if (ty =? T_misc) && fst (bridges_origin false l) then remove_redundant_exons l else l in
  if lstart l1 <? 0 then Err E_SecmetInvalid else
  if (ty =? T_gene) && negb circular && ((lstrand l1 =? 1) || (lstrand l1 =? -1)) && fst (bridges_origin false l1) then
    let '(still, l2) := bridges_origin true l1 in
    if still then Err E_SecmetInvalid else Ok l2
  else Ok l1.

(* what Feature.__lt__ and CDSCollection.__lt__ need of a location: when location_bridges_origin answers True,
   split_origin_bridging_location must accept the exon order (one run in strand order before the origin, one after it,
   one strand); otherwise get_comparator raises ValueError inside sorted() / bisect *)
Definition sortable (l : loc) : bool :=
  if bridges l then match split_bridging l with Ok _ => true | Err _ => false end else true.

(* Record.from_biopython, last step (repair of finding C10-F65 unsortable_exon_order_accepted):
     for added in record.all_features:
         if location_bridges_origin(added.location):
             split_origin_bridging_location(added.location)      ValueError -> SecmetInvalidInputError
   a location whose exon order is neither the strand's nor a split over the origin is refused on reading (it was
   accepted, and the record could then never be written: Feature.__lt__ raised inside sorted(all_features)). *)
Definition read_feature_loc (n : Z) (circular : bool) (ty : Z) (l : loc) : res loc :=
  do l' <- read_feature_added n circular ty l;
  if sortable l' then Ok l' else Err E_SecmetInvalid.

(* the locations a record can hold and write: no exon inside another one (what the prefilter removes), and - for a gene
   on a linear record - exons in the order of the strand (what add_gene itself enforces) *)
Fixpoint nested_free (l : loc) : bool :=
  match l with
  | [] => true
  | p :: r => forallb (fun q => negb (part_contains p q) && negb (part_contains q p)) r && nested_free r
  end.
Definition writable (circular : bool) (ty : Z) (l : loc) : bool :=
  nested_free l && (negb ((ty =? T_gene) && negb circular) || negb (bridges l)).

(* the property on one feature: a location that a record can hold comes back as it was *)
Definition read_spec_ok (circular : bool) (ty : Z) (l : loc) (out : res loc) : bool :=
  negb (writable circular ty l) ||
  match out with Ok l' => loc_eqb l' l | Err _ => true end.

(* ---------- CDS features: Record.add_cds_feature on reload ---------- *)
(* bisect.bisect_right(self._cds_features, cds) with Feature.__lt__ (sort key (start, len(location)), the start of an
   origin-crossing location being lowest start - highest end of its pre-origin exons; C04.Model.cmp_key 1).  The
   comparison raises ValueError when split_origin_bridging_location refuses the exon order (no location read from a
   file is of that kind any more: read_feature_loc / C10_read_is_sortable; add_cds_feature can still be handed one).
   bisect_right (repair of finding C10-F47 equal_key_genes_order; it was bisect_left): `if x < a[mid]: hi = mid else:
   lo = mid + 1`, i.e. the binary search of C05.Model.bisect_go with the test "not (new < stored)": a CDS goes AFTER
   the stored ones with an equal key, so features with equal keys stay in arrival order = file order. *)
Definition feature_key (l : loc) : res (Z * Z) := C04.Model.cmp_key 1 l.
Definition insert_cds (acc : res (list loc)) (x : loc) : res (list loc) :=
  do l <- acc;
  match l with
  | [] => Ok [x]
  | _ =>
    do kx <- feature_key x;
    do ks <- mapM feature_key l;
    Ok (C05.Model.insert_at (C05.Model.bisect_left (fun ke => negb (C04.Model.pair_lt kx ke)) ks) x l)
  end.
(* the CDS features of a file, re-added in file order *)
Definition cds_reload (file : list loc) : res (list loc) := fold_left insert_cds file (Ok []).

(* keys never decrease along the list (equal neighbours allowed) *)
Fixpoint weakly_sorted (l : list (Z * Z)) : bool :=
  match l with
  | a :: (b :: _) as r => negb (C04.Model.pair_lt b a) && weakly_sorted r
  | _ => true
  end.

(* the stored list is what re-adding it gives: the CDS part of the fixed point *)
Definition cds_spec_ok (stored : list loc) : bool :=
  match cds_reload stored with Ok l => list_eqb loc_eqb l stored | Err _ => false end.


(* ---------- optional qualifiers ---------- *)
(* a qualifier as the qualifier dictionary of a SeqFeature holds it: None = the key is absent, Some l = its value list *)
Definition qual := option (list str).

(* the "is not None" pattern:
     AntismashFeature.to_biopython   if self.score is not None:  mine["score"] = [str(self.score)]
                                     if self.evalue is not None: mine["evalue"] = [f"{self.evalue:.2E}"]
     Feature.to_biopython            if self._original_codon_start is not None: quals["codon_start"] = [str(start + 1)]
     CandidateCluster.to_biopython   if self.smiles_structure is not None: qualifiers["SMILES"] = [...]; same for polymer
   fmt is the text form of the value (Python's float formatting is third party: for floats the harness supplies the
   text and fmt is the identity) *)
Definition optq_write {A} (fmt : A -> str) (v : option A) : qual :=
  match v with Some x => Some [fmt x] | None => None end.
(* AntismashFeature.from_biopython   if "evalue" in leftovers: feature.evalue = float(leftovers.pop("evalue")[0])
   Feature.from_biopython            if "codon_start" in leftovers: start = leftovers.pop("codon_start")[0] ...
   ([0] of an empty list: IndexError) *)
Definition optq_read {A} (parse : str -> res A) (q : qual) : res (option A) :=
  match q with
  | None => Ok None
  | Some [] => Err E_Index
  | Some (t :: _) => do x <- parse t; Ok (Some x)
  end.

(* codon_start: the attribute holds int(text) - 1, the qualifier str(attribute + 1) *)
Definition codon_fmt (v : Z) : str := str_of_int (v + 1).
Definition codon_parse (t : str) : res Z := do n <- parse_int t; Ok (n - 1).

(* the truthiness pattern of the string attributes:
     AntismashFeature.to_biopython   if self.database: mine["database"] = [self.database]      (label, detection, ...)
     AntismashFeature.from_biopython feature.database = leftovers.pop("database", [""])[0] or None *)
Definition truthy_write (v : option str) : qual :=
  match v with Some (c :: s) => Some [c :: s] | _ => None end.
Definition truthy_read (q : qual) : res (option str) :=
  match q with
  | None => Ok None
  | Some [] => Err E_Index
  | Some (t :: _) => Ok (match t with [] => None | _ => Some t end)
  end.

Definition text_ok (t : str) : res str := Ok t.
Definition id_str (t : str) : str := t.

(* the property on one optional qualifier, evaluated on what an implementation wrote: reading it gives the value back *)
Definition optq_spec_ok {A} (eqb : A -> A -> bool) (parse : str -> res A) (v : option A) (written : qual) : bool :=
  match optq_read parse written, v with
  | Ok None, None => true
  | Ok (Some x), Some y => eqb x y
  | _, _ => false
  end.
Definition truthy_spec_ok (v : option str) (written : qual) : bool :=
  match v with
  | Some [] => true                                  (* outside the guard of C10_truthy_string_qualifier_partial *)
  | _ => match truthy_read written, v with
         | Ok None, None => true
         | Ok (Some x), Some y => str_eqb x y
         | _, _ => false
         end
  end.

Definition dQual : dec qual := dOpt (dList dStr).
Definition eQual (q : qual) : list Z := eOpt (eList eStr) q.

(* ---------- sorted(all_features): the comparison on the MIXED list ---------- *)
(* Record.to_biopython sorts collections and plain features together; `a < b` runs type(a).__lt__:
     a collection (mkind 2)  -> CDSCollection.__lt__ : containment short cuts both ways, key (start, -length)
     a plain feature (0), a source (1) -> Feature.__lt__ : key (start, length), a source first among equal keys
   (C04.Model.collection_lt / feature_lt on the locations; the `other in self` short cut of a collection for its own
   children is not represented: a child lies inside its parent, where the containment short cut answers the same
   unless the extents are equal).  A comparison that raises counts as "not less". *)
Record mfeat := mkMfeat { mkind : Z; mloc : loc }.
Definition mixed_lt (x y : mfeat) : bool :=
  match (if mkind x =? 2 then C04.Model.collection_lt (mloc x) (mloc y)
         else C04.Model.feature_lt (mkind x =? 1) (mloc x) (mloc y)) with
  | Ok b => b
  | Err _ => false
  end.
Definition is_coll (x : mfeat) : bool := mkind x =? 2.
(* a < b, b < c, not a < c, with collections and plain features both involved *)
Definition bad_triple (a b c : mfeat) : bool :=
  mixed_lt a b && mixed_lt b c && negb (mixed_lt a c) &&
  (is_coll a || is_coll b || is_coll c) && negb (is_coll a && is_coll b && is_coll c).
(* the class test of finding C10-F70 mixed_order_not_transitive, on the record's features (kind, location) *)
Definition has_bad_triple (l : list mfeat) : bool :=
  existsb (fun a =>
    let above := filter (fun b => mixed_lt a b) l in
    let notabove := filter (fun c => negb (mixed_lt a c)) l in
    existsb (fun b => existsb (fun c => bad_triple a b c) notabove) above) l.

Definition dMfeat : dec mfeat := fun l =>
  match l with
  | k :: r => match dLoc r with Some (x, r') => Some (mkMfeat k x, r') | None => None end
  | [] => None
  end.

Definition dGfa : dec gfa := fun l =>
  match l with
  | f :: r => match dPair dStr (dPair (dOpt dStr) dStr) r with
              | Some ((t, (p, d)), r') => Some (mkGfa f t p d, r') | None => None end
  | [] => None
  end.
Definition eGfa (g : gfa) : list Z := gfun g :: eStr (gtool g) ++ eOpt eStr (gproduct g) ++ eStr (gdesc g).

Definition run_C10 (fn : Z) (l : list Z) : list Z :=
  match fn with
  | 1 => match dTloc l with Some (t, []) => eStr (loc_str t) | _ => bad_input end
  | 2 => match dStr l with Some (s, []) => eRes eTloc (loc_from_string s) | _ => bad_input end
  | 3 => match l with [n] => eStr (str_of_int n) | _ => bad_input end
  | 4 => match dStr l with Some (s, []) => eRes (fun n => [n]) (parse_int s) | _ => bad_input end
  | 5 => match dPair dZ dSkel l with
         | Some ((n, R), []) => run_roundtrip n R
         | _ => bad_input end
  (* the guard of C10_relink, and the property itself evaluated on a (skeleton, reloaded skeleton)
     pair supplied by the harness *)
  | 6 => match dPair dZ dSkel l with
         | Some ((n, R), []) => eBool (guard n R) ++ eBool (no_ties R) ++ eBool (order_kept R) ++ eBool (items_ok n R) ++ eBool (lt_consistent R)
         | _ => bad_input end
  | 105 => match dPair dZ dSkel l with
           | Some ((n, R), r) =>
             match dPair (dPair (dList dZ) (dList dZ)) (dPair (dList dZ) (dList dZ)) r with
             | Some (_, flag :: r2) =>
               if flag =? 0 then
                 match dSkel r2 with Some (R', _) => eBool (skel_eqb R' R) | None => bad_input end
               else [0]
             | _ => bad_input
             end
           | _ => bad_input end
  | 7 => match l with
         | side :: r => match dStr r with Some (t, []) => eStr (astool_text (negb (side =? 0)) t) | _ => bad_input end
         | _ => bad_input end
  | 8 => match dStr l with
         | Some (s, []) => eRes (fun x => eBool (fst x) ++ eStr (snd x)) (astool_decode s)
         | _ => bad_input end
  | 9 => match dGfa l with Some (g, []) => eStr (gfa_text g) | _ => bad_input end
  | 10 => match dStr l with Some (s, []) => eRes eGfa (gfa_parse s) | _ => bad_input end
  | 11 => match dStr l with Some (s, []) => eRes (eList eStr) (parse_format domain_format s) | _ => bad_input end
  | 12 => match dList dStr l with Some (ss, []) => eRes eZs (numbers_parse ss) | _ => bad_input end
  (* location_bridges_origin(location, allow_reversing) -> answer, location afterwards *)
  | 13 => match l with
          | allow :: r => match dLoc r with
                          | Some (x, []) => let '(b, x') := bridges_origin (negb (allow =? 0)) x in eBool b ++ eLoc x'
                          | _ => bad_input end
          | _ => bad_input end
  (* Record.from_biopython on one feature: n, circular, type code, location -> location held by the record *)
  | 14 => match l with
          | n :: circ :: ty :: r => match dLoc r with
                                    | Some (x, []) => eRes eLoc (read_feature_loc n (negb (circ =? 0)) ty x)
                                    | _ => bad_input end
          | _ => bad_input end
  | 114 => match l with
           | n :: circ :: ty :: r => match dLoc r with
                                     | Some (x, out) =>
                                       match out with
                                       | 0 :: o => match dLoc o with
                                                   | Some (x', _) => eBool (read_spec_ok (negb (circ =? 0)) ty x (Ok x'))
                                                   | None => bad_input end
                                       | _ => [1]
                                       end
                                     | _ => bad_input end
           | _ => bad_input end
  (* CDS features added in the given order -> the stored list *)
  | 15 => match dList dLoc l with Some (xs, []) => eRes (eList eLoc) (cds_reload xs) | _ => bad_input end
  | 115 => match dList dLoc l with
           | Some (_, 0 :: o) => match dList dLoc o with
                                 | Some (stored, _) => eBool (cds_spec_ok stored)
                                 | None => bad_input end
           | Some (_, _) => [1]
           | None => bad_input end
  (* optional qualifiers.  16: a text-valued "is not None" qualifier written (kind is bookkeeping of the harness);
     17: read; 18 / 19: the truthiness pattern of string attributes; 20 / 21: codon_start *)
  | 16 => match l with
          | _kind :: r => match dOpt dStr r with Some (v, []) => eQual (optq_write id_str v) | _ => bad_input end
          | _ => bad_input end
  | 116 => match l with
           | _kind :: r => match dOpt dStr r with
                           | Some (v, o) => match dQual o with
                                            | Some (q, _) => eBool (optq_spec_ok str_eqb text_ok v q)
                                            | None => [0] end
                           | None => bad_input end
           | _ => bad_input end
  | 17 => match l with
          | _kind :: r => match dQual r with Some (q, []) => eRes (eOpt eStr) (optq_read text_ok q) | _ => bad_input end
          | _ => bad_input end
  | 18 => match l with
          | _kind :: r => match dOpt dStr r with Some (v, []) => eQual (truthy_write v) | _ => bad_input end
          | _ => bad_input end
  | 118 => match l with
           | _kind :: r => match dOpt dStr r with
                           | Some (v, o) => match dQual o with
                                            | Some (q, _) => eBool (truthy_spec_ok v q)
                                            | None => [0] end
                           | None => bad_input end
           | _ => bad_input end
  | 19 => match l with
          | _kind :: r => match dQual r with Some (q, []) => eRes (eOpt eStr) (truthy_read q) | _ => bad_input end
          | _ => bad_input end
  | 20 => match dOpt dZ l with Some (v, []) => eQual (optq_write codon_fmt v) | _ => bad_input end
  | 120 => match dOpt dZ l with
           | Some (v, o) => match dQual o with
                            | Some (q, _) => eBool (optq_spec_ok Z.eqb codon_parse v q)
                            | None => [0] end
           | None => bad_input end
  | 21 => match dQual l with Some (q, []) => eRes (eOpt (fun n => [n])) (optq_read codon_parse q) | _ => bad_input end
  (* 22: the class test of C10-F70 on a record's features; 23: one comparison on the mixed list *)
  | 22 => match dList dMfeat l with Some (fs, []) => eBool (has_bad_triple fs) | _ => bad_input end
  | 23 => match dPair dMfeat dMfeat l with Some ((a, b), []) => eBool (mixed_lt a b) | _ => bad_input end
  | _ => bad_input
  end.
