(* C10 - lemmas and proofs about the model in Model.v *)
From Coq Require Import ZArith List Bool Lia ZifyBool.
From ASV Require Import Base Loc.
From ASV.C05 Require Model.
From ASV.C10 Require Import Model.
Import ListNotations.
Open Scope Z_scope.

(* ================= str(int) / int(str) ================= *)

Lemma int_of_digits_app : forall l c, int_of_digits (l ++ [c]) = int_of_digits l * 10 + (c - 48).
Proof. intros l c. unfold int_of_digits. rewrite fold_left_app. reflexivity. Qed.

Definition digit_str (d : str) : Prop := d <> [] /\ forallb is_digit d = true.

Lemma dig_spec : forall f n, 0 <= n -> n < 2 ^ Z.of_nat (S f) ->
  digit_str (dig (S f) n) /\ int_of_digits (dig (S f) n) = n.
Proof.
  induction f as [|f IH]; intros n H0 H1.
  - change (2 ^ Z.of_nat 1) with 2 in H1. cbn [dig].
    destruct (n <? 10) eqn:E; [|lia].
    split; [split; [discriminate|] |].
    + cbn [forallb]. unfold is_digit. lia.
    + unfold int_of_digits. cbn [fold_left]. lia.
  - remember (S f) as g eqn:Hg. cbn [dig]. destruct (n <? 10) eqn:E.
    + split; [split; [discriminate|] |].
      * cbn [forallb]. unfold is_digit. lia.
      * unfold int_of_digits. cbn [fold_left]. lia.
    + assert (Hpow : 2 ^ Z.of_nat (S g) = 2 * 2 ^ Z.of_nat g).
      { rewrite Nat2Z.inj_succ. rewrite Z.pow_succ_r by lia. reflexivity. }
      assert (Hd : 0 <= n / 10) by (apply Z.div_pos; lia).
      assert (Hlt : n / 10 < 2 ^ Z.of_nat g).
      { apply Z.div_lt_upper_bound; [lia|]. lia. }
      destruct (IH (n / 10) Hd Hlt) as [[Hne Hall] Hval].
      pose proof (Z.mod_pos_bound n 10 ltac:(lia)) as Hm.
      split; [split|].
      * intro Hc. apply app_eq_nil in Hc. destruct Hc as [_ Hc]. discriminate.
      * rewrite forallb_app. rewrite Hall. cbn [forallb]. unfold is_digit. lia.
      * rewrite int_of_digits_app. rewrite Hval.
        pose proof (Z.div_mod n 10 ltac:(lia)) as Hdm. lia.
Qed.

Lemma digits_spec : forall n, 0 <= n -> digit_str (digits n) /\ int_of_digits (digits n) = n.
Proof.
  intros n H. unfold digits. apply dig_spec; [assumption|].
  rewrite Nat2Z.inj_succ. rewrite Z2Nat.id by apply Z.log2_nonneg.
  destruct (Z.eq_dec n 0) as [->|Hn].
  - cbn. lia.
  - apply Z.log2_spec. lia.
Qed.

Lemma parse_nat_digits : forall d, digit_str d -> parse_nat d = Ok (int_of_digits d).
Proof.
  intros d [Hne Hall]. unfold parse_nat. destruct d as [|c r]; [congruence|]. rewrite Hall. reflexivity.
Qed.

Lemma digit_head : forall d, digit_str d -> exists c r, d = c :: r /\ is_digit c = true.
Proof.
  intros d [Hne Hall]. destruct d as [|c r]; [congruence|]. exists c, r. split; [reflexivity|].
  cbn [forallb] in Hall. apply andb_true_iff in Hall. tauto.
Qed.

Lemma parse_int_digits : forall d, digit_str d -> parse_int d = Ok (int_of_digits d).
Proof.
  intros d H. destruct (digit_head d H) as [c [r [-> Hc]]]. unfold parse_int.
  unfold is_digit in Hc. apply andb_true_iff in Hc. destruct Hc as [Hc1 Hc2].
  apply Z.leb_le in Hc1. apply Z.leb_le in Hc2.
  destruct (Z.eqb_spec c 45) as [E1|E1]; [lia|]. destruct (Z.eqb_spec c 43) as [E2|E2]; [lia|].
  apply parse_nat_digits. assumption.
Qed.

Lemma parse_int_str_of_int : forall n, parse_int (str_of_int n) = Ok n.
Proof.
  intro n. unfold str_of_int. destruct (n <? 0) eqn:E.
  - destruct (digits_spec (- n) ltac:(lia)) as [Hd Hv].
    unfold parse_int. replace (45 =? 45) with true by reflexivity.
    rewrite (parse_nat_digits _ Hd). cbn [bind]. rewrite Hv. f_equal. lia.
  - destruct (digits_spec n ltac:(lia)) as [Hd Hv]. rewrite (parse_int_digits _ Hd). rewrite Hv. reflexivity.
Qed.


(* ================= the location text codec ================= *)

Definition okc (c : Z) : bool := is_digit c || (c =? 60) || (c =? 62).

Lemma forallb_weaken : forall (f g : Z -> bool) l, (forall x, f x = true -> g x = true) ->
  forallb f l = true -> forallb g l = true.
Proof.
  intros f g l H. induction l as [|x r IH]; cbn [forallb]; [reflexivity|].
  intro E. apply andb_true_iff in E. destruct E as [E1 E2]. rewrite (H _ E1), (IH E2). reflexivity.
Qed.

Lemma str_of_int_nonneg : forall n, 0 <= n -> str_of_int n = digits n.
Proof. intros n H. unfold str_of_int. destruct (n <? 0) eqn:E; [lia|reflexivity]. Qed.

Lemma cmem_okc : forall c s, forallb okc s = true -> okc c = false -> cmem c s = false.
Proof.
  intros c s. unfold cmem. induction s as [|x r IH]; cbn [forallb existsb]; [reflexivity|].
  intros E Hc. apply andb_true_iff in E. destruct E as [E1 E2]. rewrite (IH E2 Hc).
  destruct (Z.eqb_spec c x) as [->|Hne]; [congruence|reflexivity].
Qed.

Lemma split1_app : forall c a b, cmem c a = false -> split1 c (a ++ c :: b) = (a, Some b).
Proof.
  intros c a b. unfold cmem. induction a as [|x r IH]; cbn [app split1 existsb]; intro H.
  - rewrite Z.eqb_refl. reflexivity.
  - apply orb_false_iff in H. destruct H as [H1 H2]. rewrite Z.eqb_sym in H1. rewrite H1.
    rewrite (IH H2). reflexivity.
Qed.

Lemma pos_str_chars : forall p, 0 <= tv p -> forallb okc (pos_str p) = true.
Proof.
  intros p H. unfold pos_str. rewrite forallb_app. rewrite (str_of_int_nonneg _ H).
  destruct (digits_spec _ H) as [[_ Hall] _].
  rewrite (forallb_weaken is_digit okc _ ltac:(intros x Hx; unfold okc; rewrite Hx; reflexivity) Hall).
  destruct (tk p =? 1); [reflexivity|]. destruct (tk p =? 2); reflexivity.
Qed.

Definition wf_tpos (p : tpos) : Prop := (tk p = 0 \/ tk p = 1 \/ tk p = 2) /\ 0 <= tv p.

Lemma parse_position_pos_str : forall p, wf_tpos p -> parse_position (pos_str p) = Ok p.
Proof.
  intros [k v] [Hk Hv]. cbn [tk tv] in *. unfold pos_str. cbn [tk tv].
  rewrite (str_of_int_nonneg _ Hv).
  destruct (digits_spec _ Hv) as [Hd Hval].
  destruct Hk as [->|[->| ->]].
  - change (0 =? 1) with false. change (0 =? 2) with false. cbn [app].
    destruct (digit_head _ Hd) as [c [r [E Hc]]].
    unfold parse_position. rewrite E. rewrite <- E.
    unfold is_digit in Hc. apply andb_true_iff in Hc. destruct Hc as [Hc1 Hc2].
    apply Z.leb_le in Hc1. apply Z.leb_le in Hc2.
    destruct (Z.eqb_spec c 60) as [E1|E1]; [lia|]. destruct (Z.eqb_spec c 62) as [E2|E2]; [lia|].
    assert (Hu : str_eqb (digits v) unknown_position_text = false).
    { rewrite E. unfold str_eqb, unknown_position_text. cbn [list_eqb].
      destruct (Z.eqb_spec c 85) as [E3|E3]; [lia|reflexivity]. }
    rewrite Hu. rewrite (parse_int_digits _ Hd). cbn [bind]. rewrite Hval. reflexivity.
  - change (1 =? 1) with true. cbn [app]. unfold parse_position.
    change (60 =? 60) with true. cbv iota. rewrite (parse_int_digits _ Hd). cbn [bind]. rewrite Hval. reflexivity.
  - change (2 =? 1) with false. change (2 =? 2) with true. cbn [app]. unfold parse_position.
    change (62 =? 60) with false. change (62 =? 62) with true. cbv iota.
    rewrite (parse_int_digits _ Hd). cbn [bind]. rewrite Hval. reflexivity.
Qed.

(* the last character of a printed position is a digit *)
Lemma pos_str_last : forall p, 0 <= tv p -> exists l d, pos_str p = l ++ [d] /\ is_digit d = true.
Proof.
  intros p H. unfold pos_str. rewrite (str_of_int_nonneg _ H).
  destruct (digits_spec _ H) as [[Hne Hall] _].
  destruct (exists_last Hne) as [l [d E]]. rewrite E in *.
  exists ((if tk p =? 1 then [60] else if tk p =? 2 then [62] else []) ++ l), d.
  split; [rewrite app_assoc; reflexivity|].
  rewrite forallb_app in Hall. apply andb_true_iff in Hall. destruct Hall as [_ Hd].
  cbn [forallb] in Hd. apply andb_true_iff in Hd. tauto.
Qed.

Definition wf_tpart (p : tpart) : Prop :=
  wf_tpos (tps p) /\ wf_tpos (tpe p) /\ tv (tps p) <= tv (tpe p) /\
  (tst p = 1 \/ tst p = -1 \/ tst p = 0 \/ tst p = 2).

(* characters of a printed part: digits < > [ ] : ( ) + - ?  -- in particular no comma and no brace *)
Definition partc (c : Z) : bool :=
  okc c || (c =? 91) || (c =? 93) || (c =? 58) || (c =? 40) || (c =? 41) || (c =? 43) || (c =? 45) || (c =? 63).

Lemma okc_partc : forall x, okc x = true -> partc x = true.
Proof. intros x H. unfold partc. rewrite H. reflexivity. Qed.

Lemma part_str_chars : forall p, wf_tpart p -> forallb partc (part_str p) = true.
Proof.
  intros p [[_ H1] [[_ H2] [_ Hs]]]. unfold part_str. repeat rewrite forallb_app.
  rewrite (forallb_weaken okc partc _ okc_partc (pos_str_chars _ H1)).
  rewrite (forallb_weaken okc partc _ okc_partc (pos_str_chars _ H2)).
  destruct Hs as [->|[->|[->| ->]]]; reflexivity.
Qed.

Lemma cmem_partc : forall c s, forallb partc s = true -> partc c = false -> cmem c s = false.
Proof.
  intros c s. unfold cmem. induction s as [|x r IH]; cbn [forallb existsb]; [reflexivity|].
  intros E Hc. apply andb_true_iff in E. destruct E as [E1 E2]. rewrite (IH E2 Hc).
  destruct (Z.eqb_spec c x) as [->|Hne]; [congruence|reflexivity].
Qed.

Lemma rev_two : forall (l : list Z) a b, rev (l ++ [a; b]) = b :: a :: rev l.
Proof. intros. rewrite rev_app_distr. reflexivity. Qed.

Lemma parse_single_part_str : forall p, wf_tpart p -> parse_single (part_str p) = Ok p.
Proof.
  intros p Hwf. pose proof (part_str_chars p Hwf) as Hchars.
  destruct Hwf as [Hs [He [Hle Hst]]].
  pose proof (pos_str_chars _ (proj2 Hs)) as Cs. pose proof (pos_str_chars _ (proj2 He)) as Ce.
  unfold parse_single.
  assert (E1 : tl (part_str p) = pos_str (tps p) ++ 58 :: (pos_str (tpe p) ++ [93] ++ strand_str (tst p))).
  { unfold part_str. cbn [app tl]. reflexivity. }
  rewrite E1. rewrite (split1_app 58 _ _ (cmem_okc 58 _ Cs eq_refl)). cbn [fst].
  rewrite (parse_position_pos_str _ Hs). cbn [bind].
  assert (E2 : part_str p = (91 :: pos_str (tps p)) ++ 58 :: (pos_str (tpe p) ++ 93 :: strand_str (tst p))).
  { unfold part_str. cbn [app]. reflexivity. }
  assert (C91 : cmem 58 (91 :: pos_str (tps p)) = false).
  { unfold cmem. cbn [existsb]. change (58 =? 91) with false. cbn [orb]. exact (cmem_okc 58 _ Cs eq_refl). }
  rewrite E2 at 1. rewrite (split1_app 58 _ _ C91). cbn [snd].
  rewrite (split1_app 93 _ _ (cmem_okc 93 _ Ce eq_refl)). cbn [fst].
  rewrite (parse_position_pos_str _ He). cbn [bind].
  assert (Hle' : (tv (tpe p) <? tv (tps p)) = false) by lia.
  destruct (pos_str_last _ (proj2 He)) as [l [d [El Hd]]].
  assert (Hm2 : char_m2 (part_str p) =
                Ok (if tst p =? 2 then d else if tst p =? 1 then 43 else if tst p =? -1 then 45 else 63)).
  { unfold char_m2. rewrite E2. rewrite El. unfold strand_str.
    destruct Hst as [->|[->|[->| ->]]].
    - change (1 =? 2) with false. change (1 =? 1) with true. cbv iota.
      replace ((91 :: pos_str (tps p)) ++ 58 :: (l ++ [d]) ++ [93; 40; 43; 41])
        with (((91 :: pos_str (tps p)) ++ 58 :: (l ++ [d]) ++ [93; 40]) ++ [43; 41]).
      + rewrite rev_two. reflexivity.
      + repeat rewrite <- app_assoc. cbn [app]. repeat rewrite <- app_assoc. reflexivity.
    - change (-1 =? 2) with false. change (-1 =? 1) with false. change (-1 =? -1) with true. cbv iota.
      replace ((91 :: pos_str (tps p)) ++ 58 :: (l ++ [d]) ++ [93; 40; 45; 41])
        with (((91 :: pos_str (tps p)) ++ 58 :: (l ++ [d]) ++ [93; 40]) ++ [45; 41]).
      + rewrite rev_two. reflexivity.
      + repeat rewrite <- app_assoc. cbn [app]. repeat rewrite <- app_assoc. reflexivity.
    - change (0 =? 2) with false. change (0 =? 1) with false. change (0 =? -1) with false. cbv iota.
      replace ((91 :: pos_str (tps p)) ++ 58 :: (l ++ [d]) ++ [93; 40; 63; 41])
        with (((91 :: pos_str (tps p)) ++ 58 :: (l ++ [d]) ++ [93; 40]) ++ [63; 41]).
      + rewrite rev_two. reflexivity.
      + repeat rewrite <- app_assoc. cbn [app]. repeat rewrite <- app_assoc. reflexivity.
    - change (2 =? 2) with true. cbv iota.
      replace ((91 :: pos_str (tps p)) ++ 58 :: (l ++ [d]) ++ [93])
        with (((91 :: pos_str (tps p)) ++ 58 :: l) ++ [d; 93]).
      + rewrite rev_two. reflexivity.
      + repeat rewrite <- app_assoc. cbn [app]. repeat rewrite <- app_assoc. reflexivity. }
  rewrite Hm2. cbn [bind].
  unfold is_digit in Hd. apply andb_true_iff in Hd. destruct Hd as [Hd1 Hd2].
  apply Z.leb_le in Hd1. apply Z.leb_le in Hd2.
  destruct p as [s e st]. cbn [tps tpe tst] in *.
  destruct Hst as [->|[->|[->| ->]]].
  - change (1 =? 2) with false. change (1 =? 1) with true. cbv iota.
    change (43 =? 45) with false. change (43 =? 43) with true. cbv iota. cbn [bind]. rewrite Hle'. reflexivity.
  - change (-1 =? 2) with false. change (-1 =? 1) with false. change (-1 =? -1) with true. cbv iota.
    change (45 =? 45) with true. cbv iota. cbn [bind]. rewrite Hle'. reflexivity.
  - change (0 =? 2) with false. change (0 =? 1) with false. change (0 =? -1) with false. cbv iota.
    change (63 =? 45) with false. change (63 =? 43) with false. change (63 =? 63) with true. cbv iota.
    cbn [bind]. rewrite Hle'. reflexivity.
  - change (2 =? 2) with true. cbv iota.
    destruct (Z.eqb_spec d 45) as [X|X]; [lia|]. destruct (Z.eqb_spec d 43) as [Y|Y]; [lia|].
    destruct (Z.eqb_spec d 63) as [W|W]; [lia|].
    assert (Hno : cmem 40 (part_str (mkTpart s e 2)) = false).
    { unfold part_str, strand_str. cbn [tps tpe tst]. change (2 =? 2) with true. cbv iota.
      unfold cmem. repeat rewrite existsb_app. cbn [existsb].
      fold (cmem 40 (pos_str s)). fold (cmem 40 (pos_str e)).
      rewrite (cmem_okc 40 _ Cs eq_refl). rewrite (cmem_okc 40 _ Ce eq_refl). reflexivity. }
    rewrite Hno. cbn [negb bind]. rewrite Hle'. reflexivity.
Qed.

(* ---- "a, b, c".split(", ") ---- *)
Lemma split_cs_nocomma : forall a, cmem 44 a = false -> split_cs a = [a].
Proof.
  unfold cmem. induction a as [|x r IH]; intro H; [reflexivity|].
  cbn [existsb] in H. apply orb_false_iff in H. destruct H as [H1 H2].
  cbn [split_cs]. rewrite Z.eqb_sym in H1. rewrite H1. cbn [andb].
  destruct r as [|y r']; [reflexivity|]. rewrite (IH H2). reflexivity.
Qed.

Lemma split_cs_app : forall a rest, cmem 44 a = false ->
  split_cs (a ++ 44 :: 32 :: rest) = a :: split_cs rest.
Proof.
  unfold cmem. induction a as [|x r IH]; intros rest H.
  - cbn [app split_cs]. change (44 =? 44) with true. change (32 =? 32) with true. reflexivity.
  - cbn [existsb] in H. apply orb_false_iff in H. destruct H as [H1 H2].
    rewrite Z.eqb_sym in H1.
    change ((x :: r) ++ 44 :: 32 :: rest) with (x :: (r ++ 44 :: 32 :: rest)).
    cbn [split_cs]. rewrite H1. cbn [andb].
    destruct (r ++ 44 :: 32 :: rest) as [|y t] eqn:E.
    + destruct r; discriminate.
    + rewrite <- E. rewrite (IH rest H2). reflexivity.
Qed.

Lemma split_cs_join : forall parts, parts <> [] -> Forall (fun s => cmem 44 s = false) parts ->
  split_cs (join [44; 32] parts) = parts.
Proof.
  induction parts as [|x r IH]; intros Hne HF; [congruence|].
  inversion HF as [|? ? Hx Hr]; subst. cbn [join]. destruct r as [|y r'].
  - apply split_cs_nocomma. assumption.
  - change (x ++ [44; 32] ++ join [44; 32] (y :: r')) with (x ++ 44 :: 32 :: join [44; 32] (y :: r')).
    rewrite (split_cs_app x _ Hx). rewrite IH; [reflexivity|discriminate|assumption].
Qed.

Lemma mapM_parse_parts : forall ps, Forall wf_tpart ps -> mapM parse_single (map part_str ps) = Ok ps.
Proof.
  induction ps as [|p r IH]; intro HF; [reflexivity|].
  inversion HF as [|? ? Hp Hr]; subst. cbn [map mapM]. rewrite (parse_single_part_str _ Hp). cbn [bind].
  rewrite (IH Hr). reflexivity.
Qed.

Lemma cmem_app : forall c a b, cmem c (a ++ b) = cmem c a || cmem c b.
Proof. intros. unfold cmem. apply existsb_app. Qed.

Inductive wf_tloc : tloc -> Prop :=
| wf_single : forall p, wf_tpart p -> wf_tloc (TSingle p)
| wf_compound : forall op ps, cmem 123 op = false -> (2 <= length ps)%nat -> Forall wf_tpart ps ->
    wf_tloc (TCompound op ps).

Theorem loc_codec : forall t, wf_tloc t -> loc_from_string (loc_str t) = Ok t.
Proof.
  intros t H. destruct H as [p Hp | op ps Hop Hlen HF].
  - cbn [loc_str]. unfold loc_from_string.
    rewrite (cmem_partc 123 _ (part_str_chars _ Hp) eq_refl). cbn [negb].
    rewrite (parse_single_part_str _ Hp). reflexivity.
  - cbn [loc_str]. unfold loc_from_string.
    assert (Hin : cmem 123 (op ++ [123] ++ join [44; 32] (map part_str ps) ++ [125]) = true).
    { rewrite cmem_app. rewrite cmem_app. unfold cmem at 2. cbn [existsb]. change (123 =? 123) with true.
      cbn [orb]. apply orb_true_r. }
    rewrite Hin. cbn [negb].
    replace (op ++ [123] ++ join [44; 32] (map part_str ps) ++ [125])
      with ((op ++ 123 :: join [44; 32] (map part_str ps)) ++ [125])
      by (repeat rewrite <- app_assoc; reflexivity).
    rewrite removelast_last. rewrite (split1_app 123 _ _ Hop).
    rewrite split_cs_join.
    + rewrite (mapM_parse_parts _ HF). cbn [bind].
      destruct ps as [|a [|b r]]; cbn [length] in Hlen; try lia. reflexivity.
    + destruct ps; [cbn [length] in Hlen; lia | discriminate].
    + apply Forall_forall. intros s Hs. apply in_map_iff in Hs. destruct Hs as [p [<- Hp]].
      rewrite Forall_forall in HF. exact (cmem_partc 44 _ (part_str_chars _ (HF p Hp)) eq_refl).
Qed.

(* ---- the locations of Common/Loc.v (exact positions): core_location ---- *)
Lemma part_of_tpart_of : forall p, part_of (tpart_of p) = p.
Proof. intros [a b c]. reflexivity. Qed.

Lemma loc_of_tloc_of_loc : forall l, loc_of_tloc (tloc_of_loc l) = l.
Proof.
  intro l. unfold tloc_of_loc. destruct l as [|p [|q r]].
  - reflexivity.
  - cbn [loc_of_tloc]. rewrite part_of_tpart_of. reflexivity.
  - cbn [loc_of_tloc]. rewrite map_map. rewrite <- (map_id (p :: q :: r)) at 2. apply map_ext.
    apply part_of_tpart_of.
Qed.

Lemma part_ok_wf : forall p, part_ok p = true -> wf_tpart (tpart_of p).
Proof.
  intros [a b c] H. unfold part_ok in H. cbn [ps pe pst] in H.
  unfold wf_tpart, wf_tpos, tpart_of. cbn [ps pe pst tps tpe tst tk tv].
  repeat split; try (left; reflexivity); lia.
Qed.

Theorem core_codec : forall l, core_ok l = true ->
  loc_from_string (loc_str (tloc_of_loc l)) = Ok (tloc_of_loc l).
Proof.
  intros l H. unfold core_ok in H. apply andb_true_iff in H. destruct H as [Hne Hall].
  apply loc_codec. rewrite forallb_forall in Hall. unfold tloc_of_loc.
  destruct l as [|p [|q r]].
  - discriminate.
  - constructor. apply part_ok_wf. apply Hall. left. reflexivity.
  - constructor.
    + reflexivity.
    + cbn [length map]. lia.
    + apply Forall_forall. intros t Ht. apply in_map_iff in Ht. destruct Ht as [x [<- Hx]].
      apply part_ok_wf. apply Hall. assumption.
Qed.


(* ================= re-linking ================= *)

(* ---- boolean equalities are equalities ---- *)
Lemma list_eqb_eq : forall A (eqb : A -> A -> bool), (forall x y, eqb x y = true -> x = y) ->
  forall a b, list_eqb eqb a b = true -> a = b.
Proof.
  intros A eqb H. induction a as [|x r IH]; intros [|y t] E; cbn [list_eqb] in E; try discriminate; [reflexivity|].
  apply andb_true_iff in E. destruct E as [E1 E2]. rewrite (H _ _ E1), (IH _ E2). reflexivity.
Qed.

Lemma zlist_eqb_eq : forall a b, zlist_eqb a b = true -> a = b.
Proof. apply list_eqb_eq. intros x y H. apply Z.eqb_eq. assumption. Qed.

Lemma part_eqb_eq : forall a b, part_eqb a b = true -> a = b.
Proof.
  intros [a1 a2 a3] [b1 b2 b3] H. unfold part_eqb in H. cbn [ps pe pst] in H.
  apply andb_true_iff in H. destruct H as [H H3]. apply andb_true_iff in H. destruct H as [H1 H2].
  apply Z.eqb_eq in H1. apply Z.eqb_eq in H2. apply Z.eqb_eq in H3. subst. reflexivity.
Qed.

Lemma loc_eqb_eq : forall a b, loc_eqb a b = true -> a = b.
Proof. apply list_eqb_eq. exact part_eqb_eq. Qed.

Lemma cand_eqb_eq : forall a b, cand_eqb a b = true -> a = b.
Proof.
  intros [k1 n1 l1] [k2 n2 l2] H. unfold cand_eqb in H. cbn [ckind cnums cloc] in H.
  apply andb_true_iff in H. destruct H as [H H3]. apply andb_true_iff in H. destruct H as [H1 H2].
  apply Z.eqb_eq in H1. apply zlist_eqb_eq in H2. apply loc_eqb_eq in H3. subst. reflexivity.
Qed.

Lemma regn_eqb_eq : forall a b, regn_eqb a b = true -> a = b.
Proof.
  intros [c1 s1 l1] [c2 s2 l2] H. unfold regn_eqb in H. cbn [rcands rsubs rloc] in H.
  apply andb_true_iff in H. destruct H as [H H3]. apply andb_true_iff in H. destruct H as [H1 H2].
  apply zlist_eqb_eq in H1. apply zlist_eqb_eq in H2. apply loc_eqb_eq in H3. subst. reflexivity.
Qed.

(* ---- bisect_left on a list whose elements are all less: the end ---- *)
Lemma div2_bounds : forall lo hi, (lo < hi)%nat -> (lo <= Nat.div2 (lo + hi) < hi)%nat.
Proof.
  intros lo hi H. pose proof (Nat.div2_odd (lo + hi)) as E.
  destruct (Nat.odd (lo + hi)); cbn [Nat.b2n] in E; lia.
Qed.

Lemma bisect_go_all : forall A (lt : A -> bool) l, (forall e, In e l -> lt e = true) ->
  forall fuel lo hi, (lo <= hi)%nat -> (hi <= length l)%nat -> (hi - lo < fuel)%nat ->
  C05.Model.bisect_go lt l fuel lo hi = hi.
Proof.
  intros A lt l Hall. induction fuel as [|f IH]; intros lo hi H1 H2 H3; [lia|].
  cbn [C05.Model.bisect_go]. destruct (Nat.ltb_spec lo hi) as [Hlt|Hge]; [|lia].
  pose proof (div2_bounds lo hi Hlt) as Hm.
  destruct (nth_error l (Nat.div2 (lo + hi))) as [e|] eqn:E.
  - rewrite (Hall e (nth_error_In _ _ E)). apply IH; lia.
  - apply nth_error_None in E. lia.
Qed.

Lemma bisect_left_all : forall A (lt : A -> bool) l, (forall e, In e l -> lt e = true) ->
  C05.Model.bisect_left lt l = length l.
Proof. intros A lt l H. unfold C05.Model.bisect_left. apply bisect_go_all; try assumption; lia. Qed.

Lemma insert_at_end : forall A (x : A) l, C05.Model.insert_at (length l) x l = l ++ [x].
Proof. intros A x l. unfold C05.Model.insert_at. rewrite firstn_all, skipn_all. reflexivity. Qed.

Lemma insert_sorted_append : forall A (locf : A -> loc) l x,
  (forall e, In e l -> lt_loc (locf e) (locf x) = true) -> insert_sorted locf l x = l ++ [x].
Proof.
  intros A locf l x H. unfold insert_sorted.
  rewrite (bisect_left_all _ (fun e => lt_loc (locf e) (locf x)) l H). apply insert_at_end.
Qed.

Lemma strictly_sorted_app_inv : forall A (lt : A -> A -> bool) a x r,
  strictly_sorted lt (a ++ x :: r) = true -> forall e, In e a -> lt e x = true.
Proof.
  intros A lt. induction a as [|y t IH]; intros x r H e He; [destruct He|].
  cbn [app strictly_sorted] in H. apply andb_true_iff in H. destruct H as [H1 H2].
  destruct He as [<-|He].
  - rewrite forallb_forall in H1. apply H1. apply in_or_app. right. left. reflexivity.
  - exact (IH x r H2 e He).
Qed.

(* ---- pick with the identity order ---- *)
Lemma pick_upto_gen : forall A (l pre : list A), pick (pre ++ l) (upto (zlen pre) (length l)) = l.
Proof.
  intros A. induction l as [|x r IH]; intro pre; [reflexivity|].
  cbn [length upto]. unfold pick. cbn [flat_map]. fold (pick (pre ++ x :: r) (upto (zlen pre + 1) (length r))).
  assert (E : nth_z (pre ++ x :: r) (zlen pre) = Some x).
  { unfold nth_z, zlen. destruct (Z.of_nat (length pre) <? 0) eqn:F; [lia|].
    rewrite Nat2Z.id. rewrite nth_error_app2 by lia. rewrite Nat.sub_diag. reflexivity. }
  rewrite E. cbn [app]. f_equal.
  replace (pre ++ x :: r) with ((pre ++ [x]) ++ r) by (rewrite <- app_assoc; reflexivity).
  replace (zlen pre + 1) with (zlen (pre ++ [x])).
  - apply IH.
  - unfold zlen. rewrite app_length. cbn [length]. lia.
Qed.

Lemma pick_upto : forall A (l : list A), pick l (upto 0 (length l)) = l.
Proof. intros A l. exact (pick_upto_gen A l []). Qed.

(* ---- protoclusters ---- *)
Definition to_f (p : proto) : fproto := mkFproto (ptag p) (ploc p) (loc_str (tloc_of_loc (pcore p))).

Lemma build_proto_ok : forall p q, core_ok (pcore p) = true -> build_proto (to_f p) = Ok q -> q = p.
Proof.
  intros [t l c] q Hc H. unfold build_proto, to_f in H. cbn [ptag ploc pcore fcore floc ftag] in *.
  rewrite (core_codec _ Hc) in H. cbn [bind] in H. rewrite loc_of_tloc_of_loc in H.
  destruct (bridges c && negb (bridges l)); [discriminate|].
  destruct (length l <? length c)%nat; [discriminate|].
  destruct (C05.Model.check_collection_loc l) as [u|k]; cbn [bind] in H; [|discriminate].
  injection H as <-. reflexivity.
Qed.

Lemma reload_proto_step : forall n acc p, proto_ok n p = true ->
  (forall e, In e acc -> lt_loc (ploc e) (ploc p) = true) ->
  reload_proto n (Ok acc) (to_f p) = Ok (acc ++ [p]).
Proof.
  intros n acc p Hok Hlt. unfold proto_ok in Hok. apply andb_true_iff in Hok. destruct Hok as [Hc Hb].
  fold (to_f p) in Hb. unfold reload_proto. cbn [bind].
  destruct (build_proto (to_f p)) as [q|k] eqn:E; [|discriminate].
  pose proof (build_proto_ok p q Hc E) as ->. cbn [wrapV bind].
  destruct (in_record_check n (ploc p)) as [u|k]; [|discriminate]. cbn [bind].
  rewrite (insert_sorted_append _ ploc acc p Hlt). reflexivity.
Qed.

Lemma reload_protos : forall n items acc,
  strictly_sorted (fun a b => lt_loc (ploc a) (ploc b)) (acc ++ items) = true ->
  forallb (proto_ok n) items = true ->
  fold_left (reload_proto n) (map to_f items) (Ok acc) = Ok (acc ++ items).
Proof.
  intros n. induction items as [|p r IH]; intros acc Hs Hok.
  - cbn [map fold_left]. rewrite app_nil_r. reflexivity.
  - cbn [forallb] in Hok. apply andb_true_iff in Hok. destruct Hok as [Hp Hr].
    cbn [map fold_left]. rewrite (reload_proto_step n acc p Hp (strictly_sorted_app_inv _ _ acc p r Hs)).
    replace (acc ++ p :: r) with ((acc ++ [p]) ++ r) in * by (rewrite <- app_assoc; reflexivity).
    apply IH; assumption.
Qed.

(* ---- subregions ---- *)
Lemma reload_subs : forall n items acc,
  strictly_sorted (fun a b => lt_loc (sloc a) (sloc b)) (acc ++ items) = true ->
  forallb (sub_ok n) items = true ->
  fold_left (reload_sub n) items (Ok acc) = Ok (acc ++ items).
Proof.
  intros n. induction items as [|s r IH]; intros acc Hs Hok.
  - cbn [fold_left]. rewrite app_nil_r. reflexivity.
  - cbn [forallb] in Hok. apply andb_true_iff in Hok. destruct Hok as [Hp Hr].
    cbn [fold_left].
    assert (Hstep : reload_sub n (Ok acc) s = Ok (acc ++ [s])).
    { unfold reload_sub. cbn [bind]. unfold sub_ok in Hp.
      destruct (C05.Model.check_collection_loc (sloc s)) as [u|k]; [|discriminate]. cbn [wrapV bind].
      destruct (in_record_check n (sloc s)) as [u'|k]; [|discriminate]. cbn [bind].
      rewrite (insert_sorted_append _ sloc acc s (strictly_sorted_app_inv _ _ acc s r Hs)). reflexivity. }
    rewrite Hstep.
    replace (acc ++ s :: r) with ((acc ++ [s]) ++ r) in * by (rewrite <- app_assoc; reflexivity).
    apply IH; assumption.
Qed.

(* ---- candidate clusters ---- *)
Lemma reload_cands : forall n all items acc,
  strictly_sorted (fun a b => lt_loc (cloc a) (cloc b)) (acc ++ items) = true ->
  forallb (cand_ok n all) items = true ->
  fold_left (reload_cand n all) items (Ok acc) = Ok (acc ++ items).
Proof.
  intros n all. induction items as [|c r IH]; intros acc Hs Hok.
  - cbn [fold_left]. rewrite app_nil_r. reflexivity.
  - cbn [forallb] in Hok. apply andb_true_iff in Hok. destruct Hok as [Hp Hr].
    cbn [fold_left].
    assert (Hstep : reload_cand n all (Ok acc) c = Ok (acc ++ [c])).
    { unfold reload_cand. cbn [bind]. unfold cand_ok in Hp.
      destruct (build_cand n all c) as [c'|k]; [|discriminate].
      apply andb_true_iff in Hp. destruct Hp as [He Hin]. apply cand_eqb_eq in He. subst c'.
      cbn [wrapV bind]. destruct (in_record_check n (cloc c)) as [u'|k]; [|discriminate]. cbn [bind].
      rewrite (insert_sorted_append _ cloc acc c (strictly_sorted_app_inv _ _ acc c r Hs)). reflexivity. }
    rewrite Hstep.
    replace (acc ++ c :: r) with ((acc ++ [c]) ++ r) in * by (rewrite <- app_assoc; reflexivity).
    apply IH; assumption.
Qed.

(* ---- regions ---- *)
Lemma region_index_end : forall l x i,
  (forall e, In e l -> overlap (rloc x) (rloc e) = false /\ lt_loc (rloc x) (rloc e) = false) ->
  region_index l x i = Ok (i + length l)%nat.
Proof.
  intros l x i H. unfold region_index.
  replace (existsb (fun e => overlap (rloc x) (rloc e)) l) with false.
  - f_equal. revert i. induction l as [|e r IH]; intros i; cbn [region_pos length]; [lia|].
    destruct (H e (or_introl eq_refl)) as [_ H2]. rewrite H2.
    rewrite IH; [lia|]. intros e' He'. apply H. right. assumption.
  - symmetry. destruct (existsb (fun e => overlap (rloc x) (rloc e)) l) eqn:E; [|reflexivity].
    apply existsb_exists in E. destruct E as (e & He & Ho). destruct (H e He) as [H1 _]. congruence.
Qed.

Lemma regns_sorted_app_inv : forall a x r, regns_sorted (a ++ x :: r) = true ->
  forall e, In e a -> overlap (rloc x) (rloc e) = false /\ lt_loc (rloc x) (rloc e) = false.
Proof.
  induction a as [|y t IH]; intros x r H e He; [destruct He|].
  cbn [app regns_sorted] in H. apply andb_true_iff in H. destruct H as [H1 H2].
  destruct He as [<-|He].
  - rewrite forallb_forall in H1. assert (Hin : In x (t ++ x :: r)) by (apply in_or_app; right; left; reflexivity).
    specialize (H1 x Hin).
    apply andb_true_iff in H1. destruct H1 as [A B]. apply negb_true_iff in A. apply negb_true_iff in B. tauto.
  - exact (IH x r H2 e He).
Qed.

Lemma reload_regns : forall n allc alls items acc,
  regns_sorted (acc ++ items) = true ->
  forallb (regn_ok n allc alls) items = true ->
  fold_left (reload_regn n allc alls) items (Ok acc) = Ok (acc ++ items).
Proof.
  intros n allc alls. induction items as [|x r IH]; intros acc Hs Hok.
  - cbn [fold_left]. rewrite app_nil_r. reflexivity.
  - cbn [forallb] in Hok. apply andb_true_iff in Hok. destruct Hok as [Hp Hr].
    cbn [fold_left].
    assert (Hstep : reload_regn n allc alls (Ok acc) x = Ok (acc ++ [x])).
    { unfold reload_regn. cbn [bind]. unfold regn_ok in Hp.
      destruct (build_regn allc alls x) as [x'|k]; [|discriminate].
      apply andb_true_iff in Hp. destruct Hp as [He Hin]. apply regn_eqb_eq in He. subst x'.
      cbn [wrapV bind]. destruct (in_record_check n (rloc x)) as [u'|k]; [|discriminate]. cbn [bind].
      rewrite (region_index_end acc x 0 (regns_sorted_app_inv acc x r Hs)). cbn [wrapV bind].
      cbn [Nat.add]. rewrite insert_at_end. reflexivity. }
    rewrite Hstep.
    replace (acc ++ x :: r) with ((acc ++ [x]) ++ r) in * by (rewrite <- app_assoc; reflexivity).
    apply IH; assumption.
Qed.

(* ---- the round trip ---- *)
Lemma dump_order_kept : forall R, order_kept R = true ->
  dump R = mkFile (map to_f (protos R)) (subs R) (cands R) (regns R).
Proof.
  intros R H. unfold order_kept in H.
  apply andb_true_iff in H. destruct H as [H H4]. apply andb_true_iff in H. destruct H as [H H3].
  apply andb_true_iff in H. destruct H as [H1 H2].
  apply zlist_eqb_eq in H1. apply zlist_eqb_eq in H2. apply zlist_eqb_eq in H3. apply zlist_eqb_eq in H4.
  unfold dump. rewrite H1, H2, H3, H4. repeat rewrite pick_upto. reflexivity.
Qed.

(* the from_biopython half on its own: a file that lists every kind in stored order reloads as the
   same record *)
Theorem reload_identity : forall n R, items_ok n R = true -> no_ties R = true ->
  reload n (mkFile (map to_f (protos R)) (subs R) (cands R) (regns R)) = Ok R.
Proof.
  intros n R Hitems Hties.
  unfold reload. cbn [fprotos fsubs fcands fregns].
  unfold items_ok in Hitems.
  apply andb_true_iff in Hitems. destruct Hitems as [Hitems Hrs].
  apply andb_true_iff in Hitems. destruct Hitems as [Hitems Hr].
  apply andb_true_iff in Hitems. destruct Hitems as [Hitems Hc].
  apply andb_true_iff in Hitems. destruct Hitems as [Hp Hs].
  unfold no_ties in Hties.
  apply andb_true_iff in Hties. destruct Hties as [Hties Tc].
  apply andb_true_iff in Hties. destruct Hties as [Tp Ts].
  rewrite (reload_protos n (protos R) [] Tp Hp). cbn [bind app].
  rewrite (reload_subs n (subs R) [] Ts Hs). cbn [bind app].
  rewrite (reload_cands n (protos R) (cands R) [] Tc Hc). cbn [bind app].
  rewrite (reload_regns n (cands R) (subs R) (regns R) [] Hrs Hr). cbn [bind app].
  destruct R. reflexivity.
Qed.

Theorem relink : forall n R, guard n R = true -> roundtrip n R = Ok R.
Proof.
  intros n R H. unfold guard in H.
  apply andb_true_iff in H. destruct H as [H Hord]. apply andb_true_iff in H. destruct H as [Hitems Hties].
  unfold roundtrip. rewrite (dump_order_kept R Hord). apply reload_identity; assumption.
Qed.

Theorem relink_fixed_point : forall n R, guard n R = true ->
  exists R', roundtrip n R = Ok R' /\ dump R' = dump R /\ roundtrip n R' = Ok R'.
Proof.
  intros n R H. exists R. pose proof (relink n R H) as E. repeat split; assumption.
Qed.

(* ---- witnesses ---- *)
Definition P := mkPart.
(* two protoclusters of identical extent; bisect_left stored the later arrival (tag 2) first *)
Definition W_ties : skel :=
  mkSkel [mkProto 2 [P 10 40 1] [P 20 30 1]; mkProto 1 [P 10 40 1] [P 20 30 1]] []
         [mkCand 0 [1] [P 10 40 1]] [mkRegn [1] [] [P 10 40 1]].
(* circular record of 300: the neighbouring candidate covers the whole record as [0:300] *)
Definition W_whole : skel :=
  mkSkel [mkProto 1 [P 249 300 1; P 0 109 1] [P 10 50 1]; mkProto 2 [P 89 260 1] [P 150 200 1]] []
         [mkCand 2 [1; 2] [P 0 300 1]; mkCand 0 [1] [P 249 300 1; P 0 109 1]; mkCand 0 [2] [P 89 260 1]]
         [mkRegn [1; 2; 3] [] [P 0 300 1]].
(* linear record of 400 with nested protoclusters, a subregion, three candidates, two regions *)
Definition W_linear : skel :=
  mkSkel [mkProto 1 [P 10 40 1] [P 20 30 1]; mkProto 2 [P 10 35 1] [P 20 30 1]; mkProto 3 [P 100 200 1] [P 120 130 1]]
         [mkSub 1 [P 150 260 1]]
         [mkCand 2 [1; 2] [P 10 40 1]; mkCand 0 [2] [P 10 35 1]; mkCand 0 [3] [P 100 200 1]]
         [mkRegn [1; 2] [] [P 10 40 1]; mkRegn [3] [1] [P 100 260 1]].
(* circular record of 400 with origin-spanning protocluster, candidates and region *)
Definition W_ring : skel :=
  mkSkel [mkProto 1 [P 380 400 1; P 0 60 1] [P 390 400 1; P 0 20 1]; mkProto 2 [P 30 90 1] [P 50 60 1]] []
         [mkCand 2 [1; 2] [P 380 400 1; P 0 90 1]; mkCand 0 [1] [P 380 400 1; P 0 60 1]; mkCand 0 [2] [P 30 90 1]]
         [mkRegn [1; 2; 3] [] [P 380 400 1; P 0 90 1]].

Lemma relink_ties_refuted : exists n R R',
  items_ok n R = true /\ order_kept R = true /\ lt_consistent R = true /\ no_ties R = false /\
  roundtrip n R = Ok R' /\ skel_eqb R' R = false /\ file_eqb (dump R') (dump R) = false /\
  map ptag (protos R) = [2; 1] /\ map ptag (protos R') = [1; 2].
Proof.
  exists 400, W_ties.
  destruct (roundtrip 400 W_ties) as [R'|k] eqn:E; [|vm_compute in E; discriminate].
  exists R'. vm_compute in E. injection E as <-. vm_compute. repeat split; reflexivity.
Qed.

(* CDSCollection.__lt__ with the mirrored containment shortcut (repair of finding F46
   whole_record_vs_origin_spanning_order): never "less" both ways, for any two locations *)
Lemma lt_loc_asym : forall a b, lt_loc a b = true -> lt_loc b a = false.
Proof.
  intros a b. unfold lt_loc, C05.Model.pair_lt.
  destruct (contains a b); destruct (contains b a); cbn [andb negb]; try discriminate; try reflexivity;
    intros H; lia.
Qed.

Lemma no_mutual_asym : forall A (lt : A -> A -> bool), (forall x y, lt x y = true -> lt y x = false) ->
  forall l, no_mutual lt l = true.
Proof.
  intros A lt Hasym l. induction l as [|x r IH]; [reflexivity|]. cbn [no_mutual].
  rewrite IH, andb_true_r. apply forallb_forall. intros y _.
  destruct (lt x y) eqn:E; [rewrite (Hasym x y E)|]; reflexivity.
Qed.

(* hence the class of the former finding is empty: every skeleton is lt_consistent *)
Lemma lt_consistent_always : forall R, lt_consistent R = true.
Proof.
  intros R. unfold lt_consistent.
  rewrite !no_mutual_asym; [reflexivity| | |]; intros x y; apply lt_loc_asym.
Qed.

(* the former witness (circular record of 300, a neighbouring candidate covering the whole record as
   [0:300] and the origin-spanning single candidate of one of its members): now inside the guard,
   written in stored order and re-read as itself *)
Lemma relink_whole_record_witness :
  guard 300 W_whole = true /\ roundtrip 300 W_whole = Ok W_whole.
Proof. split; vm_compute; reflexivity. Qed.

Lemma area_codec_core : forall l, core_ok l = true ->
  exists t, loc_from_string (loc_str (tloc_of_loc l)) = Ok t /\ loc_of_tloc t = l.
Proof.
  intros l H. exists (tloc_of_loc l). split; [exact (core_codec l H) | exact (loc_of_tloc_of_loc l)].
Qed.

(* ================= sorted() loses and duplicates nothing ================= *)
From Coq Require Import Sorting.Permutation.

Lemma insert_at_perm : forall A i (x : A) l, Permutation (C05.Model.insert_at i x l) (x :: l).
Proof.
  intros A i x l. unfold C05.Model.insert_at.
  rewrite <- (firstn_skipn i l) at 3. symmetry. apply Permutation_middle.
Qed.

Lemma fold_bin_insert_perm : forall A (lt : A -> A -> bool) rest acc,
  Permutation (fold_left (bin_insert lt) rest acc) (acc ++ rest).
Proof.
  intros A lt. induction rest as [|x r IH]; intro acc.
  - cbn [fold_left]. rewrite app_nil_r. apply Permutation_refl.
  - cbn [fold_left]. eapply Permutation_trans; [apply IH|].
    unfold bin_insert. eapply Permutation_trans.
    + apply Permutation_app_tail. apply insert_at_perm.
    + cbn [app]. apply Permutation_middle.
Qed.

Theorem py_sorted_perm : forall A (lt : A -> A -> bool) l, Permutation (py_sorted lt l) l.
Proof.
  intros A lt l. unfold py_sorted. destruct (count_run lt l) as [n d].
  eapply Permutation_trans; [apply fold_bin_insert_perm|].
  apply Permutation_trans with (firstn n l ++ skipn n l).
  - apply Permutation_app_tail.
    destruct d; [symmetry; apply Permutation_rev | apply Permutation_refl].
  - rewrite firstn_skipn. apply Permutation_refl.
Qed.

Theorem file_order_complete : forall R, Permutation (file_order R) (areas_of R).
Proof. intro R. unfold file_order. apply py_sorted_perm. Qed.

(* ================= qualifier-level codecs ================= *)

(* ---- aStool: "externally annotated by: " ++ tool ---- *)
Lemma split_ext_label : forall tool,
  split_colon_space (ext_label ++ tool) = Some (ext_prefix ++ [32; 98; 121], tool).
Proof. intro tool. reflexivity. Qed.

Lemma starts_ext_label : forall tool, starts_with ext_prefix (ext_label ++ tool) = true.
Proof. intro tool. reflexivity. Qed.

(* a sideloaded area: every tool name, also one that itself starts with "externally annotated" *)
Theorem astool_sideloaded_codec : forall tool, astool_decode (astool_text true tool) = Ok (true, tool).
Proof.
  intro tool. unfold astool_decode, astool_text.
  rewrite starts_ext_label, split_ext_label. reflexivity.
Qed.

Theorem astool_codec : forall side tool, (side = false -> starts_with ext_prefix tool = false) ->
  astool_decode (astool_text side tool) = Ok (side, tool).
Proof.
  intros side tool H. destruct side.
  - apply astool_sideloaded_codec.
  - unfold astool_decode, astool_text. rewrite (H eq_refl). reflexivity.
Qed.

(* "externally annotated by me" ; "externally annotated: x" ; "in-house pipeline: pass 2" *)
Definition W_tool_rec : str :=
  [101; 120; 116; 101; 114; 110; 97; 108; 108; 121; 32; 97; 110; 110; 111; 116; 97; 116; 101; 100; 32; 98; 121; 32; 109; 101].
Definition W_tool_plain : str :=
  [101; 120; 116; 101; 114; 110; 97; 108; 108; 121; 32; 97; 110; 110; 111; 116; 97; 116; 101; 100; 58; 32; 120].
Definition W_tool_colon : str :=
  [105; 110; 45; 104; 111; 117; 115; 101; 32; 112; 105; 112; 101; 108; 105; 110; 101; 58; 32; 112; 97; 115; 115; 32; 50].

(* the witness of the repaired finding C10-F62 is read back as written *)
Lemma astool_prefix_repaired :
  starts_with ext_prefix W_tool_rec = true /\
  astool_decode (astool_text true W_tool_rec) = Ok (true, W_tool_rec).
Proof. split; reflexivity. Qed.

(* the proviso left on ordinary areas is needed: the prefix is the marker of the sideloaded classes *)
Lemma astool_marker_reserved :
  astool_decode (astool_text false W_tool_plain) = Ok (true, [120]) /\
  astool_decode (astool_text false ext_prefix) = Err E_Index.
Proof. split; reflexivity. Qed.

(* ---- number lists ---- *)
Theorem numbers_codec : forall l, numbers_parse (numbers_text l) = Ok l.
Proof.
  induction l as [|n r IH]; [reflexivity|].
  unfold numbers_parse, numbers_text in *. cbn [map mapM]. rewrite parse_int_str_of_int. cbn [bind].
  rewrite IH. reflexivity.
Qed.

(* ---- _parse_format ---- *)
Definition grp_of (p : list pitem) :=
  fix grp (acc : str) (s : str) {struct s} : option (list str) :=
    match s with
    | [] => None
    | x :: r => if x =? 10 then None else
                match pmatch p r with
                | Some g => Some (rev (x :: acc) :: g)
                | None => grp (x :: acc) r
                end
    end.

Lemma pmatch_group : forall p s, pmatch (PGroup :: p) s = grp_of p [] s.
Proof. reflexivity. Qed.

Definition nonl (s : str) : bool := negb (cmem 10 s).

Lemma cmem_cons : forall c x s, cmem c (x :: s) = (c =? x) || cmem c s.
Proof. reflexivity. Qed.

Lemma grp_exact : forall p rest g a acc, a <> [] -> nonl a = true -> pmatch p rest = Some g ->
  (forall a1 x a2, a = a1 ++ x :: a2 -> a1 <> [] -> pmatch p (x :: a2 ++ rest) = None) ->
  grp_of p acc (a ++ rest) = Some ((rev acc ++ a) :: g).
Proof.
  intros p rest g. induction a as [|x a IH]; intros acc Hne Hnl Hok Hfail; [congruence|].
  unfold nonl in Hnl. rewrite cmem_cons in Hnl. apply negb_true_iff in Hnl. apply orb_false_iff in Hnl.
  destruct Hnl as [Hx Hnl]. rewrite Z.eqb_sym in Hx.
  cbn [app grp_of]. rewrite Hx.
  destruct a as [|y a'].
  - cbn [app]. rewrite Hok. cbn [rev]. reflexivity.
  - change ((y :: a') ++ rest) with (y :: a' ++ rest) at 1.
    rewrite (Hfail [x] y a' eq_refl) by discriminate.
    change (y :: a' ++ rest) with ((y :: a') ++ rest).
    rewrite (IH (x :: acc)).
    + cbn [rev]. rewrite <- app_assoc. reflexivity.
    + discriminate.
    + unfold nonl. rewrite Hnl. reflexivity.
    + exact Hok.
    + intros a1 z a2 E Hn. apply (Hfail (x :: a1) z a2); [rewrite E; reflexivity | discriminate].
Qed.

Lemma cmem_split : forall c (a1 : str) x a2, cmem c (a1 ++ x :: a2) = false -> c <> x.
Proof.
  intros c a1 x a2 H. rewrite cmem_app, cmem_cons in H. apply orb_false_iff in H. destruct H as [_ H].
  apply orb_false_iff in H. destruct H as [H _]. apply Z.eqb_neq in H. exact H.
Qed.

(* a field followed by a literal character the field does not contain *)
Lemma group_lit : forall q c a Y g, a <> [] -> nonl a = true -> cmem c a = false ->
  pmatch q Y = Some g -> pmatch (PGroup :: PLit c :: q) (a ++ c :: Y) = Some (a :: g).
Proof.
  intros q c a Y g Hne Hnl Hc Hq. rewrite pmatch_group.
  rewrite (grp_exact (PLit c :: q) (c :: Y) g a []); [reflexivity | exact Hne | exact Hnl | |].
  - cbn [pmatch]. rewrite Z.eqb_refl. exact Hq.
  - intros a1 x a2 E _. rewrite E in Hc. apply cmem_split in Hc. cbn [pmatch].
    destruct (x =? c) eqn:Exc; [apply Z.eqb_eq in Exc; congruence | reflexivity].
Qed.

(* a field followed by an optional space and a literal, the field containing neither *)
Lemma group_opt_lit : forall q c a Y g, a <> [] -> nonl a = true -> cmem c a = false -> cmem 32 a = false ->
  pmatch (POptSpace :: PLit c :: q) Y = Some g ->
  pmatch (PGroup :: POptSpace :: PLit c :: q) (a ++ Y) = Some (a :: g).
Proof.
  intros q c a Y g Hne Hnl Hc Hs Hq. rewrite pmatch_group.
  rewrite (grp_exact (POptSpace :: PLit c :: q) Y g a []); [reflexivity | exact Hne | exact Hnl | exact Hq |].
  intros a1 x a2 E _. rewrite E in Hc, Hs. apply cmem_split in Hc. apply cmem_split in Hs.
  cbn [pmatch].
  destruct (x =? 32) eqn:E32; [apply Z.eqb_eq in E32; congruence|].
  destruct (x =? c) eqn:Exc; [apply Z.eqb_eq in Exc; congruence | reflexivity].
Qed.

Lemma opt_space_taken : forall q Y g, pmatch q Y = Some g -> pmatch (POptSpace :: q) (32 :: Y) = Some g.
Proof. intros q Y g H. cbn [pmatch]. rewrite Z.eqb_refl, H. reflexivity. Qed.

Lemma lit_taken : forall q c Y, pmatch (PLit c :: q) (c :: Y) = pmatch q Y.
Proof. intros. cbn [pmatch]. rewrite Z.eqb_refl. reflexivity. Qed.

(* the last field: everything up to the end *)
Lemma group_end : forall a, a <> [] -> nonl a = true -> pmatch [PGroup] a = Some [a].
Proof.
  intros a Hne Hnl. rewrite pmatch_group. rewrite <- (app_nil_r a) at 1.
  rewrite (grp_exact [] [] [] a []); [reflexivity | exact Hne | exact Hnl | reflexivity |].
  intros a1 x a2 E _. rewrite app_nil_r. cbn [pmatch at_end].
  destruct a2; [|reflexivity].
  unfold nonl in Hnl. rewrite E, cmem_app, cmem_cons in Hnl. apply negb_true_iff in Hnl.
  apply orb_false_iff in Hnl. destruct Hnl as [_ Hnl]. apply orb_false_iff in Hnl. destruct Hnl as [Hnl _].
  rewrite Z.eqb_sym in Hnl. rewrite Hnl. reflexivity.
Qed.

(* a format with a literal character that the text does not contain matches nothing *)
Lemma grp_lit_absent : forall p c, (forall s, cmem c s = false -> pmatch p s = None) ->
  forall s acc, cmem c s = false -> grp_of p acc s = None.
Proof.
  intros p c Hp. induction s as [|x r IH]; intros acc H; [reflexivity|].
  rewrite cmem_cons in H. apply orb_false_iff in H. destruct H as [_ H].
  cbn [grp_of]. destruct (x =? 10); [reflexivity|]. rewrite (Hp r H). apply IH. exact H.
Qed.

Lemma pmatch_lit_absent : forall c pat, In (PLit c) pat -> forall s, cmem c s = false -> pmatch pat s = None.
Proof.
  intros c. induction pat as [|it p IH]; intros Hin s H; [destruct Hin|].
  destruct it as [c'| |].
  - destruct s as [|x r]; [reflexivity|]. cbn [pmatch].
    rewrite cmem_cons in H. apply orb_false_iff in H. destruct H as [Hx Hr].
    destruct Hin as [Heq|Hin].
    + injection Heq as ->. rewrite Z.eqb_sym, Hx. reflexivity.
    + destruct (x =? c'); [apply IH; assumption | reflexivity].
  - destruct Hin as [Heq|Hin]; [discriminate|].
    destruct s as [|x r]; cbn [pmatch]; [apply IH; assumption|].
    assert (Hr : cmem c r = false) by (rewrite cmem_cons in H; apply orb_false_iff in H; tauto).
    destruct (x =? 32); [rewrite (IH Hin r Hr)|]; apply IH; assumption.
  - destruct Hin as [Heq|Hin]; [discriminate|].
    rewrite pmatch_group. apply (grp_lit_absent p c); [intros; apply IH; assumption | exact H].
Qed.

(* ---- gene function annotations ---- *)
Definition is_nil {A} (l : list A) : bool := match l with [] => true | _ => false end.

Definition wf_gfa (g : gfa) : bool :=
  (0 <=? gfun g) && (gfun g <=? 5) &&
  negb (is_nil (gtool g)) && forallb (fun c => negb (is_space c) && negb (c =? 41)) (gtool g) &&
  negb (is_nil (gdesc g)) && nonl (gdesc g) &&
  match gproduct g with
  | Some p => negb (is_nil p) && nonl p && negb (cmem 58 p)
  | None => negb (gfun g =? 1) && negb (cmem 58 (gtool g)) && negb (cmem 58 (gdesc g))
  end.

Lemma gf_name_facts : forall f, 0 <= f <= 5 ->
  gf_name f <> [] /\ nonl (gf_name f) = true /\ cmem 40 (gf_name f) = false /\ cmem 32 (gf_name f) = false /\
  cmem 58 (gf_name f) = false /\ gf_from_string (gf_name f) = Ok f.
Proof.
  intros f H.
  assert (C : f = 0 \/ f = 1 \/ f = 2 \/ f = 3 \/ f = 4 \/ f = 5) by lia.
  destruct C as [->|[->|[->|[->|[->| ->]]]]]; (split; [discriminate | repeat split; reflexivity]).
Qed.

Lemma tokens_in : forall s, forallb (fun c => negb (is_space c)) s = true -> count_tokens true s = O.
Proof.
  induction s as [|c r IH]; intro H; [reflexivity|]. cbn [forallb] in H. apply andb_true_iff in H.
  destruct H as [Hc Hr]. apply negb_true_iff in Hc. cbn [count_tokens]. rewrite Hc, (IH Hr). reflexivity.
Qed.

Lemma tokens_one : forall s, s <> [] -> forallb (fun c => negb (is_space c)) s = true -> count_tokens false s = 1%nat.
Proof.
  intros [|c r] Hne H; [congruence|]. cbn [forallb] in H. apply andb_true_iff in H.
  destruct H as [Hc Hr]. apply negb_true_iff in Hc. cbn [count_tokens]. rewrite Hc, (tokens_in r Hr). reflexivity.
Qed.

Lemma is_nil_false : forall A (l : list A), negb (is_nil l) = true -> l <> [].
Proof. intros A [|x r] H; [discriminate | discriminate]. Qed.

Lemma tool_chars : forall t, forallb (fun c => negb (is_space c) && negb (c =? 41)) t = true ->
  forallb (fun c => negb (is_space c)) t = true /\ cmem 41 t = false /\ nonl t = true.
Proof.
  induction t as [|c r IH]; intro H; [repeat split; reflexivity|].
  cbn [forallb] in H. apply andb_true_iff in H. destruct H as [Hc Hr].
  apply andb_true_iff in Hc. destruct Hc as [Hs H41]. destruct (IH Hr) as [I1 [I2 I3]].
  repeat split.
  - cbn [forallb]. rewrite Hs, I1. reflexivity.
  - rewrite cmem_cons, I2. apply negb_true_iff in H41. rewrite Z.eqb_sym, H41. reflexivity.
  - unfold nonl in *. rewrite cmem_cons. apply negb_true_iff in I3. rewrite I3.
    apply negb_true_iff in Hs. unfold is_space in Hs.
    destruct (10 =? c) eqn:E; [apply Z.eqb_eq in E; subst c; discriminate | reflexivity].
Qed.

Lemma pat4_eq : pat_of_format gf_format4 =
  [PGroup; POptSpace; PLit 40; PGroup; PLit 41; POptSpace; PGroup; PLit 58; POptSpace; PGroup].
Proof. reflexivity. Qed.
Lemma pat3_eq : pat_of_format gf_format3 = [PGroup; POptSpace; PLit 40; PGroup; PLit 41; POptSpace; PGroup].
Proof. reflexivity. Qed.

Lemma gfa_build_ok : forall f tool desc prod, 0 <= f <= 5 ->
  tool <> [] -> forallb (fun c => negb (is_space c)) tool = true -> desc <> [] ->
  ((f =? 1) && match prod with Some (_ :: _) => false | _ => true end = false) ->
  gfa_build (gf_name f) tool desc prod = Ok (mkGfa f tool prod desc).
Proof.
  intros f tool desc prod Hf Ht Hs Hd Hc. unfold gfa_build.
  destruct (gf_name_facts f Hf) as [_ [_ [_ [_ [_ ->]]]]]. cbn [bind].
  destruct tool as [|c t]; [congruence|]. rewrite (tokens_one (c :: t)) by (assumption || discriminate).
  cbn [Nat.eqb negb]. destruct desc as [|d ds]; [congruence|].
  destruct (f =? 1); destruct prod as [[|pc pr]|]; cbn [andb] in *; try discriminate; reflexivity.
Qed.

Theorem gfa_codec : forall g, wf_gfa g = true -> gfa_parse (gfa_text g) = Ok g.
Proof.
  intros [f tool prod desc] H. unfold wf_gfa in H. cbn [gfun gtool gproduct gdesc] in H.
  repeat (apply andb_true_iff in H; destruct H as [H ?]).
  assert (Hf : 0 <= f <= 5) by lia.
  destruct (gf_name_facts f Hf) as [Fne [Fnl [F40 [F32 [F58 _]]]]].
  match goal with Ht : forallb _ tool = true |- _ => destruct (tool_chars tool Ht) as [Tsp [T41 Tnl]] end.
  match goal with Ht : negb (is_nil tool) = true |- _ => pose proof (is_nil_false _ _ Ht) as Tne end.
  match goal with Ht : negb (is_nil desc) = true |- _ => pose proof (is_nil_false _ _ Ht) as Dne end.
  unfold gfa_parse, gfa_text. cbn [gfun gtool gproduct gdesc]. rewrite pat4_eq, pat3_eq.
  destruct prod as [p|].
  - match goal with Hp : _ && _ && _ = true |- _ =>
      apply andb_true_iff in Hp; destruct Hp as [Hp P58]; apply andb_true_iff in Hp; destruct Hp as [Pne Pnl] end.
    apply is_nil_false in Pne. apply negb_true_iff in P58.
    destruct p as [|pc pr]; [congruence|]. set (p := pc :: pr) in *.
    cbn [app].
    rewrite (group_opt_lit _ 40 (gf_name f) _ [tool; p; desc]); try assumption.
    + cbv beta iota. apply gfa_build_ok; try assumption.
      unfold p. rewrite andb_false_r. reflexivity.
    + apply opt_space_taken. rewrite lit_taken.
      apply group_lit; try assumption. apply opt_space_taken.
      apply group_lit; try assumption. apply opt_space_taken.
      apply group_end; assumption.
  - match goal with Hp : _ && _ && _ = true |- _ =>
      apply andb_true_iff in Hp; destruct Hp as [Hp D58]; apply andb_true_iff in Hp; destruct Hp as [Hcore T58] end.
    apply negb_true_iff in D58. apply negb_true_iff in T58. apply negb_true_iff in Hcore.
    cbn [app].
    rewrite pmatch_lit_absent with (c := 58).
    + rewrite (group_opt_lit _ 40 (gf_name f) _ [tool; desc]); try assumption.
      * cbv beta iota. apply gfa_build_ok; try assumption. rewrite Hcore. reflexivity.
      * apply opt_space_taken. rewrite lit_taken.
        apply group_lit; try assumption. apply opt_space_taken. apply group_end; assumption.
    + cbn [In]. tauto.
    + rewrite cmem_app, F58. cbn [orb]. rewrite !cmem_cons, cmem_app, T58. cbn [orb].
      rewrite !cmem_cons, D58. reflexivity.
Qed.

(* the format is ambiguous: ADDITIONAL (smcogs) "SMCOG1001: thing" without product prints as
   "biosynthetic-additional (smcogs) SMCOG1001: thing" and reads back with product "SMCOG1001" and
   description "thing"; the text of the re-read annotation is the same *)
Definition W_gfa : gfa :=
  mkGfa 2 [115; 109; 99; 111; 103; 115] None [83; 77; 67; 79; 71; 49; 48; 48; 49; 58; 32; 116; 104; 105; 110; 103].
Definition W_gfa' : gfa :=
  mkGfa 2 [115; 109; 99; 111; 103; 115] (Some [83; 77; 67; 79; 71; 49; 48; 48; 49]) [116; 104; 105; 110; 103].

Lemma gfa_colon_refuted :
  gfa_parse (gfa_text W_gfa) = Ok W_gfa' /\ W_gfa' <> W_gfa /\ gfa_text W_gfa' = gfa_text W_gfa.
Proof. split; [reflexivity | split; [discriminate | reflexivity]]. Qed.

(* ================= generic features on the read path ================= *)
From Coq Require Import Sorting.Permutation.

(* location_bridges_origin without allow_reversing is a pure test: the answer of Common/Loc.v's bridges, the
   location untouched *)
Lemma bridges_origin_plain : forall l, bridges_origin false l = (bridges l, l).
Proof.
  intros l. unfold bridges_origin, bridges. destruct (is_compound l); cbn [negb]; [|reflexivity].
  destruct ((lstrand l =? 1) || (lstrand l =? -1)); cbn [negb andb]; [|reflexivity].
  destruct (check_order (lstrand l) l); reflexivity.
Qed.

(* with allow_reversing it is not: complement(join(551..600,1..40)) on a record of 600, as NCBI writes a
   reverse-strand feature over the origin, is left with its exons in the other order and no longer crosses the origin *)
Definition W_ncbi_rev : loc := [mkPart 0 40 (-1); mkPart 550 600 (-1)].
Lemma bridges_origin_reversing_witness :
  bridges_origin false W_ncbi_rev = (true, W_ncbi_rev) /\
  bridges_origin true W_ncbi_rev = (false, rev W_ncbi_rev) /\ rev W_ncbi_rev <> W_ncbi_rev /\
  bridges (rev W_ncbi_rev) = false.
Proof. repeat split; try reflexivity. discriminate. Qed.

(* ---- remove_redundant_exons keeps a location without nested exons ---- *)
Definition apart (p q : part) : Prop := part_contains p q = false /\ part_contains q p = false.
Fixpoint pw (l : list part) : Prop :=
  match l with [] => True | p :: r => Forall (apart p) r /\ pw r end.

Lemma apart_sym : forall p q, apart p q -> apart q p.
Proof. intros p q [H1 H2]. split; assumption. Qed.

Lemma nested_free_pw : forall l, nested_free l = true -> pw l.
Proof.
  induction l as [|p r IH]; intros H; cbn [nested_free pw] in *; [exact I|].
  apply andb_true_iff in H. destruct H as [H1 H2]. split; [|exact (IH H2)].
  apply Forall_forall. intros q Hq. rewrite forallb_forall in H1. specialize (H1 q Hq).
  apply andb_true_iff in H1. destruct H1 as [A B]. apply negb_true_iff in A. apply negb_true_iff in B. split; assumption.
Qed.

Lemma insert_by_in : forall A (lt : A -> A -> bool) x l y, In y (insert_by lt x l) -> y = x \/ In y l.
Proof.
  intros A lt x. induction l as [|z zs IH]; intros y H; cbn [insert_by] in H.
  - destruct H as [<-|[]]. left. reflexivity.
  - destruct (lt x z).
    + destruct H as [<-|H]; [left; reflexivity|right; exact H].
    + destruct H as [<-|H]; [right; left; reflexivity|].
      destruct (IH y H) as [E|I]; [left; exact E|right; right; exact I].
Qed.

Lemma insert_by_forall : forall A (lt : A -> A -> bool) (P : A -> Prop) x l, P x -> Forall P l -> Forall P (insert_by lt x l).
Proof.
  intros A lt P x l Hx Hl. apply Forall_forall. intros y Hy.
  destruct (insert_by_in A lt x l y Hy) as [->|I]; [exact Hx|]. rewrite Forall_forall in Hl. exact (Hl y I).
Qed.

Lemma insert_by_pw : forall lt x l, pw l -> Forall (apart x) l -> pw (insert_by lt x l).
Proof.
  intros lt x. induction l as [|z zs IH]; intros Hp Hx; cbn [insert_by].
  - cbn [pw]. split; [apply Forall_nil|exact I].
  - destruct (lt x z).
    + cbn [pw]. split; [exact Hx|exact Hp].
    + cbn [pw] in Hp |- *. destruct Hp as [Hz Hzs]. inversion Hx as [|? ? Hxz Hxzs]; subst.
      split; [|exact (IH Hzs Hxzs)].
      apply insert_by_forall; [apply apart_sym; exact Hxz|exact Hz].
Qed.

Lemma sort_pw_gen : forall lt l acc, pw acc -> pw l -> (forall x y, In x acc -> In y l -> apart x y) ->
  pw (fold_left (fun a x => insert_by lt x a) l acc).
Proof.
  intros lt. induction l as [|p r IH]; intros acc Ha Hl Hx; cbn [fold_left]; [exact Ha|].
  cbn [pw] in Hl. destruct Hl as [Hp Hr]. apply IH.
  - apply insert_by_pw; [exact Ha|]. apply Forall_forall. intros z Hz. apply apart_sym. apply Hx; [exact Hz|left; reflexivity].
  - exact Hr.
  - intros x y Hxi Hy. destruct (insert_by_in _ lt p acc x Hxi) as [->|I].
    + rewrite Forall_forall in Hp. exact (Hp y Hy).
    + apply Hx; [exact I|right; exact Hy].
Qed.

Lemma sort_by_pw : forall lt l, pw l -> pw (sort_by lt l).
Proof. intros lt l H. unfold sort_by. apply sort_pw_gen; [exact I|exact H|]. intros x y []. Qed.

Lemma insert_by_perm : forall A (lt : A -> A -> bool) x l, Permutation (insert_by lt x l) (x :: l).
Proof.
  intros A lt x. induction l as [|y ys IH]; cbn [insert_by]; [apply Permutation_refl|].
  destruct (lt x y); [apply Permutation_refl|].
  apply Permutation_trans with (y :: x :: ys); [apply perm_skip; exact IH|apply perm_swap].
Qed.
Lemma fold_insert_perm : forall A (lt : A -> A -> bool) l acc,
  Permutation (fold_left (fun acc x => insert_by lt x acc) l acc) (l ++ acc).
Proof.
  intros A lt. induction l as [|x xs IH]; intros acc; cbn [fold_left app]; [apply Permutation_refl|].
  apply Permutation_trans with (xs ++ insert_by lt x acc); [apply IH|].
  apply Permutation_trans with (xs ++ x :: acc).
  - apply Permutation_app_head. apply insert_by_perm.
  - apply Permutation_sym. apply Permutation_middle.
Qed.
Lemma sort_by_perm : forall A (lt : A -> A -> bool) l, Permutation (sort_by lt l) l.
Proof. intros A lt l. unfold sort_by. rewrite <- (app_nil_r l) at 2. apply fold_insert_perm. Qed.

Definition keep_step (parts : list part) (p : part) : list part :=
  if existsb (fun ex => part_contains ex p) parts then parts else parts ++ [p].

Lemma keep_all : forall s acc, pw s -> (forall x y, In x acc -> In y s -> part_contains x y = false) ->
  fold_left keep_step s acc = acc ++ s.
Proof.
  induction s as [|p r IH]; intros acc Hs Hx; cbn [fold_left]; [rewrite app_nil_r; reflexivity|].
  cbn [pw] in Hs. destruct Hs as [Hp Hr].
  assert (E : existsb (fun ex => part_contains ex p) acc = false).
  { destruct (existsb (fun ex => part_contains ex p) acc) eqn:Ex; [|reflexivity].
    apply existsb_exists in Ex. destruct Ex as [ex [Hin Hc]]. rewrite (Hx ex p Hin (or_introl eq_refl)) in Hc. discriminate. }
  unfold keep_step at 2. rewrite E. rewrite (IH (acc ++ [p]) Hr).
  - rewrite <- app_assoc. reflexivity.
  - intros x y Hxi Hy. apply in_app_or in Hxi. destruct Hxi as [I|[<-|[]]].
    + apply Hx; [exact I|right; exact Hy].
    + rewrite Forall_forall in Hp. exact (proj1 (Hp y Hy)).
Qed.

Lemma part_eqb_refl : forall p, part_eqb p p = true.
Proof. intros p. unfold part_eqb. rewrite !Z.eqb_refl. reflexivity. Qed.

Lemma filter_all : forall A (f : A -> bool) l, (forall x, In x l -> f x = true) -> filter f l = l.
Proof.
  intros A f. induction l as [|x r IH]; intros H; cbn [filter]; [reflexivity|].
  rewrite (H x (or_introl eq_refl)). rewrite IH; [reflexivity|]. intros y Hy. apply H. right. exact Hy.
Qed.

Lemma remove_redundant_keeps : forall l, nested_free l = true -> remove_redundant_exons l = l.
Proof.
  intros l H. unfold remove_redundant_exons. destruct (is_compound l) eqn:C; cbn [negb]; [|reflexivity].
  change (fun (parts : list part) (p : part) =>
            if existsb (fun ex : part => part_contains ex p) parts then parts else parts ++ [p]) with keep_step.
  rewrite (keep_all (sort_by size_gt l) []); [|apply sort_by_pw; apply nested_free_pw; exact H|intros x y []].
  cbn [app].
  pose proof (sort_by_perm _ size_gt l) as P.
  assert (L : length (sort_by size_gt l) = length l) by (apply Permutation_length; exact P).
  assert (F : filter (fun p => existsb (part_eqb p) (sort_by size_gt l)) l = l).
  { apply filter_all. intros x Hx. apply existsb_exists. exists x. split; [|apply part_eqb_refl].
    apply (Permutation_in x (Permutation_sym P)). exact Hx. }
  destruct l as [|a [|b t]]; cbn [is_compound] in C; try discriminate.
  destruct (sort_by size_gt (a :: b :: t)) as [|x [|y u]]; cbn [length] in L; try discriminate. exact F.
Qed.

(* a location that a record can hold comes back from Record.from_biopython as it was *)
Lemma read_added_keeps_location : forall n circular ty l l',
  writable circular ty l = true -> read_feature_added n circular ty l = Ok l' -> l' = l.
Proof.
  intros n circular ty l l' W R. unfold writable in W. apply andb_true_iff in W. destruct W as [NF G].
  unfold read_feature_added in R.
  destruct (n <? lend l); [discriminate|]. destruct (overlapping_exons l); [discriminate|].
  destruct (is_compound l && (lstart l =? 0) && (lend l =? n) && negb circular); [discriminate|].
  rewrite bridges_origin_plain in R. cbn [fst] in R. rewrite (remove_redundant_keeps l NF) in R.
  assert (E : (if (ty =? T_misc) && bridges l then l else l) = l) by (destruct ((ty =? T_misc) && bridges l); reflexivity).
  rewrite E in R. clear E.
  destruct (lstart l <? 0); [discriminate|].
  rewrite bridges_origin_plain in R. cbn [fst] in R.
  destruct ((ty =? T_gene) && negb circular) eqn:TG; cbn [negb orb andb] in G, R.
  - apply negb_true_iff in G. rewrite G in R. rewrite andb_false_r in R. injection R as <-. reflexivity.
  - injection R as <-. reflexivity.
Qed.

Lemma read_loc_inv : forall n circular ty l l', read_feature_loc n circular ty l = Ok l' ->
  read_feature_added n circular ty l = Ok l' /\ sortable l' = true.
Proof.
  intros n circular ty l l' R. unfold read_feature_loc in R.
  destruct (read_feature_added n circular ty l) as [l1|e]; cbn [bind] in R; [|discriminate].
  destruct (sortable l1) eqn:S; [|discriminate]. injection R as <-. split; [reflexivity|exact S].
Qed.

Theorem read_keeps_location : forall n circular ty l l',
  writable circular ty l = true -> read_feature_loc n circular ty l = Ok l' -> l' = l.
Proof.
  intros n circular ty l l' W R. apply read_loc_inv in R. destruct R as [R _].
  exact (read_added_keeps_location n circular ty l l' W R).
Qed.

(* ---- what is accepted on reading can be ordered (repair of finding C10-F65) ---- *)
Lemma sortable_cmp_key : forall s l, sortable l = true -> exists k, C04.Model.cmp_key s l = Ok k.
Proof.
  intros s l H. unfold sortable in H. unfold C04.Model.cmp_key.
  destruct (bridges l); [|eexists; reflexivity].
  destruct (split_bridging l) as [[lo hd]|e]; [|discriminate]. cbn [bind]. eexists. reflexivity.
Qed.

Lemma cmp_key_sortable : forall s l k, C04.Model.cmp_key s l = Ok k -> sortable l = true.
Proof.
  intros s l k H. unfold sortable. unfold C04.Model.cmp_key in H.
  destruct (bridges l); [|reflexivity].
  destruct (split_bridging l) as [[lo hd]|e]; [reflexivity|]. cbn [bind] in H. discriminate.
Qed.

(* every location Record.from_biopython lets into a record has a sort key *)
Theorem read_is_sortable : forall n circular ty l l', read_feature_loc n circular ty l = Ok l' ->
  exists k, feature_key l' = Ok k.
Proof.
  intros n circular ty l l' R. apply read_loc_inv in R. destruct R as [_ S].
  exact (sortable_cmp_key 1 l' S).
Qed.

(* Feature.__lt__ (either way round, "source" or not) and CDSCollection.__lt__ answer - they do not raise - on any two
   locations that have a sort key, hence on any two locations accepted on reading: sorted(all_features) in
   Record.to_biopython cannot raise ValueError *)
Theorem sortable_compare : forall a b, sortable a = true -> sortable b = true ->
  forall src, (exists r, C04.Model.feature_lt src a b = Ok r) /\ (exists r, C04.Model.collection_lt a b = Ok r).
Proof.
  intros a b Ha Hb src. split.
  - destruct (sortable_cmp_key 1 a Ha) as [ka Ka]. destruct (sortable_cmp_key 1 b Hb) as [kb Kb].
    unfold C04.Model.feature_lt. rewrite Ka, Kb. cbn [bind].
    destruct (C04.Model.pair_eqb ka kb && src); eexists; reflexivity.
  - destruct (sortable_cmp_key (-1) a Ha) as [ka Ka]. destruct (sortable_cmp_key (-1) b Hb) as [kb Kb].
    unfold C04.Model.collection_lt. rewrite Ka, Kb. cbn [bind].
    destruct (contains a b && negb (contains b a)); [eexists; reflexivity|].
    destruct (contains b a && negb (contains a b)); eexists; reflexivity.
Qed.

Theorem read_features_compare : forall n c1 c2 ty1 ty2 l1 l2 a b,
  read_feature_loc n c1 ty1 l1 = Ok a -> read_feature_loc n c2 ty2 l2 = Ok b ->
  forall src, (exists r, C04.Model.feature_lt src a b = Ok r) /\ (exists r, C04.Model.collection_lt a b = Ok r).
Proof.
  intros n c1 c2 ty1 ty2 l1 l2 a b Ra Rb. apply read_loc_inv in Ra. apply read_loc_inv in Rb.
  exact (sortable_compare a b (proj2 Ra) (proj2 Rb)).
Qed.

(* the witnesses of the former finding: forward join(401..430,201..230,101..130), the reverse-strand three exons in
   ascending order, and mixed strands out of order were accepted as misc_feature (and had no sort key); they are refused *)
Definition W_f3 : loc := [mkPart 400 430 1; mkPart 200 230 1; mkPart 100 130 1].
Definition W_r3 : loc := [mkPart 100 130 (-1); mkPart 200 230 (-1); mkPart 400 430 (-1)].
Definition W_mix : loc := [mkPart 300 400 1; mkPart 100 200 (-1)].
Lemma read_unsortable_refused :
  read_feature_added 600 false T_misc W_f3 = Ok W_f3 /\ feature_key W_f3 = Err E_Value /\
  read_feature_loc 600 false T_misc W_f3 = Err E_SecmetInvalid /\
  read_feature_loc 600 true 1 W_r3 = Err E_SecmetInvalid /\ read_feature_loc 600 true T_gene W_mix = Err E_SecmetInvalid /\
  (* still accepted: the same three reverse-strand exons as a gene on a linear record (add_gene reverses them), and two
     exons in the 'other' order (taken for a crossing of the origin) *)
  read_feature_loc 600 false T_gene W_r3 = Ok (rev W_r3) /\
  read_feature_loc 600 false T_misc [mkPart 100 130 (-1); mkPart 400 430 (-1)] = Ok [mkPart 100 130 (-1); mkPart 400 430 (-1)].
Proof. repeat split; reflexivity. Qed.

(* non-vacuity / the seeded location: W_ncbi_rev is writable as a misc_feature on a circular record and is read unchanged *)
Lemma read_ncbi_witness :
  writable true T_misc W_ncbi_rev = true /\ read_feature_loc 600 true T_misc W_ncbi_rev = Ok W_ncbi_rev /\
  bridges W_ncbi_rev = true.
Proof. repeat split; reflexivity. Qed.

(* what the prefilter is for: an exon inside another one disappears on reading (not a location a record writes) *)
Lemma read_removes_nested_exon :
  read_feature_loc 600 true T_misc [mkPart 550 600 1; mkPart 0 40 1; mkPart 10 20 1] = Ok [mkPart 550 600 1; mkPart 0 40 1] /\
  writable true T_misc [mkPart 550 600 1; mkPart 0 40 1; mkPart 10 20 1] = false.
Proof. split; reflexivity. Qed.

(* ================= CDS features: order on reload ================= *)
Lemma mapM_forall2 : forall A B (f : A -> res B) l ks, mapM f l = Ok ks -> Forall2 (fun x k => f x = Ok k) l ks.
Proof.
  intros A B f. induction l as [|x r IH]; intros ks H; cbn [mapM] in H.
  - injection H as <-. apply Forall2_nil.
  - destruct (f x) as [k|e] eqn:E; cbn [bind] in H; [|discriminate].
    destruct (mapM f r) as [kr|e] eqn:Er; cbn [bind] in H; [|discriminate]. injection H as <-.
    apply Forall2_cons; [exact E|exact (IH kr eq_refl)].
Qed.
Lemma forall2_mapM : forall A B (f : A -> res B) l ks, Forall2 (fun x k => f x = Ok k) l ks -> mapM f l = Ok ks.
Proof.
  intros A B f l ks H. induction H as [|x k r kr E _ IH]; cbn [mapM]; [reflexivity|].
  rewrite E, IH. reflexivity.
Qed.

Lemma forall2_length : forall A B (R : A -> B -> Prop) l k, Forall2 R l k -> length l = length k.
Proof. intros A B R l k H. induction H; cbn [length]; [reflexivity|]. rewrite IHForall2. reflexivity. Qed.

(* weakly_sorted: every later key is not less than an earlier one (pair_lt is the lexicographic order) *)
Lemma weakly_sorted_tail : forall k l, weakly_sorted (k :: l) = true -> weakly_sorted l = true.
Proof.
  intros k l H. destruct l as [|b t]; [reflexivity|]. cbn [weakly_sorted] in H.
  apply andb_true_iff in H. exact (proj2 H).
Qed.

Lemma weakly_sorted_head : forall l k, weakly_sorted (k :: l) = true ->
  forall y, In y l -> C04.Model.pair_lt y k = false.
Proof.
  induction l as [|b t IH]; intros k H y Hy; [destruct Hy|].
  pose proof (weakly_sorted_tail _ _ H) as Ht.
  cbn [weakly_sorted] in H. apply andb_true_iff in H. destruct H as [H1 _]. apply negb_true_iff in H1.
  destruct Hy as [<-|Hy]; [exact H1|].
  pose proof (IH b Ht y Hy) as H2. clear - H1 H2. unfold C04.Model.pair_lt in *. lia.
Qed.

Lemma weakly_sorted_app_inv : forall a x r, weakly_sorted (a ++ x :: r) = true ->
  forall e, In e a -> C04.Model.pair_lt x e = false.
Proof.
  induction a as [|y t IH]; intros x r H e He; [destruct He|].
  change ((y :: t) ++ x :: r) with (y :: (t ++ x :: r)) in H.
  destruct He as [<-|He].
  - apply (weakly_sorted_head _ _ H). apply in_or_app. right. left. reflexivity.
  - exact (IH x r (weakly_sorted_tail _ _ H) e He).
Qed.

Lemma insert_cds_append : forall acc kacc x kx,
  Forall2 (fun l k => feature_key l = Ok k) acc kacc -> feature_key x = Ok kx ->
  (forall ke, In ke kacc -> C04.Model.pair_lt kx ke = false) -> insert_cds (Ok acc) x = Ok (acc ++ [x]).
Proof.
  intros acc kacc x kx HF Hx Hlt. unfold insert_cds. cbn [bind].
  destruct acc as [|a r] eqn:Ea; [reflexivity|]. rewrite <- Ea in *.
  rewrite Hx. cbn [bind]. rewrite (forall2_mapM _ _ _ _ _ HF). cbn [bind].
  rewrite (bisect_left_all _ (fun ke => negb (C04.Model.pair_lt kx ke)) kacc).
  - rewrite <- (forall2_length _ _ _ _ _ HF). rewrite insert_at_end. reflexivity.
  - intros ke Hke. rewrite (Hlt ke Hke). reflexivity.
Qed.

Lemma cds_reload_gen : forall items kitems, Forall2 (fun l k => feature_key l = Ok k) items kitems ->
  forall acc kacc, Forall2 (fun l k => feature_key l = Ok k) acc kacc ->
  weakly_sorted (kacc ++ kitems) = true ->
  fold_left insert_cds items (Ok acc) = Ok (acc ++ items).
Proof.
  intros items kitems H. induction H as [|x kx r kr Hx Hr IH]; intros acc kacc Ha Hs; cbn [fold_left].
  - rewrite app_nil_r. reflexivity.
  - rewrite (insert_cds_append acc kacc x kx Ha Hx (weakly_sorted_app_inv kacc kx kr Hs)).
    replace (acc ++ x :: r) with ((acc ++ [x]) ++ r) by (rewrite <- app_assoc; reflexivity).
    apply (IH (acc ++ [x]) (kacc ++ [kx])).
    + apply Forall2_app; [exact Ha|apply Forall2_cons; [exact Hx|apply Forall2_nil]].
    + rewrite <- app_assoc. exact Hs.
Qed.

(* CDS features whose sort keys never decrease - equal keys included, after the repair of C10-F47 - are re-added in
   the same order *)
Theorem cds_order_kept : forall locs keys, mapM feature_key locs = Ok keys ->
  weakly_sorted keys = true -> cds_reload locs = Ok locs.
Proof.
  intros locs keys Hk Hs. unfold cds_reload.
  exact (cds_reload_gen locs keys (mapM_forall2 _ _ _ _ _ Hk) [] [] (Forall2_nil _) Hs).
Qed.

(* ---- the stored CDS list is a fixed point of re-adding, whatever the keys (repair of finding C10-F47) ---- *)
Lemma bisect_go_partition : forall A (p : A -> bool) (a b : list A),
  (forall x, In x a -> p x = true) -> (forall x, In x b -> p x = false) ->
  forall fuel lo hi, (lo <= length a <= hi)%nat -> (hi <= length (a ++ b))%nat -> (hi - lo < fuel)%nat ->
  C05.Model.bisect_go p (a ++ b) fuel lo hi = length a.
Proof.
  intros A p a b Ha Hb. induction fuel as [|f IH]; intros lo hi Hk Hhi Hf; [lia|].
  cbn [C05.Model.bisect_go]. destruct (Nat.ltb_spec lo hi) as [Hlt|Hge]; [|lia].
  pose proof (div2_bounds lo hi Hlt) as Hm.
  destruct (nth_error (a ++ b) (Nat.div2 (lo + hi))) as [e|] eqn:Hn.
  - destruct (Nat.lt_ge_cases (Nat.div2 (lo + hi)) (length a)) as [Hma|Hma].
    + rewrite nth_error_app1 in Hn by exact Hma.
      rewrite (Ha e (nth_error_In _ _ Hn)). apply IH; lia.
    + rewrite nth_error_app2 in Hn by exact Hma.
      rewrite (Hb e (nth_error_In _ _ Hn)). apply IH; lia.
  - apply nth_error_None in Hn. lia.
Qed.

Lemma bisect_left_partition : forall A (p : A -> bool) (a b : list A),
  (forall x, In x a -> p x = true) -> (forall x, In x b -> p x = false) ->
  C05.Model.bisect_left p (a ++ b) = length a.
Proof.
  intros A p a b Ha Hb. unfold C05.Model.bisect_left. apply bisect_go_partition; auto; rewrite ?app_length; lia.
Qed.

Lemma downward_split : forall A (p : A -> bool) (l : list A),
  (forall a x b y, l = a ++ x :: b -> In y b -> p y = true -> p x = true) ->
  exists a b, l = a ++ b /\ (forall x, In x a -> p x = true) /\ (forall x, In x b -> p x = false).
Proof.
  intros A p. induction l as [|x l IH]; intros H.
  - exists [], []. repeat split; intros ? [].
  - destruct (p x) eqn:Hx.
    + destruct IH as (a & b & -> & Ha & Hb).
      { intros a0 x0 b0 y E Hy Hp. apply (H (x :: a0) x0 b0 y); [rewrite E; reflexivity|exact Hy|exact Hp]. }
      exists (x :: a), b. repeat split; [|exact Hb]. intros z [<-|Hz]; [exact Hx|apply Ha; exact Hz].
    + exists [], (x :: l). repeat split; [intros ? []|].
      intros z [<-|Hz]; [exact Hx|].
      destruct (p z) eqn:Hpz; [|reflexivity].
      rewrite (H [] x l z eq_refl Hz Hpz) in Hx. discriminate.
Qed.

Lemma insert_at_app : forall A (x : A) a b, C05.Model.insert_at (length a) x (a ++ b) = a ++ x :: b.
Proof.
  intros A x a b. unfold C05.Model.insert_at. induction a as [|y t IH]; [destruct b; reflexivity|].
  cbn [length app firstn skipn]. rewrite IH. reflexivity.
Qed.

Lemma forall2_insert_at : forall A B (R : A -> B -> Prop) x kx l k, Forall2 R l k -> R x kx ->
  forall i, Forall2 R (C05.Model.insert_at i x l) (C05.Model.insert_at i kx k).
Proof.
  intros A B R x kx l k H Hx. unfold C05.Model.insert_at.
  induction H as [|a ka r kr Ha Hr IH]; intros i.
  - destruct i; cbn [firstn skipn app]; apply Forall2_cons; try exact Hx; apply Forall2_nil.
  - destruct i as [|j]; cbn [firstn skipn app].
    + apply Forall2_cons; [exact Hx|apply Forall2_cons; [exact Ha|exact Hr]].
    + apply Forall2_cons; [exact Ha|apply IH].
Qed.

Lemma weakly_sorted_app_r : forall a b, weakly_sorted (a ++ b) = true -> weakly_sorted b = true.
Proof.
  induction a as [|y t IH]; intros b H; [exact H|].
  apply IH. exact (weakly_sorted_tail y (t ++ b) H).
Qed.

Lemma weakly_sorted_cons : forall k l, weakly_sorted l = true ->
  (forall b t, l = b :: t -> C04.Model.pair_lt b k = false) -> weakly_sorted (k :: l) = true.
Proof.
  intros k l Hs Hh. destruct l as [|b t]; [reflexivity|]. cbn [weakly_sorted].
  rewrite (Hh b t eq_refl). cbn [negb andb]. exact Hs.
Qed.

Lemma weakly_sorted_insert : forall kx a b, weakly_sorted (a ++ b) = true ->
  (forall e, In e a -> C04.Model.pair_lt kx e = false) -> (forall e, In e b -> C04.Model.pair_lt kx e = true) ->
  weakly_sorted (a ++ kx :: b) = true.
Proof.
  intros kx. induction a as [|y t IH]; intros b Hs Ha Hb.
  - cbn [app] in *. apply weakly_sorted_cons; [exact Hs|]. intros e r ->.
    pose proof (Hb e (or_introl eq_refl)) as H. clear - H. unfold C04.Model.pair_lt in *. lia.
  - change ((y :: t) ++ kx :: b) with (y :: (t ++ kx :: b)).
    change ((y :: t) ++ b) with (y :: (t ++ b)) in Hs.
    apply weakly_sorted_cons.
    + apply IH; [exact (weakly_sorted_tail _ _ Hs)|intros e He; apply Ha; right; exact He|exact Hb].
    + intros e r E. destruct t as [|z u]; cbn [app] in E; injection E as <- _.
      * apply Ha. left. reflexivity.
      * cbn [app weakly_sorted] in Hs. apply andb_true_iff in Hs. apply negb_true_iff. exact (proj1 Hs).
Qed.

(* the lists add_cds_feature can produce: at most one element (stored without any comparison), or keyed and sorted *)
Definition cds_inv (s : list loc) : Prop :=
  (length s <= 1)%nat \/ exists ks, Forall2 (fun l k => feature_key l = Ok k) s ks /\ weakly_sorted ks = true.

Lemma insert_cds_inv : forall acc x acc', cds_inv acc -> insert_cds (Ok acc) x = Ok acc' -> cds_inv acc'.
Proof.
  intros acc x acc' I H. unfold insert_cds in H. cbn [bind] in H.
  destruct acc as [|a0 r0] eqn:Ea; [injection H as <-; left; cbn [length]; lia|]. rewrite <- Ea in *.
  destruct (feature_key x) as [kx|e] eqn:Kx; cbn [bind] in H; [|discriminate].
  destruct (mapM feature_key acc) as [ks|e] eqn:Ks; cbn [bind] in H; [|discriminate].
  injection H as <-.
  pose proof (mapM_forall2 _ _ _ _ _ Ks) as F.
  assert (S : weakly_sorted ks = true).
  { destruct I as [L|[ks' [F' S']]].
    - pose proof (forall2_length _ _ _ _ _ F) as E. destruct ks as [|k1 [|k2 t]]; try reflexivity.
      cbn [length] in E. lia.
    - rewrite (forall2_mapM _ _ _ _ _ F') in Ks. injection Ks as <-. exact S'. }
  set (p := fun ke => negb (C04.Model.pair_lt kx ke)).
  destruct (downward_split _ p ks) as (A & B & E & HA & HB).
  { intros a y b z Eks Hz Hp. unfold p in *. apply negb_true_iff in Hp. apply negb_true_iff.
    rewrite Eks in S. pose proof (weakly_sorted_head _ _ (weakly_sorted_app_r a (y :: b) S) z Hz) as H1.
    clear - Hp H1. unfold C04.Model.pair_lt in *. lia. }
  right. exists (C05.Model.insert_at (C05.Model.bisect_left p ks) kx ks). split.
  - apply forall2_insert_at; [exact F|exact Kx].
  - rewrite E. rewrite (bisect_left_partition _ p A B HA HB). rewrite insert_at_app.
    apply weakly_sorted_insert.
    + rewrite <- E. exact S.
    + intros e He. specialize (HA e He). unfold p in HA. apply negb_true_iff in HA. exact HA.
    + intros e He. specialize (HB e He). unfold p in HB. apply negb_false_iff in HB. exact HB.
Qed.

Lemma fold_insert_cds_err : forall items e, fold_left insert_cds items (Err e) = Err e.
Proof. induction items as [|x r IH]; intros e; [reflexivity|]. cbn [fold_left]. exact (IH e). Qed.

Lemma fold_insert_cds_inv : forall items acc s, cds_inv acc -> fold_left insert_cds items (Ok acc) = Ok s -> cds_inv s.
Proof.
  induction items as [|x r IH]; intros acc s I H; cbn [fold_left] in H.
  - injection H as <-. exact I.
  - destruct (insert_cds (Ok acc) x) as [acc'|e] eqn:E.
    + exact (IH acc' s (insert_cds_inv acc x acc' I E) H).
    + rewrite fold_insert_cds_err in H. discriminate.
Qed.

(* whatever CDS features arrive in whatever order - equal keys, alternative transcripts, origin-crossing genes - the list
   add_cds_feature stores is re-read (re-added in stored order) as exactly itself *)
Theorem cds_reload_fixed_point : forall file stored, cds_reload file = Ok stored -> cds_reload stored = Ok stored.
Proof.
  intros file stored H. unfold cds_reload in H.
  assert (I : cds_inv stored) by (apply (fold_insert_cds_inv file [] stored); [left; cbn [length]; lia|exact H]).
  destruct I as [L|[ks [F S]]].
  - destruct stored as [|a [|b t]]; try reflexivity. cbn [length] in L. lia.
  - exact (cds_order_kept stored ks (forall2_mapM _ _ _ _ _ F) S).
Qed.

(* ... and re-adding never raises when every location has a sort key (what reading guarantees) *)
Theorem cds_reload_total : forall file, Forall (fun l => sortable l = true) file -> exists stored, cds_reload file = Ok stored.
Proof.
  intros file H. unfold cds_reload.
  assert (G : forall items acc, Forall (fun l => sortable l = true) items -> Forall (fun l => sortable l = true) acc ->
              exists stored, fold_left insert_cds items (Ok acc) = Ok stored).
  { induction items as [|x r IH]; intros acc Hi Ha; cbn [fold_left]; [eexists; reflexivity|].
    inversion Hi as [|? ? Hx Hr]; subst.
    assert (M : exists ks, mapM feature_key acc = Ok ks).
    { clear - Ha. induction Ha as [|y t Hy _ IHt]; [eexists; reflexivity|].
      destruct (sortable_cmp_key 1 y Hy) as [k K]. destruct IHt as [ks Ks].
      exists (k :: ks). cbn [mapM]. unfold feature_key in *. rewrite K, Ks. reflexivity. }
    destruct M as [ks Ks]. destruct (sortable_cmp_key 1 x Hx) as [kx Kx].
    assert (E : exists acc', insert_cds (Ok acc) x = Ok acc' /\ Forall (fun l => sortable l = true) acc').
    { unfold insert_cds. cbn [bind]. destruct acc as [|a0 r0] eqn:Ea.
      - eexists. split; [reflexivity|]. apply Forall_cons; [exact Hx|apply Forall_nil].
      - rewrite <- Ea in *. unfold feature_key in *. rewrite Kx. cbn [bind]. rewrite Ks. cbn [bind].
        eexists. split; [reflexivity|]. unfold C05.Model.insert_at.
        apply Forall_forall. intros y Hy. rewrite Forall_forall in Ha. apply in_app_or in Hy.
        destruct Hy as [Hy|[<-|Hy]]; [|exact Hx|].
        + apply Ha. rewrite <- (firstn_skipn (C05.Model.bisect_left (fun ke => negb (C04.Model.pair_lt kx ke)) ks) acc).
          apply in_or_app. left. exact Hy.
        + apply Ha. rewrite <- (firstn_skipn (C05.Model.bisect_left (fun ke => negb (C04.Model.pair_lt kx ke)) ks) acc).
          apply in_or_app. right. exact Hy. }
    destruct E as [acc' [E Fa]]. rewrite E. exact (IH acc' Hr Fa). }
  exact (G file [] H (Forall_nil _)).
Qed.

(* two transcripts of one gene: same start (and whatever end), different exon structure with different total length:
   their sort keys differ, one is strictly before the other *)
Theorem alt_transcripts_ordered : forall a b, bridges a = false -> bridges b = false ->
  lstart a = lstart b -> llen a <> llen b ->
  exists ka kb, feature_key a = Ok ka /\ feature_key b = Ok kb /\
                (C04.Model.pair_lt ka kb = true /\ C04.Model.pair_lt kb ka = false \/
                 C04.Model.pair_lt kb ka = true /\ C04.Model.pair_lt ka kb = false).
Proof.
  intros a b Ha Hb Hs Hl. unfold feature_key, C04.Model.cmp_key. rewrite Ha, Hb.
  eexists. eexists. split; [reflexivity|]. split; [reflexivity|].
  unfold C04.Model.pair_lt. cbn [fst snd]. rewrite Hs. clear - Hl. lia.
Qed.

(* two alternative transcripts (join(301..360,501..560,701..760) and join(301..360,701..760)): whichever arrives first,
   the shorter one is stored first and the stored list is re-read as itself *)
Definition W_t1 : loc := [mkPart 300 360 1; mkPart 500 560 1; mkPart 700 760 1].
Definition W_t2 : loc := [mkPart 300 360 1; mkPart 700 760 1].
Lemma alt_transcripts_witness :
  cds_reload [W_t1; W_t2] = Ok [W_t2; W_t1] /\ cds_reload [W_t2; W_t1] = Ok [W_t2; W_t1] /\
  lstart W_t1 = lstart W_t2 /\ lend W_t1 = lend W_t2.
Proof. repeat split; reflexivity. Qed.

(* equal keys (same start, same total length): the later arrival is stored after the earlier one (bisect_right), so
   either stored order is re-read as itself (the witness of the repaired finding equal_key_genes_order, where the
   stored order flipped on every reload) *)
Lemma cds_equal_keys_repaired :
  exists a b, feature_key a = feature_key b /\ cds_reload [a; b] = Ok [a; b] /\ cds_reload [b; a] = Ok [b; a] /\ a <> b.
Proof.
  exists [mkPart 10 40 1], [mkPart 10 40 (-1)]. repeat split; try reflexivity. discriminate.
Qed.

(* ================= optional qualifiers ================= *)
(* written iff the attribute is not None, read iff the key is present: every value comes back, whatever its
   truthiness - provided the text form of the value reads back as the value *)
Lemma optq_roundtrip : forall (A : Type) (fmt : A -> str) (parse : str -> res A),
  (forall x, parse (fmt x) = Ok x) -> forall v : option A, optq_read parse (optq_write fmt v) = Ok v.
Proof.
  intros A fmt parse Hinv v. destruct v as [x|]; simpl; [rewrite Hinv|]; reflexivity.
Qed.

Lemma optq_int_roundtrip : forall v : option Z, optq_read parse_int (optq_write str_of_int v) = Ok v.
Proof. apply optq_roundtrip. exact parse_int_str_of_int. Qed.

Lemma codon_parse_fmt : forall v, codon_parse (codon_fmt v) = Ok v.
Proof.
  intro v. unfold codon_parse, codon_fmt. rewrite parse_int_str_of_int. simpl. f_equal. lia.
Qed.
Lemma optq_codon_roundtrip : forall v : option Z, optq_read codon_parse (optq_write codon_fmt v) = Ok v.
Proof. apply optq_roundtrip. exact codon_parse_fmt. Qed.

(* the decidable form used at run time is sound: when it accepts what an implementation wrote, reading that gives the
   attribute back *)
Lemma optq_spec_sound : forall (A : Type) (eqb : A -> A -> bool) (parse : str -> res A),
  (forall x y, eqb x y = true -> x = y) ->
  forall v q, optq_spec_ok eqb parse v q = true -> optq_read parse q = Ok v.
Proof.
  intros A eqb parse Heq v q H. unfold optq_spec_ok in H.
  destruct (optq_read parse q) as [[x|]|k]; destruct v as [y|]; try discriminate; try reflexivity.
  apply Heq in H. subst. reflexivity.
Qed.
Lemma optq_spec_complete : forall (A : Type) (eqb : A -> A -> bool) (fmt : A -> str) (parse : str -> res A),
  (forall x, eqb x x = true) -> (forall x, parse (fmt x) = Ok x) ->
  forall v, optq_spec_ok eqb parse v (optq_write fmt v) = true.
Proof.
  intros A eqb fmt parse Hr Hinv v. unfold optq_spec_ok. rewrite (optq_roundtrip A fmt parse Hinv v).
  destruct v; auto.
Qed.

(* the same writer with a truthiness test (`if self.evalue:`), as a seeded change made it: not the model of the code,
   only the subject of the refutation below *)
Definition optq_write_truthy (fmt : Z -> str) (v : option Z) : qual :=
  match v with Some x => if x =? 0 then None else Some [fmt x] | None => None end.
Lemma optq_truthy_loses_zero :
  exists v : option Z, optq_read parse_int (optq_write_truthy str_of_int v) <> Ok v /\
                       optq_read parse_int (optq_write str_of_int v) = Ok v /\
                       optq_write_truthy str_of_int v = optq_write_truthy str_of_int None.
Proof. exists (Some 0). repeat split; try reflexivity. discriminate. Qed.

(* string attributes written under a truthiness test and read with `or None`: everything but the empty string *)
Lemma truthy_roundtrip : forall v : option str, v <> Some [] -> truthy_read (truthy_write v) = Ok v.
Proof.
  intros v H. destruct v as [[|c s]|]; simpl; try reflexivity. exfalso. apply H. reflexivity.
Qed.
Lemma truthy_empty_lost :
  exists v : option str, truthy_read (truthy_write v) <> Ok v /\ truthy_read (truthy_write v) = Ok None /\
                         truthy_write v = truthy_write None.
Proof. exists (Some []). repeat split; try reflexivity. discriminate. Qed.
Lemma truthy_spec_sound : forall v q, v <> Some [] -> truthy_spec_ok v q = true -> truthy_read q = Ok v.
Proof.
  intros v q Hv H. unfold truthy_spec_ok in H.
  destruct v as [[|c s]|].
  - exfalso. apply Hv. reflexivity.
  - destruct (truthy_read q) as [[x|]|k]; try discriminate.
    apply zlist_eqb_eq in H. subst. reflexivity.
  - destruct (truthy_read q) as [[x|]|k]; try discriminate. reflexivity.
Qed.

Lemma optq_witnesses :
  optq_read parse_int (optq_write str_of_int (Some 0)) = Ok (Some 0) /\
  optq_write str_of_int (Some 0) = Some [[48]] /\
  optq_read codon_parse (optq_write codon_fmt (Some 0)) = Ok (Some 0) /\
  optq_write codon_fmt (Some 0) = Some [[49]] /\
  optq_read text_ok (optq_write id_str (Some [48; 46; 48; 48; 69; 43; 48; 48])) = Ok (Some [48; 46; 48; 48; 69; 43; 48; 48]) /\
  optq_read parse_int (optq_write str_of_int None) = Ok None.
Proof. repeat split; reflexivity. Qed.

(* ================= the comparison on the mixed list is not transitive ================= *)
(* circular record of 900 bases: the protocluster join{[775:900](+), [0:19](+)}, the sig_peptide
   join{[860:900](+), [0:40](+)} and the source feature [0:900](+) *)
Definition W_mix_A : mfeat := mkMfeat 2 [mkPart 775 900 1; mkPart 0 19 1].
Definition W_mix_g : mfeat := mkMfeat 0 [mkPart 860 900 1; mkPart 0 40 1].
Definition W_mix_S : mfeat := mkMfeat 1 [mkPart 0 900 1].
Lemma mixed_lt_not_transitive :
  exists a b c, mixed_lt a b = true /\ mixed_lt b c = true /\ mixed_lt a c = false /\ mixed_lt c a = false /\
                has_bad_triple [c; b; a] = true.
Proof. exists W_mix_A, W_mix_g, W_mix_S. repeat split; vm_compute; reflexivity. Qed.
(* without the mirrored short cut the collection is less than the source by its key: the triple is in order *)
Lemma mixed_witness_keys :
  C04.Model.cmp_key (-1) (mloc W_mix_A) = Ok (-125, -144) /\ C04.Model.cmp_key 1 (mloc W_mix_g) = Ok (-40, 80) /\
  C04.Model.cmp_key 1 (mloc W_mix_S) = Ok (0, 900) /\ contains (mloc W_mix_S) (mloc W_mix_A) = true /\
  contains (mloc W_mix_A) (mloc W_mix_S) = false.
Proof. repeat split; vm_compute; reflexivity. Qed.
(* soundness of the class test: it only answers true on a list that holds such a triple *)
Lemma has_bad_triple_sound : forall l, has_bad_triple l = true ->
  exists a b c, In a l /\ In b l /\ In c l /\ mixed_lt a b = true /\ mixed_lt b c = true /\ mixed_lt a c = false.
Proof.
  intros l H. unfold has_bad_triple in H. apply existsb_exists in H. destruct H as [a [Ha H]].
  apply existsb_exists in H. destruct H as [b [Hb H]]. apply existsb_exists in H. destruct H as [c [Hc H]].
  apply filter_In in Hb. apply filter_In in Hc. destruct Hb as [Hb _]. destruct Hc as [Hc _].
  unfold bad_triple in H. repeat (apply andb_true_iff in H; destruct H as [H ?]).
  exists a, b, c. repeat split; try assumption. apply negb_true_iff. assumption.
Qed.
